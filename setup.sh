#!/bin/sh
# Build the framework from files on disk only (offline): translator -> Coq development ->
# extracted model runner -> real binary + hook harness from /repo's working tree.
cd "$(dirname "$0")" || exit 1
export CARGO_NET_OFFLINE=true
exec python3 tools/setup.py
