//! C01: `hashfiles <md5 0|1> <plen> <file> <file> ...` over `imdl::verif::hash_scripted_files`.
//! A file is `~` (no reads: immediate end of data) or comma-separated steps, each a hex chunk
//! or `!` for a read that fails. Reply: `OK <pieces bencoded, hex> <len:md5hex|len:x,...|~>`.
use crate::util::*;

pub fn dispatch(f: &[&str]) -> Option<String> {
  Some(match f[0] {
    "hashfiles" => {
      let md5 = f[1] == "1";
      let plen: usize = f[2].parse().unwrap();
      let files = f[3..]
        .iter()
        .map(|file| {
          if *file == "~" {
            Vec::new()
          } else {
            file
              .split(',')
              .map(|s| if s == "!" { None } else { Some(unhex(s)) })
              .collect()
          }
        })
        .collect();
      match imdl::verif::hash_scripted_files(md5, plen, files) {
        Ok((pieces, infos)) => format!(
          "OK {} {}",
          hex(&pieces),
          if infos.is_empty() {
            "~".into()
          } else {
            infos
              .iter()
              .map(|(len, md5)| format!("{}:{}", len, md5.clone().unwrap_or_else(|| "x".into())))
              .collect::<Vec<_>>()
              .join(",")
          }
        ),
        Err(e) => err(e),
      }
    }
    _ => return None,
  })
}
