//! C17: the url crate's host parser as `HostPort` calls it (hook `host_parse`).
//! `hostparse <bytes>` -> `OK <kind d|4|6> <address, decimal> <std text> <Display text>` | `ERR <msg>`
use crate::util::*;

pub fn dispatch(f: &[&str]) -> Option<String> {
  Some(match f[0] {
    "hostparse" => match imdl::verif::host_parse(&unhex(f[1])) {
      Ok((kind, address, plain, shown)) => format!(
        "OK {} {} {} {}",
        kind,
        address,
        hex(plain.as_bytes()),
        hex(shown.as_bytes())
      ),
      Err(e) => err(e),
    },
    _ => return None,
  })
}
