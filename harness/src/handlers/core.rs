//! Handlers for the hooks of the first hooks commit.
use crate::util::*;

pub fn dispatch(f: &[&str]) -> Option<String> {
  Some(match f[0] {
    "hash" => {
      let md5 = f[1] == "1";
      let plen: usize = f[2].parse().unwrap();
      let reads = f[3..].iter().map(|h| unhex(h)).collect();
      match imdl::verif::hash_scripted(md5, plen, reads) {
        Ok((pieces, len, md5)) => format!(
          "OK {} {} {}",
          hex(&pieces),
          len,
          md5.unwrap_or_else(|| "~".into())
        ),
        Err(e) => err(e),
      }
    }
    "pick" => format!("OK {}", imdl::verif::pick_piece_length(f[1].parse().unwrap())),
    "bparse" => match imdl::verif::bytes_parse(&text(f[1])) {
      Ok(n) => format!("OK {n}"),
      Err(e) => err(e),
    },
    "bdisp" => format!(
      "OK {}",
      hex(imdl::verif::bytes_display(f[1].parse().unwrap()).as_bytes())
    ),
    "hpparse" => match imdl::verif::hostport_parse(&text(f[1])) {
      Ok(s) => format!("OK {}", hex(s.as_bytes())),
      Err(e) => err(e),
    },
    "hpben" => match imdl::verif::hostport_to_bencode(&text(f[1])) {
      Ok(b) => format!("OK {}", hex(&b)),
      Err(e) => err(e),
    },
    "hpunben" => match imdl::verif::hostport_from_bencode(&unhex(f[1])) {
      Ok(s) => format!("OK {}", hex(s.as_bytes())),
      Err(e) => err(e),
    },
    "mprint" => {
      let name = if f[2] == "~" { None } else { Some(text(f[2])) };
      let indices = if f[5] == "~" {
        Vec::new()
      } else {
        f[5].split(',').map(|x| x.parse().unwrap()).collect()
      };
      match imdl::verif::magnet_print(arr20(f[1]), name, list(f[3]), list(f[4]), indices) {
        Ok(s) => format!("OK {}", hex(s.as_bytes())),
        Err(e) => err(e),
      }
    }
    "mparse" => match imdl::verif::magnet_parse(&text(f[1])) {
      Ok((ih, name, trackers, peers)) => format!(
        "OK {} {} {} {}",
        ih,
        name.map_or_else(|| "~".into(), |n| hex(n.as_bytes())),
        hexlist(&trackers),
        hexlist(&peers)
      ),
      Err(e) => err(e),
    },
    "sortcmp" => {
      let specs = list(f[1]);
      match imdl::verif::sort_compare(
        &specs,
        (list(f[2]), f[3].parse().unwrap()),
        (list(f[4]), f[5].parse().unwrap()),
      ) {
        Ok(o) => format!("OK {o}"),
        Err(e) => err(e),
      }
    }
    "cli" => {
      let (status, out, errb) = imdl::verif::run_cli(
        text(f[1]).into(),
        list(f[2]),
        unhex(f[3]),
        f[4] == "1",
      );
      format!(
        "OK {} {} {}",
        status.map_or_else(|| "PANIC".into(), |s| s.to_string()),
        hex(&out),
        hex(&errb)
      )
    }
    "globf" => match imdl::verif::glob_filter(&list(f[1]), &text(f[2])) {
      Ok(b) => format!("OK {}", u8::from(b)),
      Err(e) => err(e),
    },
    "trackers" => match imdl::verif::metainfo_trackers(&unhex(f[1])) {
      Ok(t) => format!("OK {}", hexlist(&t)),
      Err(e) => err(e),
    },
    "infohash" => match imdl::verif::infohash_of(&unhex(f[1])) {
      Ok(h) => format!("OK {h}"),
      Err(e) => err(e),
    },
    "peer" => match imdl::verif::peer_fetch(&text(f[1]).parse().unwrap(), arr20(f[2])) {
      Ok(b) => format!("OK {}", hex(&b)),
      Err(e) => err(e),
    },
    "announce" => match imdl::verif::tracker_announce(&text(f[1]).parse().unwrap(), arr20(f[2])) {
      Ok(peers) => format!("OK {}", hexlist(&peers)),
      Err(e) => err(e),
    },
    _ => return None,
  })
}

