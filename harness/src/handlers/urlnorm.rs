//! C05 / X10: the url crate's normal form as imdl obtains it (hook `url_norm`).
//! `urlnorm <bytes>` -> `OK <normal form, hex>` | `ERR <msg>`
use crate::util::*;

pub fn dispatch(f: &[&str]) -> Option<String> {
  Some(match f[0] {
    "urlnorm" => match imdl::verif::url_norm(&unhex(f[1])) {
      Ok(text) => format!("OK {}", hex(text.as_bytes())),
      Err(e) => err(e),
    },
    _ => return None,
  })
}
