//! Field encoding helpers shared by all handlers (see main.rs for the protocol).
#![allow(dead_code)]
pub fn unhex(s: &str) -> Vec<u8> {
  if s == "-" || s == "~" {
    return Vec::new();
  }
  (0..s.len() / 2)
    .map(|i| u8::from_str_radix(&s[2 * i..2 * i + 2], 16).expect("bad hex"))
    .collect()
}

pub fn hex(b: &[u8]) -> String {
  if b.is_empty() {
    return "-".into();
  }
  b.iter().map(|x| format!("{x:02x}")).collect()
}

pub fn text(s: &str) -> String {
  String::from_utf8(unhex(s)).expect("harness text fields are UTF-8")
}

pub fn list(s: &str) -> Vec<String> {
  if s == "~" {
    return Vec::new();
  }
  s.split(',').map(text).collect()
}

pub fn hexlist(items: &[String]) -> String {
  if items.is_empty() {
    return "~".into();
  }
  items
    .iter()
    .map(|s| hex(s.as_bytes()))
    .collect::<Vec<_>>()
    .join(",")
}

pub fn arr20(s: &str) -> [u8; 20] {
  let v = unhex(s);
  let mut a = [0u8; 20];
  a.copy_from_slice(&v);
  a
}

pub fn err(msg: String) -> String {
  format!("ERR {}", hex(msg.as_bytes()))
}

