//! Line-protocol driver for the `imdl::verif` hooks (built with `--cfg imdl_verif`).
//!
//! One request per stdin line, one reply per stdout line. Fields are separated by
//! single spaces. A *text/bytes* field is lowercase hex, `-` for the empty string,
//! `~` for "absent". A *list* field is comma-separated items, `~` for the empty list.
//! Replies: `OK <fields…>`, `ERR <hex message>`, `PANIC`.
mod handlers_gen;
mod util;

use std::io::{BufRead, Write};
use std::panic::{catch_unwind, AssertUnwindSafe};

fn dispatch(line: &str) -> String {
  let f: Vec<&str> = line.split(' ').collect();
  handlers_gen::dispatch_all(&f).unwrap_or_else(|| format!("BADCMD {}", f[0]))
}

fn main() {
  // keep panic messages off stderr; the reply line says PANIC
  std::panic::set_hook(Box::new(|_| {}));
  let stdin = std::io::stdin();
  let stdout = std::io::stdout();
  let mut out = std::io::BufWriter::new(stdout.lock());
  for line in stdin.lock().lines() {
    let line = line.unwrap();
    let reply = catch_unwind(AssertUnwindSafe(|| dispatch(&line))).unwrap_or_else(|_| "PANIC".into());
    writeln!(out, "{reply}").unwrap();
    out.flush().unwrap();
  }
}
