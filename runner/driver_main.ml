let dispatch (f : string list) : string =
  match f with
  | cmd :: args -> (match Hashtbl.find_opt Registry.handlers cmd with Some h -> h args | None -> "BADCMD " ^ cmd)
  | [] -> "BADLINE"

let () =
  try while true do
    let line = input_line stdin in
    let reply = try dispatch (String.split_on_char ' ' line) with
      | Stack_overflow -> "MODELFAIL stack" | e -> "MODELFAIL " ^ Printexc.to_string e in
    print_string reply; print_char '\n'
  done with End_of_file -> ()
