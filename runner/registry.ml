(* command name -> handler; filled by the driver fragments at start-up *)
let handlers : (string, string list -> string) Hashtbl.t = Hashtbl.create 64
let register name fn = Hashtbl.replace handlers name fn
