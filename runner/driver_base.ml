(* Line-protocol driver for the extracted Gallina models (runner/model.ml).
   One request per stdin line, one reply per stdout line; same field conventions as the
   Rust harness: fields separated by single spaces, bytes/text as lowercase hex with "-"
   for empty and "~" for absent, lists comma-separated with "~" for empty, numbers decimal. *)
open Model

let rec nat_of_int n = if n <= 0 then O else S (nat_of_int (n - 1))
let rec int_of_nat = function O -> 0 | S n -> 1 + int_of_nat n
let rec pos_of_int n =
  if n = 1 then XH else if n land 1 = 0 then XO (pos_of_int (n lsr 1)) else XI (pos_of_int (n lsr 1))
let n_of_int n = if n = 0 then N0 else Npos (pos_of_int n)
let rec int_of_pos = function XH -> 1 | XO p -> 2 * int_of_pos p | XI p -> 2 * int_of_pos p + 1
let int_of_n = function N0 -> 0 | Npos p -> int_of_pos p

(* arbitrary-size decimal <-> N through the extracted arithmetic *)
let ten = n_of_int 10
let n_of_dec s =
  let acc = ref N0 in
  String.iter (fun c -> acc := N.add (N.mul !acc ten) (n_of_int (Char.code c - 48))) s; !acc
let dec_of_n n =
  if n = N0 then "0" else begin
    let b = Buffer.create 24 in
    let rec go n acc = if n = N0 then acc else
      let (q, r) = N.div_eucl n ten in go q (Char.chr (48 + int_of_n r) :: acc) in
    List.iter (Buffer.add_char b) (go n []); Buffer.contents b end
let z_of_dec s =
  if String.length s > 0 && s.[0] = '-' then Z.opp (Z.of_N (n_of_dec (String.sub s 1 (String.length s - 1))))
  else Z.of_N (n_of_dec s)
let dec_of_z z = match z with
  | Z0 -> "0" | Zpos p -> dec_of_n (Npos p) | Zneg p -> "-" ^ dec_of_n (Npos p)

let bytes_of_hex s =
  if s = "-" || s = "~" then [] else
  List.init (String.length s / 2) (fun i -> n_of_int (int_of_string ("0x" ^ String.sub s (2 * i) 2)))
let hex_of_bytes l =
  if l = [] then "-" else String.concat "" (List.map (fun b -> Printf.sprintf "%02x" (int_of_n b)) l)
let list_field f s = if s = "~" then [] else List.map f (String.split_on_char ',' s)
let hexlist l = if l = [] then "~" else String.concat "," (List.map hex_of_bytes l)


(* handlers register themselves here: command name -> fields (without the command) -> reply *)
let handlers : (string, string list -> string) Hashtbl.t = Hashtbl.create 64
let register name fn = Hashtbl.replace handlers name fn
