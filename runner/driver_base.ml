(* Line-protocol driver for the extracted Gallina models (runner/gen/m_<name>.ml); this text is prepended, after `open M_<name>`, to every driver fragment.
   One request per stdin line, one reply per stdout line; same field conventions as the
   Rust harness: fields separated by single spaces, bytes/text as lowercase hex with "-"
   for empty and "~" for absent, lists comma-separated with "~" for empty, numbers decimal. *)

let rec nat_of_int n = if n <= 0 then O else S (nat_of_int (n - 1))
let rec int_of_nat = function O -> 0 | S n -> 1 + int_of_nat n
let rec pos_of_int n =
  if n = 1 then XH else if n land 1 = 0 then XO (pos_of_int (n lsr 1)) else XI (pos_of_int (n lsr 1))
let n_of_int n = if n = 0 then N0 else Npos (pos_of_int n)
let rec int_of_pos = function XH -> 1 | XO p -> 2 * int_of_pos p | XI p -> 2 * int_of_pos p + 1
let int_of_n = function N0 -> 0 | Npos p -> int_of_pos p

(* arbitrary-size decimal <-> N through the extracted arithmetic *)
let ten = n_of_int 10
let n_of_dec s =
  let acc = ref N0 in
  Stdlib.String.iter (fun c -> acc := N.add (N.mul !acc ten) (n_of_int (Stdlib.Char.code c - 48))) s; !acc
let dec_of_n n =
  if n = N0 then "0" else begin
    let b = Stdlib.Buffer.create 24 in
    let rec go n acc = if n = N0 then acc else
      let (q, r) = N.div_eucl n ten in go q (Stdlib.Char.chr (48 + int_of_n r) :: acc) in
    Stdlib.List.iter (Stdlib.Buffer.add_char b) (go n []); Stdlib.Buffer.contents b end
let z_of_dec s =
  if Stdlib.String.length s > 0 && s.[0] = '-' then Z.opp (Z.of_N (n_of_dec (Stdlib.String.sub s 1 (Stdlib.String.length s - 1))))
  else Z.of_N (n_of_dec s)
let dec_of_z z = match z with
  | Z0 -> "0" | Zpos p -> dec_of_n (Npos p) | Zneg p -> "-" ^ dec_of_n (Npos p)

let bytes_of_hex s =
  if s = "-" || s = "~" then [] else
  Stdlib.List.init (Stdlib.String.length s / 2) (fun i -> n_of_int (int_of_string ("0x" ^ Stdlib.String.sub s (2 * i) 2)))
let hex_of_bytes l =
  if l = [] then "-" else Stdlib.String.concat "" (Stdlib.List.map (fun b -> Stdlib.Printf.sprintf "%02x" (int_of_n b)) l)
let list_field f s = if s = "~" then [] else Stdlib.List.map f (Stdlib.String.split_on_char ',' s)
let hexlist l = if l = [] then "~" else Stdlib.String.concat "," (Stdlib.List.map hex_of_bytes l)


(* handlers register themselves in the shared registry: command name -> fields (without the command) -> reply *)
let register = Registry.register
