(* C09: Model/CreateFs.v. Paths are hex components joined by '/', the sandbox root is "~".
   createfx <cwd> <input|~> <output|~|=> <name|~> <flags|-> <piece_length> <fs>
     flags: f force, d dry-run, F follow, u allow uneven, s allow small,
            C clap T tier P private G glob W walk N name-decode R read Z serialize I write-io O stdout X post
     fs: comma-separated  D<path>  F<path>=<hex>  L<path>=<path>
   -> OK <S|F:STAGE> <out_path|~> <delta>   delta: comma-separated <path>=<D|F<hex>|L<path>|~> *)
let c9_path s = if s = "~" || s = "" then [] else List.map bytes_of_hex (String.split_on_char '/' s)
let c9_show_path p = if p = [] then "~" else String.concat "/" (List.map hex_of_bytes p)
let c9_node_of s =
  match String.index_opt s '=' with
  | None -> (c9_path (String.sub s 1 (String.length s - 1)),
             (match s.[0] with 'D' -> NDir | _ -> failwith "node"))
  | Some i ->
    let p = c9_path (String.sub s 1 (i - 1)) and v = String.sub s (i + 1) (String.length s - i - 1) in
    (p, (match s.[0] with 'F' -> NFile (bytes_of_hex v) | 'L' -> NLink (c9_path v) | _ -> failwith "node"))
let c9_show_node = function
  | None -> "~" | Some NDir -> "D" | Some (NFile b) -> "F" ^ hex_of_bytes b | Some (NLink t) -> "L" ^ c9_show_path t
let c9_stage = function
  | EClap -> "EClap" | ETier -> "ETier" | EPrivate -> "EPrivate" | EGlob -> "EGlob" | EInput -> "EInput"
  | ESymlinkRoot -> "ESymlinkRoot" | EWalk -> "EWalk" | ENameExtract -> "ENameExtract"
  | ENameDecode -> "ENameDecode" | ENameInvalid -> "ENameInvalid" | EInternal -> "EInternal" | EZero -> "EZero" | EUneven -> "EUneven"
  | ESmall -> "ESmall" | EExists -> "EExists" | ETooLarge -> "ETooLarge" | ERead -> "ERead"
  | ESerialize -> "ESerialize" | EOpen -> "EOpen" | EWriteIO -> "EWriteIO" | EStdout -> "EStdout"
  | EPost -> "EPost"
let c9_fs s = if s = "~" then [] else List.map c9_node_of (String.split_on_char ',' s)
let () = register "createfx" (function
  | [cwd; inp; out; nm; flags; pl; fs] ->
    let has ch = String.contains flags ch in
    let opt s = if s = "~" then None else Some (bytes_of_hex s) in
    let c = { c_cwd = c9_path cwd; c_input = opt inp;
              c_output = (if out = "~" then None else if out = "=" then Some OStdout else Some (OPath (bytes_of_hex out)));
              c_name = opt nm; c_force = has 'f'; c_dry_run = has 'd'; c_follow = has 'F';
              c_piece_length = n_of_dec pl; c_allow_uneven = has 'u'; c_allow_small = has 's';
              c_torrent = [n_of_int 84];
              f_clap = has 'C'; f_tier = has 'T'; f_private = has 'P'; f_glob = has 'G'; f_walk = has 'W';
              f_name_decode = has 'N'; f_read = has 'R'; f_serialize = has 'Z'; f_write_io = has 'I';
              f_stdout = has 'O'; f_post = has 'X' } in
    let fs = c9_fs fs in
    let (fs', oc) = create_fx c fs in
    let d = fs_delta fs fs' in
    "OK " ^ (match oc with CSuccess -> "S" | CFail e -> "F:" ^ c9_stage e) ^ " " ^
    (match out_path c fs with None -> "~" | Some p -> c9_show_path p) ^ " " ^
    (if d = [] then "~" else String.concat "," (List.map (fun (p, n) -> c9_show_path p ^ "=" ^ c9_show_node n) d))
  | _ -> "BADARGS")
(* rofx <verify|show|link> <metainfo path> <content paths ;-separated or ~> <good 0|1> <fs> -> OK <S|F> <delta> *)
let () = register "rofx" (function
  | [k; m; content; good; fs] ->
    let fs = c9_fs fs in
    let k = (match k with "verify" -> RoVerify | "show" -> RoShow | _ -> RoLink) in
    let cs = if content = "~" then [] else List.map c9_path (String.split_on_char ';' content) in
    let (fs', oc) = readonly_fx k (c9_path m) cs (good = "1") fs in
    let d = fs_delta fs fs' in
    "OK " ^ (match oc with CSuccess -> "S" | CFail _ -> "F") ^ " " ^
    (if d = [] then "~" else String.concat "," (List.map (fun (p, n) -> c9_show_path p ^ "=" ^ c9_show_node n) d))
  | _ -> "BADARGS")
