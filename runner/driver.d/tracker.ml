(* C12: Model/Tracker.v. Answer lists: comma-separated, item "x" = nothing received (timeout),
   "-" = an empty datagram, otherwise the datagram in hex; "~" = empty list. *)
let tracker_answers s =
  list_field (fun it -> if it = "x" then None else Some (bytes_of_hex it)) s
let tracker_failure = function FNoAnswer -> "noanswer" | FResponse -> "response" | FPeerList -> "peerlist"
let tracker_peers l =
  if l = [] then "~" else
  String.concat "," (List.map (fun (ip, port) -> hex_of_bytes ip ^ ":" ^ dec_of_n port) l)
let tracker_result = function
  | Ok l -> "peers " ^ tracker_peers l
  | Fail e -> "fail " ^ tracker_failure e
  | Panic -> "panic -"
(* a Base/Key.v key (a list of Coq bytes) from hex text *)
let key_of_hex (h : string) : key =
  List.map (fun b -> match of_N b with Some x -> x | None -> failwith "byte") (bytes_of_hex h)
let () = register "tracker" (function
  | [t1; t2; ih; pid; port; v6; a1; a2] ->
      let r = session (n_of_dec t1) (n_of_dec t2) (bytes_of_hex ih) (bytes_of_hex pid) (n_of_dec port) (v6 = "1")
                (tracker_answers a1) (tracker_answers a2) in
      Printf.sprintf "OK %d %s %d %s %s" (int_of_nat r.r_connect_sends) (hex_of_bytes r.r_connect_dgram)
        (int_of_nat r.r_announce_sends) (hex_of_bytes r.r_announce_dgram) (tracker_result r.r_result)
  | _ -> "BADARGS")
let () = register "tpeers" (function
  | [v6; payload] -> "OK " ^ tracker_result (peers (v6 = "1") (bytes_of_hex payload))
  | _ -> "BADARGS")
let () = register "tprinted" (function
  | [l] ->
      let ps = list_field (fun it -> match String.split_on_char ':' it with
                                     | [ip; port] -> (bytes_of_hex ip, n_of_dec port) | _ -> failwith "peer") l in
      "OK " ^ tracker_peers (printed ps)
  | _ -> "BADARGS")
let () = register "tscreen" (function
  | [scheme; host; port] ->
      "OK " ^ (match screen (key_of_hex scheme) (host = "1") (port = "1") with
               | Usable -> "usable" | SkipNotUdp -> "skip-not-udp" | SkipNoHostPort -> "skip-no-host-port")
  | _ -> "BADARGS")
