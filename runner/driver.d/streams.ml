(* C18: streams <cmd-index> <quiet> <color 0=auto 1=always 2=never> <terminal> <unstable> <no_color> <term_dumb>
            <out_tty> <err_tty> <warn> <fail 0=none 1=usage 2=input 3=work>
   -> OK exit,out_esc,err_nonempty,err_widget,err_esc,<stdout class codes...>,0,<stderr class codes...> *)
let () = register "streams" (function
  | [k; q; col; t; u; nc; td; ot; et; w; f] ->
      let n = n_of_dec in
      "OK " ^ String.concat "," (List.map dec_of_n (streams_run (n k) (n q) (n col) (n t) (n u) (n nc) (n td) (n ot) (n et) (n w) (n f)))
  | _ -> "BADARGS")
