(* C11 (X16): info_norm <dictionary hex> -> OK <0 re-serialised|1 refused|2 url outside the modelled fragment> <bytes hex> <typed_normal 0/1> <modelled_keys_only 0/1> <known_class 0/1>
   the extracted InfoRoundTrip.info_norm (serde's typed round trip of Info: from_bytes::<Info> then to_bytes, what
   verify_info_dict hashes and from-link writes) and the syntactic predicates of Properties/C11.v *)
let () = register "info_norm" (function
  | [d] ->
      let b = bytes_of_hex d in
      let (code, e) = info_norm_entry b in
      let (tn, (mk, kc)) = info_class_entry b in
      let bit x = if x then "1" else "0" in
      "OK " ^ dec_of_n code ^ " " ^ hex_of_bytes e ^ " " ^ bit tn ^ " " ^ bit mk ^ " " ^ bit kc
  | _ -> "BADARGS")
