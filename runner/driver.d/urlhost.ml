(* C17 / X9: Model/UrlHost.v — the concrete model of url::Host::parse on the fragment and of the IP serialisers.
     u_hparse <text hex>  ->  UNMODELLED                      (outside the fragment: nothing is claimed)
                            | ERR                             (Host::parse returns an error)
                            | OK <d|4|6> <address> <std text hex> <Host Display hex>
   (the reply has the shape of the `hostparse` harness command, so the two are compared field by field)
     u_show4 <address>    ->  OK <std text hex>
     u_show6 <address>    ->  OK <std text hex> <url text hex> *)
let () = register "u_hparse" (function
  | [text] ->
      (match u_hparse (bytes_of_hex text) with
       | None -> "UNMODELLED"
       | Some None -> "ERR"
       | Some (Some (HDomain d)) -> Printf.sprintf "OK d 0 %s %s" (hex_of_bytes d) (hex_of_bytes d)
       | Some (Some (HIp4 a)) -> let t = hex_of_bytes (u_std4 a) in Printf.sprintf "OK 4 %s %s %s" (dec_of_n a) t t
       | Some (Some (HIp6 a)) ->
           Printf.sprintf "OK 6 %s %s %s" (dec_of_n a) (hex_of_bytes (u_std6 a))
             (hex_of_bytes (n_of_int 91 :: u_url6 a @ [n_of_int 93])))
  | _ -> "BADARGS")

let () = register "u_show4" (function
  | [a] -> "OK " ^ hex_of_bytes (u_std4 (n_of_dec a))
  | _ -> "BADARGS")

let () = register "u_show6" (function
  | [a] -> let a = n_of_dec a in "OK " ^ hex_of_bytes (u_std6 a) ^ " " ^ hex_of_bytes (u_url6 a)
  | _ -> "BADARGS")
