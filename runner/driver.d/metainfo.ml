(* C05: Metainfo.create_bytes (+ MetainfoOrder.walk_order for directory inputs).
   mi <normtab> <hosttab> <badurls> <gitsuffix> <announce> <tiers> <comment> <source> <nodes> <private>
      <update_url> <name> <piece_length> <md5> <no_created_by> <no_creation_date> <allow_small>
      <allow_uneven> <allow_private_trackerless> <now> <input> <pieces>
   normtab/hosttab : "~" or comma-separated inhex:outhex pairs - the recorded behaviour of the url crate on
                     exactly these strings (identity elsewhere); badurls: hex list of strings Url::parse refuses
   optional text   : "~" absent, "-" empty, else hex;   tiers: hex list (one raw argument each)
   nodes           : "~" or comma-separated hosthex:port
   input           : F:<namehex>:<len>:<md5hex> | S:<len>:<md5hex> | D:<namehex>:<files> | O:<namehex>:<files> (taken in the
                     order given: cases with --sort-by)
                     files = "~" or ;-separated  comp/comp/..:<len>:<md5hex>   (components hex), in any order:
                     MetainfoOrder.walk_order puts them in the walker's order
   reply           : OK <hex of the bytes written> | NONE (create refuses before writing) *)
let mi_opt s = if s = "~" then None else Some (bytes_of_hex s)
let mi_bool s = s = "1"
let mi_table s =
  if s = "~" then [] else
  List.map (fun p -> match String.split_on_char ':' p with
    | [a; b] -> (bytes_of_hex a, bytes_of_hex b) | _ -> failwith "table") (String.split_on_char ',' s)
let mi_apply tab x = match List.assoc_opt x tab with Some y -> y | None -> x
let mi_file s = match String.split_on_char ':' s with
  | [p; l; m] -> { f_path = List.map bytes_of_hex (String.split_on_char '/' p); f_length = n_of_dec l;
                   f_md5 = bytes_of_hex m }
  | _ -> failwith "file"
let mi_input s = match String.split_on_char ':' s with
  | ["F"; n; l; m] -> InFile (bytes_of_hex n, n_of_dec l, bytes_of_hex m)
  | ["S"; l; m] -> InStdin (n_of_dec l, bytes_of_hex m)
  | "D" :: n :: rest ->
      let fs = String.concat ":" rest in
      (* the entries come in the order the generator made them; the model's walker sorts them *)
      InDir (bytes_of_hex n, walk_order (if fs = "~" then [] else List.map mi_file (String.split_on_char ';' fs)))
  | "O" :: n :: rest ->
      (* entries already in the order requested with --sort-by (the sort keys are C06's model; here the order is the
         documented one computed by the check's oracle) *)
      let fs = String.concat ":" rest in
      InDir (bytes_of_hex n, (if fs = "~" then [] else List.map mi_file (String.split_on_char ';' fs)))
  | _ -> failwith "input"
let () = register "mi" (function
  | [normtab; hosttab; bad; git; announce; tiers; comment; source; nodes; priv; update_url; name; plen; md5;
     no_cb; no_cd; a_small; a_uneven; a_pt; now; input; pieces] ->
      let normtab = mi_table normtab and hosttab = mi_table hosttab in
      let bad = list_field bytes_of_hex bad in
      let o = { o_announce = mi_opt announce; o_tiers = list_field bytes_of_hex tiers;
                o_comment = mi_opt comment; o_source = mi_opt source;
                o_nodes = (if nodes = "~" then [] else List.map (fun p ->
                  match String.split_on_char ':' p with
                  | [h; port] -> (bytes_of_hex h, n_of_dec port) | _ -> failwith "node")
                  (String.split_on_char ',' nodes));
                o_private = mi_bool priv; o_update_url = mi_opt update_url; o_name = mi_opt name;
                o_piece_length = (if plen = "~" then None else Some (n_of_dec plen));
                o_md5 = mi_bool md5; o_no_created_by = mi_bool no_cb; o_no_creation_date = mi_bool no_cd;
                o_allow_small = mi_bool a_small; o_allow_uneven = mi_bool a_uneven;
                o_allow_private_trackerless = mi_bool a_pt; o_now = n_of_dec now } in
      let c = { c_input = mi_input input; c_pieces = bytes_of_hex pieces } in
      (match create_bytes (mi_apply normtab) (fun u -> not (List.mem u bad)) (mi_apply hosttab)
               (bytes_of_hex git) o c with
       | Some b -> "OK " ^ hex_of_bytes b
       | None -> "NONE")
  | _ -> "BADARGS")
