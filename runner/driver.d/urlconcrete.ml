(* X14 (C05 / C07 / C10 / C08): Model/UrlConcrete.v - the url crate's Section variables of the older models at their
   concrete instances. Every reply starts with the model's own fragment verdict: `IN` (the model claims the answer) or
   `OUT` (the text is outside the modelled fragment; the answer that follows is the instance's fixed fallback).
     c_url <text hex>    -> <IN|OUT> <IN|OUT for url_ok> <norm: OK hex | ERR> <c_norm hex> <url_ok 0|1> <is_normal_url 0|1>
     c_host <text hex>   -> <IN|OUT> <ok 0|1> <disp: OK hex | ERR> <canon hex>       (text = the host without brackets)
     c_hp <text hex>     -> <IN|OUT> <OK display hex | ERR> <fixed 0|1>
     c_node <bytes hex>  -> <IN|OUT> <0|1>                                            (the encoded node)
     c_mparse <text hex> -> <IN|OUT> <OK ih name|~ trackers peers | ERR kind | UNMODELLED>
     c_show <input hex>  -> <IN|OUT> <REJ | OK <update_url hex|~> <dht_nodes hexlist>> *)
let io b = if b then "IN" else "OUT"
let b01 b = if b then "1" else "0"
let opt_reply = function None -> "ERR" | Some v -> "OK " ^ hex_of_bytes v
let perr_name = function
  | EUrl -> "url" | EScheme -> "scheme" | ETopicMissing -> "topic-missing" | EInfohashLength -> "infohash-length"
  | EHexParse -> "hex" | ETracker -> "tracker" | EPeer -> "peer"

let () = register "c_url" (function
  | [text] ->
      let t = bytes_of_hex text in
      Printf.sprintf "%s %s %s %s %s %s" (io (url_in_fragment t)) (io (url_ok_in_fragment t)) (opt_reply (c_url_norm t))
        (hex_of_bytes (c_norm t)) (b01 (c_url_ok t)) (b01 (is_normal_url t))
  | _ -> "BADARGS")

let () = register "c_host" (function
  | [text] ->
      let t = bytes_of_hex text in
      Printf.sprintf "%s %s %s %s" (io (host_in_fragment t)) (b01 (c_host_ok t)) (opt_reply (c_host_disp t)) (hex_of_bytes (c_host_canon t))
  | _ -> "BADARGS")

let () = register "c_hp" (function
  | [text] ->
      let t = bytes_of_hex text in
      Printf.sprintf "%s %s %s" (io (hp_in_fragment t)) (opt_reply (c_hp_norm t)) (b01 (c_hp_fixed t))
  | _ -> "BADARGS")

let () = register "c_node" (function
  | [bs] -> let b = bytes_of_hex bs in Printf.sprintf "%s %s" (io (node_in_fragment b)) (b01 (c_node_ok b))
  | _ -> "BADARGS")

let () = register "c_mparse" (function
  | [text] ->
      let t = bytes_of_hex text in
      io (magnet_in_fragment t) ^ " " ^
      (match c_own_parse t with
       | Parsed (ih, name, trs, prs) ->
           Printf.sprintf "OK %s %s %s %s" (hex_of_bytes ih)
             (match name with None -> "~" | Some n -> hex_of_bytes n) (hexlist trs) (hexlist prs)
       | Rejected e -> "ERR " ^ perr_name e
       | Unmodelled -> "UNMODELLED")
  | _ -> "BADARGS")

let () = register "c_show" (function
  | [input] ->
      let d = bytes_of_hex input in
      io (input_in_fragment d) ^ " " ^
      (match c_show_fields d with
       | None -> "REJ"
       | Some (upd, nodes) -> Printf.sprintf "OK %s %s" (match upd with None -> "~" | Some u -> hex_of_bytes u) (hexlist nodes))
  | _ -> "BADARGS")
