(* C11: peer_assemble <target hex> <stream hex> -> OK <0 got|1 gaveup|2 crashed|3 pending> <assembled buffer hex> <id:piece,...>
   the extracted Peer.assemble: BitTorrent handshake check, frame reader, session machine; the result is the
   buffer verify_info_dict would be called on, and the ut_metadata requests the client sends *)
let () = register "peer_assemble" (function
  | [t; s] ->
      let ((code, b), sent) = peer_assemble_model (bytes_of_hex t) (bytes_of_hex s) in
      let reqs = if sent = [] then "~" else
        String.concat "," (List.map (fun (i, p) -> dec_of_n i ^ ":" ^ dec_of_n p) sent) in
      "OK " ^ dec_of_n code ^ " " ^ hex_of_bytes b ^ " " ^ reqs
  | _ -> "BADARGS")
