(* C07 / C08 (X11): the concrete calendar and size renderers.
   cal <seconds>            -> OK <hex text> | NONE          Calendar.cal (chrono 0.4.38's text, None outside its range)
   calparse <hex text>      -> OK <seconds> | NONE           Calendar.cal_parse (specification-side reader)
   calrange <seconds>       -> OK 1 | OK 0                   Calendar.chrono_accepts
   humandisp <bytes>        -> OK <hex text>                 ShowConcrete.human_display (= ByteSize.bs_display)
   c07showc <hex input> <hex infohash> <env>                 Summary.show at cal := Calendar.cal, human := human_display;
       only the url-crate renderers still come from the environment: comma-separated hexkey:hexvalue with keys
       "H<host>" and "U<url>" (entries with other keys are ignored); hosts and URLs without an entry are in normal form. *)
let cal_env s =
  if s = "~" then [] else
  Stdlib.List.map (fun kv -> match Stdlib.String.split_on_char ':' kv with
    | [k; v] -> (bytes_of_hex k, bytes_of_hex v) | _ -> failwith "calendar env") (Stdlib.String.split_on_char ',' s)
let rec cal_jv = function
  | JvNull -> "~"
  | JvStr s -> "s" ^ hex_of_bytes s
  | JvNum n -> "n" ^ dec_of_n n
  | JvBool b -> if b then "t" else "f"
  | JvArr l -> "[" ^ Stdlib.String.concat "|" (Stdlib.List.map cal_jv l) ^ "]"
let () = register "cal" (function
  | [n] -> (match calendar_cal_entry (n_of_dec n) with Some t -> "OK " ^ hex_of_bytes t | None -> "NONE")
  | _ -> "BADARGS")
let () = register "calparse" (function
  | [t] -> (match calendar_parse_entry (bytes_of_hex t) with Some n -> "OK " ^ dec_of_n n | None -> "NONE")
  | _ -> "BADARGS")
let () = register "calrange" (function
  | [n] -> if calendar_accepts_entry (n_of_dec n) then "OK 1" else "OK 0"
  | _ -> "BADARGS")
let () = register "humandisp" (function
  | [n] -> "OK " ^ hex_of_bytes (human_display (n_of_dec n))
  | _ -> "BADARGS")
let () = register "c07showc" (function
  | [inp; ih; env] ->
      let env = cal_env env in
      let host_disp h = match Stdlib.List.assoc_opt (n_of_int 72 :: h) env with Some t -> Some t | None -> Some h in
      let url_norm u = match Stdlib.List.assoc_opt (n_of_int 85 :: u) env with Some t -> Some t | None -> Some u in
      (match concrete_show_entry host_disp url_norm FromPath (bytes_of_hex inp) (bytes_of_hex ih) with
       | ShowRejected -> "REJ"
       | ShowPanicked -> "PANIC"
       | ShowPrinted (j, tab, term) ->
           "OK " ^ Stdlib.String.concat ";" (Stdlib.List.map (fun (k, v) -> hex_of_bytes k ^ "=" ^ cal_jv v) j)
           ^ " " ^ hex_of_bytes tab ^ " " ^ hex_of_bytes term)
  | _ -> "BADARGS")
