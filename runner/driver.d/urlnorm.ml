(* C05 / X10: Model/UrlNorm.v — the concrete model of Url::parse followed by to_string on the fragment.
     u_norm <text hex>  ->  UNMODELLED            (outside the fragment: nothing is claimed)
                          | ERR                   (Url::parse returns an error)
                          | OK <normal form hex>
   (the reply has the shape of the `urlnorm` harness command)
     u_isnormal <text hex>  ->  OK 1 | OK 0       (the syntactic predicate is_normal_url) *)
let () = register "u_norm" (function
  | [text] ->
      (match u_norm (bytes_of_hex text) with
       | None -> "UNMODELLED"
       | Some None -> "ERR"
       | Some (Some v) -> "OK " ^ hex_of_bytes v)
  | _ -> "BADARGS")

let () = register "u_isnormal" (function
  | [text] -> if is_normal_url (bytes_of_hex text) then "OK 1" else "OK 0"
  | _ -> "BADARGS")
