(* C17: Model/HostPort.v. The library parameters of the model are supplied per request:
     hp_parse <text> <table>      hp_unben <bytes> <table>
   <table> = "~" | entry{,entry}; entry = <host text hex>:E  (Host::parse fails)
                                        | <host text hex>:<d|4|6>:<address>:<std text hex>:<url text hex>
   (what the `host_parse` hook answered for every host text the model could ask about; for kind 6
   the url text is without its brackets). Asking about a text that is not in the table is a
   model failure, never a guess. The regex digit class is the Decimal_Number table of
   regex-syntax 0.8.4 over UTF-8.
   Replies: OK <d|4|6> <address | domain hex> <port> <display hex> <bencode hex> | ERR <kind> *)
exception Oracle_miss of string

let hp_nd_ranges = [
  (0x30,0x39); (0x660,0x669); (0x6F0,0x6F9); (0x7C0,0x7C9); (0x966,0x96F); (0x9E6,0x9EF);
  (0xA66,0xA6F); (0xAE6,0xAEF); (0xB66,0xB6F); (0xBE6,0xBEF); (0xC66,0xC6F); (0xCE6,0xCEF);
  (0xD66,0xD6F); (0xDE6,0xDEF); (0xE50,0xE59); (0xED0,0xED9); (0xF20,0xF29); (0x1040,0x1049);
  (0x1090,0x1099); (0x17E0,0x17E9); (0x1810,0x1819); (0x1946,0x194F); (0x19D0,0x19D9);
  (0x1A80,0x1A89); (0x1A90,0x1A99); (0x1B50,0x1B59); (0x1BB0,0x1BB9); (0x1C40,0x1C49);
  (0x1C50,0x1C59); (0xA620,0xA629); (0xA8D0,0xA8D9); (0xA900,0xA909); (0xA9D0,0xA9D9);
  (0xA9F0,0xA9F9); (0xAA50,0xAA59); (0xABF0,0xABF9); (0xFF10,0xFF19); (0x104A0,0x104A9);
  (0x10D30,0x10D39); (0x11066,0x1106F); (0x110F0,0x110F9); (0x11136,0x1113F); (0x111D0,0x111D9);
  (0x112F0,0x112F9); (0x11450,0x11459); (0x114D0,0x114D9); (0x11650,0x11659); (0x116C0,0x116C9);
  (0x11730,0x11739); (0x118E0,0x118E9); (0x11950,0x11959); (0x11C50,0x11C59); (0x11D50,0x11D59);
  (0x11DA0,0x11DA9); (0x11F50,0x11F59); (0x16A60,0x16A69); (0x16AC0,0x16AC9); (0x16B50,0x16B59);
  (0x1D7CE,0x1D7FF); (0x1E140,0x1E149); (0x1E2F0,0x1E2F9); (0x1E4F0,0x1E4F9); (0x1E950,0x1E959);
  (0x1FBF0,0x1FBF9) ]

let hp_all_nd (p : n list) : bool =
  let b = Array.of_list (List.map int_of_n p) in
  let len = Array.length b in
  let cont i = i < len && b.(i) land 0xC0 = 0x80 in
  let is_nd c = List.exists (fun (lo, hi) -> lo <= c && c <= hi) hp_nd_ranges in
  let rec go i =
    if i >= len then true
    else
      let c = b.(i) in
      if c < 0x80 then is_nd c && go (i + 1)
      else if c land 0xE0 = 0xC0 && cont (i + 1) then
        is_nd (((c land 0x1F) lsl 6) lor (b.(i + 1) land 0x3F)) && go (i + 2)
      else if c land 0xF0 = 0xE0 && cont (i + 1) && cont (i + 2) then
        is_nd (((c land 0x0F) lsl 12) lor ((b.(i + 1) land 0x3F) lsl 6) lor (b.(i + 2) land 0x3F)) && go (i + 3)
      else if c land 0xF8 = 0xF0 && cont (i + 1) && cont (i + 2) && cont (i + 3) then
        is_nd (((c land 0x07) lsl 18) lor ((b.(i + 1) land 0x3F) lsl 12) lor ((b.(i + 2) land 0x3F) lsl 6)
               lor (b.(i + 3) land 0x3F)) && go (i + 4)
      else false in
  len > 0 && go 0

type hp_entry = { e_text : string; e_host : hp_host option; e_std : n list; e_url : n list }

let hp_table (s : string) : hp_entry list =
  list_field (fun e ->
    match String.split_on_char ':' e with
    | [t; "E"] -> { e_text = t; e_host = None; e_std = []; e_url = [] }
    | [t; k; a; std; url] ->
        let h = (match k with
          | "d" -> HDomain (bytes_of_hex std)
          | "4" -> HIp4 (n_of_dec a)
          | "6" -> HIp6 (n_of_dec a)
          | _ -> failwith "bad table kind") in
        { e_text = t; e_host = Some h; e_std = bytes_of_hex std; e_url = bytes_of_hex url }
    | _ -> failwith "bad table entry") s

let hp_lib (tbl : hp_entry list) =
  let hparse t =
    let k = hex_of_bytes t in
    match List.find_opt (fun e -> e.e_text = k) tbl with
    | Some e -> e.e_host
    | None -> raise (Oracle_miss k) in
  let show sel want = fun a ->
    match List.find_opt (fun e -> e.e_host = Some (want a)) tbl with
    | Some e -> sel e
    | None -> raise (Oracle_miss ("address " ^ dec_of_n a)) in
  (hparse, show (fun e -> e.e_std) (fun a -> HIp4 a), show (fun e -> e.e_std) (fun a -> HIp6 a),
   show (fun e -> e.e_url) (fun a -> HIp6 a))

let hp_reply std4 std6 url6 ((h, port) as hp) =
  let k, v = (match h with
    | HDomain d -> "d", hex_of_bytes d
    | HIp4 a -> "4", dec_of_n a
    | HIp6 a -> "6", dec_of_n a) in
  Printf.sprintf "OK %s %s %s %s %s" k v (dec_of_n port) (hex_of_bytes (hp_display std4 url6 hp))
    (hex_of_bytes (hp_to_bencode std4 std6 hp))

let hp_guard f = try f () with Oracle_miss k -> "MODELFAIL oracle-miss " ^ k

let () = register "hp_parse" (function
  | [text; table] -> hp_guard (fun () ->
      let hparse, std4, std6, url6 = hp_lib (hp_table table) in
      (match hp_parse hp_all_nd hparse (bytes_of_hex text) with
       | HpOk hp -> hp_reply std4 std6 url6 hp
       | HpErr PortMissing -> "ERR PortMissing"
       | HpErr BadHost -> "ERR BadHost"
       | HpErr BadPort -> "ERR BadPort"))
  | _ -> "BADARGS")

let () = register "hp_unben" (function
  | [bytes; table] -> hp_guard (fun () ->
      let hparse, std4, std6, url6 = hp_lib (hp_table table) in
      (match hp_from_bencode hparse (bytes_of_hex bytes) with
       | Some hp -> hp_reply std4 std6 url6 hp
       | None -> "ERR Decode"))
  | _ -> "BADARGS")

let () = register "hp_split" (function
  | [text] -> (match hp_split hp_all_nd (bytes_of_hex text) with
      | Some (h, p) -> "OK " ^ hex_of_bytes h ^ " " ^ hex_of_bytes p
      | None -> "ERR NoMatch")
  | _ -> "BADARGS")
