(* C14: `lint <allow> <pl> <priv> <ann>`: allow = comma-separated letters p|s|u in command-line order
   (duplicates allowed), `~` = none; pl decimal; priv/ann = 0|1.
   Reply: OK <exit code> <lint named in the note: p|s|u, or ~> <recorded piece length or ~> <verdict> *)
let lint_of_code = function
  | "p" -> PrivateTrackerless | "s" -> SmallPieceLength | "u" -> UnevenPieceLength
  | c -> failwith ("bad lint code " ^ c)
let code_of_lint = function PrivateTrackerless -> "p" | SmallPieceLength -> "s" | UnevenPieceLength -> "u"
let () = register "lint" (function
  | [allow; pl; priv; ann] ->
      let a = list_field lint_of_code allow in
      let n = n_of_dec pl in
      let o = status a n (priv = "1") (ann = "1") in
      let v = match decide a n (priv = "1") (ann = "1") with
        | Accept v -> "accept:" ^ dec_of_n v | RejectLint l -> "lint:" ^ code_of_lint l
        | RejectZero -> "zero" | RejectTooLarge -> "too-large" in
      "OK " ^ dec_of_n o.exit_code ^ " " ^ (match o.note with Some l -> code_of_lint l | None -> "~")
      ^ " " ^ (match o.recorded with Some v -> dec_of_n v | None -> "~") ^ " " ^ v
  | _ -> "BADARGS")
