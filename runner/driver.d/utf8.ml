(* C10 / X12: Model/Utf8.v (String::from_utf8_lossy) and Model/MagnetLossy.v (imdl's magnet parser with it).
   u8lossy <bytes>        -> OK <lossy> <from_utf8_lossy> <valid 0|1> <chunks>
                             lossy            = Utf8.lossy (sequence by sequence)
                             from_utf8_lossy  = Utf8.from_utf8_lossy (String::from_utf8_lossy over the Utf8Chunks model)
                             chunks           = the iterator's items `valid:invalid` joined by `/` (hex, `-` = empty), `~` = none
   mparse_lossy <text>    -> OK <ih> <name|~> <trackers> <peers> | ERR <kind> | UNMODELLED     (the reply shape of mparse) *)
let perr_name_u8 = function
  | EUrl -> "url" | EScheme -> "scheme" | ETopicMissing -> "topic-missing" | EInfohashLength -> "infohash-length"
  | EHexParse -> "hex" | ETracker -> "tracker" | EPeer -> "peer"
let () = register "u8lossy" (function
  | [s] ->
      let b = bytes_of_hex s in
      let ch = run_chunks b in
      Printf.sprintf "OK %s %s %s %s" (hex_of_bytes (run_lossy b)) (hex_of_bytes (run_from_utf8_lossy b))
        (if run_valid b then "1" else "0")
        (if ch = [] then "~" else
           Stdlib.String.concat "/" (Stdlib.List.map (fun (v, i) -> hex_of_bytes v ^ ":" ^ hex_of_bytes i) ch))
  | _ -> "BADARGS")
let () = register "mparse_lossy" (function
  | [text] -> (match run_parse_lossy (bytes_of_hex text) with
      | Parsed (ih, name, trs, prs) ->
          Printf.sprintf "OK %s %s %s %s" (hex_of_bytes ih)
            (match name with None -> "~" | Some n -> hex_of_bytes n) (hexlist trs) (hexlist prs)
      | Rejected e -> "ERR " ^ perr_name_u8 e
      | Unmodelled -> "UNMODELLED")
  | _ -> "BADARGS")
