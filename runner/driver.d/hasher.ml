(* C01: extracted Model/Hasher.v. Digests are uninterpreted: the reply carries the blocks fed to
   SHA-1 and the bytes fed to each MD5 context; tools/props/c01.py hashes them with hashlib.
     hashfiles  <md5 0|1> <plen> <schedule> <file,file,...|~>
     hashsingle <md5 0|1> <plen> <schedule> <data>
     hashstdin  <md5 0|1> <plen> <schedule> <data>
   schedule: comma-separated decimals (0 = the read fails, k>0 = return k bytes when legal), ~ = empty
   reply: OK <S|M> <blocks hexlist> <idx:len:md5input|idx:len:x ,...|~>   |  IOERR | PANIC | NOFUEL *)
let hasher_reply (code, (multi, (blocks, infos))) =
  match int_of_nat code with
  | 0 ->
    let info (idx, (m, l)) =
      Printf.sprintf "%d:%s:%s" (int_of_nat idx) (dec_of_n l)
        (match m with None -> "x" | Some b -> hex_of_bytes b) in
    Printf.sprintf "OK %s %s %s" (if multi then "M" else "S")
      (if blocks = [] then "~" else String.concat "," (List.map hex_of_bytes blocks))
      (if infos = [] then "~" else String.concat "," (List.map info infos))
  | 1 -> "IOERR" | 2 -> "PANIC" | _ -> "NOFUEL"
let hasher_sched s = list_field (fun x -> nat_of_int (int_of_string x)) s
let () = register "hashfiles" (function [m; p; sch; files] ->
    hasher_reply (run_hash_files (m = "1") (nat_of_int (int_of_string p)) (hasher_sched sch) (list_field bytes_of_hex files))
  | _ -> "BADARGS")
let () = register "hashsingle" (function [m; p; sch; data] ->
    hasher_reply (run_hash_single (m = "1") (nat_of_int (int_of_string p)) (hasher_sched sch) (bytes_of_hex data))
  | _ -> "BADARGS")
let () = register "hashstdin" (function [m; p; sch; data] ->
    hasher_reply (run_hash_stdin (m = "1") (nat_of_int (int_of_string p)) (hasher_sched sch) (bytes_of_hex data))
  | _ -> "BADARGS")
