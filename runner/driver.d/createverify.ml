(* C02: create followed by verify, composed in the model (Model/CreateVerify.v), and the default
   locations (Model/Paths.v). The digests are left uninterpreted (identity), so the composed
   model's verdict is decided by the bytes; the torrent the real binary wrote is judged by the
   verifier model with real SHA-1 through the command vcmd (driver.d/verify.ml). *)

(* tree encoding (same as driver.d/verify.ml):  F<hex>.   |   D{<hexname>:<node>}E *)
let parse_tree (s : string) : node =
  let i = ref 0 in
  let hex_until (stop : char) : string =
    let j = String.index_from s !i stop in
    let h = String.sub s !i (j - !i) in i := j + 1; h in
  let rec node () =
    match s.[!i] with
    | 'F' -> incr i; let h = hex_until '.' in File (bytes_of_hex (if h = "" then "-" else h))
    | 'D' -> incr i;
        let ch = ref [] in
        while s.[!i] <> 'E' do
          let nm = hex_until ':' in
          let nd = node () in
          ch := (bytes_of_hex (if nm = "" then "-" else nm), nd) :: !ch
        done;
        incr i; Dir (List.rev !ch)
    | _ -> failwith "tree" in
  node ()

(* a relative path: components in hex joined by '/', "-" = the empty path *)
let path_field s = if s = "-" then [] else List.map bytes_of_hex (String.split_on_char '/' s)
let path_out p = if p = [] then "-" else String.concat "/" (List.map hex_of_bytes p)
let slash_join (p : n list list) : n list = List.concat_map (fun c -> n_of_int 47 :: c) p

let vsched seed = fun (i : nat) -> n_of_int (Hashtbl.hash (seed, int_of_nat i) land 0xFFFFFF)
(* the hasher's schedule: answers >= 1 (0 would be a read error); a mixture of short reads and
   reads that fill most of the window *)
let csched seed = fun (i : nat) ->
  let h = Hashtbl.hash (seed, int_of_nat i, "c") in
  nat_of_int (if h mod 10 < 6 then 1 + (h / 16) mod 41 else 1 + (h / 16) mod 70000)

let err_code = function Missing -> "missing" | IsDirectory -> "directory" | Surfeit -> "surfeit" | Dearth -> "dearth" | BadMd5 -> "md5"

(* c02run <md5 0|1> <p> <seed> <root> <sel|~> <tree at creation> <tree now>
   -> OK nocreate | OK noverify | OK <good> <pieces ok> <listed paths> <named path:err,...> *)
let () = register "c02run" (function
  | [md5; p; seed; root; sel; tree0; tree1] ->
      let rootb = bytes_of_hex root in
      let seed = int_of_string seed in
      (match resolve (parse_tree tree0) rootb with
       | None -> "OK nocreate"
       | Some src ->
         (match run_create (md5 = "1") (n_of_dec p) (csched seed) src (list_field path_field sel) with
          | None -> "OK nocreate"
          | Some (t, listing) ->
            (match run_report (vsched seed) (parse_tree tree1) rootb t with
             | None -> "OK noverify"
             | Some r ->
               let b x = if x then "1" else "0" in
               let listed = String.concat "," (List.map (fun (pa, _) -> path_out pa) listing) in
               let named = String.concat "," (List.map (fun (pa, e) -> path_out pa ^ ":" ^ err_code e) r.r_named) in
               Printf.sprintf "OK %s %s %s %s" (b r.r_good) (b r.r_pieces)
                 (if listed = "" then "~" else listed) (if named = "" then "~" else named))))
  | _ -> "BADARGS")

(* c02loc <cwd> <input> -> OK <name> <default torrent path> <verify's default content root> | OK ~ *)
let () = register "c02loc" (function
  | [cwd; input] ->
      (match default_locations (bytes_of_hex cwd) (bytes_of_hex input) with
       | None -> "OK ~"
       | Some (nm, (tp, root)) ->
           Printf.sprintf "OK %s %s %s" (hex_of_bytes nm) (hex_of_bytes (slash_join tp)) (hex_of_bytes (slash_join root)))
  | _ -> "BADARGS")

(* c02root <cwd> <torrent path> <name> -> OK <verify's default content root> *)
let () = register "c02root" (function
  | [cwd; tp; name] ->
      "OK " ^ hex_of_bytes (slash_join (default_root_of (bytes_of_hex cwd) (bytes_of_hex tp) (bytes_of_hex name)))
  | _ -> "BADARGS")
