(* C07: `torrent show` — Summary.show on the input bytes. The Section variables of the model (chrono's calendar
   text, Bytes Display, host display, url normal form) are instantiated by tables the check passes in the third
   field: comma-separated hexkey:hexvalue, keys "c<seconds>", "h<bytes>", "H<host>", "U<url>"; hosts and URLs without an
   entry are taken to be in normal form already. *)
let c07_bytes_of_string s = List.init (String.length s) (fun i -> n_of_int (Char.code s.[i]))
let c07_env s =
  if s = "~" then [] else
  List.map (fun kv -> match String.split_on_char ':' kv with
    | [k; v] -> (bytes_of_hex k, bytes_of_hex v) | _ -> failwith "c07 env") (String.split_on_char ',' s)
let rec c07_jv = function
  | JvNull -> "~"
  | JvStr s -> "s" ^ hex_of_bytes s
  | JvNum n -> "n" ^ dec_of_n n
  | JvBool b -> if b then "t" else "f"
  | JvArr l -> "[" ^ String.concat "|" (List.map c07_jv l) ^ "]"
let () = register "c07show" (function
  | [inp; ih; env] ->
      let env = c07_env env in
      let cal n = List.assoc_opt (c07_bytes_of_string ("c" ^ dec_of_n n)) env in
      let human n = match List.assoc_opt (c07_bytes_of_string ("h" ^ dec_of_n n)) env with
        | Some t -> t | None -> c07_bytes_of_string "?" in
      let host_disp h = match List.assoc_opt (n_of_int 72 :: h) env with Some t -> Some t | None -> Some h in
      let url_norm u = match List.assoc_opt (n_of_int 85 :: u) env with Some t -> Some t | None -> Some u in
      (match summary_show_entry cal human host_disp url_norm FromPath (bytes_of_hex inp) (bytes_of_hex ih) with
       | ShowRejected -> "REJ"
       | ShowPanicked -> "PANIC"
       | ShowPrinted (j, tab, term) ->
           "OK " ^ String.concat ";" (List.map (fun (k, v) -> hex_of_bytes k ^ "=" ^ c07_jv v) j)
           ^ " " ^ hex_of_bytes tab ^ " " ^ hex_of_bytes term)
  | _ -> "BADARGS")
