(* C08: class of a command on torrent bytes according to Model/Crash.v.
   crash <show|link|verify|dump|stats> <data> <accepted urls> <accepted encoded nodes> -> OK ok|err|panic
   utf8 <bytes> -> OK 1|0
   tree <data> <accepted urls> <accepted encoded nodes> -> OK <lines of the file tree of the terminal layout> | OK none *)
let () = register "crash" (function
  | [cmd; data; urls; nodes] ->
    let c = (match cmd with "show" -> 0 | "link" -> 1 | "verify" -> 2 | "dump" -> 3 | _ -> 4) in
    (match crash_class_of (n_of_int c) (list_field bytes_of_hex urls) (list_field bytes_of_hex nodes) (bytes_of_hex data) with
     | Ok0 -> "OK ok" | Err1 -> "OK err" | Panic101 -> "OK panic")
  | _ -> "BADARGS")
let () = register "utf8" (function [s] -> if crash_utf8_ok (bytes_of_hex s) then "OK 1" else "OK 0" | _ -> "BADARGS")
let () = register "tree" (function
  | [data; urls; nodes] ->
    (match crash_tree_rows (list_field bytes_of_hex urls) (list_field bytes_of_hex nodes) (bytes_of_hex data) with
     | Some ls -> "OK " ^ hexlist ls | None -> "OK none")
  | _ -> "BADARGS")
