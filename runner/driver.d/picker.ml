let () = register "pick" (function [n] -> "OK " ^ dec_of_n (pick (n_of_dec n)) | _ -> "BADARGS")
let () = register "round53" (function [n] -> "OK " ^ dec_of_n (round53 (n_of_dec n)) | _ -> "BADARGS")
