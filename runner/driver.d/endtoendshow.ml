(* X5: EndToEndShow.e2e_show / e2e_link - command line + content -> build -> encode -> `show` / `link` (and `create --link`).
   x5show <the 22 fields of C05's `mi` command (see metainfo.ml)> <ih> <env>
          reply: NONE | OK <bytes> REJ | OK <bytes> PANIC | OK <bytes> <json> <tab> <term>
          env  : as for `c07show` (summary.ml): "~" or comma-separated hexkey:hexvalue, keys "c<seconds>" (calendar text),
                 "h<bytes>" (Bytes' Display), "H<host>" (url::Host display), "U<url>" (Url display); a host / URL without an
                 entry is taken to be in normal form, an entry with the value "-" stands for "the url crate refuses it"
   x5link <the 22 fields> <sha> <env> <peers> <select-only> <depth|~>
          sha  : "~" or comma-separated hex(bytes):hex(digest) - SHA-1 on exactly the spans that are hashed
          reply: NONE | OK <bytes> <span|~> <link of `torrent link`|~> <link of `create --link`|~>
   x5md5  <the 22 fields> <env>      (X5b) the MD5 texts Summary.from_input carries for the created bytes
          reply: NONE | OK <number of entries> <comma-separated entries, "~" for an absent one; "~" alone when there is none> *)
let x5_opt s = if s = "~" then None else Some (bytes_of_hex s)
let x5_bool s = s = "1"
let x5_table s =
  if s = "~" then [] else
  List.map (fun p -> match String.split_on_char ':' p with
    | [a; b] -> (bytes_of_hex a, bytes_of_hex b) | _ -> failwith "table") (String.split_on_char ',' s)
let x5_apply tab x = match List.assoc_opt x tab with Some y -> y | None -> x
let x5_file s = match String.split_on_char ':' s with
  | [p; l; m] -> mk_file (List.map bytes_of_hex (String.split_on_char '/' p)) (n_of_dec l) (bytes_of_hex m)
  | _ -> failwith "file"
let x5_input s = match String.split_on_char ':' s with
  | ["F"; n; l; m] -> InFile (bytes_of_hex n, n_of_dec l, bytes_of_hex m)
  | ["S"; l; m] -> InStdin (n_of_dec l, bytes_of_hex m)
  | "D" :: n :: rest ->
      let fs = String.concat ":" rest in
      InDir (bytes_of_hex n, walk_order (if fs = "~" then [] else List.map x5_file (String.split_on_char ';' fs)))
  | "O" :: n :: rest ->
      (* entries already in the order requested with --sort-by (see metainfo.ml) *)
      let fs = String.concat ":" rest in
      InDir (bytes_of_hex n, (if fs = "~" then [] else List.map x5_file (String.split_on_char ';' fs)))
  | _ -> failwith "input"
let x5_case = function
  | [normtab; hosttab; _bad; git; announce; tiers; comment; source; nodes; priv; update_url; name; plen; md5;
     no_cb; no_cd; a_small; a_uneven; a_pt; now; input; pieces] ->
      let o = { o_announce = x5_opt announce; o_tiers = list_field bytes_of_hex tiers;
                o_comment = x5_opt comment; o_source = x5_opt source;
                o_nodes = (if nodes = "~" then [] else List.map (fun p ->
                  match String.split_on_char ':' p with
                  | [h; port] -> (bytes_of_hex h, n_of_dec port) | _ -> failwith "node")
                  (String.split_on_char ',' nodes));
                o_private = x5_bool priv; o_update_url = x5_opt update_url; o_name = x5_opt name;
                o_piece_length = (if plen = "~" then None else Some (n_of_dec plen));
                o_md5 = x5_bool md5; o_no_created_by = x5_bool no_cb; o_no_creation_date = x5_bool no_cd;
                o_allow_small = x5_bool a_small; o_allow_uneven = x5_bool a_uneven;
                o_allow_private_trackerless = x5_bool a_pt; o_now = n_of_dec now } in
      let c = { c_input = x5_input input; c_pieces = bytes_of_hex pieces } in
      (x5_apply (x5_table normtab), x5_apply (x5_table hosttab), bytes_of_hex git, o, c)
  | _ -> failwith "case"
let x5_bytes_of_string s = List.init (String.length s) (fun i -> n_of_int (Char.code s.[i]))
let x5_env s =
  if s = "~" then [] else
  List.map (fun kv -> match String.split_on_char ':' kv with
    | [k; v] -> (bytes_of_hex k, v) | _ -> failwith "env") (String.split_on_char ',' s)
let x5_lookup env key dflt = match List.assoc_opt key env with
  | Some "-" -> None
  | Some v -> Some (bytes_of_hex v)
  | None -> dflt
let rec x5_jv = function
  | JvNull -> "~"
  | JvStr s -> "s" ^ hex_of_bytes s
  | JvNum n -> "n" ^ dec_of_n n
  | JvBool b -> if b then "t" else "f"
  | JvArr l -> "[" ^ String.concat "|" (List.map x5_jv l) ^ "]"
let rec x5_split n l = if n = 0 then ([], l) else match l with
  | x :: r -> let (a, b) = x5_split (n - 1) r in (x :: a, b)
  | [] -> failwith "fields"
let x5_optout = function None -> "~" | Some b -> hex_of_bytes b
let () = register "x5show" (fun fields ->
  match x5_split 22 fields with
  | (mi, [ih; env]) ->
      let (norm, host_canon, git, o, c) = x5_case mi in
      let env = x5_env env in
      let cal n = x5_lookup env (x5_bytes_of_string ("c" ^ dec_of_n n)) None in
      let human n = match x5_lookup env (x5_bytes_of_string ("h" ^ dec_of_n n)) None with
        | Some t -> t | None -> x5_bytes_of_string "?" in
      let host_disp h = x5_lookup env (n_of_int 72 :: h) (Some h) in
      let url_norm u = x5_lookup env (n_of_int 85 :: u) (Some u) in
      (match e2e_show norm host_canon git cal human host_disp url_norm o c (bytes_of_hex ih) with
       | None -> "NONE"
       | Some (tb, ShowRejected) -> "OK " ^ hex_of_bytes tb ^ " REJ"
       | Some (tb, ShowPanicked) -> "OK " ^ hex_of_bytes tb ^ " PANIC"
       | Some (tb, ShowPrinted (j, tab, term)) ->
           "OK " ^ hex_of_bytes tb ^ " "
           ^ String.concat ";" (List.map (fun (k, v) -> hex_of_bytes k ^ "=" ^ x5_jv v) j)
           ^ " " ^ hex_of_bytes tab ^ " " ^ hex_of_bytes term)
  | _ -> "BADARGS")
let () = register "x5md5" (fun fields ->
  match x5_split 22 fields with
  | (mi, [env]) ->
      let (norm, host_canon, git, o, c) = x5_case mi in
      let env = x5_env env in
      let host_disp h = x5_lookup env (n_of_int 72 :: h) (Some h) in
      let url_norm u = x5_lookup env (n_of_int 85 :: u) (Some u) in
      (match e2e_md5s norm host_canon git host_disp url_norm o c with
       | None -> "NONE"
       | Some l -> Printf.sprintf "OK %d %s" (List.length l)
                     (if l = [] then "~" else String.concat "," (List.map x5_optout l)))
  | _ -> "BADARGS")
let () = register "x5link" (fun fields ->
  match x5_split 22 fields with
  | (mi, [sha; env; peers; sel; depth]) ->
      let (norm, host_canon, git, o, c) = x5_case mi in
      let env = x5_env env in
      let sha = x5_table sha in
      let h s = match List.assoc_opt s sha with Some d -> d | None -> [] in
      let host_disp hh = x5_lookup env (n_of_int 72 :: hh) (Some hh) in
      let url_norm u = x5_lookup env (n_of_int 85 :: u) (Some u) in
      let md = if depth = "~" then None else Some (n_of_dec depth) in
      (match e2e_link norm host_canon git h host_disp url_norm md o c (list_field bytes_of_hex peers)
               (list_field n_of_dec sel) with
       | None -> "NONE"
       | Some (tb, (span, (l1, l2))) ->
           Printf.sprintf "OK %s %s %s %s" (hex_of_bytes tb) (x5_optout span) (x5_optout l1) (x5_optout l2))
  | _ -> "BADARGS")
