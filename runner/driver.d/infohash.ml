(* C04: Infohash::from_input and the typed serialiser.
   ih <file>                 -> OK <bytes handed to SHA-1> | ERR decode|type|missing|infotype   (tree's depth limit)
   ihd <depth|~> <file>      -> same, explicit bendy depth limit (~ = none)
   serinfo <private ~|0|1> <piece length> <name> <source|~> <pieces> <update-url|~> <mode>
                             -> OK <bendy::serde::ser::to_bytes(&Info)> | ERR ser
     mode = s:<length>:<md5|~>   or   m:<file>;<file>...  with file = <length>/<md5|~>/<comp>,<comp>...
                                       (m:~ = no files; a path with no components is written ~) *)
let ih_outcome = function
  | IhDecodeError -> "ERR decode" | IhNotDict -> "ERR type" | IhInfoMissing -> "ERR missing"
  | IhInfoType -> "ERR infotype" | IhHashed s -> "OK " ^ hex_of_bytes s
let opt_hex s = if s = "~" then None else Some (bytes_of_hex s)
let ih_mode s =
  match String.split_on_char ':' s with
  | ["s"; len; md5] -> TSingle (n_of_dec len, opt_hex md5)
  | ["m"; files] ->
      let file f = match String.split_on_char '/' f with
        | [len; md5; path] -> { tf_length = n_of_dec len; tf_path = list_field bytes_of_hex path; tf_md5sum = opt_hex md5 }
        | _ -> failwith "bad file" in
      TMultiple (if files = "~" then [] else List.map file (String.split_on_char ';' files))
  | _ -> failwith "bad mode"
let ih_info = function
  | [priv; pl; name; source; pieces; upd; mode] ->
      { ti_private = (if priv = "~" then None else Some (priv = "1")); ti_piece_length = n_of_dec pl;
        ti_name = bytes_of_hex name; ti_source = opt_hex source; ti_pieces = bytes_of_hex pieces;
        ti_mode = ih_mode mode; ti_update_url = opt_hex upd }
  | _ -> failwith "bad info"
let () = register "ih" (function [h] -> ih_outcome (ih_from_input_src (bytes_of_hex h)) | _ -> "BADARGS")
let () = register "ihd" (function
  | [d; h] -> ih_outcome (ih_from_input (if d = "~" then None else Some (n_of_dec d)) (bytes_of_hex h))
  | _ -> "BADARGS")
let () = register "serinfo" (fun a -> match ser_info (ih_info a) with Some b -> "OK " ^ hex_of_bytes b | None -> "ERR ser")
