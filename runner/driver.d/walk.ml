(* C06: Model/Walk.v entry points.
   walk <hjf> <globs> <specs> <tree>
     hjf    three 0/1 digits: include_hidden include_junk follow_symlinks
     globs  ~ or comma-separated items: + or - (include / exclude) followed by the candidate
            paths the glob matches, separated by ';'; a path is hex components joined by '/'
     specs  ~ or comma-separated p+ p- s+ s-   (path/size, ascending/descending)
     tree   F<dec size> | D(<hexname>:<tree>;...) | L<tree> | B
   -> OK REFUSED | OK FAILED | OK SINGLE <size> | OK LIST <path>:<len>,...   (~ for no files)
   wsortcmp <specs> <pathA> <lenA> <pathB> <lenB> -> OK -1|0|1
   wpfilter <bits>   bits = ~ or comma-separated two-character items (+|-)(0|1): polarity, matched *)
let walk_path_of s = List.map bytes_of_hex (String.split_on_char '/' s)
let walk_path_to p = String.concat "/" (List.map hex_of_bytes p)
let walk_specs s = list_field (fun x -> match x with
  | "p+" -> (KPath, Ascending) | "p-" -> (KPath, Descending)
  | "s+" -> (KSize, Ascending) | "s-" -> (KSize, Descending)
  | _ -> failwith "spec") s
let walk_parse_tree (s : string) =
  let pos = ref 0 in
  let peek () = if !pos < String.length s then s.[!pos] else '\000' in
  let adv () = incr pos in
  let take_while f = let b = !pos in while !pos < String.length s && f s.[!pos] do adv () done; String.sub s b (!pos - b) in
  let rec tree () =
    match peek () with
    | 'F' -> adv (); WFile (n_of_dec (take_while (fun c -> c >= '0' && c <= '9')))
    | 'B' -> adv (); WBroken
    | 'L' -> adv (); WLink (tree ())
    | 'D' -> adv (); if peek () <> '(' then failwith "tree: (" else adv ();
        let es = ref [] in
        while peek () <> ')' do
          let n = take_while (fun c -> c <> ':') in
          adv ();
          let t = tree () in
          es := (bytes_of_hex n, t) :: !es;
          if peek () = ';' then adv ()
        done;
        adv (); WDir (List.rev !es)
    | _ -> failwith "tree"
  in
  let t = tree () in
  if !pos <> String.length s then failwith "tree: trailing"; t
let () = register "walk" (function
  | [flags; globs; specs; tree] ->
    let bit i = flags.[i] = '1' in
    let glob g =
      let inc = g.[0] = '+' in
      let rest = String.sub g 1 (String.length g - 1) in
      (inc, if rest = "" then [] else List.map walk_path_of (String.split_on_char ';' rest)) in
    let c = { include_hidden = bit 0; include_junk = bit 1; follow_symlinks = bit 2;
              patterns = list_field glob globs; sort_by = walk_specs specs } in
    (match walk_table c (walk_parse_tree tree) with
     | WalkRefused -> "OK REFUSED"
     | WalkFailed -> "OK FAILED"
     | WalkSingle n -> "OK SINGLE " ^ dec_of_n n
     | WalkListing l ->
       "OK LIST " ^ (if l = [] then "~" else
                     String.concat "," (List.map (fun (p, n) -> walk_path_to p ^ ":" ^ dec_of_n n) l)))
  | _ -> "BADARGS")
let () = register "wsortcmp" (function
  | [specs; pa; la; pb; lb] ->
    (match sort_compare (walk_specs specs) (walk_path_of pa, n_of_dec la) (walk_path_of pb, n_of_dec lb) with
     | Lt -> "OK -1" | Eq -> "OK 0" | Gt -> "OK 1")
  | _ -> "BADARGS")
let () = register "wpfilter" (function
  | [bits] ->
    let ps = list_field (fun x -> (x.[0] = '+', x.[1] = '1')) bits in
    "OK " ^ (if pattern_filter_bits ps then "1" else "0")
  | _ -> "BADARGS")
