(* C02, end to end (Model/EndToEnd.v): create (hasher loop) -> metainfo value (C05's build) ->
   bencode (C04's encode) -> loader (C03's load), composed in the extracted model with real
   SHA-1 / MD5 (below; OCaml's Digest is MD5), and the same loader on the bytes the real binary
   wrote. The theorem c02_created_bytes_load_back says the first always gives the creation result
   back; the run evaluates it and compares the second with it. *)
let string_of_bytes (l : n list) : string =
  let b = Buffer.create 64 in List.iter (fun x -> Buffer.add_char b (Char.chr (int_of_n x land 255))) l; Buffer.contents b
let bytes_of_string (s : string) : n list = List.init (String.length s) (fun i -> n_of_int (Char.code s.[i]))

(* SHA-1 (FIPS 180-1), the same text as in driver.d/verify.ml; compared with hashlib on every run (command e2esha1) *)
let sha1_string (msg : string) : string =
  let m32 = 0xFFFFFFFF in
  let rol x k = ((x lsl k) lor (x lsr (32 - k))) land m32 in
  let len = String.length msg in
  let padlen = let r = (len + 9) mod 64 in if r = 0 then 0 else 64 - r in
  let total = len + 9 + padlen in
  let buf = Bytes.make total '\000' in
  Bytes.blit_string msg 0 buf 0 len;
  Bytes.set buf len '\x80';
  let bits = len * 8 in
  for i = 0 to 7 do Bytes.set buf (total - 1 - i) (Char.chr ((bits lsr (8 * i)) land 255)) done;
  let h0 = ref 0x67452301 and h1 = ref 0xEFCDAB89 and h2 = ref 0x98BADCFE and h3 = ref 0x10325476 and h4 = ref 0xC3D2E1F0 in
  let w = Array.make 80 0 in
  for blk = 0 to total / 64 - 1 do
    for t = 0 to 15 do
      let o = blk * 64 + t * 4 in
      w.(t) <- (Char.code (Bytes.get buf o) lsl 24) lor (Char.code (Bytes.get buf (o + 1)) lsl 16)
               lor (Char.code (Bytes.get buf (o + 2)) lsl 8) lor Char.code (Bytes.get buf (o + 3))
    done;
    for t = 16 to 79 do w.(t) <- rol (w.(t - 3) lxor w.(t - 8) lxor w.(t - 14) lxor w.(t - 16)) 1 done;
    let a = ref !h0 and b = ref !h1 and c = ref !h2 and d = ref !h3 and e = ref !h4 in
    for t = 0 to 79 do
      let f, k =
        if t < 20 then ((!b land !c) lor ((lnot !b) land m32 land !d)), 0x5A827999
        else if t < 40 then (!b lxor !c lxor !d), 0x6ED9EBA1
        else if t < 60 then ((!b land !c) lor (!b land !d) lor (!c land !d)), 0x8F1BBCDC
        else (!b lxor !c lxor !d), 0xCA62C1D6 in
      let tmp = (rol !a 5 + f + !e + k + w.(t)) land m32 in
      e := !d; d := !c; c := rol !b 30; b := !a; a := tmp
    done;
    h0 := (!h0 + !a) land m32; h1 := (!h1 + !b) land m32; h2 := (!h2 + !c) land m32;
    h3 := (!h3 + !d) land m32; h4 := (!h4 + !e) land m32
  done;
  let out = Bytes.create 20 in
  List.iteri (fun i h -> for j = 0 to 3 do Bytes.set out (i * 4 + j) (Char.chr ((h lsr (8 * (3 - j))) land 255)) done)
    [!h0; !h1; !h2; !h3; !h4];
  Bytes.to_string out

let sha1_model (l : n list) : n list = bytes_of_string (sha1_string (string_of_bytes l))
let md5_model (l : n list) : n list = bytes_of_string (Digest.string (string_of_bytes l))

let () = register "e2esha1" (function [h] -> "OK " ^ hex_of_bytes (sha1_model (bytes_of_hex h)) | _ -> "BADARGS")
let () = register "e2emd5" (function [h] -> "OK " ^ hex_of_bytes (md5_model (bytes_of_hex h)) | _ -> "BADARGS")

(* tree encoding (same as driver.d/verify.ml):  F<hex>.   |   D{<hexname>:<node>}E *)
let parse_tree (s : string) : node =
  let i = ref 0 in
  let hex_until (stop : char) : string =
    let j = String.index_from s !i stop in
    let h = String.sub s !i (j - !i) in i := j + 1; h in
  let rec node () =
    match s.[!i] with
    | 'F' -> incr i; let h = hex_until '.' in File (bytes_of_hex (if h = "" then "-" else h))
    | 'D' -> incr i;
        let ch = ref [] in
        while s.[!i] <> 'E' do
          let nm = hex_until ':' in
          let nd = node () in
          ch := (bytes_of_hex (if nm = "" then "-" else nm), nd) :: !ch
        done;
        incr i; Dir (List.rev !ch)
    | _ -> failwith "tree" in
  node ()

let path_field s = if s = "-" then [] else List.map bytes_of_hex (String.split_on_char '/' s)
let path_out p = if p = [] then "-" else String.concat "/" (List.map hex_of_bytes p)

(* the hasher's schedule: answers >= 1 (0 would be a read error), short reads and window-filling ones *)
let csched seed = fun (i : nat) ->
  let h = Hashtbl.hash (seed, int_of_nat i, "c") in
  nat_of_int (if h mod 10 < 6 then 1 + (h / 16) mod 41 else 1 + (h / 16) mod 70000)

(* a command line drawn from the seed: every metainfo option on or off. Options that land in
   the info dictionary (private, source, update-url) only when [infoish]; the reply says so,
   because without them the info dictionary must be byte-identical to the real one. About one in
   17 seeds leaves C05's side condition opts_ok (a port beyond u16 / a clock beyond i64):
   the malformed stream, for which nothing is claimed. *)
let e2e_opts (seed : int) =
  let h (k : string) = Hashtbl.hash (seed, k) in
  let b k = h k land 1 = 1 in
  let txt = bytes_of_string in
  let infoish = h "info" mod 3 = 0 in
  let bad = h "bad" mod 17 = 0 in
  let o =
    { o_announce = (if b "a" then Some (txt "http://tracker.example/announce") else None);
      o_tiers = (if b "t" then [txt "http://a.example/a,udp://b.example:1/a"; txt "http://c.example/a"] else []);
      o_comment = (if b "c" then Some (txt "c\xc3\xa9 ment") else None);
      o_source = (if infoish && b "s" then Some (txt "SRC") else None);
      o_nodes = (if b "n" then [(txt "router.example.com", n_of_int 6881);
                                (txt "[2001:db8::1]", n_of_int (if bad then 70000 else 65535))] else []);
      o_private = infoish && b "p";
      o_update_url = (if infoish && b "u" then Some (txt "https://example.com/feed") else None);
      o_name = None; o_piece_length = None; o_md5 = false;          (* set by EndToEnd.opts_of *)
      o_no_created_by = b "ncb"; o_no_creation_date = b "ncd";
      o_allow_small = b "as"; o_allow_uneven = b "au"; o_allow_private_trackerless = b "apt";
      o_now = (if bad && b "now" then n_of_dec "9223372036854775808" else n_of_int (1700000000 + h "now" mod 100000)) } in
  let info_free = o.o_source = None && not o.o_private && o.o_update_url = None in
  (o, info_free)

(* flat torrent -> "<name> <plen> <pieces> <S|M> <files>", files = ;-separated path:len:md5|~ *)
let flat_out ((name, (plen, (pieces, (multi, files)))) : n list * (n * (n list list * (bool * (n list list * (n * n list option)) list)))) =
  let file (pa, (len, m)) =
    Printf.sprintf "%s:%s:%s" (path_out pa) (dec_of_n len) (match m with Some d -> hex_of_bytes d | None -> "~") in
  Printf.sprintf "%s %s %s %s %s" (hex_of_bytes name) (dec_of_n plen) (hexlist pieces) (if multi then "M" else "S")
    (if files = [] then "~" else String.concat ";" (List.map file files))

(* c02e2e <md5 0|1> <p> <seed> <name> <root> <sel|~> <tree at creation> <optseed> <torrent the binary wrote>
   -> OK nocreate
    | OK <side conditions hold 0|1> <load (model bytes) = the creation result 0|1>
         <load (real bytes): ~ refused | 1 = the creation result | 0 different>
         <info-free options 0|1> <model bytes> | <creation result> | <what the loader made of the real bytes or ~> *)
let () = register "c02e2e" (function
  | [md5; p; seed; name; root; sel; tree0; optseed; tb] ->
      let seed = int_of_string seed in
      (match resolve (parse_tree tree0) (bytes_of_hex root) with
       | None -> "OK nocreate"
       | Some src ->
         let (o, info_free) = e2e_opts (int_of_string optseed) in
         (match e2e_run sha1_model md5_model o (md5 = "1") (n_of_dec p) (bytes_of_hex name) (csched seed) src
                  (list_field path_field sel) with
          | None -> "OK nocreate"
          | Some (t, (ok, (mb, back))) ->
            let real = e2e_load (bytes_of_hex tb) in
            let b x = if x then "1" else "0" in
            Printf.sprintf "OK %s %s %s %s %s | %s | %s" (b ok) (b (back = Some t))
              (match real with None -> "~" | Some r -> b (r = t)) (b info_free) (hex_of_bytes mb)
              (flat_out t) (match real with None -> "~" | Some r -> flat_out r)))
  | _ -> "BADARGS")
