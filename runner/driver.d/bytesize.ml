(* C16: text fields are UTF-8 in hex; the model works on Unicode scalar values *)
let utf8_scalars (s : string) : int list =
  let b = if s = "-" || s = "~" then [||] else
    Array.init (String.length s / 2) (fun i -> int_of_string ("0x" ^ String.sub s (2 * i) 2)) in
  let n = Array.length b in
  let rec go i acc =
    if i >= n then List.rev acc else
    let c = b.(i) in
    let cont k = b.(i + k) land 0x3f in
    if c < 0x80 then go (i + 1) (c :: acc)
    else if c < 0xe0 then go (i + 2) ((((c land 0x1f) lsl 6) lor cont 1) :: acc)
    else if c < 0xf0 then go (i + 3) ((((c land 0x0f) lsl 12) lor (cont 1 lsl 6) lor cont 2) :: acc)
    else go (i + 4) ((((c land 0x07) lsl 18) lor (cont 1 lsl 12) lor (cont 2 lsl 6) lor cont 3) :: acc) in
  go 0 []
let () = register "bparse" (function
  | [t] -> (match bs_parse (List.map n_of_int (utf8_scalars t)) with
            | BsOk n -> "OK " ^ dec_of_n n | BsErrNumber -> "ERR number" | BsErrSuffix -> "ERR suffix"
            | BsPanic -> "PANIC")
  | _ -> "BADARGS")
let () = register "bdisp" (function
  | [n] -> (match bs_display (n_of_dec n) with Some t -> "OK " ^ hex_of_bytes t | None -> "PANIC")
  | _ -> "BADARGS")
