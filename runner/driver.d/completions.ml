(* C19 - Model/Completions.v (OCaml module Cpl).
   cpl <flag> <pos> <dir> <target>
     flag, pos : "~" absent, else the value as typed (hex, "-" = empty string)
     dir       : "~" absent, "-" = `--dir ""`, else the path (hex; opaque to the model)
     target    : state of the directory named by --dir: "!" missing, "~" empty,
                 else comma-separated <namehex>:<contenthex> bindings
   reply: OK <success|usage|internal|io> <stdouthex> <dir>, dir = "!" | "~" | bindings, newest first
   clap's generator is instantiated by a marker: white space, the shell's name, white space;
   so `script s` is the shell's name followed by one LF. *)
let cpl_opt s = if s = "~" then None else Some (bytes_of_hex s)
let cpl_gen s = List.map n_of_int [10; 32; 9] @ Cpl.shell_arg s @ List.map n_of_int [32; 13; 10; 10]
let cpl_target s =
  if s = "!" then None else
  Some (list_field (fun it -> match String.split_on_char ':' it with
    | [k; v] -> (bytes_of_hex k, bytes_of_hex v) | _ -> failwith "bad directory item") s)
let cpl_status = function
  | Cpl.Success -> "success" | Cpl.UsageError -> "usage" | Cpl.InternalError -> "internal" | Cpl.IoError -> "io"
let cpl_dir = function
  | None -> "!"
  | Some [] -> "~"
  | Some d -> String.concat "," (List.map (fun (k, v) -> hex_of_bytes k ^ ":" ^ hex_of_bytes v) d)
let () = register "cpl" (function
  | [f; p; d; t] ->
    let o = Cpl.run cpl_gen { Cpl.a_flag = cpl_opt f; Cpl.a_pos = cpl_opt p; Cpl.a_dir = cpl_opt d } (cpl_target t) in
    "OK " ^ cpl_status o.Cpl.o_status ^ " " ^ hex_of_bytes o.Cpl.o_stdout ^ " " ^ cpl_dir o.Cpl.o_dir
  | _ -> "BADARGS")
