(* C10: Model/Magnet.v entry points. Same field conventions as the harness commands mprint / mparse.
   mprint <ih> <name|~> <trackers> <peers> <indices>      -> OK <uri>
   mparse <text>                                          -> OK <ih> <name|~> <trackers> <peers> | ERR <kind> | UNMODELLED
   mtrackers <announce|~> <tier/tier/...|~>               -> OK <texts>       (a tier is a comma list, ~ when empty)
   mstd <0|1> <uri>                                       -> OK <k:v,k:v,...> | NOQUERY   (1 = `+` is a space) *)
let opt_field s = if s = "~" then None else Some (bytes_of_hex s)
let perr_name = function
  | EUrl -> "url" | EScheme -> "scheme" | ETopicMissing -> "topic-missing" | EInfohashLength -> "infohash-length"
  | EHexParse -> "hex" | ETracker -> "tracker" | EPeer -> "peer"
let () = register "mprint" (function
  | [ih; name; trs; prs; idx] ->
      "OK " ^ hex_of_bytes (run_print (bytes_of_hex ih) (opt_field name) (list_field bytes_of_hex trs)
                              (list_field bytes_of_hex prs) (list_field n_of_dec idx))
  | _ -> "BADARGS")
let () = register "mparse" (function
  | [text] -> (match run_parse (bytes_of_hex text) with
      | Parsed (ih, name, trs, prs) ->
          Printf.sprintf "OK %s %s %s %s" (hex_of_bytes ih)
            (match name with None -> "~" | Some n -> hex_of_bytes n) (hexlist trs) (hexlist prs)
      | Rejected e -> "ERR " ^ perr_name e
      | Unmodelled -> "UNMODELLED")
  | _ -> "BADARGS")
let () = register "mtrackers" (function
  | [announce; tiers] ->
      let tiers = if tiers = "~" then [] else List.map (list_field bytes_of_hex) (String.split_on_char '/' tiers) in
      "OK " ^ hexlist (run_trackers (opt_field announce) tiers)
  | _ -> "BADARGS")
let () = register "mstd" (function
  | [plus; uri] -> (match run_std (plus = "1") (bytes_of_hex uri) with
      | None -> "NOQUERY"
      | Some pairs -> "OK " ^ (if pairs = [] then "~" else
          String.concat "," (List.map (fun (k, v) -> hex_of_bytes k ^ ":" ^ hex_of_bytes v) pairs)))
  | _ -> "BADARGS")
