(* C02 / C06, the whole create pipeline (Model/CreateWalk.v, work package X7): the walker's own
   selection of a content tree (Walk.walk on the size-erased tree, globs as tables of matched
   candidate paths as in driver.d/walk.ml), the hasher loop, C05's metainfo assembly, C04's
   encoding and C03's loader, composed in the extracted model with real SHA-1 / MD5; then the
   verifier model on later trees. The SHA-1 text is the one of driver.d/endtoend.ml (checked
   against hashlib on every run there and here: command cwsha1). *)
let string_of_bytes (l : n list) : string =
  let b = Buffer.create 64 in List.iter (fun x -> Buffer.add_char b (Char.chr (int_of_n x land 255))) l; Buffer.contents b
let bytes_of_string (s : string) : n list = List.init (String.length s) (fun i -> n_of_int (Char.code s.[i]))

(* SHA-1 (FIPS 180-1), the same text as in driver.d/verify.ml; compared with hashlib on every run (command e2esha1) *)
let sha1_string (msg : string) : string =
  let m32 = 0xFFFFFFFF in
  let rol x k = ((x lsl k) lor (x lsr (32 - k))) land m32 in
  let len = String.length msg in
  let padlen = let r = (len + 9) mod 64 in if r = 0 then 0 else 64 - r in
  let total = len + 9 + padlen in
  let buf = Bytes.make total '\000' in
  Bytes.blit_string msg 0 buf 0 len;
  Bytes.set buf len '\x80';
  let bits = len * 8 in
  for i = 0 to 7 do Bytes.set buf (total - 1 - i) (Char.chr ((bits lsr (8 * i)) land 255)) done;
  let h0 = ref 0x67452301 and h1 = ref 0xEFCDAB89 and h2 = ref 0x98BADCFE and h3 = ref 0x10325476 and h4 = ref 0xC3D2E1F0 in
  let w = Array.make 80 0 in
  for blk = 0 to total / 64 - 1 do
    for t = 0 to 15 do
      let o = blk * 64 + t * 4 in
      w.(t) <- (Char.code (Bytes.get buf o) lsl 24) lor (Char.code (Bytes.get buf (o + 1)) lsl 16)
               lor (Char.code (Bytes.get buf (o + 2)) lsl 8) lor Char.code (Bytes.get buf (o + 3))
    done;
    for t = 16 to 79 do w.(t) <- rol (w.(t - 3) lxor w.(t - 8) lxor w.(t - 14) lxor w.(t - 16)) 1 done;
    let a = ref !h0 and b = ref !h1 and c = ref !h2 and d = ref !h3 and e = ref !h4 in
    for t = 0 to 79 do
      let f, k =
        if t < 20 then ((!b land !c) lor ((lnot !b) land m32 land !d)), 0x5A827999
        else if t < 40 then (!b lxor !c lxor !d), 0x6ED9EBA1
        else if t < 60 then ((!b land !c) lor (!b land !d) lor (!c land !d)), 0x8F1BBCDC
        else (!b lxor !c lxor !d), 0xCA62C1D6 in
      let tmp = (rol !a 5 + f + !e + k + w.(t)) land m32 in
      e := !d; d := !c; c := rol !b 30; b := !a; a := tmp
    done;
    h0 := (!h0 + !a) land m32; h1 := (!h1 + !b) land m32; h2 := (!h2 + !c) land m32;
    h3 := (!h3 + !d) land m32; h4 := (!h4 + !e) land m32
  done;
  let out = Bytes.create 20 in
  List.iteri (fun i h -> for j = 0 to 3 do Bytes.set out (i * 4 + j) (Char.chr ((h lsr (8 * (3 - j))) land 255)) done)
    [!h0; !h1; !h2; !h3; !h4];
  Bytes.to_string out

let sha1_model (l : n list) : n list = bytes_of_string (sha1_string (string_of_bytes l))
let md5_model (l : n list) : n list = bytes_of_string (Digest.string (string_of_bytes l))

(* tree encoding (same as driver.d/verify.ml):  F<hex>.   |   D{<hexname>:<node>}E *)
let parse_tree (s : string) : node =
  let i = ref 0 in
  let hex_until (stop : char) : string =
    let j = String.index_from s !i stop in
    let h = String.sub s !i (j - !i) in i := j + 1; h in
  let rec node () =
    match s.[!i] with
    | 'F' -> incr i; let h = hex_until '.' in File (bytes_of_hex (if h = "" then "-" else h))
    | 'D' -> incr i;
        let ch = ref [] in
        while s.[!i] <> 'E' do
          let nm = hex_until ':' in
          let nd = node () in
          ch := (bytes_of_hex (if nm = "" then "-" else nm), nd) :: !ch
        done;
        incr i; Dir (List.rev !ch)
    | _ -> failwith "tree" in
  node ()

let path_field s = if s = "-" then [] else List.map bytes_of_hex (String.split_on_char '/' s)
let path_out p = if p = [] then "-" else String.concat "/" (List.map hex_of_bytes p)

(* the hasher's schedule: answers >= 1 (0 would be a read error), short reads and window-filling ones *)
let csched seed = fun (i : nat) ->
  let h = Hashtbl.hash (seed, int_of_nat i, "c") in
  nat_of_int (if h mod 10 < 6 then 1 + (h / 16) mod 41 else 1 + (h / 16) mod 70000)

(* flat torrent -> "<name> <plen> <pieces> <S|M> <files>", files = ;-separated path:len:md5|~ *)
let flat_out ((name, (plen, (pieces, (multi, files)))) : n list * (n * (n list list * (bool * (n list list * (n * n list option)) list)))) =
  let file (pa, (len, m)) =
    Printf.sprintf "%s:%s:%s" (path_out pa) (dec_of_n len) (match m with Some d -> hex_of_bytes d | None -> "~") in
  Printf.sprintf "%s %s %s %s %s" (hex_of_bytes name) (dec_of_n plen) (hexlist pieces) (if multi then "M" else "S")
    (if files = [] then "~" else String.concat ";" (List.map file files))


let () = register "cwsha1" (function [h] -> "OK " ^ hex_of_bytes (sha1_model (bytes_of_hex h)) | _ -> "BADARGS")
let () = register "cwmd5" (function [h] -> "OK " ^ hex_of_bytes (md5_model (bytes_of_hex h)) | _ -> "BADARGS")

let vsched seed = fun (i : nat) -> n_of_int (Hashtbl.hash (seed, int_of_nat i) land 0xFFFFFF)

let cw_path_of s = List.map bytes_of_hex (String.split_on_char '/' s)
let cw_cfg flags globs specs =
  let bit i = flags.[i] = '1' in
  let glob g =
    let inc = g.[0] = '+' in
    let rest = String.sub g 1 (String.length g - 1) in
    (inc, if rest = "" then [] else List.map cw_path_of (String.split_on_char ';' rest)) in
  let spec = function
    | "p+" -> (KPath, Ascending) | "p-" -> (KPath, Descending)
    | "s+" -> (KSize, Ascending) | "s-" -> (KSize, Descending)
    | _ -> failwith "spec" in
  { include_hidden = bit 0; include_junk = bit 1; follow_symlinks = bit 2;
    patterns = list_field glob globs; sort_by = list_field spec specs }

(* the command line of the run: --no-created-by --no-creation-date and nothing else, so the
   written file is a function of the tree and the options that reach walker and hasher *)
let cw_opts =
  { o_announce = None; o_tiers = []; o_comment = None; o_source = None; o_nodes = []; o_private = false;
    o_update_url = None; o_name = None; o_piece_length = None; o_md5 = false;
    o_no_created_by = true; o_no_creation_date = true;
    o_allow_small = true; o_allow_uneven = true; o_allow_private_trackerless = false; o_now = N0 }

(* cwalk <hjf> <globs|~> <specs|~> <md5 0|1> <p> <seed> <name> <tree at creation> <later tree>,<later tree>,...
   -> OK nocreate
    | OK <selected paths|~> <side conditions 0|1> <load (model bytes) = creation result 0|1> <model bytes>
         <verdict on the tree at creation> <verdict on each later tree ...>     verdicts: 1 0 ~ (no verdict)
         | <creation result, flat> *)
let () = register "cwalk" (function
  | [flags; globs; specs; md5; p; seed; name; tree0; later] ->
      let c = cw_cfg flags globs specs in
      let seed = int_of_string seed in
      let nameb = bytes_of_hex name in
      let src = parse_tree tree0 in
      let md5 = md5 = "1" and p = n_of_dec p in
      (match run_create_walk sha1_model md5_model c cw_opts md5 p nameb (csched seed) src with
       | None -> "OK nocreate"
       | Some (sel, (t, (ok, (mb, back)))) ->
         let wrap n = Dir [(nameb, n)] in
         let root = n_of_int 47 :: nameb in
         let verdict tr =
           match run_walk_verify sha1_model md5_model c md5 p nameb (csched seed) (vsched seed) (wrap src) root (wrap (parse_tree tr)) with
           | Some (Some true) -> "1" | Some (Some false) -> "0" | _ -> "~" in
         let b x = if x then "1" else "0" in
         let sels = if sel = [] then "~" else String.concat "," (List.map path_out sel) in
         Printf.sprintf "OK %s %s %s %s %s %s | %s" sels (b ok) (b (back = Some t)) (hex_of_bytes mb)
           (verdict tree0) (String.concat " " (List.map verdict (if later = "~" then [] else String.split_on_char ',' later)))
           (flat_out t))
  | _ -> "BADARGS")
