(* C06 / X13: Model/Glob.v — the concrete model of globset 0.4.14 (Glob::new + compile_matcher + is_match)
   and of Walker::globs + Walker::pattern_filter over it.
     gparse <pattern hex>              -> OK <tokens> | ERR <kind>
        tokens: space-free text, one item per token separated by dots:  L<hex> = literal char, Q = question mark, S = star,
        P = recursive prefix, X = recursive suffix, M = recursive zero-or-more, C<+|-><lo>-<hi>:... = class,
        A(<branch>|<branch>...) with branches written the same way; the empty list is "~"
     gmatch <pattern hex> <paths>      -> ERR <kind> | OK <one 0/1 digit per path>     (paths: comma-separated hex list)
     gfilter <args> <path hex>         -> ERR | OK 0 | OK 1     (args: comma-separated hex list of --glob arguments;
                                          the shape of the `globf` harness command)
     walkg <hjf> <args> <specs> <tree> -> OK GLOBERR | OK REFUSED | OK FAILED | OK SINGLE <size> | OK LIST <path>:<len>,...
        Walk.walk with the concrete matcher (Glob.walk_globs); <args> are the raw --glob arguments, the other
        fields are those of the `walk` command of driver.d/walk.ml *)
let glob_err = function
  | EUnclosedClass -> "unclosed-class" | EInvalidRange -> "invalid-range"
  | EUnclosedAlternates -> "unclosed-alternates" | ENestedAlternates -> "nested-alternates"
  | EDanglingEscape -> "dangling-escape"
let glob_hex l = if l = [] then "" else hex_of_bytes l
let glob_atom = function
  | ALit c -> "L" ^ glob_hex c
  | AAny -> "Q" | AStar -> "S" | ARecPre -> "P" | ARecSuf -> "X" | ARecMid -> "M"
  | AClass (neg, rs) ->
    "C" ^ (if neg then "-" else "+") ^ String.concat ":" (List.map (fun (lo, hi) -> glob_hex lo ^ "-" ^ glob_hex hi) rs)
let glob_atoms l = String.concat "." (List.map glob_atom l)
let glob_token = function
  | TAtom a -> glob_atom a
  | TAlt brs -> "A(" ^ String.concat "|" (List.map glob_atoms brs) ^ ")"
let glob_tokens ts = if ts = [] then "~" else String.concat "." (List.map glob_token ts)
let () = register "gparse" (function
  | [pat] ->
    (match glob_parse_result (bytes_of_hex pat) with
     | None -> "FUEL"
     | Some (PErr e) -> "ERR " ^ glob_err e
     | Some (POk ts) -> "OK " ^ glob_tokens ts)
  | _ -> "BADARGS")
let () = register "gmatch" (function
  | [pat; paths] ->
    (match glob_parse_result (bytes_of_hex pat) with
     | None -> "FUEL"
     | Some (PErr e) -> "ERR " ^ glob_err e
     | Some (POk ts) ->
       "OK " ^ String.concat "" (List.map (fun p -> if glob_match ts (bytes_of_hex p) then "1" else "0")
                                   (String.split_on_char ',' paths)))
  | _ -> "BADARGS")
let () = register "gfilter" (function
  | [args; path] ->
    (match glob_filter (list_field bytes_of_hex args) (bytes_of_hex path) with
     | None -> "ERR"
     | Some true -> "OK 1"
     | Some false -> "OK 0")
  | _ -> "BADARGS")

let glob_path_of s = List.map bytes_of_hex (String.split_on_char '/' s)
let glob_path_to p = String.concat "/" (List.map hex_of_bytes p)
let glob_specs s = list_field (fun x -> match x with
  | "p+" -> (KPath, Ascending) | "p-" -> (KPath, Descending)
  | "s+" -> (KSize, Ascending) | "s-" -> (KSize, Descending)
  | _ -> failwith "spec") s
let glob_parse_tree (s : string) =
  let pos = ref 0 in
  let peek () = if !pos < String.length s then s.[!pos] else '\000' in
  let adv () = incr pos in
  let take_while f = let b = !pos in while !pos < String.length s && f s.[!pos] do adv () done; String.sub s b (!pos - b) in
  let rec tree () =
    match peek () with
    | 'F' -> adv (); WFile (n_of_dec (take_while (fun c -> c >= '0' && c <= '9')))
    | 'B' -> adv (); WBroken
    | 'L' -> adv (); WLink (tree ())
    | 'D' -> adv (); if peek () <> '(' then failwith "tree: (" else adv ();
        let es = ref [] in
        while peek () <> ')' do
          let n = take_while (fun c -> c <> ':') in
          adv ();
          let t = tree () in
          es := (bytes_of_hex n, t) :: !es;
          if peek () = ';' then adv ()
        done;
        adv (); WDir (List.rev !es)
    | _ -> failwith "tree"
  in
  let t = tree () in
  if !pos <> String.length s then failwith "tree: trailing"; t
let () = register "walkg" (function
  | [flags; args; specs; tree] ->
    let bit i = flags.[i] = '1' in
    (match glob_args (list_field bytes_of_hex args) with
     | None -> "OK GLOBERR"
     | Some ps ->
       let c = { include_hidden = bit 0; include_junk = bit 1; follow_symlinks = bit 2;
                 patterns = ps; sort_by = glob_specs specs } in
       (match walk_globs c (glob_parse_tree tree) with
        | WalkRefused -> "OK REFUSED"
        | WalkFailed -> "OK FAILED"
        | WalkSingle n -> "OK SINGLE " ^ dec_of_n n
        | WalkListing l ->
          "OK LIST " ^ (if l = [] then "~" else
                        String.concat "," (List.map (fun (p, n) -> glob_path_to p ^ ":" ^ dec_of_n n) l))))
  | _ -> "BADARGS")
