(* C03 / C13 / C02: the verifier model. SHA-1 below and OCaml's Digest (MD5) instantiate the
   model's Section variables; both are compared with Python's hashlib on every run
   (commands sha1 / md5). The read schedule is a hash of (seed, i). *)
let string_of_bytes (l : n list) : string =
  let b = Buffer.create 64 in List.iter (fun x -> Buffer.add_char b (Char.chr (int_of_n x land 255))) l; Buffer.contents b
let bytes_of_string (s : string) : n list = List.init (String.length s) (fun i -> n_of_int (Char.code s.[i]))

let sha1_string (msg : string) : string =
  let m32 = 0xFFFFFFFF in
  let rol x k = ((x lsl k) lor (x lsr (32 - k))) land m32 in
  let len = String.length msg in
  let padlen = let r = (len + 9) mod 64 in if r = 0 then 0 else 64 - r in
  let total = len + 9 + padlen in
  let buf = Bytes.make total '\000' in
  Bytes.blit_string msg 0 buf 0 len;
  Bytes.set buf len '\x80';
  let bits = len * 8 in
  for i = 0 to 7 do Bytes.set buf (total - 1 - i) (Char.chr ((bits lsr (8 * i)) land 255)) done;
  let h0 = ref 0x67452301 and h1 = ref 0xEFCDAB89 and h2 = ref 0x98BADCFE and h3 = ref 0x10325476 and h4 = ref 0xC3D2E1F0 in
  let w = Array.make 80 0 in
  for blk = 0 to total / 64 - 1 do
    for t = 0 to 15 do
      let o = blk * 64 + t * 4 in
      w.(t) <- (Char.code (Bytes.get buf o) lsl 24) lor (Char.code (Bytes.get buf (o + 1)) lsl 16)
               lor (Char.code (Bytes.get buf (o + 2)) lsl 8) lor Char.code (Bytes.get buf (o + 3))
    done;
    for t = 16 to 79 do w.(t) <- rol (w.(t - 3) lxor w.(t - 8) lxor w.(t - 14) lxor w.(t - 16)) 1 done;
    let a = ref !h0 and b = ref !h1 and c = ref !h2 and d = ref !h3 and e = ref !h4 in
    for t = 0 to 79 do
      let f, k =
        if t < 20 then ((!b land !c) lor ((lnot !b) land m32 land !d)), 0x5A827999
        else if t < 40 then (!b lxor !c lxor !d), 0x6ED9EBA1
        else if t < 60 then ((!b land !c) lor (!b land !d) lor (!c land !d)), 0x8F1BBCDC
        else (!b lxor !c lxor !d), 0xCA62C1D6 in
      let tmp = (rol !a 5 + f + !e + k + w.(t)) land m32 in
      e := !d; d := !c; c := rol !b 30; b := !a; a := tmp
    done;
    h0 := (!h0 + !a) land m32; h1 := (!h1 + !b) land m32; h2 := (!h2 + !c) land m32;
    h3 := (!h3 + !d) land m32; h4 := (!h4 + !e) land m32
  done;
  let out = Bytes.create 20 in
  List.iteri (fun i h -> for j = 0 to 3 do Bytes.set out (i * 4 + j) (Char.chr ((h lsr (8 * (3 - j))) land 255)) done)
    [!h0; !h1; !h2; !h3; !h4];
  Bytes.to_string out

let sha1_model (l : n list) : n list = bytes_of_string (sha1_string (string_of_bytes l))
let md5_model (l : n list) : n list = bytes_of_string (Digest.string (string_of_bytes l))

(* tree encoding:  F<hex>.   |   D{<hexname>:<node>}E   (hex may be empty) *)
let parse_tree (s : string) : node =
  let i = ref 0 in
  let hex_until (stop : char) : string =
    let j = String.index_from s !i stop in
    let h = String.sub s !i (j - !i) in i := j + 1; h in
  let rec node () =
    match s.[!i] with
    | 'F' -> incr i; let h = hex_until '.' in File (bytes_of_hex (if h = "" then "-" else h))
    | 'D' -> incr i;
        let ch = ref [] in
        while s.[!i] <> 'E' do
          let nm = hex_until ':' in
          let nd = node () in
          ch := (bytes_of_hex (if nm = "" then "-" else nm), nd) :: !ch
        done;
        incr i; Dir (List.rev !ch)
    | _ -> failwith "tree" in
  node ()

let opt_field s = if s = "~" then None else Some (bytes_of_hex s)
let target_field s = if s = "~" then TStdin else TPath (bytes_of_hex s)
let sched seed = fun (i : nat) -> n_of_int (Hashtbl.hash (seed, int_of_nat i) land 0xFFFFFF)

let () = register "sha1" (function [h] -> "OK " ^ hex_of_bytes (sha1_model (bytes_of_hex h)) | _ -> "BADARGS")
let () = register "md5" (function [h] -> "OK " ^ hex_of_bytes (md5_model (bytes_of_hex h)) | _ -> "BADARGS")

(* the url crate, as the typed loader consults it (Section variables host_disp / url_norm of Model/Summary.v and
   Model/Verify.v): a host / URL text is accepted when the check found it accepted by the real parser (hooks
   host_parse / magnet_print, asked per case by tools/props/vfy.py) and listed it; the displayed form does not
   matter to `verify`. Without the two lists (C13, C02: torrents that carry no hostile hosts or URLs) every
   text is accepted. *)
let accept_listed (l : n list list) = fun (s : n list) -> if List.mem s l then Some s else None
let accept_all = fun (s : n list) -> Some s
let outcome_text = function
  | Some Success -> "OK success" | Some Failed -> "OK failed" | Some Rejected -> "OK rejected"
  | None -> "OK fuel"

(* vcmd <tree> <cwd> <content|~> <base|~> <input|~> <torrent> <seed> [<accepted urls> <accepted hosts>] *)
let () = register "vcmd" (function
  | [tree; cwd; content; base; input; tb; seed] ->
      outcome_text (verify_cmd sha1_model md5_model (sched (int_of_string seed)) accept_all accept_all (parse_tree tree)
                      (bytes_of_hex cwd) (opt_field content) (opt_field base) (target_field input) (bytes_of_hex tb))
  | [tree; cwd; content; base; input; tb; seed; urls; hosts] ->
      outcome_text (verify_cmd sha1_model md5_model (sched (int_of_string seed))
                      (accept_listed (list_field bytes_of_hex hosts)) (accept_listed (list_field bytes_of_hex urls))
                      (parse_tree tree) (bytes_of_hex cwd) (opt_field content) (opt_field base) (target_field input)
                      (bytes_of_hex tb))
  | _ -> "BADARGS")

(* vroot <cwd> <content|~> <base|~> <input|~> <name> : the resolved content root *)
let () = register "vroot" (function
  | [cwd; content; base; input; name] ->
      (match env_resolve (bytes_of_hex cwd)
               (content_root (opt_field content) (opt_field base) (target_field input) (bytes_of_hex name)) with
       | Some r -> "OK " ^ hex_of_bytes r | None -> "OK ~")
  | _ -> "BADARGS")

(* vesc <root> <comps> : does the joined path leave the root lexically *)
let () = register "vesc" (function
  | [root; comps] ->
      "OK " ^ (if lex_escapes (bytes_of_hex root) (list_field bytes_of_hex comps) then "1" else "0")
  | _ -> "BADARGS")

(* vload <torrent> [<accepted urls> <accepted hosts>] : accepted by the projection / by the typed loader / extras *)
let () = register "vload" (function
  | [tb] -> (match load (bytes_of_hex tb) with Some _ -> "OK 1" | None -> "OK 0")
  | [tb; urls; hosts] ->
      let hd = accept_listed (list_field bytes_of_hex hosts) and un = accept_listed (list_field bytes_of_hex urls) in
      let b x = if x then "1" else "0" in
      "OK " ^ b (match load (bytes_of_hex tb) with Some _ -> true | None -> false)
      ^ " " ^ b (match load_typed hd un (bytes_of_hex tb) with Some _ -> true | None -> false)
      ^ " " ^ b (extras hd un (bytes_of_hex tb))
  | _ -> "BADARGS")
