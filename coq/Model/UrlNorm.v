(** C05 / C10 / C07 (X10) — a concrete model of what the metainfo / magnet / summary models call [norm]:
    `Url::parse(text)` followed by `to_string()` (url 2.5.2), for tracker-style URLs. Definitions only.

    Mirrors, function by function, url 2.5.2 src/parser.rs
      [parse_url] / [Input::new_trim_c0_control_and_space]   [un_parse], [un_trim], [un_strip_tabnl]
      [parse_scheme]                                          [un_parse_scheme], [un_scheme_loop]
      [SchemeType::from], [default_port]                      [un_special], [un_is_file], [un_default_port]
      [parse_with_scheme] / [parse_non_special]               in [un_parse] ([un_skip_slashes] = `count_matching`)
      [after_double_slash]                                    [un_after_double_slash]
      [parse_userinfo]                                        [un_ui_scan], [un_ui_write], [un_parse_userinfo]
      [parse_host_and_port] / [parse_host]                    [un_host_scan], [un_parse_host]
      [parse_port]                                            [un_port_loop], [un_parse_port]
      [parse_path_start]                                      [un_parse_path_start]
      [parse_path]                                            [un_path_loop], [un_seg_done], [un_dot2_done]
      [last_slash_can_be_removed], [shorten_path], [pop_path] [un_last_slash_can_be_removed], [un_shorten], [un_pop_path]
      [path_starts_with_windows_drive_letter] etc.            [un_path_starts_with_wdl], [un_starts_with_wdl]
      [parse_query_and_fragment], [parse_query], [parse_fragment]   [un_parse_query_and_fragment]
      the percent-encode sets                                 [un_controls] .. [un_special_query_set]
    src/host.rs [Host::parse] is X9's [u_hparse] (Model/UrlHost.v); [Host::parse_opaque] is [un_parse_opaque];
    percent-encoding 2.3.1 [utf8_percent_encode] / [percent_encode] on one ASCII byte is [un_encode].

    THE FRAGMENT. [u_norm t] has three outcomes:
      [None]            the text is outside the modelled fragment — nothing is claimed;
      [Some None]       `Url::parse` returns an error;
      [Some (Some v)]   `Url::parse(t)` succeeds and `to_string()` is [v].
    Inside the fragment are the texts [t] such that
      - every byte of [t] is ASCII (< 128);
      - after stripping leading / trailing C0-control-or-space bytes and removing every tab / LF / CR, either no
        scheme can be read (then the answer is [Some None]: "relative URL without a base"), or the scheme is
          * one of http, https, ws, wss, ftp (special, not `file`): any run of `/` and `\` after the colon is taken
            as the `//` (this is what `parse_with_scheme` does without a base URL, so `http:host` and
            `http:\\\host` are inside too), or
          * anything but these and `file` (non-special: udp, ...), followed by exactly `//`;
      - for a special scheme the host text is inside X9's fragment of `Host::parse` (bracketed, or ASCII without
        `%` and without an `xn--` label). A non-special host goes through `parse_opaque`, all of which is modelled.
    Outside: non-ASCII text, `file:` URLs, non-special URLs without `//` (`mailto:x`, `udp:/x`: anarchist and
    cannot-be-a-base URLs), special-scheme hosts that need IDNA / percent-decoding. The model RETURNS [None] there.

    Abstractions, stated:
      - `Input` skips tab / LF / CR on every `next()`; the model removes them once, up front (the formulation of the
        WHATWG standard). The one place that undoes the Input abstraction, `parse_host`, skips them explicitly to the
        same effect (`has_ignored_chars` / `replaced`), so the host text it hands to `Host::parse[_opaque]` is the text
        without them.
      - The `serialization` String with the offsets kept in `Url` (scheme_end, username_end, host_start, host_end,
        path_start, query_start, fragment_start) is represented by the pieces between those offsets ([url_parts]);
        [un_assemble] concatenates them. Every write of the parser appends to the last piece; the only removals
        (`truncate`, `pop` in `parse_path`) stay above `path_start` (`last_slash_can_be_removed` tests it,
        `pop_path` cuts after a `/` found in `serialization[path_start..]`).
      - Inside `parse_path` the path piece is kept as the REVERSED list of the bytes of `serialization[path_start..
        segment_start]` ([rb]: all operations are at its end) plus the bytes of the current segment ([seg] =
        `serialization[segment_start..]`, which the inner loop only appends to).
      - `rfind('/')` in `last_slash_can_be_removed` looks at the whole serialization; a slash found below
        `path_start` and no slash at all both make it answer false, so only the path piece is searched.
      - `pop_path` unwraps `serialization[path_start..].rfind('/')`; a non-empty path piece always starts with `/`
        ([Proofs/UrlNormProofs.v], [path_loop_inv]), so the unwrap never fails; the model cuts to the empty piece there.
      - `parse_query_and_fragment` panics (`Programming error`) when called on input that starts with neither `?`
        nor `#`; `parse_path` only stops in front of one of them. The model answers [None] there.
      - the userinfo flags `has_username` / `has_password` are the non-emptiness of the two halves written ([p_user],
        [p_pass]; every byte written is at least one byte).
      - `to_u32` overflow (URLs of 4 GB) is not modelled; no violation callback is installed (`violation_fn = None`),
        so `log_violation*` / `check_url_code_point` do nothing. `with_query_and_fragment`'s `/.` adjustment needs
        `path_start = scheme_end + 1` or `serialization[scheme_end..path_start]` being `:/.`; after `//` neither holds.
      - `query_encoding_override` is `None` (`Url::parse`), so the query bytes are the characters themselves. *)
From Coq Require Import Decimal DecimalN DecimalFacts.
From Coq Require Import NArith ZArith Bool List.
From Imdl Require Import Model.Bencode Model.HostPort Model.UrlHost.
Import ListNotations.
Local Open Scope N_scope.

(* ------------------------------------------------------------------ bytes *)

Fixpoint un_beq (a b : bytes) : bool :=
  match a, b with
  | [], [] => true
  | x :: a', y :: b' => (x =? y) && un_beq a' b'
  | _, _ => false
  end.

Definition un_ascii (t : bytes) : bool := forallb (fun b => b <? 128) t.

(** `str::ends_with(c)` *)
Definition un_ends_with (c : byte) (s : bytes) : bool :=
  match rev s with x :: _ => x =? c | [] => false end.

(** longest prefix whose bytes satisfy [p], and the rest *)
Fixpoint un_span (p : byte -> bool) (s : bytes) : bytes * bytes :=
  match s with
  | [] => ([], [])
  | c :: r => if p c then let '(a, b) := un_span p r in (c :: a, b) else ([], s)
  end.

Fixpoint un_drop_while (p : byte -> bool) (s : bytes) : bytes :=
  match s with
  | [] => []
  | c :: r => if p c then un_drop_while p r else s
  end.

(* ------------------------------------------------------------------ percent-encode sets *)

(** percent-encoding `CONTROLS`: 0x00..0x1F and 0x7F *)
Definition un_controls (b : byte) : bool := (b <=? 31) || (b =? 127).
(** FRAGMENT = CONTROLS + space, double quote, < > and backquote *)
Definition un_fragment_set (b : byte) : bool :=
  un_controls b || (b =? 32) || (b =? 34) || (b =? 60) || (b =? 62) || (b =? 96).
(** PATH = FRAGMENT + # ? { } *)
Definition un_path_set (b : byte) : bool :=
  un_fragment_set b || (b =? 35) || (b =? 63) || (b =? 123) || (b =? 125).
(** USERINFO = PATH + / : ; = @ [ \ ] ^ | *)
Definition un_userinfo_set (b : byte) : bool :=
  un_path_set b || (b =? 47) || (b =? 58) || (b =? 59) || (b =? 61) || (b =? 64) || (b =? 91) || (b =? 92) ||
  (b =? 93) || (b =? 94) || (b =? 124).
(** QUERY = CONTROLS + space, double quote, # < > ; SPECIAL_QUERY = QUERY + single quote *)
Definition un_query_set (b : byte) : bool :=
  un_controls b || (b =? 32) || (b =? 34) || (b =? 35) || (b =? 60) || (b =? 62).
Definition un_special_query_set (b : byte) : bool := un_query_set b || (b =? 39).

(** upper-case hex digit of the `ENC_TABLE` *)
Definition un_hexU (d : N) : byte := if d <? 10 then 48 + d else 55 + d.

(** `AsciiSet::should_percent_encode` and `percent_encode_byte` on one byte (a u8: the two nibbles) *)
Definition un_encode (set : byte -> bool) (b : byte) : bytes :=
  if (128 <=? b) || set b then [37; un_hexU (b / 16 mod 16); un_hexU (b mod 16)] else [b].

Definition un_encode_all (set : byte -> bool) (s : bytes) : bytes := flat_map (un_encode set) s.

(* ------------------------------------------------------------------ Input *)

Definition un_c0_or_space (b : byte) : bool := b <=? 32.
Definition un_tabnl (b : byte) : bool := (b =? 9) || (b =? 10) || (b =? 13).

(** `trim_matches(c0_control_or_space)` *)
Definition un_trim (t : bytes) : bytes :=
  rev (un_drop_while un_c0_or_space (rev (un_drop_while un_c0_or_space t))).

(** what `Input::next` never yields *)
Definition un_strip_tabnl (t : bytes) : bytes := filter (fun b => negb (un_tabnl b)) t.

(* ------------------------------------------------------------------ scheme *)

Definition un_alpha (b : byte) : bool := ((65 <=? b) && (b <=? 90)) || ((97 <=? b) && (b <=? 122)).
Definition un_scheme_char (b : byte) : bool :=
  un_alpha b || hp_is_dig b || (b =? 43) || (b =? 45) || (b =? 46).

(** the `while let Some(c) = input.next()` loop of `parse_scheme`; EOF before `:` is an error in `Context::UrlParser` *)
Fixpoint un_scheme_loop (s : bytes) : option (bytes * bytes) :=
  match s with
  | [] => None
  | c :: r =>
      if un_scheme_char c then
        match un_scheme_loop r with
        | Some (sc, rest) => Some (u_lower c :: sc, rest)
        | None => None
        end
      else if c =? 58 then Some ([], r)
      else None
  end.

Definition un_parse_scheme (s : bytes) : option (bytes * bytes) :=
  match s with
  | [] => None
  | c :: _ => if un_alpha c then un_scheme_loop s else None
  end.

Definition un_s_http : bytes := [104; 116; 116; 112].
Definition un_s_https : bytes := [104; 116; 116; 112; 115].
Definition un_s_ws : bytes := [119; 115].
Definition un_s_wss : bytes := [119; 115; 115].
Definition un_s_ftp : bytes := [102; 116; 112].
Definition un_s_file : bytes := [102; 105; 108; 101].

(** `SchemeType::from`: SpecialNotFile / File / NotSpecial *)
Definition un_special (sc : bytes) : bool :=
  un_beq sc un_s_http || un_beq sc un_s_https || un_beq sc un_s_ws || un_beq sc un_s_wss || un_beq sc un_s_ftp.
Definition un_is_file (sc : bytes) : bool := un_beq sc un_s_file.

Definition un_default_port (sc : bytes) : option N :=
  if un_beq sc un_s_http || un_beq sc un_s_ws then Some 80
  else if un_beq sc un_s_https || un_beq sc un_s_wss then Some 443
  else if un_beq sc un_s_ftp then Some 21
  else None.

Definition un_is_slash (c : byte) : bool := (c =? 47) || (c =? 92).

(** `input.count_matching(|c| matches!(c, '/' | '\\'))`: what remains *)
Definition un_skip_slashes (s : bytes) : bytes := un_drop_while un_is_slash s.

(* ------------------------------------------------------------------ the pieces of the serialization *)

Record url_parts := {
  p_scheme : bytes;          (* serialization[..scheme_end]; then `://` *)
  p_user : bytes;            (* the userinfo before username_end *)
  p_pass : bytes;            (* the password, written after `:` when not empty; `@` follows when either is non-empty *)
  p_host : bytes;            (* serialization[host_start..host_end]: Display of the Host *)
  p_port : option N;         (* Url::port: `:{}` when Some *)
  p_path : bytes;            (* serialization[path_start..query_start / fragment_start / end] *)
  p_query : option bytes;    (* after `?` *)
  p_frag : option bytes      (* after `#` *)
}.

Definition un_userinfo_text (user pass : bytes) : bytes :=
  user ++ (match pass with [] => [] | _ => 58 :: pass end) ++
  (match user, pass with [], [] => [] | _, _ => [64] end).

Definition un_port_text (p : option N) : bytes := match p with Some n => 58 :: dec n | None => [] end.
Definition un_opt_text (c : byte) (o : option bytes) : bytes := match o with Some q => c :: q | None => [] end.

(** everything before the path *)
Definition un_prefix (sc user pass host : bytes) (port : option N) : bytes :=
  sc ++ [58; 47; 47] ++ un_userinfo_text user pass ++ host ++ un_port_text port.

Definition un_assemble (p : url_parts) : bytes :=
  un_prefix (p_scheme p) (p_user p) (p_pass p) (p_host p) (p_port p) ++ p_path p ++
  un_opt_text 63 (p_query p) ++ un_opt_text 35 (p_frag p).

(* ------------------------------------------------------------------ userinfo *)

Definition un_auth_end (sp : bool) (c : byte) : bool :=
  (c =? 47) || (c =? 63) || (c =? 35) || (sp && (c =? 92)).

(** the first loop of `parse_userinfo`: `last_at` = (chars before the last `@`, input after it) *)
Fixpoint un_ui_scan (sp : bool) (s : bytes) (count : nat) (last_at : option (nat * bytes)) : option (nat * bytes) :=
  match s with
  | [] => last_at
  | c :: r =>
      if c =? 64 then un_ui_scan sp r (S count) (Some (count, r))
      else if un_auth_end sp c then last_at
      else un_ui_scan sp r (S count) last_at
  end.

(** the second loop: [count] characters; [colon] = `username_end.is_some()` *)
Fixpoint un_ui_write (s : bytes) (count : nat) (colon : bool) (user pass : bytes) : bytes * bytes :=
  match count with
  | O => (user, pass)
  | S k =>
      match s with
      | [] => (user, pass)                                   (* `input.next_utf8().unwrap()`: the count never exceeds the input *)
      | c :: r =>
          if (c =? 58) && negb colon then un_ui_write r k true user pass
          else if colon then un_ui_write r k colon user (pass ++ un_encode un_userinfo_set c)
          else un_ui_write r k colon (user ++ un_encode un_userinfo_set c) pass
      end
  end.

(** [None] = Err(EmptyHost); otherwise (user, pass, remaining) *)
Definition un_parse_userinfo (sp : bool) (input : bytes) : option (bytes * bytes * bytes) :=
  match un_ui_scan sp input O None with
  | None => Some ([], [], input)
  | Some (O, remaining) =>
      match remaining with
      | c :: _ => if un_auth_end sp c then None else Some ([], [], remaining)
      | [] => Some ([], [], remaining)
      end
  | Some (n, remaining) =>
      let '(user, pass) := un_ui_write input n false [] [] in Some (user, pass, remaining)
  end.

(* ------------------------------------------------------------------ host *)

(** the `for c in input_str.chars()` scan of `parse_host`: the host text and what follows it *)
Fixpoint un_host_scan (sp inside : bool) (s : bytes) : bytes * bytes :=
  match s with
  | [] => ([], [])
  | c :: r =>
      if ((c =? 58) && negb inside) || (sp && (c =? 92)) || (c =? 47) || (c =? 63) || (c =? 35) then ([], s)
      else
        let inside' := if c =? 91 then true else if c =? 93 then false else inside in
        let '(h, rest) := un_host_scan sp inside' r in (c :: h, rest)
  end.

(** `is_invalid_host_char` of `parse_opaque` *)
Definition un_invalid_host_char (b : byte) : bool :=
  (b =? 0) || (b =? 9) || (b =? 10) || (b =? 13) || (b =? 32) || (b =? 35) || (b =? 47) || (b =? 58) || (b =? 60) ||
  (b =? 62) || (b =? 63) || (b =? 64) || (b =? 91) || (b =? 92) || (b =? 93) || (b =? 94) || (b =? 124).

(** `Host::parse_opaque` followed by `Display`: [None] = error *)
Definition un_parse_opaque (t : bytes) : option bytes :=
  match hd_is 91 t with
  | Some r =>
      match u_strip_last 93 r with
      | Some inner => option_map (fun a => 91 :: u_url6 a ++ [93]) (u_parse6 inner)
      | None => None
      end
  | None =>
      if existsb un_invalid_host_char t then None else Some (un_encode_all un_controls t)
  end.

(** `Parser::parse_host` followed by the `write!` of the host:
    [None] = outside X9's fragment, [Some None] = error, [Some (Some (text, rest))] *)
Definition un_parse_host (sp : bool) (input : bytes) : option (option (bytes * bytes)) :=
  let '(host_str, rest) := un_host_scan sp false input in
  if sp then
    if u_is_empty host_str then Some None                      (* EmptyHost *)
    else match u_hparse host_str with
         | None => None
         | Some None => Some None
         | Some (Some h) => Some (Some (hshow u_std4 u_url6 h, rest))
         end
  else
    match un_parse_opaque host_str with
    | None => Some None
    | Some text => Some (Some (text, rest))
    end.

(* ------------------------------------------------------------------ port *)

(** the `while let` loop of `parse_port` (`Context::UrlParser`): [None] = Err(InvalidPort) *)
Fixpoint un_port_loop (s : bytes) (port : N) (any : bool) : option (N * bool * bytes) :=
  match s with
  | [] => Some (port, any, [])
  | c :: r =>
      if hp_is_dig c then
        let p := port * 10 + (c - 48) in
        if 65535 <? p then None else un_port_loop r p true
      else if (c =? 47) || (c =? 92) || (c =? 63) || (c =? 35) then Some (port, any, s)
      else None
  end.

Definition un_opt_n_eqb (a b : option N) : bool :=
  match a, b with
  | Some x, Some y => x =? y
  | None, None => true
  | _, _ => false
  end.

Definition un_parse_port (sc : bytes) (input : bytes) : option (option N * bytes) :=
  match un_port_loop input 0 false with
  | None => None
  | Some (port, any, rest) =>
      Some (if negb any || un_opt_n_eqb (Some port) (un_default_port sc) then None else Some port, rest)
  end.

(* ------------------------------------------------------------------ path *)

(** the dot segments, as `parse_path` spells them *)
Definition un_is_dot2 (s : bytes) : bool :=
  un_beq s [46; 46] ||
  un_beq s [37; 50; 101; 37; 50; 101] || un_beq s [37; 50; 101; 37; 50; 69] ||
  un_beq s [37; 50; 69; 37; 50; 101] || un_beq s [37; 50; 69; 37; 50; 69] ||
  un_beq s [37; 50; 101; 46] || un_beq s [37; 50; 69; 46] ||
  un_beq s [46; 37; 50; 101] || un_beq s [46; 37; 50; 69].
Definition un_is_dot1 (s : bytes) : bool :=
  un_beq s [46] || un_beq s [37; 50; 101] || un_beq s [37; 50; 69].

Definition un_is_delim (c : byte) : bool := (c =? 47) || (c =? 92) || (c =? 63) || (c =? 35).

(** `starts_with_windows_drive_letter` *)
Definition un_starts_with_wdl (s : bytes) : bool :=
  match s with
  | a :: b :: r =>
      un_alpha a && ((b =? 58) || (b =? 124)) && (match r with [] => true | c :: _ => un_is_delim c end)
  | _ => false
  end.

(** `path_starts_with_windows_drive_letter` *)
Definition un_path_starts_with_wdl (s : bytes) : bool :=
  match s with
  | c :: r => un_is_delim c && un_starts_with_wdl r
  | [] => false
  end.

(** scanning a reversed text from its end: the text from its last `/` on, followed by [acc] *)
Fixpoint un_from_last_slash (rb : bytes) (acc : bytes) : option bytes :=
  match rb with
  | [] => None
  | c :: r => if c =? 47 then Some (47 :: acc) else un_from_last_slash r (c :: acc)
  end.

(** `last_slash_can_be_removed(&serialization, path_start)`, [rb] = the reversed path piece (non-empty) *)
Definition un_last_slash_can_be_removed (rb : bytes) : bool :=
  match rb with
  | [] => false
  | last :: before =>
      match un_from_last_slash before [last] with
      | Some suffix => negb (un_path_starts_with_wdl suffix)
      | None => false
      end
  end.

Definition un_hd_is_slash (rb : bytes) : bool := match rb with c :: _ => c =? 47 | [] => false end.

(** `pop_path` (not `file`): truncate after the last `/` of the path piece *)
Definition un_pop_path (rb : bytes) : bytes := un_drop_while (fun c => negb (c =? 47)) rb.

(** `shorten_path` (not `file`) *)
Definition un_shorten (rb : bytes) : bytes := match rb with [] => [] | _ => un_pop_path rb end.

(** the double-dot arm of the `match segment_before_slash` (after `truncate(segment_start)`): [rb] = reversed
    `serialization[path_start..segment_start]`, [slash] = `ends_with_slash` *)
Definition un_dot2_done (rb : bytes) (slash : bool) : bytes :=
  let rb1 := if un_hd_is_slash rb && un_last_slash_can_be_removed rb then tl rb else rb in
  let rb2 := un_shorten rb1 in
  if slash && negb (un_hd_is_slash rb2) then 47 :: rb2 else rb2.

(** what `parse_path` does with a finished segment: [rb] = reversed `serialization[path_start..segment_start]`,
    [seg] = `segment_before_slash`, [slash] = `ends_with_slash`; the result is the reversed path piece *)
Definition un_seg_done (rb seg : bytes) (slash : bool) : bytes :=
  if un_is_dot2 seg then un_dot2_done rb slash
  else if un_is_dot1 seg then
    if un_hd_is_slash rb then rb else 47 :: rb
  else (if slash then [47] else []) ++ rev seg ++ rb.

(** the two nested loops of `parse_path` (`Context::UrlParser`, not `file`): reversed path piece and what remains *)
Fixpoint un_path_loop (sp : bool) (s : bytes) (rb seg : bytes) : bytes * bytes :=
  match s with
  | [] => (un_seg_done rb seg false, [])
  | c :: r =>
      if (c =? 47) || (sp && (c =? 92)) then un_path_loop sp r (un_seg_done rb seg true) []
      else if (c =? 63) || (c =? 35) then (un_seg_done rb seg false, s)
      else un_path_loop sp r rb (seg ++ un_encode un_path_set c)
  end.

(** `parse_path_start`; [before] = the serialization so far. The path piece and what remains. *)
Definition un_parse_path_start (sp : bool) (before input : bytes) : bytes * bytes :=
  let '(rpath, rest) :=
    if sp then
      if negb (un_ends_with 47 before) then
        match input with
        | c :: r => if un_is_slash c then un_path_loop sp r [47] [] else un_path_loop sp input [47] []
        | [] => un_path_loop sp input [47] []
        end
      else un_path_loop sp input [] []
    else
      match input with
      | c :: _ =>
          if (c =? 63) || (c =? 35) then ([], input)
          else if c =? 47 then un_path_loop sp input [] []
          else un_path_loop sp input [47] []
      | [] => un_path_loop sp input [] []
      end in
  (rev rpath, rest).

(* ------------------------------------------------------------------ query and fragment *)

(** [None] = the panic of `parse_query_and_fragment` (never reached); otherwise (query, fragment) *)
Definition un_parse_query_and_fragment (sp : bool) (input : bytes) : option (option bytes * option bytes) :=
  match input with
  | [] => Some (None, None)
  | c :: r =>
      if c =? 35 then Some (None, Some (un_encode_all un_fragment_set r))
      else if c =? 63 then
        let '(q, rest) := un_span (fun x => negb (x =? 35)) r in
        let set := if sp then un_special_query_set else un_query_set in
        Some (Some (un_encode_all set q),
              match rest with
              | [] => None
              | _ :: f => Some (un_encode_all un_fragment_set f)
              end)
      else None
  end.

(* ------------------------------------------------------------------ the parser *)

(** `after_double_slash` *)
Definition un_after_double_slash (sp : bool) (sc input : bytes) : option (option url_parts) :=
  match un_parse_userinfo sp input with
  | None => Some None                                                            (* EmptyHost *)
  | Some (user, pass, remaining) =>
      match un_parse_host sp remaining with
      | None => None
      | Some None => Some None
      | Some (Some (host, after_host)) =>
          (* parse_host_and_port: port with an empty host / special with an empty host *)
          if u_is_empty host && ((match after_host with c :: _ => c =? 58 | [] => false end) || sp) then Some None
          else
            let port_r := match hd_is 58 after_host with
                          | Some r => un_parse_port sc r
                          | None => Some (None, after_host)
                          end in
            match port_r with
            | None => Some None                                                  (* InvalidPort *)
            | Some (port, after_port) =>
                (* host == HostInternal::None && has_authority *)
                if u_is_empty host && negb (u_is_empty (un_userinfo_text user pass)) then Some None
                else
                  let '(path, after_path) :=
                    un_parse_path_start sp (un_prefix sc user pass host port) after_port in
                  match un_parse_query_and_fragment sp after_path with
                  | None => None
                  | Some (q, f) =>
                      Some (Some {| p_scheme := sc; p_user := user; p_pass := pass; p_host := host; p_port := port;
                                    p_path := path; p_query := q; p_frag := f |})
                  end
            end
      end
  end.

(** `Url::parse`: `parse_url` with no base URL *)
Definition un_parse (t : bytes) : option (option url_parts) :=
  if negb (un_ascii t) then None
  else
    let s := un_strip_tabnl (un_trim t) in
    match un_parse_scheme s with
    | None => Some None                                                          (* RelativeUrlWithoutBase *)
    | Some (sc, rest) =>
        if un_is_file sc then None
        else if un_special sc then un_after_double_slash true sc (un_skip_slashes rest)
        else match rest with
             | a :: b :: r => if (a =? 47) && (b =? 47) then un_after_double_slash false sc r else None
             | _ => None
             end
    end.

(** `Url::parse(t).map(|u| u.to_string())` *)
Definition u_norm (t : bytes) : option (option bytes) :=
  match un_parse t with
  | None => None
  | Some None => Some None
  | Some (Some p) => Some (Some (un_assemble p))
  end.

(* ------------------------------------------------------------------ normal form, syntactically *)

Definition un_lower_alpha (b : byte) : bool := (97 <=? b) && (b <=? 122).
Definition un_scheme_normal (sc : bytes) : bool :=
  match sc with
  | c :: r => un_lower_alpha c &&
              forallb (fun b => un_lower_alpha b || hp_is_dig b || (b =? 43) || (b =? 45) || (b =? 46)) r
  | [] => false
  end.

(** a byte that the encoder with [set] leaves alone *)
Definition un_plain (set : byte -> bool) (b : byte) : bool := (b <? 128) && negb (set b).

(** the host text is what `Host`'s Display prints for the host it parses to (X9's printed form) *)
Definition un_host_fixed (h : bytes) : bool :=
  match u_hparse h with
  | Some (Some x) => un_beq (hshow u_std4 u_url6 x) h
  | _ => false
  end.

(** an opaque host in printed form: a bracketed IPv6 address as `write_ipv6` prints it, or bytes that are neither
    invalid host characters nor in the C0-control set *)
Definition un_opaque_fixed (h : bytes) : bool :=
  match hd_is 91 h with
  | Some _ => match un_parse_opaque h with Some x => un_beq x h | None => false end
  | None => forallb (fun b => un_plain un_controls b && negb (un_invalid_host_char b)) h
  end.

Definition un_no_dot_segment (path : bytes) : bool :=
  forallb (fun s => negb (un_is_dot1 s || un_is_dot2 s)) (u_split 47 path).

Definition un_path_normal (sp : bool) (path : bytes) : bool :=
  (match path with c :: _ => c =? 47 | [] => negb sp end) &&
  forallb (fun b => un_plain un_path_set b && negb (sp && (b =? 92))) path &&
  un_no_dot_segment path.

Definition un_opt_all (p : byte -> bool) (o : option bytes) : bool :=
  match o with Some s => forallb p s | None => true end.

Definition un_parts_normal (p : url_parts) : bool :=
  let sp := un_special (p_scheme p) in
  un_scheme_normal (p_scheme p) && negb (un_is_file (p_scheme p)) &&
  forallb (un_plain un_userinfo_set) (p_user p) && forallb (un_plain un_userinfo_set) (p_pass p) &&
  (if sp then un_host_fixed (p_host p) else un_opaque_fixed (p_host p)) &&
  (if u_is_empty (p_host p) then u_is_empty (p_user p) && u_is_empty (p_pass p) &&
                                 match p_port p with None => true | Some _ => false end
   else true) &&
  (match p_port p with
   | Some n => (n <=? 65535) && negb (un_opt_n_eqb (Some n) (un_default_port (p_scheme p)))
   | None => true
   end) &&
  un_path_normal sp (p_path p) &&
  un_opt_all (un_plain (if sp then un_special_query_set else un_query_set)) (p_query p) &&
  un_opt_all (un_plain un_fragment_set) (p_frag p).

(** reading the pieces off a text, by its delimiters only (no normalisation of any kind) *)
Definition un_not (c : byte) (b : byte) : bool := negb (b =? c).

Definition un_split_hostport (hp : bytes) : option (bytes * option N) :=
  let '(host, after) :=
    match hd_is 91 hp with
    | Some _ => let '(h, r) := un_span (un_not 93) hp in
                match r with _ :: r' => (h ++ [93], r') | [] => (h, []) end
    | None => un_span (un_not 58) hp
    end in
  match after with
  | [] => Some (host, None)
  | _ :: digits =>
      match hp_digits_val 0 digits with
      | Some n => Some (host, Some n)
      | None => None
      end
  end.

Definition un_split_url (u : bytes) : option url_parts :=
  let '(sc, r0) := un_span (un_not 58) u in
  match r0 with
  | _ :: c2 :: c3 :: r1 =>
      if (c2 =? 47) && (c3 =? 47) then
        let '(auth, r2) := un_span (fun c => negb ((c =? 47) || (c =? 63) || (c =? 35))) r1 in
        let '(path, r3) := un_span (fun c => negb ((c =? 63) || (c =? 35))) r2 in
        let '(query, frag) :=
          match r3 with
          | [] => (None, None)
          | c :: r =>
              if c =? 63 then
                let '(q, r4) := un_span (un_not 35) r in
                (Some q, match r4 with [] => None | _ :: f => Some f end)
              else (None, Some r)
          end in
        let '(ui, hp) :=
          let '(a, b) := un_span (un_not 64) auth in
          match b with [] => ([], auth) | _ :: hp => (a, hp) end in
        let '(user, pr) := un_span (un_not 58) ui in
        let pass := match pr with [] => [] | _ :: x => x end in
        match un_split_hostport hp with
        | Some (host, port) =>
            Some {| p_scheme := sc; p_user := user; p_pass := pass; p_host := host; p_port := port;
                    p_path := path; p_query := query; p_frag := frag |}
        | None => None
        end
      else None
  | _ => None
  end.

(** THE SYNTACTIC PREDICATE: the text splits at its delimiters into pieces that are each in normal form (scheme in
    lower case; userinfo, path, query, fragment bytes that the respective encoder leaves alone; host in printed
    form; port a u16 that is not the scheme's default; no `.` / `..` segment in any spelling; a special URL's
    path starts with `/`), and putting the pieces together again gives back the text, byte for byte (this refuses
    `:080`, a lone `:`, `user:@`, ...) *)
Definition is_normal_url (u : bytes) : bool :=
  match un_split_url u with
  | Some p => un_parts_normal p && un_beq (un_assemble p) u
  | None => false
  end.

(* ------------------------------------------------------------------ the model as the [norm] / [url_ok] of the other models *)

(** total versions for the `Section` variables [norm] / [url_ok] of Model/Metainfo.v, Magnet.v, Summary.v: the model
    inside the fragment, [ext] / [ext_ok] (whatever the library does) outside it. (Where `Url::parse` refuses, imdl
    stops with a usage error before anything is stored; [norm] is never consulted there.) *)
Definition u_norm_with (ext : bytes -> bytes) (t : bytes) : bytes :=
  match u_norm t with
  | Some (Some v) => v
  | _ => ext t
  end.

Definition u_url_ok_with (ext_ok : bytes -> bool) (t : bytes) : bool :=
  match u_norm t with
  | Some (Some _) => true
  | Some None => false
  | None => ext_ok t
  end.

(** the same for the `url_norm : bytes -> option bytes` of Model/Magnet.v and Model/Summary.v
    (`Url::parse(v).map(|u| u.as_str())`; `as_str` is the serialization that `to_string` copies) *)
Definition u_url_norm_with (ext : bytes -> option bytes) (t : bytes) : option bytes :=
  match u_norm t with
  | Some r => r
  | None => ext t
  end.
