(** Model of the directory walk of `imdl torrent create` (C06). Definitions only.

    Mirrors src/walker.rs [Walker::files] / [Walker::pattern_filter], src/sort_spec.rs
    [SortSpec::compare], and the derived [Ord] of src/file_path.rs (component vector).

    A [tree] is what the filesystem looks like from the root that was given to
    `--input`: symlinks are represented by what they resolve to ([WLink t]); a dangling
    link is [WBroken]. Names and paths are byte strings / lists of byte strings; a path is
    relative to the root, component by component (what [FilePath] stores).

    The `ignore` crate's [WalkBuilder] is represented by its effect under the
    configuration imdl passes (hidden(!include_hidden), follow_links(follow_symlinks),
    standard_filters(false)): [yield]. globset is a Section variable [gmatch]. *)
From Coq Require Import NArith List Bool.
From Coq Require Ascii String.
From Imdl Require Import Generated.GenWalker.
Import ListNotations.
Local Open Scope N_scope.

Notation name := (list N) (only parsing).
Notation path := (list (list N)) (only parsing).
(** a yielded regular file: root-relative path and length ([FileInfo] without md5sum) *)
Notation entry := (list (list N) * N)%type (only parsing).

Inductive tree :=
| WFile (size : N)                          (* regular file *)
| WDir (entries : list (list N * tree))    (* directory, entries in enumeration order *)
| WLink (target : tree)                  (* symlink, resolved *)
| WBroken.                               (* dangling symlink *)

(* ---------- orderings: derive(Ord) on Vec<String>, String = bytewise ---------- *)
Fixpoint list_cmp {A : Type} (c : A -> A -> comparison) (a b : list A) : comparison :=
  match a, b with
  | [], [] => Eq
  | [], _ :: _ => Lt
  | _ :: _, [] => Gt
  | x :: a', y :: b' => match c x y with Eq => list_cmp c a' b' | o => o end
  end.

Definition name_cmp : name -> name -> comparison := list_cmp N.compare.
Definition path_cmp : path -> path -> comparison := list_cmp name_cmp.

(* ---------- src/sort_key.rs, src/sort_order.rs, src/sort_spec.rs ---------- *)
Inductive sort_key := KPath | KSize.
Inductive sort_order := Ascending | Descending.
Definition spec : Type := (sort_key * sort_order)%type.

(** [SortSpec::default()]: key Path, [SortOrder::default()] = Ascending *)
Definition default_spec : spec := (KPath, Ascending).

(** [Ordering::then_with] *)
Definition then_with (o1 o2 : comparison) : comparison :=
  match o1 with Eq => o2 | _ => o1 end.

(** [SortSpec::compare_file_info] *)
Definition compare_file_info (s : spec) (a b : entry) : comparison :=
  let ordering := match fst s with
                  | KPath => path_cmp (fst a) (fst b)
                  | KSize => N.compare (snd a) (snd b)
                  end in
  match snd s with
  | Ascending => ordering
  | Descending => CompOpp ordering
  end.

(** [SortSpec::compare_specs]: specs.iter().fold(Equal, |o, spec| o.then_with(|| spec.compare_file_info(a, b))) *)
Definition compare_specs (specs : list spec) (a b : entry) : comparison :=
  fold_left (fun ordering s => then_with ordering (compare_file_info s a b)) specs Eq.

(** [SortSpec::compare]: push the default spec, then fold *)
Definition sort_compare (specs : list spec) (a b : entry) : comparison :=
  compare_specs (specs ++ [default_spec]) a b.

Definition leb (specs : list spec) (a b : entry) : bool :=
  match sort_compare specs a b with Gt => false | _ => true end.

(** [Vec::sort_by] is a stable merge sort. Under a comparison that is a total order on the
    elements being sorted the sorted permutation is unique (Proofs/WalkProofs.v,
    [sorted_perm_unique]), so any correct sort computes this list. *)
Section Sort.
  Context {A : Type} (le : A -> A -> bool).
  Fixpoint insert (x : A) (l : list A) : list A :=
    match l with
    | [] => [x]
    | y :: r => if le x y then x :: l else y :: insert x r
    end.
  Fixpoint isort (l : list A) : list A :=
    match l with [] => [] | x :: r => insert x (isort r) end.
End Sort.

(* ---------- names ---------- *)
(** UTF-8 bytes of a (Coq) string literal; used to state names readably *)
Fixpoint name_of_string (s : String.string) : name :=
  match s with
  | String.EmptyString => []
  | String.String a r => Ascii.N_of_ascii a :: name_of_string r
  end.

(** the path as one string, components joined by `/` (47): what a plain string sort would compare *)
Fixpoint joined (p : path) : name :=
  match p with
  | [] => []
  | [n] => n
  | n :: r => n ++ 47 :: joined r
  end.

Fixpoint name_eqb (a b : name) : bool :=
  match a, b with
  | [], [] => true
  | x :: a', y :: b' => (x =? y) && name_eqb a' b'
  | _, _ => false
  end.

(** the `ignore` crate's hidden test on Unix: file name starts with `.` (46) *)
Definition is_hidden (n : name) : bool :=
  match n with c :: _ => c =? 46 | [] => false end.

(** [JUNK.contains(&file_path.name())], JUNK regenerated from src/walker.rs *)
Definition is_junk (n : name) : bool := existsb (name_eqb n) GenWalker.junk.

(** [FilePath::name]: the last component *)
Definition file_name (p : path) : name := last p [].

Definition under (n : name) (e : entry) : entry := (n :: fst e, snd e).

Inductive outcome :=
| WalkRefused                          (* Error::SymlinkRoot *)
| WalkFailed                           (* filesystem / walk error *)
| WalkSingle (size : N)                (* Files::file: the root is a regular file *)
| WalkListing (files : list entry).    (* Files::dir: info.files in this order *)

Section Walk.
  (** globset: compiled pattern type and [GlobMatcher::is_match] on a root-relative path *)
  Variable pat : Type.
  Variable gmatch : pat -> path -> bool.

  (** [struct Pattern { glob, include }] *)
  Definition pattern : Type := (bool * pat)%type.

  Record cfg := {
    include_hidden : bool;
    include_junk : bool;
    follow_symlinks : bool;
    patterns : list pattern;     (* --glob, in command-line order; `!g` = (false, g) *)
    sort_by : list spec          (* --sort-by, in command-line order *)
  }.

  (** `for Pattern { glob, include } in self.patterns.iter().rev() { if glob.is_match(relative) { return *include } }` *)
  Fixpoint first_match (rev_patterns : list pattern) (p : path) : option bool :=
    match rev_patterns with
    | [] => None
    | pt :: r => if gmatch (snd pt) p then Some (fst pt) else first_match r p
    end.

  (** [Walker::pattern_filter] *)
  Definition pattern_filter (ps : list pattern) (p : path) : bool :=
    match first_match (rev ps) p with
    | Some include => include
    | None => match ps with
              | first :: _ => negb (fst first)
              | [] => true
              end
    end.

  (** the walker prunes an entry (file, directory or link, with everything below it) whose
      name is hidden, unless `--include-hidden`; the root itself is never tested *)
  Definition skip_hidden (c : cfg) (n : name) : bool := negb (include_hidden c) && is_hidden n.

  (** regular files the [WalkBuilder] iterator yields below [t], with their path relative to
      [t]: `metadata.is_file()` is true for a file, and for a link to a file when links are
      followed (then `metadata` is that of the target); directories are descended into,
      through links only when following *)
  Fixpoint yield (c : cfg) (t : tree) : list entry :=
    match t with
    | WFile sz => [([], sz)]
    | WDir es => flat_map (fun ne => if skip_hidden c (fst ne) then []
                                  else map (under (fst ne)) (yield c (snd ne))) es
    | WLink t' => if follow_symlinks c then yield c t' else []
    | WBroken => []
    end.

  Fixpoint dangling (t : tree) : bool :=
    match t with WBroken => true | WLink t' => dangling t' | _ => false end.

  (** `let entry = result?;` — with follow_links walkdir stats every link it meets (before the
      hidden filter sees the entry); a dangling one is an error and the walk fails *)
  Fixpoint walk_error (c : cfg) (t : tree) : bool :=
    match t with
    | WFile _ => false
    | WBroken => follow_symlinks c
    | WLink t' => follow_symlinks c && walk_error c t'
    | WDir es => existsb (fun ne => if dangling (snd ne) then follow_symlinks c
                                 else if skip_hidden c (fst ne) then false
                                 else walk_error c (snd ne)) es
    end.

  (** the loop body after `is_file`: `if !self.pattern_filter(relative) { continue }` then
      `if !self.include_junk && JUNK.contains(&file_path.name()) { continue }` *)
  Definition keep (c : cfg) (e : entry) : bool :=
    pattern_filter (patterns c) (fst e) && negb (negb (include_junk c) && is_junk (file_name (fst e))).

  Fixpoint resolve (t : tree) : tree :=
    match t with WLink t' => resolve t' | _ => t end.

  Definition is_symlink (t : tree) : bool :=
    match t with WLink _ | WBroken => true | _ => false end.

  (** [Walker::files] *)
  Definition walk (c : cfg) (root : tree) : outcome :=
    if negb (follow_symlinks c) && is_symlink root then WalkRefused
    else match resolve root with
         | WBroken => WalkFailed                       (* self.root.metadata() fails *)
         | WLink _ => WalkFailed                       (* not reachable: resolve strips links *)
         | WFile sz => WalkSingle sz
         | WDir es =>
             if walk_error c (WDir es) then WalkFailed
             else WalkListing (isort (leb (sort_by c)) (filter (keep c) (yield c (WDir es))))
         end.

  (* ---------- the documented behaviour, stated without reference to the traversal ---------- *)

  (** every regular file reachable below [t] (through links iff they are followed), no name filter *)
  Fixpoint all_files (c : cfg) (t : tree) : list entry :=
    match t with
    | WFile sz => [([], sz)]
    | WDir es => flat_map (fun ne => map (under (fst ne)) (all_files c (snd ne))) es
    | WLink t' => if follow_symlinks c then all_files c t' else []
    | WBroken => []
    end.

  (** the same set, relationally: [p] names a regular file of [sz] bytes below [t], crossing
      symlinks only when they are followed *)
  Inductive file_at (follow : bool) : tree -> path -> N -> Prop :=
  | fa_file sz : file_at follow (WFile sz) [] sz
  | fa_dir es n t p sz : In (n, t) es -> file_at follow t p sz -> file_at follow (WDir es) (n :: p) sz
  | fa_link t p sz : follow = true -> file_at follow t p sz -> file_at follow (WLink t) p sz.

  (** no component of the root-relative path is hidden, unless `--include-hidden` *)
  Definition no_hidden (c : cfg) (p : path) : bool :=
    include_hidden c || forallb (fun n => negb (is_hidden n)) p.

  (** the last component is not a junk name, unless `--include-junk` *)
  Definition junk_ok (c : cfg) (p : path) : bool :=
    include_junk c || negb (is_junk (file_name p)).

  (** glob rule: the last glob matching the path decides; unmatched paths take the opposite
      polarity of the first glob; no globs, everything *)
  Definition glob_ok (c : cfg) (p : path) : bool :=
    match find (fun pt => gmatch (snd pt) p) (rev (patterns c)) with
    | Some pt => fst pt
    | None => match hd_error (patterns c) with Some first => negb (fst first) | None => true end
    end.

  Definition included (c : cfg) (e : entry) : bool :=
    no_hidden c (fst e) && junk_ok c (fst e) && glob_ok c (fst e).
End Walk.

Arguments include_hidden {pat} _.
Arguments include_junk {pat} _.
Arguments follow_symlinks {pat} _.
Arguments patterns {pat} _.
Arguments sort_by {pat} _.
Arguments Build_cfg {pat} _ _ _ _ _.

(* ---------- instance used by the extracted runner: a glob is the finite set of candidate
   paths it matches (the table is computed outside, see tools/props/c06.py) ---------- *)
Fixpoint path_eqb (a b : path) : bool :=
  match a, b with
  | [], [] => true
  | x :: a', y :: b' => name_eqb x y && path_eqb a' b'
  | _, _ => false
  end.
Definition table_match (matched : list path) (p : path) : bool := existsb (path_eqb p) matched.
Definition walk_table (c : cfg (list path)) (root : tree) : outcome := walk (list path) table_match c root.
(** pattern_filter over per-pattern (include, matched?) bits, for the `globf` hook at volume *)
Definition pattern_filter_bits (ps : list (bool * bool)) : bool :=
  pattern_filter bool (fun m _ => m) ps [].
