(** X14 (C05 / C07 / C10 / C08) - the url crate's `Section` variables of the older models, instantiated with the concrete
    models of X9 (Model/UrlHost.v: `url::Host::parse` + Display), X10 (Model/UrlNorm.v: `Url::parse` + `to_string`) and C17
    (Model/HostPort.v: `HostPort::from_str`, Display, the `Tuple(String, u16)` deserialiser). Definitions only.

    The variables and what they stand for where they are declared:
      Model/Metainfo.v  [norm]        `Url::parse(x).to_string()`                         -> [c_norm]
                        [url_ok]      `Url::parse(x).is_ok()`                             -> [c_url_ok]
                        [host_canon]  Host: parse then Display, brackets aside; applied
                                      to `unbracket` of the host text of a --node          -> [c_host_canon]
      Model/Summary.v   [host_disp]   the node deserialiser's reading of the stored host
                        (SummarySpec, text: Host::parse of the text - of `[text]` when it
                        EndToEndShow, contains a colon - followed by Display               -> [c_host_disp]
                        Verify)
                        [url_norm]    `Url::parse(v)` followed by Display / `as_str`       -> [c_url_norm]
      Model/Magnet.v    [url_norm]    the same                                             -> [c_url_norm]
                        [hp_norm]     `HostPort::from_str(v).map(|p| p.to_string())`       -> [c_hp_norm]
      Model/Crash.v     [url_ok]      the url crate accepts the text                       -> [c_url_ok]
                        [node_ok]     the node deserialiser accepts the ENCODED node       -> [c_node_ok]

    THE FRAGMENTS. Each instance is a total function; next to it stands a boolean predicate that says whether the model
    claims anything about the text (inside: the instance IS what the library computes, compared with the hooks on every run
    of C05 / C07 / C10; outside: the instance returns a fixed, harmless answer - refusal, or the text itself - and no
    theorem with that text in a premise applies):
      [url_in_fragment t]     [UrlNorm.u_norm t] is not [None]: ASCII text, no `file:`, `//` after a non-special scheme,
                              special-scheme host inside X9's fragment (no `%`, no `xn--` label);
      [url_ok_in_fragment t]  the same, or an ASCII text with a non-special scheme other than `file` that is NOT followed
                              by `//` (`magnet:?..`, `mailto:x`, `udp:/x`): `parse_non_special` then takes the anarchist /
                              cannot-be-a-base path, which never fails (url 2.5.2 src/parser.rs; only `to_u32` could) -
                              acceptance is modelled there, the serialisation is not;
      [host_in_fragment t]    [UrlHost.u_hparse] answers on the text (on `[text]` when it contains a colon);
      [hp_in_fragment p]      the text has no `:digits` tail (then it is refused whatever the host), or the host part in
                              front of that tail is inside X9's fragment;
      [node_in_fragment bs]   the bytes are no `l <string> i <integer> e` (refused), or the integer is no u16 (refused), or
                              the string, re-bracketed, is inside X9's fragment. *)
From Coq Require Import Decimal DecimalN DecimalFacts.
From Coq Require Import NArith ZArith Bool List.
From Imdl Require Import Model.Bencode Model.HostPort Model.UrlHost Model.UrlNorm.
From Imdl Require Model.Magnet Model.Utf8 Model.Summary Model.SummarySpec Model.ShowConcrete Model.Metainfo Model.Crash.
Import ListNotations.
Local Open Scope N_scope.

(* ------------------------------------------------------------------ Url *)

Definition url_in_fragment (t : bytes) : bool := match u_norm t with Some _ => true | None => false end.

(** [url_norm] of Model/Summary.v and Model/Magnet.v *)
Definition c_url_norm (t : bytes) : option bytes := match u_norm t with Some r => r | None => None end.

(** [norm] of Model/Metainfo.v (consulted only after `Url::parse` succeeded: clap refuses the command line otherwise) *)
Definition c_norm (t : bytes) : bytes := match u_norm t with Some (Some v) => v | _ => t end.

(** a non-special scheme other than `file`, not followed by `//`: `parse_non_special` without authority *)
Definition url_no_authority (t : bytes) : bool :=
  un_ascii t &&
  match un_parse_scheme (un_strip_tabnl (un_trim t)) with
  | Some (sc, rest) =>
      negb (un_is_file sc) && negb (un_special sc) &&
      negb (match rest with a :: b :: _ => (a =? 47) && (b =? 47) | _ => false end)
  | None => false
  end.

Definition url_ok_in_fragment (t : bytes) : bool := url_in_fragment t || url_no_authority t.

(** [url_ok] of Model/Metainfo.v and Model/Crash.v *)
Definition c_url_ok (t : bytes) : bool :=
  match u_norm t with
  | Some (Some _) => true
  | Some None => false
  | None => url_no_authority t
  end.

(* ------------------------------------------------------------------ Host *)

(** `Host::parse` as a total function: X9's model, refusal outside its fragment (the strict library of C17) *)
Definition c_hparse : bytes -> option hp_host := u_hparse_with u_no_ext.

(** the host text of a stored node / of a --node without its brackets *)
Definition host_in_fragment (t : bytes) : bool :=
  match u_hparse (hp_rebracket t) with Some _ => true | None => false end.

(** inside the fragment and accepted *)
Definition c_host_ok (t : bytes) : bool :=
  match u_hparse (hp_rebracket t) with Some (Some _) => true | _ => false end.

(** [host_disp] of Model/Summary.v: Display for Host (IPv6 in brackets, the url crate's own serialiser) *)
Definition c_host_disp (t : bytes) : option bytes :=
  match u_hparse (hp_rebracket t) with
  | Some (Some h) => Some (hshow u_std4 u_url6 h)
  | _ => None
  end.

(** [host_canon] of Model/Metainfo.v: what `Tuple::from(&HostPort)` stores (no brackets, std's serialisers) *)
Definition c_host_canon (t : bytes) : bytes :=
  match u_hparse (hp_rebracket t) with
  | Some (Some h) => hp_plain u_std4 u_std6 h
  | _ => t
  end.

(* ------------------------------------------------------------------ HostPort *)

Definition c_hp_parse (p : bytes) : hp_result := hp_parse u_ascii_nd c_hparse p.

(** [hp_norm] of Model/Magnet.v *)
Definition c_hp_norm (p : bytes) : option bytes :=
  match c_hp_parse p with
  | HpOk hp => Some (hp_display u_std4 u_url6 hp)
  | HpErr _ => None
  end.

Definition hp_in_fragment (p : bytes) : bool :=
  match hp_split u_ascii_nd p with
  | Some (ht, _) => match u_hparse ht with Some _ => true | None => false end
  | None => true
  end.

(** a host:port text in printed form: what the typed parser returns for it is the text itself *)
Definition c_hp_fixed (p : bytes) : bool :=
  match c_hp_norm p with Some q => un_beq q p | None => false end.

(* ------------------------------------------------------------------ the stored node *)

(** [node_ok] of Model/Crash.v: `Deserialize for HostPort` on the encoded node *)
Definition c_node_ok (bs : bytes) : bool :=
  match hp_from_bencode c_hparse bs with Some _ => true | None => false end.

Definition node_in_fragment (bs : bytes) : bool :=
  match hp_dec_tuple bs with
  | Some (t, z, _) => negb ((0 <=? z) && (z <=? 65535))%Z || host_in_fragment t
  | None => true
  end.

(* ------------------------------------------------------------------ C10: the own magnet parser, nothing left abstract *)

Definition c_own_parse (text : bytes) : Magnet.outcome := Magnet.own_parse Utf8.lossy c_url_norm c_hp_norm text.

(** every `tr` value is inside the url fragment and every `x.pe` value inside the host:port fragment *)
Definition magnet_pair_in_fragment (kv : bytes * bytes) : bool :=
  if Magnet.bytes_eqb (fst kv) Magnet.k_tr then url_in_fragment (snd kv)
  else if Magnet.bytes_eqb (fst kv) Magnet.k_pe then hp_in_fragment (snd kv)
  else true.

Definition magnet_in_fragment (text : bytes) : bool :=
  match Magnet.url_query text with
  | Magnet.UQ (Some q) => forallb magnet_pair_in_fragment (Magnet.form_pairs Utf8.lossy q)
  | _ => true
  end.

Definition c_link_cmd := Magnet.link_cmd c_url_norm.

(* ------------------------------------------------------------------ C07: `torrent show`, nothing left abstract *)

Definition c_show (src : Summary.target) (input ih : bytes) : Summary.outcome :=
  ShowConcrete.show_concrete c_host_disp c_url_norm src input ih.

Definition c_typed_of_value := Summary.typed_of_value c_host_disp c_url_norm.
Definition c_from_input := Summary.from_input c_host_disp c_url_norm.

(** the texts of a decoded file that the url crate gets to see: `info.update-url` and the host of every node *)
Definition node_value_in_fragment (v : value) : bool :=
  match v with
  | Lst (Str h :: _) => host_in_fragment h
  | _ => true
  end.

Definition value_in_fragment (v : value) : bool :=
  (match Summary.lookup Summary.k_update_url (SummarySpec.info_of v) with
   | Some (Str s) => url_in_fragment s
   | _ => true
   end) &&
  (match Summary.lookup Summary.k_nodes (SummarySpec.top_of v) with
   | Some (Lst l) => forallb node_value_in_fragment l
   | _ => true
   end).

(** the same on the bytes (the strict decoder of the `show` path, with the fuel [Summary.show] gives it; an undecodable
    input is refused whatever the library) *)
Definition input_in_fragment (input : bytes) : bool :=
  match decode (2 * length input + 2) input with
  | Some (v, _) => value_in_fragment v
  | None => true
  end.

(** the two url-typed fields of the report *)
Definition k_update_url_json : bytes := [117; 112; 100; 97; 116; 101; 95; 117; 114; 108].   (* "update_url" *)
Definition k_dht_nodes_json : bytes := [100; 104; 116; 95; 110; 111; 100; 101; 115].   (* "dht_nodes" *)
Definition c_show_fields (input : bytes) : option (option bytes * list bytes) :=
  match c_show Summary.FromPath input [] with
  | Summary.ShowPrinted j _ _ =>
      Some (match SummarySpec.jfield j k_update_url_json with Summary.JvStr s => Some s | _ => None end,
            match SummarySpec.jfield j k_dht_nodes_json with
            | Summary.JvArr l => flat_map (fun x => match x with Summary.JvStr s => [s] | _ => [] end) l
            | _ => []
            end)
  | _ => None
  end.

(* ------------------------------------------------------------------ C05: `torrent create`, nothing left abstract *)

Definition c_build := Metainfo.build c_norm c_host_canon.
Definition c_run_create := Metainfo.run_create c_norm c_url_ok c_host_canon.
Definition c_create_bytes := Metainfo.create_bytes c_norm c_url_ok c_host_canon.

(** the command line is inside the fragments and passes clap's typed parsers: --announce / --update-url parse as URLs,
    every tier member is inside the fragment of [c_url_ok], every node host is accepted *)
Definition opt_url_accepted (o : option bytes) : bool :=
  match o with Some u => match u_norm u with Some (Some _) => true | _ => false end | None => true end.

Definition opts_in_fragment (o : Metainfo.opts) : bool :=
  opt_url_accepted (Metainfo.o_announce o) && opt_url_accepted (Metainfo.o_update_url o) &&
  forallb (fun t => forallb url_ok_in_fragment t) (Metainfo.tiers_of o) &&
  forallb (fun n => c_host_ok (Metainfo.unbracket (fst n))) (Metainfo.o_nodes o).

(* ------------------------------------------------------------------ C08: the crash models, nothing left abstract *)

Definition c_show_model := Crash.show_model c_url_ok c_node_ok.
Definition c_link_model := Crash.link_model c_url_ok c_node_ok.
Definition c_verify_model := Crash.verify_model c_url_ok c_node_ok.
