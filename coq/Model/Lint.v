(** Model of the validity rules of `imdl torrent create` (C14). Definitions only.

    Mirrors, in source order:
      src/lint.rs     enum Lint { PrivateTrackerless, SmallPieceLength, UnevenPieceLength } (kebab-case names)
      src/linter.rs   Linter { allowed: BTreeSet<Lint> }; allow = extend; is_allowed = contains; is_denied = !is_allowed
      src/subcommand/torrent/create.rs  Create::run:
          let mut linter = Linter::new(); linter.allow(self.allowed_lints.iter().copied());
          if linter.is_denied(Lint::PrivateTrackerless) && self.private && self.announce.is_none()
            { return Err(Error::PrivateTrackerless); }
          ... content ... output.resolve ...
          if content.piece_length.count() == 0 { return Err(Error::PieceLengthZero); }
          if linter.is_denied(Lint::UnevenPieceLength) && !content.piece_length.count().is_power_of_two()
            { return Err(Error::PieceLengthUneven { bytes: content.piece_length }); }
          if linter.is_denied(Lint::SmallPieceLength) && content.piece_length.count() < 16 * 1024
            { return Err(Error::PieceLengthSmall); }
          ... output exists ...
          Hasher::new(.., content.piece_length.as_piece_length()?.into_usize(), ..)     (u64 -> u32 try_into)
          ... Info { piece_length: content.piece_length, .. } ... write
      src/error.rs    Error::lint
      src/env.rs      Env::status: `error: ...`, then `note: This check can be disabled with `--allow <lint.name()>`.`
                      exactly when error.lint() is Some; Err(EXIT_FAILURE).

    The tables below ([lint_ident], [lint_name], [error_ident], [error_lint], [check_table],
    [small_threshold], [piece_length_bits]) are compared with Generated/GenLint.v (regenerated from
    the Rust source on every run) in Properties/C14.v. *)
From Coq Require Import NArith List Bool String.
Import ListNotations.
Local Open Scope N_scope.

(** * src/lint.rs *)
Inductive lint := PrivateTrackerless | SmallPieceLength | UnevenPieceLength.

Definition all_lints : list lint := [PrivateTrackerless; SmallPieceLength; UnevenPieceLength].

Definition lint_eqb (a b : lint) : bool :=
  match a, b with
  | PrivateTrackerless, PrivateTrackerless => true
  | SmallPieceLength, SmallPieceLength => true
  | UnevenPieceLength, UnevenPieceLength => true
  | _, _ => false
  end.

(** the Rust identifier of the variant *)
Definition lint_ident (l : lint) : string :=
  match l with
  | PrivateTrackerless => "PrivateTrackerless"
  | SmallPieceLength => "SmallPieceLength"
  | UnevenPieceLength => "UnevenPieceLength"
  end.

(** Lint::name — strum kebab-case *)
Definition lint_name (l : lint) : string :=
  match l with
  | PrivateTrackerless => "private-trackerless"
  | SmallPieceLength => "small-piece-length"
  | UnevenPieceLength => "uneven-piece-length"
  end.

(** * src/linter.rs — a BTreeSet observed only through [contains] *)
Definition linter := list lint.
Definition linter_new : linter := [].
Definition linter_allow (s : linter) (ls : list lint) : linter := ls ++ s.
Definition is_allowed (s : linter) (l : lint) : bool := existsb (lint_eqb l) s.
Definition is_denied (s : linter) (l : lint) : bool := negb (is_allowed s l).

(** * the errors Create::run can return from the code mirrored here *)
Inductive error :=
| EPrivateTrackerless
| EPieceLengthZero
| EPieceLengthUneven (bytes : N)
| EPieceLengthSmall
| EPieceLengthTooLarge (bytes : N).

Definition error_ident (e : error) : string :=
  match e with
  | EPrivateTrackerless => "PrivateTrackerless"
  | EPieceLengthZero => "PieceLengthZero"
  | EPieceLengthUneven _ => "PieceLengthUneven"
  | EPieceLengthSmall => "PieceLengthSmall"
  | EPieceLengthTooLarge _ => "PieceLengthTooLarge"
  end.

(** src/error.rs Error::lint *)
Definition error_lint (e : error) : option lint :=
  match e with
  | EPieceLengthUneven _ => Some UnevenPieceLength
  | EPieceLengthSmall => Some SmallPieceLength
  | EPrivateTrackerless => Some PrivateTrackerless
  | _ => None
  end.

(** * u64::is_power_of_two — exactly one bit set *)
Fixpoint pos_is_pow2 (p : positive) : bool :=
  match p with
  | xH => true
  | xO q => pos_is_pow2 q
  | xI _ => false
  end.
Definition is_power_of_two (n : N) : bool :=
  match n with
  | N0 => false
  | Npos p => pos_is_pow2 p
  end.

Definition small_threshold : N := 16 * 1024.

(** src/bytes.rs Bytes::as_piece_length: `self.count().try_into()` to u32 *)
Definition piece_length_bits : N := 32.
Definition as_piece_length (n : N) : option N :=
  if n <? 2 ^ piece_length_bits then Some n else None.

(** * Create::run, restricted to what decides acceptance and the recorded piece length.
    [allowed] = the --allow occurrences in command-line order, [pl] = content.piece_length.count(),
    [priv] = self.private, [ann] = self.announce.is_some(). *)
Inductive result := Ok (recorded : N) | Err (e : error).

Definition run (allowed : list lint) (pl : N) (priv ann : bool) : result :=
  let linter := linter_allow linter_new allowed in
  if is_denied linter PrivateTrackerless && priv && negb ann then Err EPrivateTrackerless else
  if pl =? 0 then Err EPieceLengthZero else
  if is_denied linter UnevenPieceLength && negb (is_power_of_two pl) then Err (EPieceLengthUneven pl) else
  if is_denied linter SmallPieceLength && (pl <? small_threshold) then Err EPieceLengthSmall else
  match as_piece_length pl with
  | None => Err (EPieceLengthTooLarge pl)
  | Some _ => Ok pl (* Info { piece_length: content.piece_length, .. } *)
  end.

(** the same early returns as a table, in source order: (error, guarding lint, condition tag);
    the trailing entry is the `?` on as_piece_length *)
Definition check_table : list (string * option string * string) :=
  [ (error_ident EPrivateTrackerless, Some (lint_ident PrivateTrackerless), "private-and-no-announce");
    (error_ident EPieceLengthZero, None, "piece-length-eq-0");
    (error_ident (EPieceLengthUneven 0), Some (lint_ident UnevenPieceLength), "piece-length-not-power-of-two");
    (error_ident EPieceLengthSmall, Some (lint_ident SmallPieceLength), "piece-length-lt-threshold") ]%string.

(** * Env::status — what the process shows: exit status, the lint named in the `note:` line (the
    line is printed exactly when error.lint() is Some), the piece length in the written torrent *)
Record observed := { exit_code : N; note : option lint; recorded : option N }.

Definition status (allowed : list lint) (pl : N) (priv ann : bool) : observed :=
  match run allowed pl priv ann with
  | Ok v => {| exit_code := 0; note := None; recorded := Some v |}
  | Err e => {| exit_code := 1; note := error_lint e; recorded := None |}
  end.

(** the full `note:` line as Env::status prints it (unstyled) *)
Definition note_line (l : lint) : string :=
  ("note" ++ ": This check can be disabled with `--allow " ++ lint_name l ++ "`.")%string.
Definition note_text (o : observed) : option string := option_map note_line (note o).

(** * the verdict in the vocabulary of the property *)
Inductive verdict := Accept (pl : N) | RejectLint (l : lint) | RejectZero | RejectTooLarge.

Definition decide (allowed : list lint) (pl : N) (priv ann : bool) : verdict :=
  match run allowed pl priv ann with
  | Ok v => Accept v
  | Err e =>
      match error_lint e with
      | Some l => RejectLint l
      | None => match e with EPieceLengthZero => RejectZero | _ => RejectTooLarge end
      end
  end.

(** * specification side: when a lint's condition holds of a request, in the property's words *)
Definition violated (l : lint) (pl : N) (priv ann : bool) : Prop :=
  match l with
  | PrivateTrackerless => priv = true /\ ann = false
  | SmallPieceLength => pl < 16384
  | UnevenPieceLength => ~ exists k, pl = 2 ^ k
  end.

(** * helpers for comparing the tables above with Generated/GenLint.v *)
Fixpoint lookup_str {B : Type} (k : string) (t : list (string * B)) : option B :=
  match t with
  | [] => None
  | (k', v) :: r => if String.eqb k k' then Some v else lookup_str k r
  end.

(** one representative per error variant *)
Definition all_errors : list error :=
  [EPrivateTrackerless; EPieceLengthZero; EPieceLengthUneven 0; EPieceLengthSmall; EPieceLengthTooLarge 0].
