(** End to end (X5): `torrent show` and `torrent link` on the bytes `torrent create` wrote.
    Definitions only.

    Nothing of the layers is repeated here; they are composed:
      Model/Metainfo.v  [build]           : the value create serialises, from the command line ([opts]) and
                                            what walker + hasher hand over ([content])            (C05)
      Model/Bencode.v   [encode]/[decode] : the bytes and the strict reader                       (C04)
      Model/Summary.v   [typed_of_value], [from_input], [show] : the typed loader (with the md5 values, the depth
                                            bound and the i64 rule of X4) and the report of `torrent show` (C07)
      Model/Infohash.v  [infohash_of], [ser_info] : Infohash::from_input / Info::infohash_lossy   (C04)
      Model/Magnet.v    [link_cmd]        : what `torrent link` (and `create --link`) prints      (C10)

    What the layers model differently is an explicit conversion here with a lemma in
    Proofs/EndToEndShowProofs.v, never an assumption: [Metainfo.file] vs [Summary.file] vs [Infohash.tfile];
    the ordered-map builder of C05 ([Schema.mk_dict]) vs the one of C04 ([Infohash.ser_struct]); the
    lookups [Schema.dget] vs [Summary.lookup]; [Metainfo.total_size] vs [Summary.list_sum].

    External code stays what it is in the layers: [norm], [host_canon], [git_suffix] are C05's Section
    variables (url crate on the command line, build-time suffix), [host_disp], [url_norm] are C07's / C10's
    (url crate on what the loader reads), [cal], [human] C07's, [H] C04's. Where the loader runs the url
    crate on text the url crate itself printed at creation, the statement carries the composite
    ([url_norm (norm u)], [host_disp (host_canon (unbracket h))]) and no hypothesis about it. *)
From Coq Require Import String.
From Coq Require Import NArith ZArith List Bool.
From Imdl Require Import Model.Bencode.
From Imdl Require Model.Schema Model.Metainfo Model.Summary Model.Magnet Model.Infohash.
From Imdl Require Generated.GenCreate.
Import ListNotations.
Local Open Scope N_scope.

(* ---------- record shapes ---------- *)

(** hasher.rs: `md5sum` is `Some` exactly when `--md5` was given *)
Definition opt_if (b : bool) (m : bytes) : option bytes := if b then Some m else None.

(** a listed file as the loader hands it on: length, path, and (X4: the typed record keeps it; `torrent show`
    does not print it, the verifier compares it) the MD5 text the hasher wrote - present exactly under `--md5` *)
Definition sfile_of (md5 : bool) (f : Metainfo.file) : Summary.file :=
  {| Summary.f_length := Metainfo.f_length f; Summary.f_path := Metainfo.f_path f;
     Summary.f_md5 := opt_if md5 (Metainfo.f_md5 f) |}.

Definition mode_of (md5 : bool) (i : Metainfo.input) : Summary.mode :=
  match i with
  | Metainfo.InFile _ l m | Metainfo.InStdin l m => Summary.Single l (opt_if md5 m)
  | Metainfo.InDir _ fs => Summary.Multiple (map (sfile_of md5) fs)
  end.

(** the MD5 texts in order: the one of a single-file metainfo, or one per listed file ([None] = no `md5sum` entry) *)
Definition mode_md5s (m : Summary.mode) : list (option bytes) :=
  match m with Summary.Single _ x => [x] | Summary.Multiple fs => map Summary.f_md5 fs end.

(** ... as requested: the hasher's hex text under --md5, nothing otherwise *)
Definition requested_md5s (md5 : bool) (i : Metainfo.input) : list (option bytes) :=
  match i with
  | Metainfo.InFile _ _ x | Metainfo.InStdin _ x => [opt_if md5 x]
  | Metainfo.InDir _ fs => map (fun f => opt_if md5 (Metainfo.f_md5 f)) fs
  end.

Definition is_dir (i : Metainfo.input) : bool :=
  match i with Metainfo.InDir _ _ => true | _ => false end.

Definition listed_files (i : Metainfo.input) : list Metainfo.file :=
  match i with Metainfo.InDir _ fs => fs | _ => [] end.

Definition opt_utf8 (o : option bytes) : bool :=
  match o with Some s => Summary.utf8_valid s | None => true end.

(* ---------- what the loader demands of the content (walker + hasher output) ---------- *)

(** Md5Digest: 32 hex digits (the hasher prints hex::encode of 16 bytes), wanted exactly when --md5 *)
Definition md5_ok (md5 : bool) (m : bytes) : bool :=
  negb md5 || (Nat.eqb (length m) 32 && forallb Summary.is_hex m).

(** FilePath: UTF-8 text, one normal component each (the walker yields nothing else) *)
Definition comp_ok (c : bytes) : bool := Summary.utf8_valid c && Summary.normal_component c.

Definition file_shown_ok (md5 : bool) (f : Metainfo.file) : bool :=
  forallb comp_ok (Metainfo.f_path f) && md5_ok md5 (Metainfo.f_md5 f).

Definition input_shown_ok (md5 : bool) (i : Metainfo.input) : bool :=
  match i with
  | Metainfo.InFile _ _ m | Metainfo.InStdin _ m => md5_ok md5 m
  | Metainfo.InDir _ fs => forallb (file_shown_ok md5) fs
  end.

(** PieceList: whole digests; Metainfo::content_size_fits (repair 0006): the lengths add up within u64 *)
Definition content_shown_ok (md5 : bool) (c : Metainfo.content) : bool :=
  input_shown_ok md5 (Metainfo.c_input c)
  && (N.of_nat (length (Metainfo.c_pieces c)) mod 20 =? 0)
  && (Metainfo.total_size (Metainfo.c_input c) <? 2 ^ 64).

Section Requested.
  (* C05's environment *)
  Variable norm : bytes -> bytes.
  Variable host_canon : bytes -> bytes.
  Variable git_suffix : bytes.
  (* C07's environment *)
  Variable host_disp : bytes -> option bytes.
  Variable url_norm : bytes -> option bytes.

  (** every text create writes is a Rust `String` or the Display of a `Url` / `Host`: valid UTF-8. The model
      keeps byte lists, so the fact is a side condition on exactly the texts written. *)
  Definition texts_utf8 (o : Metainfo.opts) (c : Metainfo.content) : bool :=
    opt_utf8 (option_map norm (Metainfo.o_announce o))
    && forallb (forallb Summary.utf8_valid) (Metainfo.tiers_of o)
    && opt_utf8 (Metainfo.o_comment o)
    && (Metainfo.o_no_created_by o || Summary.utf8_valid (Metainfo.created_by_text git_suffix))
    && opt_utf8 (Metainfo.o_source o)
    && opt_utf8 (Metainfo.name_of o (Metainfo.c_input c))
    && forallb (fun n => Summary.utf8_valid (host_canon (Metainfo.unbracket (fst n)))) (Metainfo.o_nodes o)
    && opt_utf8 (option_map norm (Metainfo.o_update_url o)).

  (** a `--node HOST:PORT` as the report shows it (HostPort's Display, C17): the loader parses the stored
      host again and prints it, IPv6 in brackets, then `:` and the port *)
  Definition node_text (n : bytes * N) : option bytes :=
    match host_disp (host_canon (Metainfo.unbracket (fst n))) with
    | Some t => Some (t ++ [58] ++ dec (snd n))
    | None => None
    end.

  (** the DHT nodes of the report: absent without --node; [None] = the loader refuses a stored host *)
  Definition nodes_text (o : Metainfo.opts) : option (option (list bytes)) :=
    match Metainfo.o_nodes o with
    | [] => Some None
    | ns => match Summary.map_opt node_text ns with Some l => Some (Some l) | None => None end
    end.

  (** the update URL of the report: the stored text is `norm u`; the loader parses it as a Url again *)
  Definition update_text (o : Metainfo.opts) : option (option bytes) :=
    match Metainfo.o_update_url o with
    | None => Some None
    | Some u => match url_norm (norm u) with Some t => Some (Some t) | None => None end
    end.

  (** the typed metainfo the loader must arrive at, written from the command line and the content alone *)
  Definition requested (o : Metainfo.opts) (c : Metainfo.content) (name : bytes)
             (nodes : option (list bytes)) (upd : option bytes) : Summary.metainfo :=
    {| Summary.m_announce := option_map norm (Metainfo.o_announce o);
       Summary.m_announce_list := match Metainfo.tiers_of o with [] => None | ts => Some ts end;
       Summary.m_comment := Metainfo.o_comment o;
       Summary.m_created_by :=
         if Metainfo.o_no_created_by o then None else Some (Metainfo.created_by_text git_suffix);
       Summary.m_creation_date := if Metainfo.o_no_creation_date o then None else Some (Metainfo.o_now o);
       Summary.m_encoding := Some GenCreate.encoding_utf8;
       Summary.m_nodes := nodes;
       Summary.m_private := if Metainfo.o_private o then Some true else None;
       Summary.m_piece_length := Metainfo.piece_length_of o (Metainfo.c_input c);
       Summary.m_name := name;
       Summary.m_source := Metainfo.o_source o;
       Summary.m_pieces := Metainfo.c_pieces c;
       Summary.m_mode := mode_of (Metainfo.o_md5 o) (Metainfo.c_input c);
       Summary.m_update_url := upd |}.

  (** the JSON report `show --json` must print, field by field from the command line and the content
      (the info hash is C04's: it is whatever the caller passes, see [created_bytes_link_back]) *)
  Definition requested_json (o : Metainfo.opts) (c : Metainfo.content) (name : bytes)
             (nodes : option (list bytes)) (upd : option bytes) (torrent_size : N) (ih : bytes)
    : list (bytes * Summary.jv) :=
    let i := Metainfo.c_input c in
    [ (Summary.bs "name", Summary.JvStr name);
      (Summary.bs "comment", Summary.jopt_str (Metainfo.o_comment o));
      (Summary.bs "creation_date",
        Summary.jopt_num (if Metainfo.o_no_creation_date o then None else Some (Metainfo.o_now o)));
      (Summary.bs "created_by",
        Summary.jopt_str (if Metainfo.o_no_created_by o then None
                          else Some (GenCreate.created_by_prefix ++ git_suffix)));
      (Summary.bs "source", Summary.jopt_str (Metainfo.o_source o));
      (Summary.bs "info_hash", Summary.JvStr ih);
      (Summary.bs "torrent_size", Summary.JvNum torrent_size);
      (Summary.bs "content_size", Summary.JvNum (Metainfo.total_size i));
      (Summary.bs "private", Summary.JvBool (Metainfo.o_private o));
      (Summary.bs "tracker", Summary.jopt_str (option_map norm (Metainfo.o_announce o)));
      (Summary.bs "announce_list",
        Summary.JvArr (map (fun t => Summary.JvArr (map Summary.JvStr (Metainfo.split_on 44 t))) (Metainfo.o_tiers o)));
      (Summary.bs "update_url", Summary.jopt_str upd);
      (Summary.bs "dht_nodes", Summary.JvArr (map Summary.JvStr (match nodes with Some l => l | None => [] end)));
      (Summary.bs "piece_size", Summary.JvNum (Metainfo.piece_length_of o i));
      (Summary.bs "piece_count", Summary.JvNum (N.of_nat (length (Metainfo.c_pieces c)) / 20));
      (Summary.bs "file_count", Summary.JvNum (if is_dir i then N.of_nat (length (listed_files i)) else 1));
      (Summary.bs "files",
        Summary.JvArr (if is_dir i
                       then map (fun f => Summary.JvStr (Summary.joined_under name (Metainfo.f_path f))) (listed_files i)
                       else [Summary.JvStr name])) ].
End Requested.

(* ---------- `torrent link INPUT` on given bytes ---------- *)

Section Link.
  Variable H : bytes -> bytes.                   (* SHA-1 *)
  Variable host_disp : bytes -> option bytes.
  Variable url_norm : bytes -> option bytes.

  (** link.rs: Infohash::from_input, then Metainfo::from_input - [Summary.from_input], the one typed loader of
      `show`, `link` and `verify` (bendy's serde reader: nesting at most [BencodeWide.max_depth], i64 for what is
      skipped or buffered) -, name, trackers(), --peer, --select-only; [md] = the depth limit of
      Infohash::decode_value for the generic decoding *)
  Definition link_file (md : option N) (tb : bytes) (peers : list bytes) (select_only : list N) : option bytes :=
    match Infohash.infohash_of bytes H md tb with
    | None => None
    | Some ih =>
        match Summary.from_input host_disp url_norm tb with
        | Some m =>
            Magnet.link_cmd url_norm ih (Summary.m_name m) (Summary.m_announce m)
              (match Summary.m_announce_list m with Some t => t | None => [] end) peers select_only
        | None => None
        end
    end.
End Link.

(* ---------- `torrent create --link`: the lossy path, from the typed struct create holds ---------- *)

Definition tfile_of (md5 : bool) (f : Metainfo.file) : Infohash.tfile :=
  {| Infohash.tf_length := Metainfo.f_length f; Infohash.tf_path := Metainfo.f_path f;
     Infohash.tf_md5sum := opt_if md5 (Metainfo.f_md5 f) |}.

Definition tmode_of (md5 : bool) (i : Metainfo.input) : Infohash.tmode :=
  match i with
  | Metainfo.InFile _ l m | Metainfo.InStdin l m => Infohash.TSingle l (opt_if md5 m)
  | Metainfo.InDir _ fs => Infohash.TMultiple (map (tfile_of md5) fs)
  end.

Section CreateLink.
  Variable norm : bytes -> bytes.
  Variable host_canon : bytes -> bytes.
  Variable git_suffix : bytes.
  Variable H : bytes -> bytes.
  Variable url_norm : bytes -> option bytes.

  (** the `Info` struct of create.rs *)
  Definition tinfo_of (o : Metainfo.opts) (c : Metainfo.content) (name : bytes) : Infohash.tinfo :=
    {| Infohash.ti_private := if Metainfo.o_private o then Some true else None;
       Infohash.ti_piece_length := Metainfo.piece_length_of o (Metainfo.c_input c);
       Infohash.ti_name := name;
       Infohash.ti_source := Metainfo.o_source o;
       Infohash.ti_pieces := Metainfo.c_pieces c;
       Infohash.ti_mode := tmode_of (Metainfo.o_md5 o) (Metainfo.c_input c);
       Infohash.ti_update_url := option_map norm (Metainfo.o_update_url o) |}.

  (** MagnetLink::from_metainfo_lossy(&metainfo) then --peer: infohash_lossy, the name, trackers() *)
  Definition create_link (o : Metainfo.opts) (c : Metainfo.content) (peers : list bytes) : option bytes :=
    match Metainfo.name_of o (Metainfo.c_input c) with
    | None => None
    | Some name =>
        match Infohash.ser_info (tinfo_of o c name) with
        | None => None
        | Some typed =>
            Magnet.link_cmd url_norm (H typed) name (option_map norm (Metainfo.o_announce o))
              (Metainfo.tiers_of o) peers []
        end
    end.

  (** the fields of the `Metainfo` struct other than `info`, as bendy is handed them *)
  Definition other_entries (o : Metainfo.opts) : list (bytes * option value) :=
    [ (Metainfo.kM_announce, option_map (Metainfo.url_value norm) (Metainfo.o_announce o));
      (Metainfo.kM_announce_list,
        match Metainfo.tiers_of o with [] => None | ts => Some (Metainfo.tiers_value ts) end);
      (Metainfo.kM_comment, Metainfo.opt_str (Metainfo.o_comment o));
      (Metainfo.kM_created_by,
        if Metainfo.o_no_created_by o then None else Some (Str (Metainfo.created_by_text git_suffix)));
      (Metainfo.kM_creation_date,
        if Metainfo.o_no_creation_date o then None else Some (Metainfo.int_of (Metainfo.o_now o)));
      (Metainfo.kM_encoding, Some (Str GenCreate.encoding_utf8));
      (Metainfo.kM_nodes,
        match Metainfo.o_nodes o with [] => None | ns => Some (Lst (map (Metainfo.node_value host_canon) ns)) end) ].
End CreateLink.

(** the fields that are present ([skip_serializing_if = "Option::is_none"]) *)
Fixpoint present (es : list (bytes * option value)) : list (bytes * value) :=
  match es with
  | [] => []
  | (k, Some v) :: r => (k, v) :: present r
  | (_, None) :: r => present r
  end.

(* ---------- executable entry points for the correspondence run ----------
   command line + content -> [build] -> [encode] -> `show` / `link` (and `create --link`). The driver
   instantiates the Section variables by the recorded behaviour of the url crate / chrono / Bytes' Display
   on exactly the strings of the case; SHA-1 is a table too (the digest of the one span that is hashed,
   computed with hashlib by the check). *)
(** a listed file from its parts: since X4 both [Metainfo.file] and [Summary.file] have a field [f_md5], and the
    extraction renames the fields of whichever record comes second - the driver builds the record through this *)
Definition mk_file (path : list bytes) (len : N) (md5 : bytes) : Metainfo.file :=
  {| Metainfo.f_path := path; Metainfo.f_length := len; Metainfo.f_md5 := md5 |}.

Definition e2e_show (norm host_canon : bytes -> bytes) (git_suffix : bytes)
           (cal : N -> option bytes) (human : N -> bytes) (host_disp url_norm : bytes -> option bytes)
           (o : Metainfo.opts) (c : Metainfo.content) (ih : bytes) : option (bytes * Summary.outcome) :=
  match Metainfo.build norm host_canon git_suffix o c with
  | None => None
  | Some v =>
      let tb := encode v in
      Some (tb, Summary.show cal human host_disp url_norm Summary.FromPath tb ih)
  end.

(** the MD5 texts [Summary.from_input] - the loader shared by `show`, `link` and `verify` - carries for the created bytes *)
Definition e2e_md5s (norm host_canon : bytes -> bytes) (git_suffix : bytes) (host_disp url_norm : bytes -> option bytes)
           (o : Metainfo.opts) (c : Metainfo.content) : option (list (option bytes)) :=
  match Metainfo.build norm host_canon git_suffix o c with
  | None => None
  | Some v =>
      match Summary.from_input host_disp url_norm (encode v) with
      | Some m => Some (mode_md5s (Summary.m_mode m))
      | None => None
      end
  end.

(** replies: the bytes, the span `link` hashes, the link of `torrent link`, the link of `create --link` *)
Definition e2e_link (norm host_canon : bytes -> bytes) (git_suffix : bytes)
           (H : bytes -> bytes) (host_disp url_norm : bytes -> option bytes) (md : option N)
           (o : Metainfo.opts) (c : Metainfo.content) (peers : list bytes) (select_only : list N)
  : option (bytes * (option bytes * (option bytes * option bytes))) :=
  match Metainfo.build norm host_canon git_suffix o c with
  | None => None
  | Some v =>
      let tb := encode v in
      Some (tb, (Infohash.hashed_bytes md tb,
                 (link_file H host_disp url_norm md tb peers select_only,
                  create_link norm H url_norm o c peers)))
  end.
