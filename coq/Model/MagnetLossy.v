(** C10 / X12: imdl's magnet parser ([Magnet.own_parse]) with the concrete model of String::from_utf8_lossy
    ([Utf8.lossy]) in the place of the Section variable [lossy]. Definitions only.

    The typed parsers stay external: the runner passes tracker and peer texts through untouched (as [Magnet.run_parse]
    does) and the check compares them modulo the normal forms obtained through the hooks. *)
From Coq Require Import NArith List.
From Imdl Require Import Model.Bencode Model.Magnet.
From Imdl Require Model.Utf8.

Definition own_parse_lossy (url_norm hp_norm : bytes -> option bytes) (text : bytes) : outcome :=
  own_parse Utf8.lossy url_norm hp_norm text.

(** entry point for the runner *)
Definition run_parse_lossy (text : bytes) : outcome := own_parse_lossy some_bytes some_bytes text.
