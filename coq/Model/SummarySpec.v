(** C07, specification side: what the file says, read off the decoded bencode value by direct lookups
    with no typing, validation or defaults beyond "absent"; and the documented maps from the JSON values to
    the values of the text renderings. Definitions only. *)
From Coq Require Import Decimal DecimalN DecimalFacts.
From Coq Require Import Ascii String.
From Coq Require Import NArith ZArith Bool List.
From Imdl Require Import Model.Bencode Model.Summary.
Import ListNotations.
Local Open Scope N_scope.

Definition top_of (v : value) : list (bytes * value) := match v with Dict d => d | _ => [] end.
Definition info_of (v : value) : list (bytes * value) :=
  match lookup k_info (top_of v) with Some (Dict i) => i | _ => [] end.

Definition get_str (k : bytes) (d : list (bytes * value)) : option bytes :=
  match lookup k d with Some (Str s) => Some s | _ => None end.
Definition get_nat (k : bytes) (d : list (bytes * value)) : option N :=
  match lookup k d with Some (Int z) => Some (Z.to_N z) | _ => None end.
Definition str_or_nil (o : option bytes) : bytes := match o with Some s => s | None => [] end.
Definition nat_or_0 (o : option N) : N := match o with Some n => n | None => 0 end.

Definition raw_str (v : value) : bytes := match v with Str s => s | _ => [] end.
Definition raw_strs (v : value) : list bytes := match v with Lst l => map raw_str l | _ => [] end.
Definition raw_tiers (o : option value) : list (list bytes) :=
  match o with Some (Lst l) => map raw_strs l | _ => [] end.

Definition raw_files (i : list (bytes * value)) : list value :=
  match lookup k_files i with Some (Lst l) => l | _ => [] end.
(** a file entry is a dictionary with `length` and `path`, or (serde's sequence form of a struct, accepted by the
    real binary) the list [length, path, ...] *)
Definition raw_file_len (f : value) : N :=
  match f with
  | Lst (Int z :: _) => Z.to_N z
  | Lst _ => 0
  | _ => nat_or_0 (get_nat k_length (top_of f))
  end.
Definition raw_file_path (f : value) : list bytes :=
  match f with
  | Lst (_ :: p :: _) => raw_strs p
  | Lst _ => []
  | _ => match lookup k_path (top_of f) with Some p => raw_strs p | None => [] end
  end.

Section Spec.
  Variable cal : N -> option bytes.
  Variable human : N -> bytes.
  Variable host_disp : bytes -> option bytes.
  Variable url_norm : bytes -> option bytes.

  (** a node is the two-element list [host, port], shown as host:port with the host as url::Host displays it *)
  Definition raw_node (v : value) : bytes :=
    match v with
    | Lst [Str h; Int p] => match host_disp h with Some t => t ++ [58] ++ dec (Z.to_N p) | None => [] end
    | _ => []
    end.
  Definition raw_nodes (o : option value) : list bytes :=
    match o with Some (Lst l) => map raw_node l | _ => [] end.

  (** The report the property describes. [single] says which of the two file-list readings applies
      (a `length` entry, or a `files` list); [c07_mode_reading] shows the chosen one is present in the file. *)
  Definition spec_json (single : bool) (v : value) (input_len : N) (ih : bytes) : list (bytes * jv) :=
    let t := top_of v in
    let i := info_of v in
    let name := str_or_nil (get_str k_name i) in
    [ (lit "name", JvStr name);
      (lit "comment", jopt_str (get_str k_comment t));
      (lit "creation_date", jopt_num (get_nat k_creation_date t));
      (lit "created_by", jopt_str (get_str k_created_by t));
      (lit "source", jopt_str (get_str k_source i));
      (lit "info_hash", JvStr ih);
      (lit "torrent_size", JvNum input_len);
      (lit "content_size", JvNum (if single then nat_or_0 (get_nat k_length i)
                                  else list_sum (map raw_file_len (raw_files i))));
      (lit "private", JvBool (match get_nat k_private i with Some 1 => true | _ => false end));
      (lit "tracker", jopt_str (get_str k_announce t));
      (lit "announce_list", JvArr (map (fun tier => JvArr (map JvStr tier)) (raw_tiers (lookup k_announce_list t))));
      (lit "update_url", jopt_str (match get_str k_update_url i with Some s => url_norm s | None => None end));
      (lit "dht_nodes", JvArr (map JvStr (raw_nodes (lookup k_nodes t))));
      (lit "piece_size", JvNum (nat_or_0 (get_nat k_piece_length i)));
      (lit "piece_count", JvNum (N.of_nat (List.length (str_or_nil (get_str k_pieces i))) / 20));
      (lit "file_count", JvNum (if single then 1 else N.of_nat (List.length (raw_files i))));
      (lit "files", JvArr (if single then [JvStr name]
                           else map (fun f => JvStr (joined_under name (raw_file_path f))) (raw_files i))) ].

  (* ---------- the documented rendering maps (DESIGN.md, C07) ---------- *)
  (** JSON field -> text label *)
  Definition label_map : list (bytes * bytes) :=
    [ (lit "name", lit "Name"); (lit "comment", lit "Comment"); (lit "creation_date", lit "Creation Date");
      (lit "created_by", lit "Created By"); (lit "source", lit "Source"); (lit "info_hash", lit "Info Hash");
      (lit "torrent_size", lit "Torrent Size"); (lit "content_size", lit "Content Size"); (lit "private", lit "Private");
      (lit "tracker", lit "Tracker"); (lit "announce_list", lit "Announce List"); (lit "update_url", lit "Update URL");
      (lit "dht_nodes", lit "DHT Nodes"); (lit "piece_size", lit "Piece Size"); (lit "piece_count", lit "Piece Count");
      (lit "file_count", lit "File Count"); (lit "files", lit "Files") ].

  Definition is_size_key (k : bytes) : bool :=
    bytes_eqb k (lit "torrent_size") || bytes_eqb k (lit "content_size") || bytes_eqb k (lit "piece_size").

  Definition jv_strings (j : jv) : list bytes :=
    match j with
    | JvStr s => [s]
    | JvArr l => flat_map (fun y => match y with JvStr s => [s] | _ => [] end) l
    | _ => []
    end.

  (** values a JSON field contributes to a text row: null -> none; string -> itself; number -> decimal
      (the creation date through the calendar, sizes through [size]); private -> yes/no; lists flattened *)
  Definition values_of (size : N -> bytes) (key : bytes) (j : jv) : list bytes :=
    match j with
    | JvNull => []
    | JvStr s => [s]
    | JvNum n => if bytes_eqb key (lit "creation_date") then [date_text cal n]
                 else if is_size_key key then [size n] else [dec n]
    | JvBool b => [if b then lit "yes" else lit "no"]
    | JvArr l => flat_map jv_strings l
    end.

  Definition row_values (f : cell -> list bytes) (t : list (bytes * cell)) (label : bytes) : list bytes :=
    match find (fun row => bytes_eqb (fst row) label) t with Some row => f (snd row) | None => [] end.
  Definition jfield (j : list (bytes * jv)) (key : bytes) : jv :=
    match find (fun kv => bytes_eqb (fst kv) key) j with Some kv => snd kv | None => JvNull end.

  (** every JSON field except the file list, paired with its text label *)
  Definition scalar_keys : list (bytes * bytes) := removelast label_map.

  Definition same_values (size : N -> bytes) (f : cell -> list bytes) (t : list (bytes * cell)) (j : list (bytes * jv)) : Prop :=
    Forall (fun kl => row_values f t (snd kl) = values_of size (fst kl) (jfield j (fst kl))) scalar_keys.

  Definition row_kind (c : cell) : string :=
    match c with Scalar _ => "row" | Size _ => "size" | LList _ => "list" | Tiers _ => "tiers" | Directory _ _ => "directory" end%string.

  Fixpoint is_subseq (a b : list (bytes * string)) : bool :=
    match a, b with
    | [], _ => true
    | _ :: _, [] => false
    | x :: a', y :: b' =>
        if bytes_eqb (fst x) (fst y) && String.eqb (snd x) (snd y) then is_subseq a' b' else is_subseq a b'
    end.
End Spec.
