(** Strict bencode as bendy 0.3.3 reads and writes it (C04; reused by C05, C07, C11).
    Definitions only. [decode] mirrors the tokenizer + state tracker: canonical integers and
    lengths, strictly increasing dictionary keys (bytewise), i64 range for integers, trailing
    bytes returned, not rejected. Recursion is on explicit fuel (None when exhausted). *)
From Coq Require Import Decimal DecimalN DecimalFacts.
From Coq Require Import NArith ZArith Bool List.
Import ListNotations.
Local Open Scope N_scope.

Notation byte := N (only parsing).
Notation bytes := (list N) (only parsing).

(* ---------- decimal text ---------- *)
Fixpoint uint_bytes (u : uint) : bytes :=
  match u with
  | Nil => []
  | D0 u => 48 :: uint_bytes u | D1 u => 49 :: uint_bytes u | D2 u => 50 :: uint_bytes u
  | D3 u => 51 :: uint_bytes u | D4 u => 52 :: uint_bytes u | D5 u => 53 :: uint_bytes u
  | D6 u => 54 :: uint_bytes u | D7 u => 55 :: uint_bytes u | D8 u => 56 :: uint_bytes u
  | D9 u => 57 :: uint_bytes u
  end.

Definition digit_of (b : byte) : option (uint -> uint) :=
  match b with
  | 48 => Some D0 | 49 => Some D1 | 50 => Some D2 | 51 => Some D3 | 52 => Some D4
  | 53 => Some D5 | 54 => Some D6 | 55 => Some D7 | 56 => Some D8 | 57 => Some D9
  | _ => None
  end.

Definition is_digit (b : byte) : bool := match digit_of b with Some _ => true | None => false end.

Fixpoint take_digits (bs : bytes) : uint * bytes :=
  match bs with
  | [] => (Nil, [])
  | b :: r => match digit_of b with
              | Some d => let '(u, r') := take_digits r in (d u, r')
              | None => (Nil, bs)
              end
  end.

Definition canon (u : uint) : bool :=
  match u with Nil => false | D0 Nil => true | D0 _ => false | _ => true end.

Definition dec (n : N) : bytes := uint_bytes (N.to_uint n).

(* ---------- values ---------- *)
Inductive value :=
| Int (z : Z)
| Str (s : bytes)
| Lst (l : list value)
| Dict (d : list (bytes * value)).

Definition enc_str (s : bytes) : bytes := dec (N.of_nat (length s)) ++ 58 :: s.
Definition enc_int (z : Z) : bytes :=
  105 :: (if (z <? 0)%Z then [45] else []) ++ dec (Z.abs_N z) ++ [101].

Fixpoint encode (v : value) : bytes :=
  match v with
  | Int z => enc_int z
  | Str s => enc_str s
  | Lst l => 108 :: flat_map encode l ++ [101]
  | Dict d => 100 :: flat_map (fun kv => enc_str (fst kv) ++ encode (snd kv)) d ++ [101]
  end.

Fixpoint bytes_ltb (a b : bytes) : bool :=
  match a, b with
  | [], [] => false
  | [], _ :: _ => true
  | _ :: _, [] => false
  | x :: a', y :: b' => if x <? y then true else if y <? x then false else bytes_ltb a' b'
  end.

Definition i64_ok (z : Z) : bool := ((- 2 ^ 63 <=? z) && (z <? 2 ^ 63))%Z.

Definition hd_is (c : byte) (bs : bytes) : option bytes :=
  match bs with b :: r => if b =? c then Some r else None | [] => None end.

Definition nonzero_start (u : uint) : bool :=
  match u with Nil => false | D0 _ => false | _ => true end.

Definition dec_int (r : bytes) : option (value * bytes) :=
  match hd_is 45 r with
  | Some r1 =>
      let '(u, r2) := take_digits r1 in
      if nonzero_start u then
        match hd_is 101 r2 with
        | Some r3 => let z := (- Z.of_N (N.of_uint u))%Z in
                     if i64_ok z then Some (Int z, r3) else None
        | None => None
        end
      else None
  | None =>
      let '(u, r2) := take_digits r in
      if canon u then
        match hd_is 101 r2 with
        | Some r3 => let z := Z.of_N (N.of_uint u) in
                     if i64_ok z then Some (Int z, r3) else None
        | None => None
        end
      else None
  end.

Definition dec_str (bs : bytes) : option (bytes * bytes) :=
  let '(u, r) := take_digits bs in
  if canon u then
    match hd_is 58 r with
    | Some r1 =>
        let n := N.to_nat (N.of_uint u) in
        if Nat.leb n (length r1) then Some (firstn n r1, skipn n r1) else None
    | None => None
    end
  else None.

Fixpoint decode (fuel : nat) (bs : bytes) {struct fuel} : option (value * bytes) :=
  match fuel with
  | O => None
  | S f =>
      match hd_is 105 bs with
      | Some r => dec_int r
      | None =>
      match hd_is 108 bs with
      | Some r => match decode_list f r with Some (l, r') => Some (Lst l, r') | None => None end
      | None =>
      match hd_is 100 bs with
      | Some r => match decode_dict f None r with Some (d, r') => Some (Dict d, r') | None => None end
      | None => match dec_str bs with Some (s, r) => Some (Str s, r) | None => None end
      end end end
  end
with decode_list (fuel : nat) (bs : bytes) {struct fuel} : option (list value * bytes) :=
  match fuel with
  | O => None
  | S f =>
      match hd_is 101 bs with
      | Some r => Some ([], r)
      | None => match decode f bs with
             | Some (v, r) => match decode_list f r with
                              | Some (vs, r') => Some (v :: vs, r')
                              | None => None
                              end
             | None => None
             end
      end
  end
with decode_dict (fuel : nat) (last : option bytes) (bs : bytes) {struct fuel}
  : option (list (bytes * value) * bytes) :=
  match fuel with
  | O => None
  | S f =>
      match hd_is 101 bs with
      | Some r => Some ([], r)
      | None => match dec_str bs with
             | Some (k, r) =>
                 if (match last with None => true | Some l => bytes_ltb l k end) then
                   match decode f r with
                   | Some (v, r1) => match decode_dict f (Some k) r1 with
                                     | Some (kvs, r2) => Some ((k, v) :: kvs, r2)
                                     | None => None
                                     end
                   | None => None
                   end
                 else None
             | None => None
             end
      end
  end.

(* ---------- exactness: what decode consumed is what encode prints ---------- *)

(* ================= other direction: well-formed values decode back ================= *)

Fixpoint keys_sorted (last : option bytes) (ks : list bytes) : bool :=
  match ks with
  | [] => true
  | k :: ks' => (match last with None => true | Some l => bytes_ltb l k end) && keys_sorted (Some k) ks'
  end.

Fixpoint wfb (v : value) : bool :=
  match v with
  | Int z => i64_ok z
  | Str _ => true
  | Lst l => forallb wfb l
  | Dict d => keys_sorted None (map fst d) && forallb (fun kv => wfb (snd kv)) d
  end.

Fixpoint vsize (v : value) : nat :=
  match v with
  | Int _ | Str _ => 1%nat
  | Lst l => S (fold_right (fun v n => (vsize v + S n)%nat) 1%nat l)
  | Dict d => S (fold_right (fun kv n => (vsize (snd kv) + S n)%nat) 1%nat d)
  end.
Definition lfuel (l : list value) : nat := fold_right (fun v n => (vsize v + S n)%nat) 1%nat l.
Definition dfuel (d : list (bytes * value)) : nat :=
  fold_right (fun kv n => (vsize (snd kv) + S n)%nat) 1%nat d.

(* fuel monotonicity *)

(* first bytes *)

(* first byte of an encoding is never 'e' and identifies the kind *)
Inductive kind := KInt | KLst | KDict | KStr.
Definition kind_of (v : value) := match v with Int _ => KInt | Str _ => KStr | Lst _ => KLst | Dict _ => KDict end.

Definition enc_kv (kv : bytes * value) : bytes := enc_str (fst kv) ++ encode (snd kv).
