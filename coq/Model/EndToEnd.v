(** End to end (C02): the bytes `torrent create` writes, read back by the loader of
    `torrent verify`. Definitions only.

    Three models meet here and nothing of them is repeated:
      Model/CreateVerify.v  [create_t]  : the creation result, as the [Verify.torrent] record;
      Model/Metainfo.v      [build]     : the metainfo value create serialises (C05), from the
                                          command line ([opts]) and what walker + hasher hand over
                                          ([content]: files with lengths and MD5 hex text, the
                                          piece string);
      Model/Verify.v        [load]      : bytes -> the record the verifier checks (C03).
    [metainfo_of] is the bridge from the first to the second: the record shapes differ (digest
    list vs. one string; raw 16-byte MD5 vs. 32 hex digits, src/md5_digest.rs; [tfile] vs.
    [Metainfo.file]), so each difference is an explicit conversion with a lemma in
    Proofs/EndToEndProofs.v, never an assumption. *)
From Coq Require Import NArith ZArith List Bool.
From Imdl Require Import Base.Chunks Model.Bencode Model.Fs Model.Verify Model.CreateVerify.
From Imdl Require Model.Schema Model.Metainfo Model.Hasher.
Import ListNotations.
Local Open Scope N_scope.

(** ** md5_digest.rs: `hex::encode` (lower case), two digits per byte *)
Definition hexdigit (x : N) : N := if x <? 10 then 48 + x else 87 + x.

Definition hex (s : bytes) : bytes := flat_map (fun b => [hexdigit (b / 16); hexdigit (b mod 16)]) s.

Definition md5_text (m : option bytes) : bytes := match m with Some d => hex d | None => [] end.

(** ** the C05 input that corresponds to a creation result *)
Definition file_of (f : tfile) : Metainfo.file :=
  {| Metainfo.f_path := fpath f; Metainfo.f_length := flen f; Metainfo.f_md5 := md5_text (fmd5 f) |}.

Definition input_of (t : torrent) : Metainfo.input :=
  match tmode t with
  | Single len m => Metainfo.InFile (tname t) len (md5_text m)
  | Multiple fs => Metainfo.InDir (tname t) (map file_of fs)
  end.

(** files in listed order; pieces = the 20-byte digests one after the other *)
Definition content_of (t : torrent) : Metainfo.content :=
  {| Metainfo.c_input := input_of t; Metainfo.c_pieces := concat (tpieces t) |}.

(** the command line [o] with the three options that also reach the hasher set to what the
    hasher was given; every other option is kept as it is *)
Definition opts_of (o : Metainfo.opts) (md5 : bool) (t : torrent) : Metainfo.opts :=
  {| Metainfo.o_announce := Metainfo.o_announce o; Metainfo.o_tiers := Metainfo.o_tiers o;
     Metainfo.o_comment := Metainfo.o_comment o; Metainfo.o_source := Metainfo.o_source o;
     Metainfo.o_nodes := Metainfo.o_nodes o; Metainfo.o_private := Metainfo.o_private o;
     Metainfo.o_update_url := Metainfo.o_update_url o;
     Metainfo.o_name := Some (tname t);
     Metainfo.o_piece_length := Some (tplen t);
     Metainfo.o_md5 := md5;
     Metainfo.o_no_created_by := Metainfo.o_no_created_by o;
     Metainfo.o_no_creation_date := Metainfo.o_no_creation_date o;
     Metainfo.o_allow_small := Metainfo.o_allow_small o; Metainfo.o_allow_uneven := Metainfo.o_allow_uneven o;
     Metainfo.o_allow_private_trackerless := Metainfo.o_allow_private_trackerless o;
     Metainfo.o_now := Metainfo.o_now o |}.

Definition metainfo_of (o : Metainfo.opts) (md5 : bool) (t : torrent) : Metainfo.opts * Metainfo.content :=
  (opts_of o md5 t, content_of t).

(** more generally, any command line that agrees with what the hasher was given: the name is
    --name or else the input's own file name, the piece length is --piece-length or else the
    picker's choice for the total size, --md5 is the flag *)
Definition agrees (o : Metainfo.opts) (md5 : bool) (t : torrent) : Prop :=
  Metainfo.name_of o (input_of t) = Some (tname t) /\
  Metainfo.piece_length_of o (input_of t) = tplen t /\
  Metainfo.o_md5 o = md5.

(** ** exactly what the loader demands of a torrent for its serialisation to load back
    (strings valid UTF-8, components plain, digests of 20 / 16 bytes that are bytes, an MD5 on
    every file exactly when --md5, integers that fit bendy's i64) *)
Definition md5_shape (md5 : bool) (m : option bytes) : bool :=
  match m with
  | Some d => md5 && Nat.eqb (length d) 16 && forallb (fun x => x <? 256) d
  | None => negb md5
  end.

Definition comp_ok (c : bytes) : bool := utf8_ok c && plain c.

Definition tfile_ok (md5 : bool) (f : tfile) : bool :=
  forallb comp_ok (fpath f) && md5_shape md5 (fmd5 f).

Definition mode_ok (md5 : bool) (m : mode) : bool :=
  match m with
  | Single _ d => md5_shape md5 d
  | Multiple fs => forallb (tfile_ok md5) fs
  end.

Definition torrent_ok (md5 : bool) (t : torrent) : bool :=
  utf8_ok (tname t) && (tplen t <? 2 ^ 63) &&
  forallb (fun d => Nat.eqb (length d) 20) (tpieces t) &&
  Metainfo.input_ok (input_of t) && mode_ok md5 (tmode t).

Definition utf8_path (p : list bytes) : Prop := Forall (fun c => utf8_ok c = true) p.

(** ** `imdl torrent verify` on given torrent bytes, content root already resolved *)
Section VerifyBytes.
Variable H : bytes -> bytes.
Variable MD5 : bytes -> bytes.

Definition verify_bytes (vsch : nat -> N) (fs : node) (root : bytes) (tb : bytes) : option bool :=
  match load tb with
  | Some t => verify H MD5 vsch fs root t
  | None => Some false                    (* Rejected: exit status 1, nothing verified *)
  end.
End VerifyBytes.

(* ---------- executable entry points for the correspondence run ----------
   create (hasher loop, real digests supplied by the driver) -> metainfo value (C05) ->
   bytes -> loader (C03). [e2e_run] returns the creation result, whether the side conditions of
   [created_bytes_load_back] hold for it, the bytes, and what the loader makes of them;
   [e2e_load] is the loader alone, for the bytes the real binary wrote. Torrents are flattened
   to standard types for the OCaml driver: (name, piece length, pieces, is Multiple,
   [(path, length, md5)]) - a single file has the empty path. *)
Definition flat_t : Type :=
  (list N * (N * (list (list N) * (bool * list (list (list N) * (N * option (list N)))))))%type.

Definition flatten_t (t : torrent) : flat_t :=
  (tname t, (tplen t, (tpieces t,
    match tmode t with
    | Single len m => (false, [([], (len, m))])
    | Multiple fs => (true, map (fun f => (fpath f, (flen f, fmd5 f))) fs)
    end))).

Definition e2e_load (tb : bytes) : option flat_t := option_map flatten_t (load tb).

Definition e2e_run (H MD5 : bytes -> bytes) (o : Metainfo.opts) (md5 : bool) (p : N) (name : bytes)
           (csch : nat -> nat) (src : node) (sel : list (list bytes))
  : option (flat_t * (bool * (bytes * option flat_t))) :=
  match create_t H MD5 md5 p name (sched_of_fun csch) src sel with
  | None => None
  | Some t =>
      match Metainfo.build (fun u => u) (fun h => h) [] (opts_of o md5 t) (content_of t) with
      | None => None
      | Some v => Some (flatten_t t, (torrent_ok md5 t && Metainfo.opts_ok o, (encode v, e2e_load (encode v))))
      end
  end.
