(** Default locations of `torrent create` and `torrent verify` (C02). Definitions only.

    Builds on Model/CreateFs.v (C09), which already models std::path as (absolute?, component
    list), [join], the lexiclean crate, [Env::resolve] and [CreateContent::torrent_path]:

      fn torrent_path(input: &Path, name: &str) -> PathBuf {
        input.join("..").lexiclean().join(format!("{name}.torrent"))
      }

    Added here, from src/subcommand/torrent/verify.rs [Verify::run]:

      .unwrap_or_else(|| match target {
        InputTarget::Path(path) => path.join("..").join(&metainfo.info.name).lexiclean(),
        ...
      let status = metainfo.verify(&env.resolve(content)?, progress_bar)?;

    The same rule is modelled on path *strings* in Model/Verify.v ([content_root], used by the
    verifier model); the two are compared on every case of the correspondence run. *)
From Coq Require Import NArith List Bool.
From Imdl Require Import Model.CreateFs.
Import ListNotations.
Local Open Scope N_scope.

(** path.join("..").join(&name).lexiclean() *)
Definition verify_default_root (torrent : ppath) (name : list N) : ppath :=
  lexiclean (join (join torrent dotdot_path) (parse_path name)).

(** [Path::file_name] of a resolved (absolute, clean) path *)
Definition file_name (p : path) : option (list N) :=
  match rev p with [] => None | c :: _ => Some c end.

(** one normal path component: what a file name is *)
Definition plain_name (c : list N) : bool :=
  negb (is_nil c) && negb (is_dot c) && negb (is_dotdot c) && forallb (fun b => negb (b =? 47)) c.

(** for the correspondence run: given the working directory and the input argument, the name
    create derives, where it writes the torrent by default, and where verify (given that
    torrent path as it was given to create's user, and no --content) looks for the content *)
Definition default_locations (cwd input : list N) : option (list N * (path * path)) :=
  let cw := p_comps (parse_path cwd) in
  let ip := parse_path input in
  match file_name (env_resolve cw ip) with
  | None => None
  | Some nm =>
      let tp := torrent_path ip nm in
      Some (nm, (env_resolve cw tp, env_resolve cw (verify_default_root tp nm)))
  end.

(** verify's default root for a torrent path given as text *)
Definition default_root_of (cwd torrent name : list N) : path :=
  env_resolve (p_comps (parse_path cwd)) (verify_default_root (parse_path torrent) name).
