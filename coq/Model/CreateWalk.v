(** The whole `imdl torrent create` pipeline: walker, then hasher, then metainfo (X7).
    Definitions only.

    So far [CreateVerify.create_t] took the walker's selection [sel] as given and [Walk.walk]
    (C06) listed a tree that carries sizes only. Here the two meet:

    - [erase]: the content tree of the verifier models ([Fs.node]) seen through the walker's
      eyes ([Walk.tree]): a regular file becomes its length (`metadata.len()`), a directory
      keeps its entries in the same enumeration order. [Fs.node] has no symlinks, so the erased
      tree is link-free; on such trees `--follow-symlinks` is irrelevant
      (Proofs/CreateWalkProofs.v, [walk_erase_follow_irrelevant]). Symlinks stay outside, as they
      are outside Model/Fs.v's [resolve] and outside the verifier model. A size-erasing map (and
      not a content-carrying copy of the walker's tree) keeps every theorem of
      Proofs/WalkProofs.v applicable as it is.
    - [wf_node]: what every real directory tree satisfies: sibling names are distinct and each
      name is one plain path component (not empty, not `.`, not `..`, no `/`).
    - [selection]: `Walker::files` on the input: the root-relative paths [Files::dir] hands to
      the hasher, in the walker's order (through the real [SortSpec] comparison, user sort keys
      included); a regular file as the input needs no selection ([Files::file]).
    - [create_walk] = [create_t] on exactly that selection. Nothing else is new: the hasher loop
      is Model/Hasher.v's, the torrent record is Model/Verify.v's.
    - [walker_selects]: the documented meaning, without reference to the traversal: the path
      names a regular file below the input and passes [Walk.included] (no hidden component unless
      --include-hidden, last component not junk unless --include-junk, the glob rule).
    - [create_walk_bytes]: the bytes written, through C05's [Metainfo.build] and C04's [encode].
    - [node_perm]: the same tree with directories enumerated in another order.
    globset, SHA-1 and MD5 are [Section] variables. *)
From Coq Require Import NArith List Bool.
From Imdl Require Import Base.Chunks Model.Bencode Model.Fs Model.Verify Model.CreateVerify.
From Imdl Require Model.Walk Model.Hasher Model.Metainfo Model.EndToEnd.
Import ListNotations.
Local Open Scope N_scope.

(** the walker's view of a content tree: `metadata.len()` instead of the bytes *)
Fixpoint erase (n : node) : Walk.tree :=
  match n with
  | File c => Walk.WFile (blen c)
  | Dir ch => Walk.WDir (map (fun kv => (fst kv, erase (snd kv))) ch)
  end.

(** true of any directory tree the operating system shows *)
Inductive wf_node : node -> Prop :=
| wf_file c : wf_node (File c)
| wf_dir ch :
    NoDup (map fst ch) ->
    Forall (fun kv => plain (fst kv) = true) ch ->
    Forall (fun kv => wf_node (snd kv)) ch ->
    wf_node (Dir ch).

(** every name in the tree is valid UTF-8 (only needed where the written bytes are read back) *)
Inductive utf8_node : node -> Prop :=
| u8_file c : utf8_node (File c)
| u8_dir ch :
    Forall (fun kv => utf8_ok (fst kv) = true) ch ->
    Forall (fun kv => utf8_node (snd kv)) ch ->
    utf8_node (Dir ch).

(** "[pa] names a regular file holding [d] below [n]", relationally ([Walk.file_at] with contents) *)
Inductive cfile_at : node -> list bytes -> bytes -> Prop :=
| cfa_file d : cfile_at (File d) [] d
| cfa_dir ch n t pa d : In (n, t) ch -> cfile_at t pa d -> cfile_at (Dir ch) (n :: pa) d.

(** the same tree, the entries of any directories enumerated in a different order *)
Inductive node_perm : node -> node -> Prop :=
| np_file c : node_perm (File c) (File c)
| np_dir ch ch' : children_perm ch ch' -> node_perm (Dir ch) (Dir ch')
with children_perm : list (bytes * node) -> list (bytes * node) -> Prop :=
| cp_nil : children_perm [] []
| cp_skip n t t' l l' : node_perm t t' -> children_perm l l' -> children_perm ((n, t) :: l) ((n, t') :: l')
| cp_swap x y l : children_perm (x :: y :: l) (y :: x :: l)
| cp_trans l1 l2 l3 : children_perm l1 l2 -> children_perm l2 l3 -> children_perm l1 l3.

Section CreateWalk.
Variable pat : Type.                                   (* globset: a compiled glob *)
Variable gmatch : pat -> list (list N) -> bool.        (* GlobMatcher::is_match on a root-relative path *)
Variable H : bytes -> bytes.                           (* SHA-1 *)
Variable MD5 : bytes -> bytes.

(** what [Walker::files] hands over: [Files::dir(root, total, paths)] or [Files::file(root, len)] *)
Definition selection (c : Walk.cfg pat) (src : node) : option (list (list bytes)) :=
  match Walk.walk pat gmatch c (erase src) with
  | Walk.WalkListing files => Some (map fst files)
  | Walk.WalkSingle _ => Some []
  | Walk.WalkRefused => None
  | Walk.WalkFailed => None
  end.

(** create.rs: `let files = Walker::new(..)....files()?;` ... `Hasher::hash(&files, ..)` *)
Definition create_walk (c : Walk.cfg pat) (md5 : bool) (p : N) (name : bytes) (csch : Hasher.schedule)
           (src : node) : option torrent :=
  match selection c src with
  | Some sel => create_t H MD5 md5 p name csch src sel
  | None => None
  end.

(** the documented per-path predicate of C06 (it looks at the path only, not at the size) *)
Definition selected (c : Walk.cfg pat) (pa : list bytes) : bool := Walk.included pat gmatch c (pa, 0).

(** "the walker selects the regular file [pa] holding [d]", said without the traversal *)
Definition walker_selects (c : Walk.cfg pat) (src : node) (pa : list bytes) (d : bytes) : Prop :=
  match src with
  | File d0 => pa = [] /\ d = d0
  | Dir _ => lookup src pa = Some (File d) /\ selected c pa = true
  end.

(** the file as written: C05's assembly of what walker and hasher hand over, C04's encoding *)
Definition create_walk_bytes (norm : bytes -> bytes) (host_canon : bytes -> bytes) (git_suffix : bytes)
           (o : Metainfo.opts) (c : Walk.cfg pat) (md5 : bool) (p : N) (name : bytes)
           (csch : Hasher.schedule) (src : node) : option bytes :=
  match create_walk c md5 p name csch src with
  | Some t => option_map encode (Metainfo.build norm host_canon git_suffix o (EndToEnd.content_of t))
  | None => None
  end.

End CreateWalk.

(* ---------- executable entry points for the correspondence run ----------
   A glob is the finite set of candidate paths it matches ([Walk.table_match], as in the C06
   run); the digests are supplied by the driver (real SHA-1 / MD5). [run_create_walk] = walk,
   hasher loop, metainfo assembly, encoding, loader ([EndToEnd.e2e_run] on the walker's own
   selection); [run_walk_verify] = create on the tree as it was, verify on the tree as it is. *)
Definition gtable : Type := list (list (list N)).

Definition run_create_walk (H MD5 : bytes -> bytes) (c : Walk.cfg gtable) (o : Metainfo.opts) (md5 : bool) (p : N)
           (name : bytes) (csch : nat -> nat) (src : node)
  : option (list (list bytes) * (EndToEnd.flat_t * (bool * (bytes * option EndToEnd.flat_t)))) :=
  match selection gtable Walk.table_match c src with
  | None => None
  | Some sel =>
      match EndToEnd.e2e_run H MD5 o md5 p name csch src sel with
      | Some r => Some (sel, r)
      | None => None
      end
  end.

Definition run_walk_verify (H MD5 : bytes -> bytes) (c : Walk.cfg gtable) (md5 : bool) (p : N) (name : bytes)
           (csch : nat -> nat) (vsch : nat -> N) (fs : node) (root : bytes) (fs' : node) : option (option bool) :=
  match resolve fs root with
  | None => None
  | Some src =>
      match create_walk gtable Walk.table_match H MD5 c md5 p name (sched_of_fun csch) src with
      | Some t => Some (verify H MD5 vsch fs' root t)
      | None => None
      end
  end.
