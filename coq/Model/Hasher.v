(** Model of src/hasher.rs (C01). Definitions only.

    The element type, the two digest types and the path type are parameters; SHA-1 and MD5 are
    [Section] variables [H] and [MD5] (one-shot functions of the bytes fed to a context since it
    was created / reset - the "ghost" content of the streaming contexts).

    Rust (src/hasher.rs), the loop that every input goes through:

      fn hash_read_io(&mut self, file: &mut dyn BufRead) -> io::Result<(Option<Md5Digest>, Bytes)> {
        let mut bytes_hashed = 0;
        let mut md5 = if self.md5sum { Some(md5::Context::new()) } else { None };
        loop {
          let remaining = &mut self.buffer[..self.piece_length - self.piece_bytes_hashed];
          let bytes_read = file.read(remaining)?;
          if bytes_read == 0 { break; }
          let read = &remaining[..bytes_read];
          self.sha1.update(read);
          bytes_hashed += bytes_read;
          self.piece_bytes_hashed += bytes_read;
          if self.piece_bytes_hashed == self.piece_length {
            self.pieces.push(self.sha1.digest().into()); self.sha1.reset(); self.piece_bytes_hashed = 0;
          }
          if let Some(md5) = md5.as_mut() { md5.consume(read); }
          ...progress bar...
        }
        self.length += bytes_hashed.into_u64();
        Ok((md5.map(|context| context.compute().into()), Bytes::from(bytes_hashed.into_u64())))
      }

    Not modelled: [self.buffer]'s contents (only the slice just read is ever looked at),
    [self.length] (written, never read), the progress bar, [File::open] failing (no torrent is
    produced; exercised end to end only). *)
From Coq Require Import NArith List Bool Arith.
From Imdl Require Import Base.Chunks.
Import ListNotations.

(** What one [read] call answers. [Count s]: "return [1 + s mod m] bytes", where [m] is the
    largest count the call may legally return (the smaller of the offered window and the bytes
    left); every legal non-zero count is [Count s] for some [s]. [Fail]: an [io::Error]. A
    reader has no choice when [m = 0] (empty window or end of data): it returns 0. *)
Inductive answer := Count (s : nat) | Fail.

(** A schedule answers the i-th [read] call of a whole run (all files share the counter).
    The run is deterministic, so the window of the i-th call is a function of the earlier
    answers: quantifying over all schedules quantifies over every legal reader behaviour,
    including readers whose answer depends on the window they are offered. *)
Definition schedule := nat -> answer.

Inductive outcome (T : Type) :=
| Ok (x : T)
| IoError          (* `file.read(remaining)?` propagated an error: create writes nothing *)
| Panic            (* usize underflow in `piece_length - piece_bytes_hashed` (debug profile) *)
| OutOfFuel.       (* artefact of the fuelled loop; proved unreachable *)
Arguments Ok {T} x.
Arguments IoError {T}.
Arguments Panic {T}.
Arguments OutOfFuel {T}.

Section Hasher.
Context {byte digest md5d path : Type}.
Variable H : list byte -> digest.
Variable MD5 : list byte -> md5d.

(** the fields of [Hasher] that matter *)
Record hst := {
  sha1 : list byte;        (* ghost: bytes fed to self.sha1 since new() / the last reset() *)
  pbh : nat;               (* self.piece_bytes_hashed *)
  pieces : list digest     (* self.pieces *)
}.

Definition new_hasher : hst := {| sha1 := []; pbh := 0; pieces := [] |}.

(** the locals of one [hash_read_io] call *)
Record fctx := {
  bytes_hashed : N;
  md5ctx : option (list byte)   (* ghost content of the md5::Context, None without --md5 *)
}.

Definition new_fctx (md5sum : bool) : fctx :=
  {| bytes_hashed := 0; md5ctx := if md5sum then Some [] else None |}.

(** the largest count a read offered [w] bytes may return: min w (bytes left) *)
Definition avail (w : nat) (data : list byte) : nat := length (firstn w data).

Definition legal (s w : nat) (data : list byte) : nat :=
  match avail w data with
  | O => 0
  | S m => S (s mod S m)
  end.

(** self.pieces.push(self.sha1.digest().into()); self.sha1.reset(); self.piece_bytes_hashed = 0 *)
Definition flush (st : hst) : hst :=
  {| sha1 := []; pbh := 0; pieces := pieces st ++ [H (sha1 st)] |}.

Fixpoint read_loop (fuel plen : nat) (sch : schedule) (i : nat) (st : hst) (fc : fctx)
         (data : list byte) : outcome (hst * fctx * nat) :=
  match fuel with
  | O => OutOfFuel
  | S fuel' =>
      if plen <? pbh st then Panic else
      let w := plen - pbh st in                         (* remaining = &mut buffer[..w] *)
      match sch i with
      | Fail => IoError                                  (* file.read(remaining)? *)
      | Count s =>
          let k := legal s w data in                     (* bytes_read *)
          if Nat.eqb k 0 then Ok (st, fc, S i)           (* break *)
          else
            let rd := firstn k data in                   (* read = &remaining[..bytes_read] *)
            let st1 := {| sha1 := sha1 st ++ rd;         (* self.sha1.update(read) *)
                          pbh := pbh st + k;             (* self.piece_bytes_hashed += bytes_read *)
                          pieces := pieces st |} in
            let st2 := if Nat.eqb (pbh st1) plen then flush st1 else st1 in
            let fc1 := {| bytes_hashed := bytes_hashed fc + N.of_nat k;   (* bytes_hashed += bytes_read *)
                          md5ctx := option_map (fun m => m ++ rd) (md5ctx fc) |} in (* md5.consume(read) *)
            read_loop fuel' plen sch (S i) st2 fc1 (skipn k data)
      end
  end.

(** per-file result: (md5sum, length) *)
Definition finfo : Type := option md5d * N.

Definition hash_read_io (md5sum : bool) (plen : nat) (sch : schedule) (i : nat) (st : hst)
           (data : list byte) : outcome (hst * finfo * nat) :=
  match read_loop (S (length data)) plen sch i st (new_fctx md5sum) data with
  | Ok (st', fc, i') => Ok (st', (option_map MD5 (md5ctx fc), bytes_hashed fc), i')
  | IoError => IoError
  | Panic => Panic
  | OutOfFuel => OutOfFuel
  end.

(** fn finish(&mut self) *)
Definition finish (st : hst) : hst := if 0 <? pbh st then flush st else st.

(** fn hash_contents: files in the given (walker) order, one running state *)
Fixpoint hash_contents (md5sum : bool) (plen : nat) (sch : schedule) (i : nat) (st : hst)
         (fs : list (path * list byte)) : outcome (hst * list (path * finfo) * nat) :=
  match fs with
  | [] => Ok (st, [], i)
  | (pa, data) :: rest =>
      match hash_read_io md5sum plen sch i st data with
      | Ok (st1, info, i1) =>
          match hash_contents md5sum plen sch i1 st1 rest with
          | Ok (st2, infos, i2) => Ok (st2, (pa, info) :: infos, i2)
          | IoError => IoError
          | Panic => Panic
          | OutOfFuel => OutOfFuel
          end
      | IoError => IoError
      | Panic => Panic
      | OutOfFuel => OutOfFuel
      end
  end.

(** what create hashes: one file (Files::contents() = None) or a listed directory *)
Inductive content :=
| SingleFile (data : list byte)
| Directory (files : list (path * list byte)).

(** enum Mode *)
Inductive mode :=
| Single (md5sum : option md5d) (length : N)
| Multiple (files : list (path * finfo)).

(** fn hash_files(mut self, files: &Files) -> Result<(Mode, PieceList), Error> *)
Definition hash_files (md5sum : bool) (plen : nat) (sch : schedule) (c : content)
  : outcome (mode * list digest) :=
  match c with
  | Directory fs =>
      match hash_contents md5sum plen sch 0 new_hasher fs with
      | Ok (st, infos, _) => Ok (Multiple infos, pieces (finish st))
      | IoError => IoError
      | Panic => Panic
      | OutOfFuel => OutOfFuel
      end
  | SingleFile data =>
      match hash_read_io md5sum plen sch 0 new_hasher data with
      | Ok (st, (m, l), _) => Ok (Single m l, pieces (finish st))
      | IoError => IoError
      | Panic => Panic
      | OutOfFuel => OutOfFuel
      end
  end.

(** fn hash_stdin(mut self, stdin: &mut dyn BufRead) -> Result<(Mode, PieceList), Error> *)
Definition hash_stdin (md5sum : bool) (plen : nat) (sch : schedule) (data : list byte)
  : outcome (mode * list digest) :=
  match hash_read_io md5sum plen sch 0 new_hasher data with
  | Ok (st, (m, l), _) => Ok (Single m l, pieces (finish st))
  | IoError => IoError
  | Panic => Panic
  | OutOfFuel => OutOfFuel
  end.

(* ---------- the specification side ---------- *)

Definition content_bytes (c : content) : list byte :=
  match c with
  | SingleFile data => data
  | Directory fs => concat (map snd fs)
  end.

Definition spec_info (md5sum : bool) (data : list byte) : finfo :=
  (if md5sum then Some (MD5 data) else None, N.of_nat (length data)).

Definition spec_mode (md5sum : bool) (c : content) : mode :=
  match c with
  | SingleFile data => Single (fst (spec_info md5sum data)) (snd (spec_info md5sum data))
  | Directory fs => Multiple (map (fun pd => (fst pd, spec_info md5sum (snd pd))) fs)
  end.

Definition spec_pieces (plen : nat) (c : content) : list digest :=
  map H (chunks plen (content_bytes c)).

Definition error_free (sch : schedule) : Prop := forall i, sch i <> Fail.

End Hasher.

(* ---------- executable entry points for the correspondence run ---------- *)

(** schedule from a list: entry [0] = Fail, entry [S s] = Count s (so an entry [k] that is a
    legal count yields exactly [k] bytes); past the end: one byte at a time. *)
Definition sched_of_list (l : list nat) : schedule :=
  fun i => match nth_error l i with
           | Some O => Fail
           | Some (S s) => Count s
           | None => Count 0
           end.

(** digests are left uninterpreted: the runner prints the *blocks* (H := identity) and the
    bytes each MD5 context was fed; the check hashes them with hashlib. Results are flattened
    to standard types for the OCaml driver: (outcome code 0 = Ok / 1 = IoError / 2 = Panic /
    3 = OutOfFuel, is Mode::Multiple, blocks, per-file (path index, md5 input, length)). *)
Definition flat : Type := nat * (bool * (list (list N) * list (nat * (option (list N) * N)))).

Definition flatten (r : outcome (mode (md5d:=list N) (path:=nat) * list (list N))) : flat :=
  match r with
  | Ok (Single m l, ps) => (0, (false, (ps, [(0, (m, l))])))
  | Ok (Multiple fs, ps) => (0, (true, (ps, fs)))
  | IoError => (1, (false, ([], [])))
  | Panic => (2, (false, ([], [])))
  | OutOfFuel => (3, (false, ([], [])))
  end.

Definition run_hash_files (md5sum : bool) (plen : nat) (sch : list nat) (files : list (list N)) : flat :=
  flatten (hash_files (fun b => b) (fun b => b) md5sum plen (sched_of_list sch)
                      (Directory (combine (seq 0 (length files)) files))).

Definition run_hash_single (md5sum : bool) (plen : nat) (sch : list nat) (data : list N) : flat :=
  flatten (hash_files (fun b => b) (fun b => b) md5sum plen (sched_of_list sch) (SingleFile data)).

Definition run_hash_stdin (md5sum : bool) (plen : nat) (sch : list nat) (data : list N) : flat :=
  flatten (hash_stdin (fun b => b) (fun b => b) md5sum plen (sched_of_list sch) data).
