(** Abstract filesystem and Unix path handling for the verifier models (C02, C03, C13).
    Definitions only.

    - [node]: a tree of regular files and directories (no symlinks, no permissions).
    - [resolve]: the kernel's component walk over a path *string*: split at '/', empty
      component and "." stay (and require a directory, which is also what a trailing slash
      demands), ".." goes to the parent (the root is its own parent), a name descends.
      ENOENT and ENOTDIR are both [None].
    - [push]: [PathBuf::push] on Unix (an absolute argument replaces the path; otherwise a
      separator is added unless the path is empty or already ends in one).
      [absolute root comps] = [FilePath::absolute].
    - [components]: [Path::components] on Unix; [lexiclean]: the lexiclean crate;
      [env_resolve]: [Env::resolve].
    - [screen_comp]: the test the repaired [FilePath] deserialiser applies to each component.
    - [norm], [lex_inside]: the property's own lexical notion of "leaves the root" (C13). *)
From Coq Require Import NArith List Bool.
Import ListNotations.
Local Open Scope N_scope.

Notation byte := N (only parsing).
Notation bytes := (list N) (only parsing).

Definition SEP : N := 47.   (* '/' *)
Definition DOT : N := 46.   (* '.' *)

Fixpoint bytes_eqb (a b : bytes) : bool :=
  match a, b with
  | [], [] => true
  | x :: a', y :: b' => (x =? y) && bytes_eqb a' b'
  | _, _ => false
  end.

Definition is_sep (b : byte) : bool := b =? SEP.
Definition is_empty (s : bytes) : bool := match s with [] => true | _ => false end.
Definition is_dot (s : bytes) : bool := bytes_eqb s [DOT].
Definition is_dotdot (s : bytes) : bool := bytes_eqb s [DOT; DOT].

(** ** the tree *)
Inductive node := File (c : bytes) | Dir (ch : list (bytes * node)).

Definition is_dir (n : node) : bool := match n with Dir _ => true | File _ => false end.

Definition child (n : node) (name : bytes) : option node :=
  match n with
  | Dir ch => match find (fun kv => bytes_eqb (fst kv) name) ch with
              | Some kv => Some (snd kv)
              | None => None
              end
  | File _ => None
  end.

(** plain descent by names (what a confined lookup is) *)
Fixpoint lookup (n : node) (p : list bytes) : option node :=
  match p with
  | [] => Some n
  | c :: r => match child n c with Some n' => lookup n' r | None => None end
  end.

(** ** path strings *)
Definition starts_with_sep (s : bytes) : bool :=
  match s with b :: _ => is_sep b | [] => false end.

(** pieces between separators; never the empty list *)
Fixpoint split_sep (s : bytes) : list bytes :=
  match s with
  | [] => [[]]
  | b :: r =>
      if is_sep b then [] :: split_sep r
      else match split_sep r with
           | c :: cs => (b :: c) :: cs
           | [] => [[b]]
           end
  end.

(** [PathBuf::push]: need_sep = the last byte exists and is not a separator *)
Definition need_sep (path : bytes) : bool :=
  match path with [] => false | _ => negb (is_sep (last path 0)) end.

Definition push (path comp : bytes) : bytes :=
  if starts_with_sep comp then comp
  else if need_sep path then path ++ SEP :: comp
  else path ++ comp.

(** [FilePath::absolute]: push every component onto the root, as is *)
Definition absolute (root : bytes) (comps : list bytes) : bytes := fold_left push comps root.

(** ** the kernel's walk. State: current node and its ancestors (nearest first). *)
Definition wstate := (node * list node)%type.

Definition step (st : wstate) (c : bytes) : option wstate :=
  let '(cur, anc) := st in
  if negb (is_dir cur) then None                     (* ENOTDIR *)
  else if is_empty c || is_dot c then Some st
  else if is_dotdot c then
    match anc with p :: anc' => Some (p, anc') | [] => Some st end
  else match child cur c with
       | Some n => Some (n, cur :: anc)
       | None => None                                (* ENOENT *)
       end.

Fixpoint walk (st : wstate) (comps : list bytes) : option wstate :=
  match comps with
  | [] => Some st
  | c :: r => match step st c with Some st' => walk st' r | None => None end
  end.

(** Only absolute paths are resolved: every path the verifier uses has been joined onto the
    (absolute) current directory by [Env::resolve]. *)
Definition resolve_st (fs : node) (path : bytes) : option wstate :=
  if starts_with_sep path then walk (fs, []) (split_sep path) else None.

Definition resolve (fs : node) (path : bytes) : option node :=
  match resolve_st fs path with Some st => Some (fst st) | None => None end.

(** ** [Path::components] on Unix *)
Inductive comp := CRoot | CCur | CParent | CNormal (s : bytes).

Definition piece_comp (s : bytes) : list comp :=
  if is_empty s then [] else if is_dot s then []
  else if is_dotdot s then [CParent] else [CNormal s].

Definition components (s : bytes) : list comp :=
  match s with
  | [] => []
  | b :: r =>
      if is_sep b then CRoot :: flat_map piece_comp (split_sep r)
      else match split_sep s with
           | p0 :: ps => (if is_dot p0 then [CCur] else piece_comp p0) ++ flat_map piece_comp ps
           | [] => []
           end
  end.

Definition comp_str (c : comp) : bytes :=
  match c with CRoot => [SEP] | CCur => [DOT] | CParent => [DOT; DOT] | CNormal s => s end.

(** [iter.collect::<PathBuf>()] *)
Definition collect (cs : list comp) : bytes := fold_left (fun p c => push p (comp_str c)) cs [].

(** the lexiclean crate; [stk] is the vector of kept components, last first *)
Definition lexi_step (stk : list comp) (c : comp) : list comp :=
  match c with
  | CCur => stk
  | CParent => match stk with
               | CNormal _ :: stk' => stk'
               | CParent :: _ | [] => CParent :: stk
               | _ => stk
               end
  | _ => c :: stk
  end.

Definition lexiclean (s : bytes) : bytes :=
  let cs := components s in
  if Nat.leb (length cs) 1 then s else collect (rev (fold_left lexi_step cs [])).

(** [Env::resolve] with current directory [cwd] *)
Definition env_resolve (cwd path : bytes) : option bytes :=
  match components path with
  | [] => None                                       (* internal error: empty path *)
  | _ => Some (lexiclean (push cwd path))
  end.

(** ** the screening of the repaired [FilePath] deserialiser: the string parses to exactly
    one [Normal] component that is the whole string *)
Definition screen_comp (c : bytes) : bool :=
  match components c with
  | [CNormal n] => bytes_eqb n c
  | _ => false
  end.

(** the same thing said directly *)
Definition plain (c : bytes) : bool :=
  negb (is_empty c) && negb (is_dot c) && negb (is_dotdot c) && forallb (fun b => negb (is_sep b)) c.

(** ** lexical judgement of a path (C13's "resolved lexically"): fold "." and "..", no
    filesystem involved; the root is its own parent *)
Definition norm_step (stk : list bytes) (p : bytes) : list bytes :=
  if is_empty p || is_dot p then stk
  else if is_dotdot p then tl stk
  else p :: stk.

Definition norm (s : bytes) : list bytes := rev (fold_left norm_step (split_sep s) []).

Fixpoint is_prefix (a b : list bytes) : bool :=
  match a, b with
  | [], _ => true
  | x :: a', y :: b' => bytes_eqb x y && is_prefix a' b'
  | _ :: _, [] => false
  end.

Definition lex_inside (root path : bytes) : bool := is_prefix (norm root) (norm path).
Definition lex_escapes (root : bytes) (comps : list bytes) : bool :=
  negb (lex_inside root (absolute root comps)).
