(** Model of metainfo assembly in `imdl torrent create` (C05). Definitions only.

    Mirrors, line by line where it matters:
      src/subcommand/torrent/create.rs  Create::run            -> [run_create], [build]
      src/subcommand/torrent/create/create_content.rs          -> [name_of], [piece_length_of]
      src/metainfo.rs src/info.rs src/mode.rs src/file_info.rs -> field lists of [build] / [build_info] /
                                                                  [mode_entries] / [file_entry]; the keys are
                                                                  looked up, by rust field name, in the tables
                                                                  the translator regenerates (Generated/GenSchema.v)
      src/host_port.rs  Serialize for HostPort (Tuple)         -> [node_value]
      src/hasher.rs     md5sum: Some iff the flag              -> the [md5] argument of [mode_entries]
      bendy serde struct serializer                            -> Model/Schema.v [save_all]

    Outside the model, as Section variables: the url crate ([norm] = Url::parse then to_string,
    [url_ok] = Url::parse succeeds), Host parsing/printing apart from the brackets ([host_canon]),
    the build-time git suffix of `created by`. Hashing is C01's business: piece hashes and md5
    digests are inputs ([content]). `--output` is not in [opts]: no byte of the output depends on it
    (the correspondence run varies it). *)
From Coq Require Import Ascii String.
From Coq Require Import NArith ZArith Bool List.
From Imdl Require Import Model.Bencode Model.Schema Model.Picker Generated.GenSchema Generated.GenCreate.
Import ListNotations.
Local Open Scope N_scope.

(** one file of a directory input, in walker order: path components, length, md5 hex text *)
Record file := { f_path : list bytes; f_length : N; f_md5 : bytes }.

Inductive input :=
| InFile (name : bytes) (length : N) (md5 : bytes)   (* INPUT is a regular file; name = its file name *)
| InDir (name : bytes) (files : list file)           (* INPUT is a directory; name = its file name *)
| InStdin (length : N) (md5 : bytes).                (* INPUT is `-` *)

(** what the hasher hands back: the piece list (concatenated SHA-1 digests) *)
Record content := { c_input : input; c_pieces : bytes }.

(** the parsed command line (after clap) *)
Record opts := {
  o_announce : option bytes;          (* --announce URL, as written *)
  o_tiers : list bytes;               (* every --announce-tier argument, as written *)
  o_comment : option bytes;
  o_source : option bytes;
  o_nodes : list (bytes * N);         (* --node HOST:PORT split by HostPort::from_str: host as written, port *)
  o_private : bool;
  o_update_url : option bytes;
  o_name : option bytes;
  o_piece_length : option N;
  o_md5 : bool;
  o_no_created_by : bool;
  o_no_creation_date : bool;
  o_allow_small : bool;               (* --allow small-piece-length *)
  o_allow_uneven : bool;              (* --allow uneven-piece-length *)
  o_allow_private_trackerless : bool; (* --allow private-trackerless *)
  o_now : N                           (* SystemTime::now() in seconds since the epoch *)
}.

(** `tier.split(',')` *)
Fixpoint split_on (c : byte) (s : bytes) : list bytes :=
  match s with
  | [] => [[]]
  | x :: r =>
      if x =? c then [] :: split_on c r
      else match split_on c r with
           | h :: t => (x :: h) :: t
           | [] => [[x]]
           end
  end.

Fixpoint strip_last (c : byte) (s : bytes) : option bytes :=
  match s with
  | [] => None
  | [x] => if x =? c then Some [] else None
  | x :: r => match strip_last c r with Some r' => Some (x :: r') | None => None end
  end.

(** Host::parse takes `[..]` as an IPv6 literal; Tuple::from prints the address without brackets *)
Definition unbracket (h : bytes) : bytes :=
  match hd_is 91 h with
  | Some r => match strip_last 93 r with Some m => m | None => h end
  | None => h
  end.

Definition is_pow2 (p : N) : bool := negb (p =? 0) && (2 ^ N.log2 p =? p).

Definition total_size (i : input) : N :=
  match i with
  | InFile _ l _ | InStdin l _ => l
  | InDir _ fs => fold_right (fun f a => f_length f + a) 0 fs
  end.

(** create_content.rs: --piece-length, else 256 KiB for stdin, else the picker (C15) *)
Definition piece_length_of (o : opts) (i : input) : N :=
  match o_piece_length o with
  | Some p => p
  | None => match i with InStdin _ _ => 256 * KiB | _ => pick (total_size i) end
  end.

(** create_content.rs: --name, else the file name of INPUT (clap demands --name for `-`) *)
Definition name_of (o : opts) (i : input) : option bytes :=
  match o_name o with
  | Some n => Some n
  | None => match i with InFile n _ _ | InDir n _ => Some n | InStdin _ _ => None end
  end.

Definition kM := key_of GenSchema.metainfo_fields.
Definition kI := key_of GenSchema.info_fields.
Definition kS := key_of GenSchema.mode_single_fields.
Definition kMu := key_of GenSchema.mode_multiple_fields.
Definition kF := key_of GenSchema.file_info_fields.

(** the keys, looked up once in the generated tables by rust field name (computed here so that the
    extracted model carries plain byte lists; each is convertible with its [key_of] lookup) *)
Definition kF_length : bytes := Eval vm_compute in kF "length"%string.
Definition kF_path : bytes := Eval vm_compute in kF "path"%string.
Definition kF_md5sum : bytes := Eval vm_compute in kF "md5sum"%string.
Definition kS_md5sum : bytes := Eval vm_compute in kS "md5sum"%string.
Definition kS_length : bytes := Eval vm_compute in kS "length"%string.
Definition kMu_files : bytes := Eval vm_compute in kMu "files"%string.
Definition kI_private : bytes := Eval vm_compute in kI "private"%string.
Definition kI_piece_length : bytes := Eval vm_compute in kI "piece_length"%string.
Definition kI_name : bytes := Eval vm_compute in kI "name"%string.
Definition kI_source : bytes := Eval vm_compute in kI "source"%string.
Definition kI_pieces : bytes := Eval vm_compute in kI "pieces"%string.
Definition kI_update_url : bytes := Eval vm_compute in kI "update_url"%string.
Definition kM_announce : bytes := Eval vm_compute in kM "announce"%string.
Definition kM_announce_list : bytes := Eval vm_compute in kM "announce_list"%string.
Definition kM_comment : bytes := Eval vm_compute in kM "comment"%string.
Definition kM_created_by : bytes := Eval vm_compute in kM "created_by"%string.
Definition kM_creation_date : bytes := Eval vm_compute in kM "creation_date"%string.
Definition kM_encoding : bytes := Eval vm_compute in kM "encoding"%string.
Definition kM_info : bytes := Eval vm_compute in kM "info"%string.
Definition kM_nodes : bytes := Eval vm_compute in kM "nodes"%string.

Definition int_of (n : N) : value := Int (Z.of_N n).
Definition opt_str (o : option bytes) : option value := option_map Str o.

(** FileInfo { length, path, md5sum } *)
Definition file_entry (md5 : bool) (f : file) : option value :=
  mk_dict [ (kF_length, Some (int_of (f_length f)));
            (kF_path, Some (Lst (map Str (f_path f))));
            (kF_md5sum, if md5 then Some (Str (f_md5 f)) else None) ].

(** Mode, untagged and flattened into Info: its fields join Info's own *)
Definition mode_entries (md5 : bool) (i : input) : option (list (bytes * option value)) :=
  match i with
  | InFile _ len m | InStdin len m =>
      Some [ (kS_length, Some (int_of len));
             (kS_md5sum, if md5 then Some (Str m) else None) ]
  | InDir _ fs =>
      match all_some (map (file_entry md5) fs) with
      | Some l => Some [ (kMu_files, Some (Lst l)) ]
      | None => None
      end
  end.

Section Build.
  Variable norm : bytes -> bytes.        (* url crate: Url::parse(x).to_string() *)
  Variable url_ok : bytes -> bool.       (* url crate: Url::parse(x).is_ok() *)
  Variable host_canon : bytes -> bytes.  (* url crate Host: parse then Display, brackets aside *)
  Variable git_suffix : bytes.           (* GIT_HEAD_PARTIAL_HASH of the build *)

  Definition created_by_text : bytes := GenCreate.created_by_prefix ++ git_suffix.

  Definition url_value (u : bytes) : value := Str (norm u).

  (** Info { private, piece length, name, source, pieces, #[flatten] mode, update-url } *)
  Definition info_entries (o : opts) (c : content) (name : bytes) (me : list (bytes * option value))
    : list (bytes * option value) :=
    [ (kI_private, if o_private o then Some (Int 1) else None);
      (kI_piece_length, Some (int_of (piece_length_of o (c_input c))));
      (kI_name, Some (Str name));
      (kI_source, opt_str (o_source o));
      (kI_pieces, Some (Str (c_pieces c))) ]
    ++ me ++
    [ (kI_update_url, option_map url_value (o_update_url o)) ].

  Definition build_info (o : opts) (c : content) : option value :=
    match name_of o (c_input c), mode_entries (o_md5 o) (c_input c) with
    | Some name, Some me => mk_dict (info_entries o c name me)
    | _, _ => None
    end.

  Definition tiers_of (o : opts) : list (list bytes) := map (split_on 44) (o_tiers o).

  Definition tiers_value (ts : list (list bytes)) : value := Lst (map (fun t => Lst (map Str t)) ts).

  (** Tuple(String, u16) *)
  Definition node_value (n : bytes * N) : value :=
    Lst [Str (host_canon (unbracket (fst n))); int_of (snd n)].

  (** Metainfo { announce, announce-list, comment, created by, creation date, encoding, info, nodes } *)
  Definition metainfo_entries (o : opts) (info : value) : list (bytes * option value) :=
    [ (kM_announce, option_map url_value (o_announce o));
      (kM_announce_list,
        match tiers_of o with [] => None | ts => Some (tiers_value ts) end);
      (kM_comment, opt_str (o_comment o));
      (kM_created_by, if o_no_created_by o then None else Some (Str created_by_text));
      (kM_creation_date, if o_no_creation_date o then None else Some (int_of (o_now o)));
      (kM_encoding, Some (Str GenCreate.encoding_utf8));
      (kM_info, Some info);
      (kM_nodes, match o_nodes o with [] => None | ns => Some (Lst (map node_value ns)) end) ].

  (** assemble + serialise (as a value; the bytes are [encode] of it) *)
  Definition build (o : opts) (c : content) : option value :=
    match build_info o c with
    | Some info => mk_dict (metainfo_entries o info)
    | None => None
    end.

  (** Create::run up to the write: the checks that can refuse before anything is serialised *)
  Definition run_create (o : opts) (c : content) : option value :=
    if existsb (fun t => existsb (fun u => negb (url_ok u)) t) (tiers_of o) then None  (* AnnounceUrlParse *)
    else if negb (o_allow_private_trackerless o) && o_private o
            && (match o_announce o with None => true | Some _ => false end) then None   (* PrivateTrackerless *)
    else
      let p := piece_length_of o (c_input c) in
      if p =? 0 then None                                                               (* PieceLengthZero *)
      else if negb (o_allow_uneven o) && negb (is_pow2 p) then None                     (* PieceLengthUneven *)
      else if negb (o_allow_small o) && (p <? 16 * 1024) then None                      (* PieceLengthSmall *)
      else if negb (p <? 2 ^ 32) then None                                              (* as_piece_length: u32 *)
      else build o c.

  (** the bytes written *)
  Definition create_bytes (o : opts) (c : content) : option bytes :=
    match run_create o c with Some v => Some (encode v) | None => None end.
End Build.

(** ranges under which every integer written fits bendy's i64 reader (file lengths and the clock
    are u64 in imdl; the port is u16) *)
Definition file_ok (f : file) : bool := f_length f <? 2 ^ 63.
Definition input_ok (i : input) : bool :=
  match i with
  | InFile _ l _ | InStdin l _ => l <? 2 ^ 63
  | InDir _ fs => forallb file_ok fs
  end.
Definition opts_ok (o : opts) : bool :=
  (o_now o <? 2 ^ 63) && forallb (fun n => snd n <? 2 ^ 16) (o_nodes o).

(** the same command line at another moment *)
Definition with_now (o : opts) (t : N) : opts :=
  {| o_announce := o_announce o; o_tiers := o_tiers o; o_comment := o_comment o; o_source := o_source o;
     o_nodes := o_nodes o; o_private := o_private o; o_update_url := o_update_url o; o_name := o_name o;
     o_piece_length := o_piece_length o; o_md5 := o_md5 o; o_no_created_by := o_no_created_by o;
     o_no_creation_date := o_no_creation_date o; o_allow_small := o_allow_small o;
     o_allow_uneven := o_allow_uneven o; o_allow_private_trackerless := o_allow_private_trackerless o;
     o_now := t |}.
