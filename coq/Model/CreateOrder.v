(** The order of effects that Model/CreateFs.v [create_fx] / [from_create] follow, as a list of
    source-marker tags (tools/rs2v_createfs.py emits the same tags in the order in which the
    markers occur in Create::run and CreateContent::from_create of the current tree;
    Properties/C09.v compares the two). Definitions only. *)
From Coq Require Import List String.
Import ListNotations.
Local Open Scope string_scope.

(** create_fx: f_tier, f_private, final_target (= from_create, env_resolve, is_dir/push), zero,
    uneven, small, exists-unless-force, too large, read, serialize, [dry-run guard: force ?
    truncate : create_new, open, write_all], post steps *)
Definition model_run_order : list string :=
  [ "tier"; "private"; "content"; "resolve"; "zero"; "uneven"; "small"; "isdir"; "push"; "exists";
    "toolarge"; "hash"; "serialize"; "dryguard"; "forcebranch"; "trunc"; "excl"; "open"; "write";
    "show"; "link"; "opener" ].

(** from_create, path input: resolve the input, globs, walk, file name, decode, name check,
    default target *)
Definition model_content_order : list string :=
  [ "resolve_input"; "glob"; "walk"; "fname"; "decode"; "namecheck"; "default" ].

(** from_create, stdin input: --name present, name check, --output present *)
Definition model_stdin_order : list string :=
  [ "stdin_name"; "stdin_namecheck"; "stdin_output" ].
