(** C11 (X16) - serde's typed round trip of the Info dictionary, concretely: what
    `peer::Client::verify_info_dict` (src/peer/client.rs) computes before it hashes,
        bendy::serde::de::from_bytes::<Info>(buf)   then   bendy::serde::ser::to_bytes(&info),
    i.e. the [norm] that Model/Peer.v and Properties/C11.v keep abstract. Definitions only.

    READING is the typed loader of Model/Summary.v restricted to the info dictionary (the same pieces, imported,
    not repeated): bendy's serde reader ([BencodeWide.wdecode]: canonical integers and lengths, strictly increasing
    keys, integers of any size in the tokenizer, trailing bytes ignored, nesting at most 2048), the derived visitor
    of `Info` with `#[serde(flatten)] mode: Mode` and `#[serde(untagged)]` (Single tried first, then Multiple), every
    key of the dictionary UTF-8 (deserialize_identifier), `private` exactly 0 or 1 (deserialize_bool), `piece length`
    a u64, `name` / `source` UTF-8 strings, `pieces` a byte string whose length is a multiple of 20, `length` /
    `files` / `md5sum` and every unknown key buffered through `deserialize_any` (integers parsed as i64), `md5sum`
    32 hex digits of either case (hex::decode_to_slice), path components plain (FilePath's validating Deserialize),
    a file entry as a dictionary or in serde's sequence form, `update-url` through `Url::parse`.
    NOT applied here: `Mode::content_size_fits` - that check lives in `Metainfo::deserialize`, and `verify_info_dict`
    deserialises `Info` directly (checked on the real client: three files of 2^63-1 bytes are accepted).

    WRITING is serde + bendy for `Info`: a struct (and a struct with a flattened field: a map) is collected and
    written in key order; `skip_serializing_if = "Option::is_none"` drops absent options; `private` is written by
    `serialize_bool` as the integer 0 or 1 (so `private = 0` is KEPT, checked on the real client); `md5sum` is
    written by serde-hex `Strict`: 32 LOWER-case digits; a file entry is always written as a dictionary
    {length, md5sum?, path}; `update-url` is `Url::as_str`, the url crate's normal form; unknown keys, a top-level
    `files` next to a valid `length`, a top-level `md5sum` next to `files` are gone.

    The url crate is [UrlNorm.u_norm] inside its fragment; outside it (non-ASCII text, `file:` URLs, IDNA hosts ...)
    the crate stays a Section variable [ext] about which nothing is assumed.

    [typed_normal] is the SYNTACTIC predicate "a canonical dictionary made only of the keys imdl models, every value
    in the spelling the writer produces": the dictionary is read positionally ([take_key]) as
        files? length? md5sum? name "piece length" pieces private? source? update-url?
    (that IS bytewise key order), nothing may be left over, exactly one of `length` (with an optional md5sum) and
    `files` (then no top-level md5sum) is present, and each value is in its typed normal spelling. *)
From Coq Require Import Decimal DecimalN DecimalFacts.
From Coq Require Import NArith ZArith Bool List.
From Imdl Require Import Model.Bencode Model.BencodeWide Model.Summary Model.HostPort Model.UrlHost Model.UrlNorm.
From Imdl Require Model.Schema.
Import ListNotations.
Local Open Scope N_scope.

(* ------------------------------------------------------------------ the typed value: struct Info *)
Record tinfo := {
  t_private : option bool;
  t_piece_length : N;
  t_name : bytes;
  t_source : option bytes;
  t_pieces : bytes;
  t_mode : mode;                       (* Summary.mode: Single length md5-text | Multiple files *)
  t_update_url : option bytes          (* Url::as_str *)
}.

(* ------------------------------------------------------------------ reading: from_bytes::<Info> *)
Section WithUrlCrate.
  (** `Url::parse(t).map(|u| u.as_str())` outside the fragment of Model/UrlNorm.v *)
  Variable ext : bytes -> option bytes.

  Definition ir_url_norm : bytes -> option bytes := u_url_norm_with ext.

  (** the derived visitor of `Info` on a decoded value (the info part of [Summary.typed_of_value], same readers) *)
  Definition info_read (v : value) : option tinfo :=
    match v with
    | Dict i =>
        if keys_utf8 i then
          do private <- opt as_bool k_private i;
          do piece_length <- req (as_uint 64) k_piece_length i;
          do name <- req as_string k_name i;
          do source <- opt as_string k_source i;
          do pieces <- req as_pieces k_pieces i;
          do md <- as_mode i;
          do update_url <- opt (as_url ir_url_norm) k_update_url i;
          Some {| t_private := private; t_piece_length := piece_length; t_name := name; t_source := source;
                  t_pieces := pieces; t_mode := md; t_update_url := update_url |}
        else None
    | _ => None
    end.

  (** bendy's two limits: nesting while tokenizing; i64 wherever a value is buffered (every key that is not one of
      Info's own fields: `length`, `files`, `md5sum`, unknown keys) *)
  Definition info_checks (v : value) : bool :=
    (depth v <=? max_depth) && match v with Dict i => others_i64 info_known i | _ => true end.

  Definition info_typed (d : bytes) : option tinfo :=
    match wdecode (fuel_for d) d with
    | Some (v, _) => if info_checks v then info_read v else None
    | None => None
    end.
End WithUrlCrate.

(* ------------------------------------------------------------------ writing: to_bytes(&info) *)
(** serde-hex Strict / `{:02x}`: lower case *)
Definition lower_hex (b : N) : N := if inr 65 70 b then b + 32 else b.

Definition opt_entry (k : bytes) (o : option value) : list (bytes * value) :=
  match o with Some v => [(k, v)] | None => [] end.

Definition md5_value (m : option bytes) : option value := option_map (fun s => Str (map lower_hex s)) m.
Definition len_value (n : N) : value := Int (Z.of_N n).
Definition bool_value (b : bool) : value := Int (if b then 1 else 0)%Z.

(** FileInfo { length, path, md5sum }, in key order *)
Definition file_value (f : file) : value :=
  Dict ((k_length, len_value (f_length f)) :: opt_entry k_md5sum (md5_value (f_md5 f)) ++
        [(k_path, Lst (map Str (f_path f)))]).

(** the flattened Mode: its fields join Info's own; both sort before `name` *)
Definition mode_part (m : mode) : list (bytes * value) :=
  match m with
  | Single n md5 => (k_length, len_value n) :: opt_entry k_md5sum (md5_value md5)
  | Multiple fs => [(k_files, Lst (map file_value fs))]
  end.

(** the dictionary written, in key order: files | length md5sum?, name, piece length, pieces, private?, source?,
    update-url? *)
Definition info_value (t : tinfo) : value :=
  Dict (mode_part (t_mode t) ++
        [(k_name, Str (t_name t)); (k_piece_length, len_value (t_piece_length t)); (k_pieces, Str (t_pieces t))] ++
        opt_entry k_private (option_map bool_value (t_private t)) ++
        opt_entry k_source (option_map Str (t_source t)) ++
        opt_entry k_update_url (option_map Str (t_update_url t))).

(** the same through the model of bendy's struct / map serializer that the create side uses (Model/Schema.v
    [mk_dict]: fields saved in DECLARATION order, written in key order, a duplicate key fails);
    Proofs/InfoRoundTripProofs.v [info_serde_value]: it is [info_value] *)
Definition file_serde (f : file) : option value :=
  Schema.mk_dict [ (k_length, Some (len_value (f_length f)));
                   (k_path, Some (Lst (map Str (f_path f))));
                   (k_md5sum, md5_value (f_md5 f)) ].
Definition mode_serde (m : mode) : option (list (bytes * option value)) :=
  match m with
  | Single n md5 => Some [ (k_length, Some (len_value n)); (k_md5sum, md5_value md5) ]
  | Multiple fs =>
      match Schema.all_some (map file_serde fs) with
      | Some l => Some [ (k_files, Some (Lst l)) ]
      | None => None
      end
  end.
Definition info_serde (t : tinfo) : option value :=
  match mode_serde (t_mode t) with
  | Some me =>
      Schema.mk_dict ([ (k_private, option_map bool_value (t_private t));
                        (k_piece_length, Some (len_value (t_piece_length t)));
                        (k_name, Some (Str (t_name t)));
                        (k_source, option_map Str (t_source t));
                        (k_pieces, Some (Str (t_pieces t))) ]
                      ++ me ++
                      [ (k_update_url, option_map Str (t_update_url t)) ])
  | None => None
  end.

(* ------------------------------------------------------------------ the round trip *)
(** verify_info_dict before the hash comparison: Some = the bytes that are hashed, returned and written *)
Definition info_norm (ext : bytes -> option bytes) (d : bytes) : option bytes :=
  match info_typed ext d with
  | Some t => Some (encode (info_value t))
  | None => None
  end.

(* ------------------------------------------------------------------ the syntactic normal form *)
(** the head entry if it has key [k] *)
Definition take_key (k : bytes) (d : list (bytes * value)) : option value * list (bytes * value) :=
  match d with
  | (k', v) :: r => if bytes_eqb k' k then (Some v, r) else (None, d)
  | [] => (None, [])
  end.

Definition is_lower_hex (b : N) : bool := inr 48 57 b || inr 97 102 b.

Definition opt_ok (p : value -> bool) (o : option value) : bool :=
  match o with Some v => p v | None => true end.

Definition nv_len (v : value) : bool :=            (* a buffered u64: what deserialize_any lets through *)
  match v with Int z => ((0 <=? z) && (z <? 2 ^ 63))%Z | _ => false end.
Definition nv_u64 (v : value) : bool :=
  match v with Int z => ((0 <=? z) && (z <? 2 ^ 64))%Z | _ => false end.
Definition nv_bool (v : value) : bool :=
  match v with Int z => ((z =? 0) || (z =? 1))%Z | _ => false end.
Definition nv_text (v : value) : bool := match v with Str s => utf8_valid s | _ => false end.
Definition nv_pieces (v : value) : bool :=
  match v with Str s => N.of_nat (length s) mod 20 =? 0 | _ => false end.
Definition nv_md5 (v : value) : bool :=
  match v with Str s => Nat.eqb (length s) 32 && forallb is_lower_hex s | _ => false end.
Definition nv_component (v : value) : bool :=
  match v with Str s => utf8_valid s && normal_component s | _ => false end.
Definition nv_path (v : value) : bool := match v with Lst l => forallb nv_component l | _ => false end.
Definition nv_url (uok : bytes -> bool) (v : value) : bool :=
  match v with Str s => uok s | _ => false end.

(** one file entry: exactly {length, md5sum?, path} *)
Definition nv_file (v : value) : bool :=
  match v with
  | Dict d =>
      let '(l, rs1) := take_key k_length d in
      let '(m, rs2) := take_key k_md5sum rs1 in
      let '(p, rs3) := take_key k_path rs2 in
      match l, p, rs3 with
      | Some lv, Some pv, [] => nv_len lv && opt_ok nv_md5 m && nv_path pv
      | _, _, _ => false
      end
  | _ => false
  end.

Definition nv_mode (fs ln md : option value) : bool :=
  match fs, ln, md with
  | None, Some lv, _ => nv_len lv && opt_ok nv_md5 md
  | Some (Lst l), None, None => forallb nv_file l
  | _, _, _ => false
  end.

(** [uok]: the predicate demanded of the `update-url` text *)
Definition value_normal_with (uok : bytes -> bool) (v : value) : bool :=
  match v with
  | Dict d =>
      let '(fs, rs1) := take_key k_files d in
      let '(ln, rs2) := take_key k_length rs1 in
      let '(md, rs3) := take_key k_md5sum rs2 in
      let '(nm, rs4) := take_key k_name rs3 in
      let '(pl, rs5) := take_key k_piece_length rs4 in
      let '(ps, rs6) := take_key k_pieces rs5 in
      let '(pr, rs7) := take_key k_private rs6 in
      let '(so, rs8) := take_key k_source rs7 in
      let '(uu, rs9) := take_key k_update_url rs8 in
      match nm, pl, ps, rs9 with
      | Some nv, Some plv, Some psv, [] =>
          nv_mode fs ln md && nv_text nv && nv_u64 plv && nv_pieces psv &&
          opt_ok nv_bool pr && opt_ok nv_text so && opt_ok (nv_url uok) uu
      | _, _, _, _ => false
      end
  | _ => false
  end.

Definition typed_normal_with (uok : bytes -> bool) (d : bytes) : bool :=
  match wdecode (fuel_for d) d with
  | Some (v, []) => value_normal_with uok v
  | _ => false
  end.

(** THE PREDICATE: `update-url` in the url crate's normal form, syntactically ([UrlNorm.is_normal_url]) *)
Definition typed_normal (d : bytes) : bool := typed_normal_with is_normal_url d.
(** ... and everything but the `update-url` text (what holds of every re-serialisation, whatever the url crate does
    outside the modelled fragment) *)
Definition typed_normal_upto_url (d : bytes) : bool := typed_normal_with (fun _ => true) d.

(** the same on the typed side: what the readers guarantee of a typed value *)
Definition t_md5_ok (m : option bytes) : bool :=
  match m with Some s => Nat.eqb (length s) 32 && forallb is_hex s | None => true end.
Definition t_file_ok (f : file) : bool :=
  (f_length f <? 2 ^ 63) && t_md5_ok (f_md5 f) && forallb (fun c => utf8_valid c && normal_component c) (f_path f).
Definition t_mode_ok (m : mode) : bool :=
  match m with
  | Single n md5 => (n <? 2 ^ 63) && t_md5_ok md5
  | Multiple fs => forallb t_file_ok fs
  end.
Definition t_ok_with (uok : bytes -> bool) (t : tinfo) : bool :=
  (t_piece_length t <? 2 ^ 64) && utf8_valid (t_name t) &&
  match t_source t with Some s => utf8_valid s | None => true end &&
  (N.of_nat (length (t_pieces t)) mod 20 =? 0) && t_mode_ok (t_mode t) &&
  match t_update_url t with Some u => uok u | None => true end.

(* ------------------------------------------------------------------ where the url crate is modelled *)
Definition ir_some {A} (o : option A) : bool := match o with Some _ => true | None => false end.

(** the `update-url` text of the dictionary, if there is one, lies inside the fragment of Model/UrlNorm.v *)
Definition url_modelled_v (v : value) : bool :=
  match v with
  | Dict i => match lookup k_update_url i with Some (Str s) => ir_some (u_norm s) | _ => true end
  | _ => true
  end.
Definition info_url_modelled (d : bytes) : bool :=
  match wdecode (fuel_for d) d with Some (v, _) => url_modelled_v v | None => true end.

(* ------------------------------------------------------------------ the known-finding class *)
Definition info_keys : list bytes :=
  [k_files; k_length; k_md5sum; k_name; k_piece_length; k_pieces; k_private; k_source; k_update_url].
Definition file_keys : list bytes := [k_length; k_md5sum; k_path].
Definition keys_in (ks : list bytes) (d : list (bytes * value)) : bool :=
  forallb (fun kv => existsb (bytes_eqb (fst kv)) ks) d.

Definition modelled_keys_v (v : value) : bool :=
  match v with
  | Dict i =>
      keys_in info_keys i &&
      match lookup k_files i with
      | Some (Lst l) => forallb (fun f => match f with Dict fd => keys_in file_keys fd | _ => false end) l
      | Some _ => false
      | None => true
      end
  | _ => false
  end.

(** a canonical dictionary (nothing after it) made only of the keys imdl models *)
Definition modelled_keys_only (d : bytes) : bool :=
  match wdecode (fuel_for d) d with
  | Some (v, []) => modelled_keys_v v
  | _ => false
  end.

(** the open finding `typed-roundtrip-changes-value`: dictionaries of modelled keys that are not typed-normal *)
Definition c11_known_class (d : bytes) : bool := modelled_keys_only d && negb (typed_normal d).

(* ------------------------------------------------------------------ entry points of the extracted model *)
(** (0, e): the real client re-serialises to [e]; (1, []): it refuses; (2, []): the verdict depends on the url crate
    outside the modelled fragment (everything else is accepted) - nothing is claimed *)
Definition info_norm_entry (d : bytes) : N * bytes :=
  match info_norm (fun _ => None) d with
  | Some e => (0, e)
  | None =>
      if info_url_modelled d then (1, [])
      else match info_norm (fun t => Some t) d with Some _ => (2, []) | None => (1, []) end
  end.

Definition info_class_entry (d : bytes) : bool * (bool * bool) :=
  (typed_normal d, (modelled_keys_only d, c11_known_class d)).
