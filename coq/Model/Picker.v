(** Model of src/piece_length_picker.rs (C15). Definitions only.

    Rust:  let exponent = (content_size.count().max(1) as f64).log2().ceil() as u64;
           Bytes::from(1u64 << (exponent / 2 + 4)).max(Bytes::kib() * 16).min(Bytes::mib() * 16) *)
From Coq Require Import NArith List.
From Imdl Require Import Model.Float53.
Import ListNotations.
Local Open Scope N_scope.

Definition KiB : N := 1024.
Definition MiB : N := 1024 * 1024.

(** the clamp, on the power itself as the code writes it *)
Definition pick_exp (e : N) : N := N.min (N.max (2 ^ (e / 2 + 4)) (16 * KiB)) (16 * MiB).

(** ideal arithmetic: exact ceil(log2) *)
Definition pick_ideal (n : N) : N := pick_exp (N.log2_up (N.max n 1)).

(** the float path: [cl x] stands for `x.log2().ceil() as u64` on the integer-valued double x *)
Definition pick_float (cl : N -> N) (n : N) : N := pick_exp (cl (round53 (N.max n 1))).

(** executable entry point for the correspondence run *)
Definition pick (n : N) : N := pick_ideal n.

(** the clamp in exponent form *)
Definition clamp_e (e : N) : N := N.min (N.max (e / 2 + 4) 14) 24.

(** the closed form of the published table: for content of 2^k bytes *)
Definition table_row (k : N) : N := 2 ^ clamp_e k.
