(** C06 (X13) — a concrete model of what Model/Walk.v calls [gmatch]: globset 0.4.14,
    `Glob::new(text)?.compile_matcher()` followed by `is_match(relative_path)`, with the options imdl
    uses (the defaults on unix: case sensitive, literal_separator = false, backslash_escape = true,
    empty_alternates = false). Definitions only.

    Mirrors globset-0.4.14/src/glob.rs
      [enum Token]                                   [atom] / [token]
      [Parser::parse]                                [parse_loop]
      [Parser::push_token / pop_token / have_tokens] [push] / [pop] / [have_tokens]
      [Parser::push_alternate / pop_alternate / parse_comma]   the `{` `}` `,` arms of [parse_loop]
      [Parser::parse_backslash]                      the `\` arm of [parse_loop]
      [Parser::parse_star]                           the `*` arm of [parse_loop], [repush]
      [Parser::parse_class], [add_to_last_range]     [parse_class], [class_loop]
      [GlobBuilder::build]                           the end-of-text arm of [parse_loop], [glob_parse]
      [Tokens::to_regex_with] / [tokens_to_regex] + the regex engine
                                                     [glob_match] (a backtracking matcher written per token,
                                                     one arm for each regex fragment the function emits)
    and src/walker.rs [Walker::globs] ([glob_arg], [glob_args]); [Walker::pattern_filter] is Model/Walk.v.

    TEXT AND BYTES. The pattern is a Rust `&str`: valid UTF-8. The parser reads it `char` by `char`, the
    generated regex is matched against the BYTES of the path (`(?-u)`, `utf8(false)`, `.` matches every
    byte including `\n`). A `char` is represented here by its UTF-8 bytes ([uchar]); [chars_of] cuts a
    byte string before every byte that is not a continuation byte (10xxxxxx) and after every byte below
    128, which is `str::chars` on valid UTF-8, and `char` order is the lexicographic order of the encodings ([bytes_ltb]). On byte
    strings that are not UTF-8 the functions are total but model nothing (no such `&str` exists).
    Paths are arbitrary byte strings.

    What the regexes say, token by token (this is the content of [atom_match]):
      Literal(c)            the UTF-8 bytes of c
      Any  `?`              `.`          exactly one BYTE (so `?` does not match a two-byte `é`)
      ZeroOrMore `*`        `.*`         any bytes, `/` included
      RecursivePrefix       `(?:/?|.*/)` nothing, or anything that ends in `/`
      RecursiveSuffix       `/.*`        `/` and then anything
      RecursiveZeroOrMore   `(?:/|/.*/)` `/`, or `/` anything `/`
      Class                 `[..]` / `[^..]` over BYTES: each range (lo, hi) is written as the escaped bytes
                            of lo, `-`, the escaped bytes of hi, which the regex parser reads as: every byte
                            of lo but the last, the byte range last(lo)..first(hi), every byte of hi but
                            the first; a single character (lo = hi) is written once: all its bytes. For
                            ASCII that is the usual class; `[é]` is the two-byte set {C3, A9}.
      Alternates            `(?:b1|b2|..)` over the branches whose regex is not empty; no such branch:
                            nothing is emitted (`{}`, `{,}` and a stray `}` match the empty string)
      the whole pattern is anchored `^..$`; the token list [RecursivePrefix] alone (`**`, `**/`, `**/**`)
      is special-cased to `^.*$`.

    Abstractions, stated:
      - `Vec<Tokens>` (the parser's stack) is the pair [pstate]: the bottom element and the open
        alternate branches, current branch first. Nested groups are an error, so a branch never holds
        an [Alternates] token: branches are [list atom].
      - `prev` is the character before the one being handled. `Parser::bump` keeps it exactly; here it is
        passed along. Only its equality with `/`, `,` and `{` is ever looked at.
      - `pop_token` unwraps `pat.pop()`; it is only reached when `have_tokens()` was true on the same
        list, so the unwrap cannot fail; [pop] of an empty list is the identity.
      - `ranges.last_mut().unwrap()` in `parse_class` is reached only with `in_range`, which is set only
        when a range has been pushed; the [[]] arms of [class_loop] are not reachable.
      - `compile_matcher` does `new_regex(..).expect(..)`: the regex written by `to_regex_with` always
        compiles (every byte range it can write has last(lo) <= first(hi) because the parser refused
        hi < lo), so the panic is not modelled.
      - the regex engine is represented by the meaning of the fragments listed above. *)
From Coq Require Import NArith List Bool.
From Imdl Require Import Model.Walk.
Import ListNotations.
Local Open Scope N_scope.

Notation byte := N (only parsing).
Notation bytes := (list N) (only parsing).
(** one `char` of the pattern text: its UTF-8 bytes *)
Notation uchar := (list N) (only parsing).

Definition is_nil {A : Type} (l : list A) : bool := match l with [] => true | _ :: _ => false end.

Fixpoint last_opt {A : Type} (l : list A) : option A :=
  match l with
  | [] => None
  | [x] => Some x
  | _ :: r => last_opt r
  end.

Fixpoint bytes_eqb (a b : bytes) : bool :=
  match a, b with
  | [], [] => true
  | x :: a', y :: b' => (x =? y) && bytes_eqb a' b'
  | _, _ => false
  end.

(** `a < b` for `char`s given by their UTF-8 encodings: lexicographic *)
Fixpoint bytes_ltb (a b : bytes) : bool :=
  match a, b with
  | _, [] => false
  | [], _ :: _ => true
  | x :: a', y :: b' => (x <? y) || ((x =? y) && bytes_ltb a' b')
  end.

(* ---------- `str::chars` ---------- *)
Definition is_cont (b : byte) : bool := (128 <=? b) && (b <? 192).
Definition starts_cont (c : uchar) : bool := match c with b :: _ => is_cont b | [] => false end.

(** a byte below 128 is a character by itself; any other byte takes the continuation bytes that follow it *)
Fixpoint chars_of (s : bytes) : list uchar :=
  match s with
  | [] => []
  | b :: r => match chars_of r with
              | c :: cs => if (128 <=? b) && starts_cont c then (b :: c) :: cs else [b] :: c :: cs
              | [] => [[b]]
              end
  end.

(** the character is the ASCII character [n] *)
Definition is_ch (n : N) (c : uchar) : bool :=
  match c with
  | [b] => b =? n
  | _ => false
  end.

Definition prev_is (n : N) (prev : option uchar) : bool :=
  match prev with Some c => is_ch n c | None => false end.

(* ---------- tokens ---------- *)
Inductive atom :=
| ALit (c : uchar)                                      (* Token::Literal(char) *)
| AAny                                                  (* Token::Any *)
| AStar                                                 (* Token::ZeroOrMore *)
| ARecPre                                               (* Token::RecursivePrefix *)
| ARecSuf                                               (* Token::RecursiveSuffix *)
| ARecMid                                               (* Token::RecursiveZeroOrMore *)
| AClass (negated : bool) (ranges : list (uchar * uchar)).  (* Token::Class { negated, ranges } *)

Inductive token :=
| TAtom (a : atom)
| TAlt (branches : list (list atom)).                   (* Token::Alternates(Vec<Tokens>), in the Vec's order *)

Inductive perr := EUnclosedClass | EInvalidRange | EUnclosedAlternates | ENestedAlternates | EDanglingEscape.
Inductive presult := POk (ts : list token) | PErr (e : perr).

(* ---------- the parser's stack ---------- *)
(** (stack[0], stack[1..] reversed): no open group = [snd st = []] = `stack.len() == 1` *)
Definition pstate : Type := (list token * list (list atom))%type.

Definition in_alt (st : pstate) : bool := negb (is_nil (snd st)).

(** [push_token] *)
Definition push (a : atom) (st : pstate) : pstate :=
  match snd st with
  | [] => (fst st ++ [TAtom a], [])
  | cur :: older => (fst st, (cur ++ [a]) :: older)
  end.

(** [have_tokens] *)
Definition have_tokens (st : pstate) : bool :=
  match snd st with
  | [] => negb (is_nil (fst st))
  | cur :: _ => negb (is_nil cur)
  end.

(** what [parse_star] asks of the token it pops *)
Inductive popped := WasPre | WasSuf | WasOther.
Definition atom_kind (a : atom) : popped :=
  match a with ARecPre => WasPre | ARecSuf => WasSuf | _ => WasOther end.

(** [pop_token] *)
Definition pop (st : pstate) : popped * pstate :=
  match snd st with
  | [] => (match last_opt (fst st) with Some (TAtom a) => atom_kind a | _ => WasOther end,
           (removelast (fst st), []))
  | cur :: older => (match last_opt cur with Some a => atom_kind a | None => WasOther end,
                     (fst st, removelast cur :: older))
  end.

(** the tail of [parse_star]: `match self.pop_token()? { RecursivePrefix => push RecursivePrefix,
    RecursiveSuffix => push RecursiveSuffix, _ => push (if is_suffix RecursiveSuffix else RecursiveZeroOrMore) }`
    — whatever else was popped (normally the literal `/` in front of the `**`) is dropped *)
Definition repush (is_suffix : bool) (st : pstate) : pstate :=
  let (k, st') := pop st in
  match k with
  | WasPre => push ARecPre st'
  | WasSuf => push ARecSuf st'
  | WasOther => push (if is_suffix then ARecSuf else ARecMid) st'
  end.

(* ---------- [parse_class] ---------- *)
Inductive lresult := LOk (ranges : list (uchar * uchar)) (rest : list uchar) | LErr (e : perr).

(** the `loop` of [parse_class]; [rr] is `ranges` reversed (its head is `ranges.last_mut()`) *)
Fixpoint class_loop (first in_range : bool) (rr : list (uchar * uchar)) (cs : list uchar) : lresult :=
  match cs with
  | [] => LErr EUnclosedClass
  | c :: r =>
      if is_ch 93 c then                                          (* ] *)
        if first then class_loop false in_range ((c, c) :: rr) r
        else LOk (rev (if in_range then ([45], [45]) :: rr else rr)) r
      else if is_ch 45 c then                                     (* - *)
        if first then class_loop false in_range ((c, c) :: rr) r
        else if in_range then
          match rr with
          | lastr :: rr' => if bytes_ltb c (fst lastr) then LErr EInvalidRange
                            else class_loop false false ((fst lastr, c) :: rr') r
          | [] => LErr EUnclosedClass                             (* not reachable *)
          end
        else class_loop false true rr r
      else if in_range then
        match rr with
        | lastr :: rr' => if bytes_ltb c (fst lastr) then LErr EInvalidRange
                          else class_loop false false ((fst lastr, c) :: rr') r
        | [] => LErr EUnclosedClass                               (* not reachable *)
        end
      else class_loop false false ((c, c) :: rr) r
  end.

Inductive cresult := COk (negated : bool) (ranges : list (uchar * uchar)) (rest : list uchar) | CErr (e : perr).

(** [parse_class], called with the text after the `[` *)
Definition parse_class (cs : list uchar) : cresult :=
  let negated := match cs with c :: _ => is_ch 33 c || is_ch 94 c | [] => false end in
  match class_loop true false [] (if negated then tl cs else cs) with
  | LOk ranges rest => COk negated ranges rest
  | LErr e => CErr e
  end.

(* ---------- [Parser::parse] + [GlobBuilder::build] ---------- *)
(** [prev] = `self.prev` as [parse_star] reads it: the character before [c]. [None] (the fuel ran out) does
    not happen from [glob_parse_result] (Proofs/GlobProofs.v, [parse_fuel_suffices]). *)
Fixpoint parse_loop (fuel : nat) (st : pstate) (prev : option uchar) (cs : list uchar) : option presult :=
  match fuel with
  | O => None
  | S f =>
    match cs with
    | [] =>
        (* build(): `stack.len() > 1` => UnclosedAlternates (the stack is never empty) *)
        Some (match snd st with [] => POk (fst st) | _ :: _ => PErr EUnclosedAlternates end)
    | c :: r =>
      if is_ch 63 c then parse_loop f (push AAny st) (Some c) r                     (* ? *)
      else if is_ch 42 c then                                                       (* * : parse_star *)
        match r with
        | c2 :: r2 =>
          if is_ch 42 c2 then
            if negb (have_tokens st) then
              match r2 with
              | [] => parse_loop f (push ARecPre st) (Some c2) []
              | c3 :: r3 =>
                  if is_ch 47 c3 then parse_loop f (push ARecPre st) (Some c3) r3
                  else parse_loop f (push AStar (push AStar st)) (Some c2) r2
              end
            else if negb (prev_is 47 prev)
                    && (negb (in_alt st) || (negb (prev_is 44 prev) && negb (prev_is 123 prev))) then
              parse_loop f (push AStar (push AStar st)) (Some c2) r2
            else
              match r2 with
              | [] => parse_loop f (repush true st) (Some c2) []
              | c3 :: r3 =>
                  if in_alt st && (is_ch 44 c3 || is_ch 125 c3) then parse_loop f (repush true st) (Some c2) r2
                  else if is_ch 47 c3 then parse_loop f (repush false st) (Some c3) r3
                  else parse_loop f (push AStar (push AStar st)) (Some c2) r2
              end
          else parse_loop f (push AStar st) (Some c) r
        | [] => parse_loop f (push AStar st) (Some c) r
        end
      else if is_ch 91 c then                                                       (* [ : parse_class *)
        match parse_class r with
        | CErr e => Some (PErr e)
        | COk negated ranges rest => parse_loop f (push (AClass negated ranges) st) (Some [93]) rest
        end
      else if is_ch 123 c then                                                      (* { : push_alternate *)
        if in_alt st then Some (PErr ENestedAlternates)
        else parse_loop f (fst st, [[]]) (Some c) r
      else if is_ch 125 c then                                                      (* } : pop_alternate *)
        (* pops every open branch (none, when no group is open) and pushes Alternates(those) on stack[0] *)
        parse_loop f (fst st ++ [TAlt (snd st)], []) (Some c) r
      else if is_ch 44 c then                                                       (* , : parse_comma *)
        if in_alt st then parse_loop f (fst st, [] :: snd st) (Some c) r
        else parse_loop f (push (ALit c) st) (Some c) r
      else if is_ch 92 c then                                                       (* \ : parse_backslash *)
        match r with
        | [] => Some (PErr EDanglingEscape)
        | c2 :: r2 => parse_loop f (push (ALit c2) st) (Some c2) r2
        end
      else parse_loop f (push (ALit c) st) (Some c) r
    end
  end.

Definition glob_parse_result (text : bytes) : option presult :=
  let cs := chars_of text in parse_loop (S (length cs)) ([], []) None cs.

(** `Glob::new(text)`: [None] = an error *)
Definition glob_parse (text : bytes) : option (list token) :=
  match glob_parse_result text with
  | Some (POk ts) => Some ts
  | _ => None
  end.

(* ---------- matching: `to_regex_with` + the regex engine ---------- *)
(** is the byte in what the regex parser makes of `lo-hi` written as escaped bytes *)
Definition range_has (b : byte) (r : uchar * uchar) : bool :=
  let (lo, hi) := r in
  if bytes_eqb lo hi then existsb (N.eqb b) lo
  else existsb (N.eqb b) (removelast lo) || ((last lo 0 <=? b) && (b <=? hd 0 hi)) || existsb (N.eqb b) (tl hi).

Definition class_has (negated : bool) (ranges : list (uchar * uchar)) (b : byte) : bool :=
  xorb negated (existsb (range_has b) ranges).

Fixpoint strip_prefix (p s : bytes) : option bytes :=
  match p with
  | [] => Some s
  | x :: p' => match s with
               | y :: s' => if x =? y then strip_prefix p' s' else None
               | [] => None
               end
  end.

(** `.*` then the rest: some suffix of [s] satisfies [k] *)
Fixpoint any_suffix (k : bytes -> bool) (s : bytes) : bool :=
  k s || match s with [] => false | _ :: s' => any_suffix k s' end.

(** `.*/` then the rest: what follows some `/` of [s] satisfies [k] *)
Fixpoint after_slash (k : bytes -> bool) (s : bytes) : bool :=
  match s with
  | [] => false
  | c :: s' => ((c =? 47) && k s') || after_slash k s'
  end.

(** one token against a prefix of [s], then the continuation [k] on what is left *)
Definition atom_match (a : atom) (k : bytes -> bool) (s : bytes) : bool :=
  match a with
  | ALit c => match strip_prefix c s with Some s' => k s' | None => false end
  | AAny => match s with _ :: s' => k s' | [] => false end
  | AStar => any_suffix k s
  | ARecPre => k s || after_slash k s
  | ARecSuf => match s with c :: s' => (c =? 47) && any_suffix k s' | [] => false end
  | ARecMid => match s with c :: s' => (c =? 47) && (k s' || after_slash k s') | [] => false end
  | AClass negated ranges => match s with c :: s' => class_has negated ranges c && k s' | [] => false end
  end.

Fixpoint atoms_match (l : list atom) (k : bytes -> bool) (s : bytes) : bool :=
  match l with
  | [] => k s
  | a :: r => atom_match a (atoms_match r k) s
  end.

Definition token_match (t : token) (k : bytes -> bool) (s : bytes) : bool :=
  match t with
  | TAtom a => atom_match a k s
  | TAlt brs => if forallb is_nil brs then k s
                else existsb (fun br => negb (is_nil br) && atoms_match br k s) brs
  end.

Fixpoint tokens_match (ts : list token) (k : bytes -> bool) (s : bytes) : bool :=
  match ts with
  | [] => k s
  | t :: r => token_match t (tokens_match r k) s
  end.

(** `if self.len() == 1 && self[0] == Token::RecursivePrefix` *)
Definition is_everything (ts : list token) : bool :=
  match ts with
  | [TAtom ARecPre] => true
  | _ => false
  end.

(** `glob.compile_matcher().is_match(path)` on the bytes of the path *)
Definition glob_match (ts : list token) (s : bytes) : bool :=
  is_everything ts || tokens_match ts is_nil s.

(* ---------- imdl: src/walker.rs ---------- *)
(** one `--glob` argument: `let exclude = glob.starts_with('!'); Glob::new(if exclude { &glob[1..] } else { glob })?` *)
Definition glob_arg (text : bytes) : option (bool * list token) :=
  match text with
  | c :: r => if c =? 33 then option_map (pair false) (glob_parse r) else option_map (pair true) (glob_parse text)
  | [] => option_map (pair true) (glob_parse [])
  end.

(** [Walker::globs]: the first argument that does not parse fails the command *)
Fixpoint glob_args (l : list bytes) : option (list (bool * list token)) :=
  match l with
  | [] => Some []
  | a :: r => match glob_arg a with
              | Some g => option_map (cons g) (glob_args r)
              | None => None
              end
  end.

(** the instance of Model/Walk.v's [gmatch]: the glob against the root-relative path, components joined by `/` *)
Definition glob_path_match (g : list token) (p : path) : bool := glob_match g (joined p).

(** the walker's configuration and walk with the concrete matcher *)
Definition walk_globs (c : cfg (list token)) (root : tree) : outcome := walk (list token) glob_path_match c root.

(** the `glob_filter` hook: [Walker::globs] then [Walker::pattern_filter] on a path given as one string *)
Definition glob_filter (args : list bytes) (relative : bytes) : option bool :=
  match glob_args args with
  | Some ps => Some (pattern_filter (list token) glob_path_match ps [relative])
  | None => None
  end.
