(** `torrent show` with its two formerly abstract renderers made concrete (C07, work package X11): the calendar text
    is Model/Calendar.v's [cal] (chrono 0.4.38), the humanised size is Model/ByteSize.v's [bs_display] (Display for
    Bytes, C16). Definitions only. The url-crate renderers [host_disp] / [url_norm] stay parameters here
    (Model/UrlHost.v and Model/UrlNorm.v model fragments of them for C17 / C05). *)
From Coq Require Import NArith List.
From Imdl Require Import Model.Bencode.
From Imdl Require Model.Summary Model.ByteSize Model.Calendar.
Import ListNotations.
Local Open Scope N_scope.

(** Display for Bytes as text; [bs_display] is [None] where the Rust code would panic, which it never does on a
    u64 ([ShowConcreteProofs.human_display_eq]) *)
Definition human_display (n : N) : bytes := match ByteSize.bs_display n with Some t => t | None => [] end.

Definition show_concrete (host_disp url_norm : bytes -> option bytes) (src : Summary.target) (input ih : bytes)
  : Summary.outcome :=
  Summary.show Calendar.cal human_display host_disp url_norm src input ih.

(** entry point of the extracted model (runner/driver.d/calendar.ml) *)
Definition concrete_show_entry := show_concrete.
