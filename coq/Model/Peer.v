(** C11 — the metadata fetch of `imdl torrent from-link` (the src/peer modules). Definitions only.

    Layers, each mirroring the Rust code named next to it:
      - big-endian integers, [frame] (Message::serialize), [parse_frames] (Connection::recv as
        repaired: the 4-byte length is read first and zero lengths are skipped; a payload cut
        short by end-of-stream is delivered short, because `take(n).read_to_end` is not an error
        at EOF);
      - [recv_handshake] (Connection::recv_handshake + Handshake::try_from + the extension bit
        test of Client::connect);
      - [classify]: typed reading of an extended payload through the strict bencode model
        (Model/Bencode.v): extended::Handshake and extended::UtMetadata as serde derives them
        over bendy (struct = dictionary, identifiers must be UTF-8, unknown keys ignored, integer
        ranges of the field types), the data offset found by re-encoding the typed header;
      - [step]/[run]: Client::fetch_info_dict / handle_msg / handle_extended /
        handle_extension_handshake / handle_ut_metadata, with the requests the client sends;
      - [accept]: Client::verify_info_dict (typed round trip [norm], then hash comparison);
      - [session]: Client::connect followed by fetch_info_dict on a finite byte stream after
        which the peer closes.

    The stream the peer sends is one byte list: TCP segmentation does not exist at this level.
    Not modelled (exercised only by the correspondence runs): timeouts, send errors, bendy's
    nesting limit of 2048 in ignored values, integers in [2^63, 2^64) in u64-typed header
    fields (the bencode model is i64 like bendy's Value; the serde path would accept them). *)
From Coq Require Import Decimal DecimalN DecimalFacts.
From Coq Require Import NArith ZArith Bool List.
From Imdl Require Import Model.Bencode.
Import ListNotations.
Local Open Scope N_scope.

(* ---------- constants (tied to the Rust source by Properties/C11.v through GenPeer) ---------- *)
Definition PIECE : N := 16384.                 (* UtMetadata::PIECE_LENGTH *)
Definition EXTENDED : N := 20.                 (* Flavour::Extended *)
Definition ID_HANDSHAKE : N := 0.              (* extended::Id::Handshake *)
Definition ID_UT_METADATA : N := 1.            (* extended::Id::UtMetadata: the id imdl announces for itself *)
Definition MT_REQUEST : N := 0.
Definition MT_DATA : N := 1.
Definition HS_HEADER : bytes :=
  [19; 66; 105; 116; 84; 111; 114; 114; 101; 110; 116; 32; 112; 114; 111; 116; 111; 99; 111; 108].
Definition HS_LENGTH : nat := 68.
Definition EXT_BIT : N := 16.
Definition EXT_INDEX : nat := 5.

Definition k_m : bytes := [109].
Definition k_metadata_size : bytes := [109; 101; 116; 97; 100; 97; 116; 97; 95; 115; 105; 122; 101].
Definition k_p : bytes := [112].
Definition k_v : bytes := [118].
Definition k_yourip : bytes := [121; 111; 117; 114; 105; 112].
Definition k_ipv6 : bytes := [105; 112; 118; 54].
Definition k_ipv4 : bytes := [105; 112; 118; 52].
Definition k_reqq : bytes := [114; 101; 113; 113].
Definition k_ut_metadata : bytes := [117; 116; 95; 109; 101; 116; 97; 100; 97; 116; 97].
Definition k_msg_type : bytes := [109; 115; 103; 95; 116; 121; 112; 101].
Definition k_piece : bytes := [112; 105; 101; 99; 101].
Definition k_total_size : bytes := [116; 111; 116; 97; 108; 95; 115; 105; 122; 101].

(* ---------- bytes ---------- *)
Fixpoint bytes_eqb (a b : bytes) : bool :=
  match a, b with
  | [], [] => true
  | x :: a', y :: b' => (x =? y) && bytes_eqb a' b'
  | _, _ => false
  end.

Fixpoint le (w : nat) (n : N) : bytes :=
  match w with O => [] | S w' => n mod 256 :: le w' (n / 256) end.
Fixpoint unle (l : bytes) : N := match l with [] => 0 | b :: r => b + 256 * unle r end.
Definition be (w : nat) (n : N) : bytes := rev (le w n).
Definition unbe (l : bytes) : N := unle (rev l).

(* ---------- frames ---------- *)
(* payload [] stands for both `None` and `Some(vec![])`: Message::serialize and
   parse_extended_payload treat them alike *)
Inductive item := KeepAlive | Msg (flavour : N) (payload : bytes).

(* Message::serialize, and BEP 3's keep-alive *)
Definition frame (it : item) : bytes :=
  match it with
  | KeepAlive => be 4 0
  | Msg fl p => be 4 (1 + N.of_nat (length p)) ++ fl :: p
  end.

(* Connection::recv (repaired), iterated until the stream cannot supply a length or a flavour
   byte (read_exact fails: the session ends with a network error) *)
Fixpoint parse_frames (fuel : nat) (s : bytes) : option (list item) :=
  match fuel with
  | O => None
  | S f =>
      if Nat.ltb (length s) 4 then Some []
      else
        let len := unbe (firstn 4 s) in
        let r := skipn 4 s in
        if len =? 0 then
          match parse_frames f r with Some l => Some (KeepAlive :: l) | None => None end
        else
          match r with
          | [] => Some []
          | fl :: r1 =>
              (* `length > 1`: take(length - 1).read_to_end; otherwise no payload *)
              let n := N.to_nat (N.min (len - 1) (N.of_nat (length r1))) in
              match parse_frames f (skipn n r1) with
              | Some l => Some (Msg fl (firstn n r1) :: l)
              | None => None
              end
          end
  end.

Definition parse_all (s : bytes) : option (list item) := parse_frames (S (length s)) s.

(* ---------- BitTorrent handshake ---------- *)
Definition hs_bytes (reserved infohash peer_id : bytes) : bytes :=
  HS_HEADER ++ reserved ++ infohash ++ peer_id.

(* Some rest = handshake accepted (header, infohash, extension bit); None = connect fails *)
Definition recv_handshake (target s : bytes) : option bytes :=
  if Nat.ltb (length s) HS_LENGTH then None else
  let buf := firstn HS_LENGTH s in
  if negb (bytes_eqb (firstn 20 buf) HS_HEADER) then None else
  if negb (bytes_eqb (firstn 20 (skipn 28 buf)) target) then None else
  if negb (0 <? N.land (nth EXT_INDEX (skipn 20 buf) 0) EXT_BIT) then None else
  Some (skipn HS_LENGTH s).

(* ---------- UTF-8 (core::str::from_utf8), needed because serde identifiers and String fields
   are read with next_string ---------- *)
Definition rng (lo hi b : N) : bool := (lo <=? b) && (b <=? hi).
Definition cont (b : N) : bool := rng 128 191 b.

Fixpoint utf8_valid (s : bytes) : bool :=
  match s with
  | [] => true
  | b0 :: r =>
      if b0 <? 128 then utf8_valid r
      else if rng 194 223 b0 then
        match r with b1 :: r1 => cont b1 && utf8_valid r1 | _ => false end
      else if rng 224 239 b0 then
        match r with
        | b1 :: b2 :: r2 =>
            (if b0 =? 224 then rng 160 191 b1 else if b0 =? 237 then rng 128 159 b1 else cont b1)
            && cont b2 && utf8_valid r2
        | _ => false
        end
      else if rng 240 244 b0 then
        match r with
        | b1 :: b2 :: b3 :: r3 =>
            (if b0 =? 240 then rng 144 191 b1 else if b0 =? 244 then rng 128 143 b1 else cont b1)
            && cont b2 && cont b3 && utf8_valid r3
        | _ => false
        end
      else false
  end.

(* ---------- typed views of the two header dictionaries ---------- *)
Fixpoint dget (k : bytes) (d : list (bytes * value)) : option value :=
  match d with
  | [] => None
  | (k', v) :: r => if bytes_eqb k' k then Some v else dget k r
  end.

(* str::parse::<uN> of a canonical bencode integer *)
Definition uint_of (bits : N) (v : value) : option N :=
  match v with
  | Int z => if ((0 <=? z) && (z <? 2 ^ Z.of_N bits))%Z then Some (Z.to_N z) else None
  | _ => None
  end.

Definition is_some {A} (o : option A) : bool := match o with Some _ => true | None => false end.
Definition is_str (v : value) : bool := match v with Str _ => true | _ => false end.
Definition is_utf8_str (v : value) : bool := match v with Str s => utf8_valid s | _ => false end.

(* HashMap<String, u8> *)
Definition m_ok (v : value) : bool :=
  match v with
  | Dict d => forallb (fun kv => utf8_valid (fst kv) && is_some (uint_of 8 (snd kv))) d
  | _ => false
  end.

(* one entry of extended::Handshake: identifier is a str; a known field must have its type *)
Definition hs_entry_ok (kv : bytes * value) : bool :=
  let '(k, v) := kv in
  utf8_valid k &&
  (if bytes_eqb k k_m then m_ok v
   else if bytes_eqb k k_metadata_size then is_some (uint_of 64 v)
   else if bytes_eqb k k_p then is_some (uint_of 16 v)
   else if bytes_eqb k k_v then is_utf8_str v
   else if bytes_eqb k k_yourip then is_str v
   else if bytes_eqb k k_ipv6 then is_str v
   else if bytes_eqb k k_ipv4 then is_str v
   else if bytes_eqb k k_reqq then is_some (uint_of 64 v)
   else true).

(* Some (metadata_size, id the peer assigns to ut_metadata) *)
Definition view_hs (v : value) : option (option N * option N) :=
  match v with
  | Dict d =>
      if forallb hs_entry_ok d then
        match dget k_m d with
        | Some (Dict m) =>
            Some (match dget k_metadata_size d with Some x => uint_of 64 x | None => None end,
                  match dget k_ut_metadata m with Some x => uint_of 8 x | None => None end)
        | _ => None                       (* missing field `m` *)
        end
      else None
  | _ => None
  end.

Definition utm_entry_ok (kv : bytes * value) : bool :=
  let '(k, v) := kv in
  utf8_valid k &&
  (if bytes_eqb k k_msg_type then is_some (uint_of 8 v)
   else if bytes_eqb k k_piece then is_some (uint_of 64 v)
   else if bytes_eqb k k_total_size then is_some (uint_of 64 v)
   else true).

Definition view_utm (v : value) : option (N * N * option N) :=
  match v with
  | Dict d =>
      if forallb utm_entry_ok d then
        match dget k_msg_type d, dget k_piece d with
        | Some a, Some b =>
            match uint_of 8 a, uint_of 64 b with
            | Some mt, Some pc =>
                Some (mt, pc, match dget k_total_size d with Some x => uint_of 64 x | None => None end)
            | _, _ => None
            end
        | _, _ => None
        end
      else None
  | _ => None
  end.

(* bendy::serde::ser::to_bytes(&msg): the typed header written back *)
Definition utm_value (mt pc : N) (ts : option N) : value :=
  Dict ((k_msg_type, Int (Z.of_N mt)) :: (k_piece, Int (Z.of_N pc)) ::
        match ts with Some t => [(k_total_size, Int (Z.of_N t))] | None => [] end).

(* what the client makes of an extended payload (after the extended id byte is split off) *)
Inductive cls :=
| Bad                                           (* an Err: the client gives up on this peer *)
| Ignore                                        (* extended::Id::NotImplemented *)
| ExtHandshake (msize : option N) (ut_id : option N)
| UtOther                                       (* ut_metadata request / reject *)
| UtData (piece : N) (tail : bytes)
| UtPanic.                                      (* payload[piece_offset..] out of range *)

Definition bfuel (p : bytes) : nat := 2 * length p.

Definition classify (payload : bytes) : cls :=
  match payload with
  | [] => Bad                                   (* PeerMessageExtendedPayload *)
  | id :: p =>
      if id =? ID_HANDSHAKE then
        match decode (bfuel p) p with
        | Some (v, _) => match view_hs v with Some (ms, ut) => ExtHandshake ms ut | None => Bad end
        | None => Bad
        end
      else if id =? ID_UT_METADATA then
        match decode (bfuel p) p with
        | Some (v, _) =>
            match view_utm v with
            | Some (mt, pc, ts) =>
                if mt =? MT_DATA then
                  let off := length (encode (utm_value mt pc ts)) in
                  if Nat.ltb (length p) off then UtPanic else UtData pc (skipn off p)
                else UtOther
            | None => Bad
            end
        | None => Bad
        end
      else Ignore
  end.

(* ---------- the session ---------- *)
Record st := { buf : bytes; ext : option (N * N) (* metadata_size, peer's ut_metadata id *) }.

Definition req := (N * N)%type.                 (* (extended id used, piece requested) *)

Inductive res := Continue (s : st) (sent : list req) | Done (info : bytes) | Fail | Panic.

Section Session.
  Variable classify_ : bytes -> cls.
  (* verify_info_dict on the assembled buffer: Some = the Info that is returned, re-serialised *)
  Variable accept_ : bytes -> option bytes.

  Definition step (s : st) (it : item) : res :=
    match it with
    | KeepAlive => Continue s []
    | Msg fl p =>
        if negb (fl =? EXTENDED) then Continue s [] else
        match classify_ p with
        | Bad => Fail
        | Ignore => Continue s []
        | ExtHandshake None _ => Fail                    (* PeerUtMetadataMetadataSizeNotKnown *)
        | ExtHandshake (Some _) None => Fail             (* PeerUtMetadataNotSupported *)
        | ExtHandshake (Some m) (Some id) =>
            Continue {| buf := buf s; ext := Some (m, id) |} [(id, 0)]
        | UtPanic => match ext s with None => Fail | Some _ => Panic end
        | UtOther => match ext s with None => Fail | Some _ => Continue s [] end
        | UtData piece tail =>
            match ext s with
            | None => Fail                               (* PeerNoExtendedHandshake *)
            | Some (m, id) =>
                let cur := N.of_nat (length (buf s)) / PIECE in
                if negb (piece =? cur) then Fail         (* PeerUtMetadataWrongPiece *)
                else if PIECE <? N.of_nat (length tail) then Fail   (* PeerUtMetadataPieceLength *)
                else
                  let b := buf s ++ tail in
                  match N.of_nat (length b) ?= m with
                  | Eq => match accept_ b with Some i => Done i | None => Fail end
                  | Lt => Continue {| buf := b; ext := ext s |} [(id, cur + 1)]
                  | Gt => Fail                           (* PeerUtMetadataInfoLength *)
                  end
            end
        end
    end.

  Inductive outcome := Pending (s : st) | Got (info : bytes) | GaveUp | Crashed.

  Fixpoint run (s : st) (items : list item) : outcome * list req :=
    match items with
    | [] => (Pending s, [])
    | it :: r =>
        match step s it with
        | Continue s' o => let '(out, o') := run s' r in (out, o ++ o')
        | Done i => (Got i, [])
        | Fail => (GaveUp, [])
        | Panic => (Crashed, [])
        end
    end.

  Definition init : st := {| buf := []; ext := None |}.

  (* Client::connect + fetch_info_dict against a peer that sends [s] and then closes *)
  Definition session (target s : bytes) : outcome * list req :=
    match recv_handshake target s with
    | None => (GaveUp, [])
    | Some rest =>
        match parse_all rest with
        | None => (GaveUp, [])                           (* never: see parse_all_total *)
        | Some items =>
            match run init items with
            | (Pending _, o) => (GaveUp, o)              (* recv fails at end of stream *)
            | r => r
            end
        end
    end.
End Session.

(* verify_info_dict: typed round trip, hash of the re-serialisation against the magnet infohash.
   [norm] (serde: from_bytes::<Info> then to_bytes) and [H] (SHA-1) are external code. *)
Definition accept (norm : bytes -> option bytes) (H : bytes -> bytes) (target b : bytes) : option bytes :=
  match norm b with
  | Some i => if bytes_eqb (H i) target then Some i else None
  | None => None
  end.

Definition fetch norm H (target s : bytes) : outcome * list req :=
  session classify (accept norm H target) target s.

(* the extracted entry point: the same machine with verification left to the caller, so the
   result is the assembled buffer that verify_info_dict would be called on *)
Definition assemble (target s : bytes) : outcome * list req := session classify (fun b => Some b) target s.

(* FromLink::run: what is written, as a bencode value, given the verified Info as a value *)
Definition written_file (trackers : list bytes) (info : value) : bytes :=
  encode (Dict [([97; 110; 110; 111; 117; 110; 99; 101; 45; 108; 105; 115; 116], Lst [Lst (map Str trackers)]);
                ([105; 110; 102; 111], info)]).

(* ---------- the honest peer of BEP 3/9/10 ---------- *)
Definition chunk (d : bytes) (i : nat) : bytes :=
  firstn (N.to_nat PIECE) (skipn (i * N.to_nat PIECE) d).
Definition npieces (d : bytes) : nat := N.to_nat ((N.of_nat (length d) + PIECE - 1) / PIECE).

Definition data_msg (d : bytes) (i : nat) : item :=
  Msg EXTENDED (ID_UT_METADATA ::
                encode (utm_value MT_DATA (N.of_nat i) (Some (N.of_nat (length d)))) ++ chunk d i).

Definition hs_msg (hsv : value) : item := Msg EXTENDED (ID_HANDSHAKE :: encode hsv).

(* pieces i, i+1, …, i+k-1, each preceded by whatever else the peer likes to send *)
Fixpoint serve (d : bytes) (ign : nat -> list item) (i k : nat) : list item :=
  match k with
  | O => []
  | S k' => ign i ++ data_msg d i :: serve d ign (S i) k'
  end.

Definition ignorable (it : item) : Prop :=
  match it with
  | KeepAlive => True
  | Msg fl p => fl <> EXTENDED \/ classify p = Ignore
  end.

Definition ok_item (it : item) : Prop :=
  match it with KeepAlive => True | Msg _ p => 1 + N.of_nat (length p) < 2 ^ 32 end.

(* everything an honest peer sends after the BitTorrent handshake: anything ignorable, its
   extension handshake, then the pieces in order, each preceded by anything ignorable *)
Definition honest_items (d : bytes) (ign : nat -> list item) (hsv : value) (ign0 : list item) : list item :=
  ign0 ++ hs_msg hsv :: serve d ign 0 (npieces d).

Definition honest_stream (d : bytes) (ign : nat -> list item) (hsv : value) (ign0 : list item)
           (target reserved peer_id tail : bytes) : bytes :=
  hs_bytes reserved target peer_id ++ concat (map frame (honest_items d ign hsv ign0)) ++ tail.

(* the requests the client sends meanwhile: pieces 0 … n-1 under the peer's id *)
Definition honest_requests (id : N) (d : bytes) : list req :=
  map (fun j => (id, N.of_nat j)) (seq 0 (npieces d)).

(* Infohash::from_input on the written file: the re-encoded `info` value *)
Definition k_info : bytes := [105; 110; 102; 111].
Definition info_of_file (f : bytes) : option bytes :=
  match decode (bfuel f) f with
  | Some (Dict top, _) => match dget k_info top with Some (Dict i) => Some (encode (Dict i)) | _ => None end
  | _ => None
  end.

(* for the runner *)
Definition outcome_code (o : outcome) : N * bytes :=
  match o with Pending _ => (3, []) | Got i => (0, i) | GaveUp => (1, []) | Crashed => (2, []) end.

Definition peer_assemble_model (target s : bytes) : (N * bytes) * list req :=
  let '(o, sent) := assemble target s in (outcome_code o, sent).
