(** Byte-size notation as src/bytes.rs reads and prints it (C16). Definitions only.

    Text is a list of Unicode scalar values ([N]); the tables (suffix spellings, multipliers
    as shift counts, display suffixes, the two words) come from Generated/GenBytes.v, which
    the translator rewrites from the Rust source on every run.

    FromStr for Bytes, line by line:
      digits  = text.chars().take_while(is_digit)          [take_while is_numch]
      suffix  = text.chars().skip_while(is_digit)          [skip_while is_numch]
      value   = digits.parse::<f64>()?                     [parse_number, dec_to_f64]
      multiple= match suffix.to_lowercase() { table, _ => Err }   [lower, lookup_unit]
      Ok(Bytes((value * multiple as f64) as u64))          [f64_to_u64 m (e + shift)]

    Floating point is modelled in exact integer arithmetic: a positive binary64 is a pair
    (m, e) with value m * 2^e; [to53 a b] is the correctly rounded (nearest, ties to even)
    quotient a/b as Rust's f64::from_str produces it for a decimal numeral; every multiplier
    is a power of two (a shift count in the table), so the product is exact; `as u64`
    truncates towards zero and saturates. The exponent is unbounded in the model: a numeral
    below 2^-1022 (subnormal / zero in binary64) is below 2^-962 after scaling, so both
    sides truncate to 0; a product that overflows binary64 becomes +inf, which `as u64`
    saturates to 2^64-1 exactly as the model's [N.min] does.

    Display for Bytes, line by line:
      value = self.0 as f64                                [round53]
      while value >= 1024.0 { value /= 1024.0; i += 1 }    [unit_loop; the division is exact]
      suffix = i == 0 ? (value == 1.0 ? "byte" : "bytes") : DISPLAY_SUFFIXES[i-1]   [unit_word; None = index panic]
      format!("{value:.2}")                                [fmt2 (rne_div (100 v) (1024^i)): exact decimal
                                                            expansion of the dyadic value, ties to even]
      .trim_end_matches('0').trim_end_matches('.')         [trim] *)
From Coq Require Import Decimal DecimalN DecimalFacts.
From Coq Require Import NArith ZArith Bool List.
From Imdl Require Import Model.Bencode Model.Float53 Generated.GenBytes.
Import ListNotations.
Local Open Scope N_scope.

Notation text := (list N) (only parsing).

(* ---------- iterator adaptors ---------- *)
Fixpoint take_while (p : N -> bool) (l : text) : text :=
  match l with [] => [] | c :: r => if p c then c :: take_while p r else [] end.

Fixpoint skip_while (p : N -> bool) (l : text) : text :=
  match l with [] => [] | c :: r => if p c then skip_while p r else l end.

(** matches!(c, '0'..='9' | '.') *)
Definition is_numch (c : N) : bool := ((48 <=? c) && (c <=? 57)) || (c =? 46).

(* ---------- str::to_lowercase, as far as it can matter ---------- *)
(** Exact on ASCII and on U+212A KELVIN SIGN (the only non-ASCII scalar whose lower-casing
    is ASCII). Every other non-ASCII scalar lower-cases to a string containing at least one
    non-ASCII scalar; the model keeps the scalar itself. All table spellings are ASCII
    ([units_ascii] in the proofs), so membership in the table is unaffected. *)
Definition lower (c : N) : N :=
  if (65 <=? c) && (c <=? 90) then c + 32 else if c =? 8490 then 107 else c.

Fixpoint text_eqb (a b : text) : bool :=
  match a, b with
  | [], [] => true
  | x :: a', y :: b' => (x =? y) && text_eqb a' b'
  | _, _ => false
  end.

Fixpoint lookup (tbl : list (text * N)) (s : text) : option N :=
  match tbl with
  | [] => None
  | (k, v) :: r => if text_eqb k s then Some v else lookup r s
  end.

Definition lookup_unit (suffix : text) : option N := lookup GenBytes.units (map lower suffix).

(* ---------- f64::from_str on a string over [0-9.] ---------- *)
(** Accepted: digits, with at most one '.', and at least one digit overall ("5.", ".5" are
    accepted; "", ".", "1.0.0" are not). Result: (numerator n, fraction digits f), the
    numeral denotes n / 10^f. *)
Definition is_nil (u : uint) : bool := match u with Nil => true | _ => false end.

Definition parse_number (ds : text) : option (N * N) :=
  let '(ui, r) := take_digits ds in
  match r with
  | [] => if is_nil ui then None else Some (N.of_uint ui, 0)
  | c :: r1 =>
      if c =? 46 then
        let '(uf, r2) := take_digits r1 in
        match r2 with
        | [] => if is_nil ui && is_nil uf then None
                else let f := N.of_nat (nb_digits uf) in
                     Some (N.of_uint ui * 10 ^ f + N.of_uint uf, f)
        | _ :: _ => None
        end
      else None
  end.

(* ---------- correctly rounded quotient as (mantissa, exponent) ---------- *)
(** multiply by 2^s when s >= 0, identity otherwise *)
Definition shl (x : N) (s : Z) : N := if (0 <=? s)%Z then x * 2 ^ Z.to_N s else x.
Definition scaled (a b : N) (e : Z) : N * N := (shl a (- e), shl b e).

(** binary64 nearest to a/b (a, b > 0; exponent range unbounded): m * 2^e with
    2^52 <= m <= 2^53 *)
Definition to53 (a b : N) : N * Z :=
  let e0 := (Z.of_N (N.log2 a) - Z.of_N (N.log2 b) - 52)%Z in
  let '(a0, b0) := scaled a b e0 in
  let e := if a0 <? b0 * 2 ^ 52 then (e0 - 1)%Z else e0 in
  let '(a1, b1) := scaled a b e in
  (rne_div a1 b1, e).

(** m * 2^E truncated towards zero *)
Definition trunc (m : N) (E : Z) : N :=
  if (0 <=? E)%Z then m * 2 ^ Z.to_N E else m / 2 ^ Z.to_N (- E).

Definition U64_MAX : N := 2 ^ 64 - 1.

(** `x as u64` for a non-negative double m * 2^E (saturating) *)
Definition f64_to_u64 (m : N) (E : Z) : N := N.min (trunc m E) U64_MAX.

(** the numeral n / 10^f times 2^sh, through binary64, as u64 *)
Definition parse_val (n f sh : N) : N :=
  if n =? 0 then 0
  else let '(m, e) := to53 n (10 ^ f) in f64_to_u64 m (e + Z.of_N sh).

Inductive bs_parsed := BsOk (n : N) | BsErrNumber | BsErrSuffix.

Definition bs_parse (t : text) : bs_parsed :=
  let digits := take_while is_numch t in
  let suffix := skip_while is_numch t in
  match parse_number digits with
  | None => BsErrNumber
  | Some (n, f) =>
      match lookup_unit suffix with
      | None => BsErrSuffix
      | Some sh => BsOk (parse_val n f sh)
      end
  end.

(* ---------- Display ---------- *)
(** while value >= 1024.0 { value /= 1024.0; i += 1 }  with value = v / 1024^i held exactly *)
Fixpoint unit_loop (fuel : nat) (v i : N) : option N :=
  match fuel with
  | O => None
  | S fu => if 1024 * 1024 ^ i <=? v then unit_loop fu v (i + 1) else Some i
  end.

(** None = DISPLAY_SUFFIXES[i - 1] out of bounds (panic) *)
Definition unit_word (i v : N) : option text :=
  if i =? 0 then Some (if v =? 1 then GenBytes.word_one else GenBytes.word_many)
  else nth_error GenBytes.display_suffixes (N.to_nat (i - 1)).

(** "{:.2}" of h hundredths *)
Definition fmt2 (h : N) : text :=
  dec (h / 100) ++ [46; 48 + (h mod 100) / 10; 48 + h mod 10].

Definition trim_end (c : N) (l : text) : text := rev (skip_while (N.eqb c) (rev l)).
Definition trim (l : text) : text := trim_end 46 (trim_end 48 l).

(** hundredths of the unit that get printed: the exact value v / 1024^i to two decimals, ties to even *)
Definition hundredths (v i : N) : N := rne_div (100 * v) (1024 ^ i).

Definition bs_display (n : N) : option text :=
  let v := round53 n in
  match unit_loop 8 v 0 with
  | None => None
  | Some i =>
      match unit_word i v with
      | None => None
      | Some w => Some (trim (fmt2 (hundredths v i)) ++ 32 :: w)
      end
  end.
