(** Byte-size notation as src/bytes.rs reads and prints it (C16). Definitions only.

    Text is a list of Unicode scalar values ([N]); the tables (suffix spellings, multipliers
    as shift counts, display suffixes, the two words) and the numeric constants come from
    Generated/GenBytes.v, which the translator rewrites from the Rust source on every run.

    FromStr for Bytes, line by line (after the repair `fix: compute byte sizes exactly`):
      digits  = text.chars().take_while(is_digit)          [take_while is_numch]
      suffix  = text.chars().skip_while(is_digit)          [skip_while is_numch]
      digits.parse::<f64>()?                               [parse_number: only Some/None is used -
                                                            f64::from_str accepts D+, D+., .D+, D+.D+]
      multiple= match suffix.to_lowercase() { table, _ => Err }   [lower, lookup_unit]
      multiple = u128::from(multiple)                      [2 ^ shift]
      (whole, fraction) = digits.split_once('.').unwrap_or((&digits, ""))     [split_dot]
      for digit in whole.chars().filter_map(to_digit(10))
        integer = integer.saturating_mul(10).saturating_add(digit)            [whole_step, fold_left]
      for digit in fraction.chars().rev().filter_map(to_digit(10))
        partial = (digit * multiple + partial) / 10                            [frac_step, fold_right:
                                                            from the LAST digit; None = u128 overflow panic]
      count = integer.saturating_mul(multiple).saturating_add(partial)
      Ok(Bytes(u64::try_from(count).unwrap_or(u64::MAX)))  [to_u64_sat]

    Display for Bytes, line by line:
      value = self.0 as f64                                [round53]
      unit: u128 = 1
      while value >= 1024.0 { value /= 1024.0; unit = unit.saturating_mul(1024); i += 1 }
                                                           [unit_loop; the float division is exact]
      suffix = i == 0 ? (value == 1.0 ? "byte" : "bytes") : DISPLAY_SUFFIXES[i-1]   [unit_word; None = index panic]
      scaled = 100 * u128::from(self.0)                    [chk128: None = overflow panic]
      quotient = scaled / unit                             [None when unit = 0: division panic]
      hundredths = match (2 * (scaled % unit)).cmp(&unit) { Less => quotient,
                     Equal => quotient + quotient % 2, Greater => quotient + 1 }   [hundredths]
      format!("{}.{:02}", hundredths / 100, hundredths % 100)                  [fmt2]
      .trim_end_matches('0').trim_end_matches('.')         [trim]
    Only the choice of the unit still goes through binary64 ([round53], Model/Float53.v). *)
From Coq Require Import Decimal DecimalN DecimalFacts.
From Coq Require Import NArith ZArith Bool List.
From Imdl Require Import Model.Bencode Model.Float53 Generated.GenBytes.
Import ListNotations.
Local Open Scope N_scope.

Notation text := (list N) (only parsing).

(* ---------- iterator adaptors ---------- *)
Fixpoint take_while (p : N -> bool) (l : text) : text :=
  match l with [] => [] | c :: r => if p c then c :: take_while p r else [] end.

Fixpoint skip_while (p : N -> bool) (l : text) : text :=
  match l with [] => [] | c :: r => if p c then skip_while p r else l end.

(** matches!(c, '0'..='9' | '.') *)
Definition is_numch (c : N) : bool := ((48 <=? c) && (c <=? 57)) || (c =? 46).

(* ---------- str::to_lowercase, as far as it can matter ---------- *)
(** Exact on ASCII and on U+212A KELVIN SIGN (the only non-ASCII scalar whose lower-casing
    is ASCII). Every other non-ASCII scalar lower-cases to a string containing at least one
    non-ASCII scalar; the model keeps the scalar itself. All table spellings are ASCII
    ([units_ascii] in the proofs), so membership in the table is unaffected. *)
Definition lower (c : N) : N :=
  if (65 <=? c) && (c <=? 90) then c + 32 else if c =? 8490 then 107 else c.

Fixpoint text_eqb (a b : text) : bool :=
  match a, b with
  | [], [] => true
  | x :: a', y :: b' => (x =? y) && text_eqb a' b'
  | _, _ => false
  end.

Fixpoint lookup (tbl : list (text * N)) (s : text) : option N :=
  match tbl with
  | [] => None
  | (k, v) :: r => if text_eqb k s then Some v else lookup r s
  end.

Definition lookup_unit (suffix : text) : option N := lookup GenBytes.units (map lower suffix).

(* ---------- f64::from_str on a string over [0-9.] ---------- *)
(** Accepted: digits, with at most one '.', and at least one digit overall ("5.", ".5" are
    accepted; "", ".", "1.0.0" are not). Result: (numerator n, fraction digits f), the
    numeral denotes n / 10^f. Since the repair [bs_parse] uses only whether this is [Some]
    (the f64 value is discarded by the code); the pair still serves [numeral_hundredths] in
    the proofs, which reads printed numerals back. *)
Definition is_nil (u : uint) : bool := match u with Nil => true | _ => false end.

Definition parse_number (ds : text) : option (N * N) :=
  let '(ui, r) := take_digits ds in
  match r with
  | [] => if is_nil ui then None else Some (N.of_uint ui, 0)
  | c :: r1 =>
      if c =? 46 then
        let '(uf, r2) := take_digits r1 in
        match r2 with
        | [] => if is_nil ui && is_nil uf then None
                else let f := N.of_nat (nb_digits uf) in
                     Some (N.of_uint ui * 10 ^ f + N.of_uint uf, f)
        | _ :: _ => None
        end
      else None
  end.

(* ---------- u128 / u64 arithmetic ---------- *)
Definition U128_MAX : N := 2 ^ 128 - 1.
Definition U64_MAX : N := 2 ^ 64 - 1.

(** checked u128 arithmetic (overflow checks are on in the builds the checks run): None = panic *)
Definition chk128 (x : N) : option N := if x <=? U128_MAX then Some x else None.
(** u128::saturating_mul / saturating_add of the exact result *)
Definition sat128 (x : N) : N := N.min x U128_MAX.
(** u64::try_from(count).unwrap_or(u64::MAX) *)
Definition to_u64_sat (x : N) : N := if x <=? U64_MAX then x else U64_MAX.

(** char::to_digit(10) *)
Definition digit_val (c : N) : option N := if (48 <=? c) && (c <=? 57) then Some (c - 48) else None.

(** digits.split_once('.').unwrap_or((&digits, "")) *)
Fixpoint split_dot (l : text) : text * text :=
  match l with
  | [] => ([], [])
  | c :: r => if c =? 46 then ([], r) else let '(w, f) := split_dot r in (c :: w, f)
  end.

(** integer = integer.saturating_mul(10).saturating_add(digit) *)
Definition whole_step (acc c : N) : N :=
  match digit_val c with
  | Some d => sat128 (sat128 (acc * GenBytes.parse_base) + d)
  | None => acc
  end.

(** partial = (digit * multiple + partial) / 10, unchecked operators: None = overflow panic *)
Definition frac_step (multiple : N) (c : N) (acc : option N) : option N :=
  match acc with
  | None => None
  | Some partial =>
      match digit_val c with
      | None => Some partial
      | Some d =>
          match chk128 (d * multiple) with
          | None => None
          | Some p => match chk128 (p + partial) with
                      | None => None
                      | Some s => Some (s / GenBytes.parse_base)
                      end
          end
      end
  end.

Inductive bs_parsed := BsOk (n : N) | BsErrNumber | BsErrSuffix | BsPanic.

(** the value computed from the accepted digit string and the multiplier *)
Definition parse_count (digits : text) (multiple : N) : option N :=
  let '(whole, fraction) := split_dot digits in
  let integer := fold_left whole_step whole 0 in
  match fold_right (frac_step multiple) (Some 0) fraction with
  | None => None
  | Some partial => Some (to_u64_sat (sat128 (sat128 (integer * multiple) + partial)))
  end.

Definition bs_parse (t : text) : bs_parsed :=
  let digits := take_while is_numch t in
  let suffix := skip_while is_numch t in
  match parse_number digits with
  | None => BsErrNumber
  | Some _ =>
      match lookup_unit suffix with
      | None => BsErrSuffix
      | Some sh =>
          match parse_count digits (2 ^ sh) with
          | Some n => BsOk n
          | None => BsPanic
          end
      end
  end.

(* ---------- Display ---------- *)
(** while value >= 1024.0 { value /= 1024.0; unit = unit.saturating_mul(1024); i += 1 }
    with value = v / 1024^i held exactly *)
Fixpoint unit_loop (fuel : nat) (v i unit : N) : option (N * N) :=
  match fuel with
  | O => None
  | S fu => if 1024 * 1024 ^ i <=? v then unit_loop fu v (i + 1) (sat128 (unit * 1024)) else Some (i, unit)
  end.

(** None = DISPLAY_SUFFIXES[i - 1] out of bounds (panic) *)
Definition unit_word (i v : N) : option text :=
  if i =? 0 then Some (if v =? 1 then GenBytes.word_one else GenBytes.word_many)
  else nth_error GenBytes.display_suffixes (N.to_nat (i - 1)).

(** "{}.{:02}" of h / 100 and h % 100 *)
Definition fmt2 (h : N) : text :=
  dec (h / 100) ++ [46; 48 + (h mod 100) / 10; 48 + h mod 10].

Definition trim_end (c : N) (l : text) : text := rev (skip_while (N.eqb c) (rev l)).
Definition trim (l : text) : text := trim_end 46 (trim_end 48 l).

(** hundredths of the unit that get printed, from the integer itself: 100 n / unit rounded to
    nearest, ties to even. None = a panic (overflow of a u128 operator, division by zero). *)
Definition hundredths (n unit : N) : option N :=
  match chk128 (GenBytes.disp_scale * n) with
  | None => None
  | Some scaled =>
      if unit =? 0 then None
      else
        let quotient := scaled / unit in
        match chk128 (2 * (scaled mod unit)) with
        | None => None
        | Some twice =>
            match twice ?= unit with
            | Lt => Some quotient
            | Eq => chk128 (quotient + quotient mod 2)
            | Gt => chk128 (quotient + 1)
            end
        end
  end.

Definition bs_display (n : N) : option text :=
  let v := round53 n in
  match unit_loop 8 v 0 1 with
  | None => None
  | Some (i, unit) =>
      match unit_word i v with
      | None => None
      | Some w =>
          match hundredths n unit with
          | None => None
          | Some h => Some (trim (fmt2 h) ++ 32 :: w)
          end
      end
  end.
