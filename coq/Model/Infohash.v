(** C04 — `Infohash::from_input` (src/infohash.rs) over the strict bencode model, and the lossy
    path `Info::infohash_lossy` (src/info.rs) over a model of bendy's serde serialiser.
    Definitions only (executable model first, specification predicates at the end).

    Rust, line by line:
      let value = Value::from_bencode(&input.data)?          decode (whole input, trailing bytes ignored)
                                                             bendy depth limit = GenInfohash.max_depth
      match value { Value::Dict(metainfo) => ..              otherwise MetainfoError::Type
        metainfo.iter().find(|pair| pair.0 == b"info")       find_key (BTreeMap order = file order, keys
                                                             are strictly increasing)   else InfoMissing
        if let Value::Dict(_) = info                         otherwise MetainfoError::InfoType
          info.to_bencode()                                  encode
          Sha1Digest::from_data(&encoded)                    H (a Section variable; the runner prints the
                                                             bytes and the check hashes them with hashlib) *)
From Coq Require Import Decimal DecimalN DecimalFacts.
From Coq Require Import NArith ZArith Bool List.
From Imdl Require Import Model.Bencode Generated.GenInfohash.
Import ListNotations.
Local Open Scope N_scope.

(** the key `ih_from_input` looks for, read from the source by the translator *)
Definition info_key : bytes := GenInfohash.lookup_key.

Fixpoint bytes_eqb (a b : bytes) : bool :=
  match a, b with
  | [], [] => true
  | x :: a', y :: b' => (x =? y) && bytes_eqb a' b'
  | _, _ => false
  end.

(** `.iter().find(|pair| pair.0.as_ref() == key)` — first match in iteration order *)
Fixpoint find_key (k : bytes) (d : list (bytes * value)) : option value :=
  match d with
  | [] => None
  | kv :: r => if bytes_eqb (fst kv) k then Some (snd kv) else find_key k r
  end.

(** nesting depth as bendy's state tracker counts it: a container at nesting level n (outermost
    = 1) is refused when n > max_depth *)
Fixpoint vdepth (v : value) : N :=
  match v with
  | Int _ | Str _ => 0
  | Lst l => 1 + fold_right (fun x m => N.max (vdepth x) m) 0 l
  | Dict d => 1 + fold_right (fun kv m => N.max (vdepth (snd kv)) m) 0 d
  end.

Definition depth_ok (md : option N) (v : value) : bool :=
  match md with None => true | Some m => vdepth v <=? m end.

(** fuel handed to the fuelled decoder; [fuel_sufficient] (Proofs) shows that it never is the
    reason for a [None] *)
Definition fuel_of (bs : bytes) : nat := (2 * length bs)%nat.

Inductive outcome :=
| IhDecodeError            (* Error::MetainfoDecode *)
| IhNotDict                (* MetainfoError::Type *)
| IhInfoMissing            (* MetainfoError::InfoMissing *)
| IhInfoType               (* MetainfoError::InfoType *)
| IhHashed (span : bytes). (* the bytes handed to Sha1Digest::from_data *)

Definition ih_from_value (v : value) : outcome :=
  match v with
  | Dict m =>
      match find_key info_key m with
      | None => IhInfoMissing
      | Some (Dict i) => IhHashed (encode (Dict i))
      | Some _ => IhInfoType
      end
  | _ => IhNotDict
  end.

Definition ih_from_input (md : option N) (bs : bytes) : outcome :=
  match decode (fuel_of bs) bs with
  | None => IhDecodeError
  | Some (v, _) => if depth_ok md v then ih_from_value v else IhDecodeError
  end.

Definition hashed_bytes (md : option N) (bs : bytes) : option bytes :=
  match ih_from_input md bs with IhHashed s => Some s | _ => None end.

(** entry point of the correspondence run: the tree's own depth limit *)
Definition ih_from_input_src (bs : bytes) : outcome := ih_from_input GenInfohash.max_depth bs.

Section Hash.
  Variable digest : Type.
  Variable H : bytes -> digest.
  (** what `torrent show`, `show --json`, `link` (and `announce`) report *)
  Definition infohash_of (md : option N) (bs : bytes) : option digest :=
    option_map H (hashed_bytes md bs).
End Hash.

(* ------------------------------------------------------------------------------------------ *)
(** ** bendy's serde serialiser on the typed structs (the lossy path of `create --show/--link`)

    A struct (and a flattened struct/enum inside it) is written through an `UnsortedDictEncoder`:
    the entries are collected, sorted by key (BTreeMap), a duplicate key is an error. `None`
    fields are skipped (`skip_serializing_if`), `bool` is written as 0/1, `u64` as an integer,
    `Md5Digest`/`Url`/`String` as byte strings, `Vec<T>` as a list. *)

Fixpoint insert_entry (kv : bytes * value) (l : list (bytes * value)) : option (list (bytes * value)) :=
  match l with
  | [] => Some [kv]
  | x :: r =>
      if bytes_ltb (fst kv) (fst x) then Some (kv :: l)
      else if bytes_ltb (fst x) (fst kv) then
             match insert_entry kv r with Some s => Some (x :: s) | None => None end
           else None
  end.

Fixpoint sort_entries (l : list (bytes * value)) : option (list (bytes * value)) :=
  match l with
  | [] => Some []
  | kv :: r => match sort_entries r with Some s => insert_entry kv s | None => None end
  end.

Definition ser_struct (entries : list (bytes * value)) : option value :=
  match sort_entries entries with Some s => Some (Dict s) | None => None end.

Fixpoint all_some {A} (l : list (option A)) : option (list A) :=
  match l with
  | [] => Some []
  | None :: _ => None
  | Some a :: r => match all_some r with Some s => Some (a :: s) | None => None end
  end.

Definition opt_entry (k : bytes) (o : option value) : list (bytes * value) :=
  match o with Some v => [(k, v)] | None => [] end.

Definition key_at (l : list bytes) (n : nat) : bytes := nth n l [].

Record tfile := { tf_length : N; tf_path : list bytes; tf_md5sum : option bytes }.
Inductive tmode := TSingle (length : N) (md5sum : option bytes) | TMultiple (files : list tfile).
Record tinfo := {
  ti_private : option bool; ti_piece_length : N; ti_name : bytes; ti_source : option bytes;
  ti_pieces : bytes; ti_mode : tmode; ti_update_url : option bytes }.

Definition u64_value (n : N) : value := Int (Z.of_N n).
Definition bool_value (b : bool) : value := Int (if b then 1 else 0)%Z.
Definition opt_str (o : option bytes) : option value := match o with Some s => Some (Str s) | None => None end.

(* keys in declaration order, regenerated from the Rust sources *)
Definition file_info_entries (f : tfile) : list (bytes * value) :=
  [(key_at GenInfohash.file_info_keys 0, u64_value (tf_length f));
   (key_at GenInfohash.file_info_keys 1, Lst (map Str (tf_path f)))]
  ++ opt_entry (key_at GenInfohash.file_info_keys 2) (opt_str (tf_md5sum f)).

Definition file_info_value (f : tfile) : option value := ser_struct (file_info_entries f).

Definition mode_entries (m : tmode) : option (list (bytes * value)) :=
  match m with
  | TSingle len md5 =>
      Some ([(key_at GenInfohash.single_keys 0, u64_value len)]
            ++ opt_entry (key_at GenInfohash.single_keys 1) (opt_str md5))
  | TMultiple files =>
      match all_some (map file_info_value files) with
      | Some vs => Some [(key_at GenInfohash.multiple_keys 0, Lst vs)]
      | None => None
      end
  end.

Definition info_entries (i : tinfo) : option (list (bytes * value)) :=
  match mode_entries (ti_mode i) with
  | Some me =>
      Some (opt_entry (key_at GenInfohash.info_keys 0)
                      (match ti_private i with Some b => Some (bool_value b) | None => None end)
            ++ [(key_at GenInfohash.info_keys 1, u64_value (ti_piece_length i));
                (key_at GenInfohash.info_keys 2, Str (ti_name i))]
            ++ opt_entry (key_at GenInfohash.info_keys 3) (opt_str (ti_source i))
            ++ [(key_at GenInfohash.info_keys 4, Str (ti_pieces i))]
            ++ me
            ++ opt_entry (key_at GenInfohash.info_keys 5) (opt_str (ti_update_url i)))
  | None => None
  end.

(** `bendy::serde::ser::to_bytes(&info)`; None = the serialiser reports an error *)
Definition info_value (i : tinfo) : option value :=
  match info_entries i with Some e => ser_struct e | None => None end.

Definition ser_info (i : tinfo) : option bytes :=
  match info_value i with Some v => Some (encode v) | None => None end.

(** `Metainfo::serialize`: the other top-level fields are whatever the typed struct holds
    ([others], already as values — C05 models them); `info` goes under its serde name. *)
Definition metainfo_value (others : list (bytes * value)) (i : tinfo) : option value :=
  match info_value i with
  | Some iv => ser_struct ((GenInfohash.metainfo_info_key, iv) :: others)
  | None => None
  end.

Definition ser_metainfo (others : list (bytes * value)) (i : tinfo) : option bytes :=
  match metainfo_value others i with Some v => Some (encode v) | None => None end.

(** every u64 the typed struct holds fits bendy's `Value::Integer(i64)` (file sizes on a real
    filesystem are below 2^63; `create` bounds the piece length by u32) *)
Definition file_info_small (f : tfile) : bool := tf_length f <? 2 ^ 63.
Definition info_small (i : tinfo) : bool :=
  (ti_piece_length i <? 2 ^ 63) &&
  match ti_mode i with
  | TSingle len _ => len <? 2 ^ 63
  | TMultiple files => forallb file_info_small files
  end.

(* ------------------------------------------------------------------------------------------ *)
(** ** specification predicates (used only in statements) *)

(** [pre] is the text of a file from its first byte up to and including the key `info` of the
    top-level dictionary: `d`, then complete key/value items none of whose keys is `info`, then
    `4:info`. *)
Definition info_position (pre : bytes) : Prop :=
  exists before : list (bytes * value),
    pre = 100 :: flat_map enc_kv before ++ enc_str info_key /\
    forallb (fun kv => wfb (snd kv)) before = true /\
    Forall (fun kv => fst kv <> info_key) before.

(** [span] is the complete canonical text of one dictionary *)
Definition complete_dict (span : bytes) : Prop :=
  exists iv, wfb (Dict iv) = true /\ span = encode (Dict iv).

(** the whole accepted file: a canonical top-level dictionary whose `info` is a dictionary, then
    arbitrary trailing bytes *)
Definition torrent_shape (md : option N) (bs span : bytes) : Prop :=
  exists before iv after trailing,
    let top := Dict (before ++ (info_key, Dict iv) :: after) in
    bs = encode top ++ trailing /\ wfb top = true /\ depth_ok md top = true /\
    span = encode (Dict iv).
