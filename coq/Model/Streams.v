(** Model of imdl's stream discipline (C18). Definitions only.

    Mirrors, over a finite configuration space,
      src/env.rs            Env::main (style from NO_COLOR / TERM), Env::run (reconfiguration after
                            argument parsing), Env::status (error -> stream and exit status)
      src/output_stream.rs  OutputStream::{stdout, stderr, set_use_color, set_is_term, set_active,
                            is_styled_term, write}
      src/run.rs, src/main.rs
      src/step.rs + create_step.rs / verify_step.rs (banners through err!/errln!)
      the run() function of every subcommand, reduced to the ordered list of its writes and of the
      points where it can return an error,
      and the indicatif widgets (search spinner, hashing / verification progress bar), which write to
      file descriptor 2 themselves - not through OutputStream - and only when it is a terminal.

    The model describes the code as repaired by "fix: do not draw the file search spinner under
    --quiet" (the spinner is created under [is_styled_term && !quiet]). *)
From Coq Require Import String.
From Coq Require Import NArith List Bool.
Import ListNotations.
Local Open Scope N_scope.

(** * Configurations *)

Inductive use_color := Auto | Always | Never.

(** what `torrent create` reads and where it writes the metainfo *)
Inductive in_kind := InDir | InFile | InStdin.
Inductive out_kind := OFile | OStdout.

Inductive cmd :=
| Announce
| Create (i : in_kind) (o : out_kind)
| Dump
| FromLink
| Link
| PieceLength
| Show (json : bool)
| Stats
| Verify
| Completions (to_dir : bool)
| Help          (* --help / help: clap "error" of kind HelpDisplayed *)
| Version.      (* --version: clap "error" of kind VersionDisplayed *)

(** where the environment makes the run fail, if anywhere *)
Inductive failure :=
| FUsage   (* clap rejects the command line *)
| FInput   (* the first fallible step on the input fails: unreadable / undecodable input *)
| FWork.   (* the command's own late failure: verification mismatch, output exists or lint, no usable
              tracker, no info dictionary received, directory not writable *)

Record config := {
  c_cmd : cmd;
  c_quiet : bool;        (* --quiet *)
  c_color : use_color;   (* --color WHEN *)
  c_terminal : bool;     (* --terminal *)
  c_unstable : bool;     (* --unstable *)
  c_no_color : bool;     (* NO_COLOR is set *)
  c_term_dumb : bool;    (* TERM=dumb *)
  c_out_tty : bool;      (* fd 1 is a terminal *)
  c_err_tty : bool;      (* fd 2 is a terminal *)
  c_warn : bool;         (* a recoverable condition arises (announce: one tracker fails, another answers) *)
  c_fail : option failure
}.

(** * OutputStream *)

Record stream := { s_active : bool; s_style : bool; s_term : bool }.

(** Env::main: `NO_COLOR` unset && TERM != "dumb" *)
Definition env_style (c : config) : bool := negb (c_no_color c) && negb (c_term_dumb c).

(** OutputStream::stdout(style): term = atty(stdout); style = style && term; active *)
Definition stdout_stream (c : config) : stream :=
  {| s_active := true; s_style := env_style c && c_out_tty c; s_term := c_out_tty c |}.

(** OutputStream::stderr(style): term = style && atty(stderr); style = style (the tty is not consulted) *)
Definition stderr_stream (c : config) : stream :=
  {| s_active := true; s_style := env_style c; s_term := env_style c && c_err_tty c |}.

Definition set_use_color (u : use_color) (s : stream) : stream :=
  match u with
  | Always => {| s_active := s_active s; s_style := true; s_term := s_term s |}
  | Auto => s
  | Never => {| s_active := s_active s; s_style := false; s_term := s_term s |}
  end.
Definition set_is_term (b : bool) (s : stream) : stream :=
  {| s_active := s_active s; s_style := s_style s; s_term := b |}.
Definition set_active (b : bool) (s : stream) : stream :=
  {| s_active := b; s_style := s_style s; s_term := s_term s |}.
Definition is_styled_term (s : stream) : bool := s_style s && s_term s.

Record env := { e_out : stream; e_err : stream }.

Definition env_main (c : config) : env := {| e_out := stdout_stream c; e_err := stderr_stream c |}.

(** Env::run after `Arguments::from_clap`: set_use_color on err and out; --terminal: set_is_term(true)
    on err and out; --quiet: err.set_active(false) *)
Definition configure (c : config) (e : env) : env :=
  let e1 := {| e_out := set_use_color (c_color c) (e_out e); e_err := set_use_color (c_color c) (e_err e) |} in
  let e2 := if c_terminal c
            then {| e_out := set_is_term true (e_out e1); e_err := set_is_term true (e_err e1) |} else e1 in
  if c_quiet c then {| e_out := e_out e2; e_err := set_active false (e_err e2) |} else e2.

(** * What is written where *)

Inductive chan :=
| COut    (* through the out OutputStream -> fd 1 *)
| CErr    (* through the err OutputStream -> fd 2 *)
| CRaw.   (* to fd 2 directly: indicatif widgets, eprintln! *)

Inductive cls :=
(* payload classes, the only ones the property allows on stdout *)
| Payload       (* the bencoded metainfo of `create --output -` *)
| LinkLine      (* one line: the magnet URI *)
| JsonLine      (* one line: one JSON document *)
| PeerLines     (* one `ip:port` line per peer *)
| Table         (* `show` table (tab-delimited, or human-readable on a terminal) *)
| DumpLine      (* `dump` rendering *)
| PieceTable    (* `piece-length` table *)
| Script        (* completion script *)
| HelpText | VersionText
(* chatter *)
| Banner        (* `[n/m] symbol message` step lines *)
| Done          (* the final sparkle line *)
| Progress      (* from-link progress notes *)
| Diagnostic    (* per-file verification errors, skipped trackers, failed announces *)
| Report        (* `stats` report *)
| ErrorMsg      (* `error: ...` (+ lint note) from Env::status *)
| UsageMsg      (* clap's usage error *)
| Widget.       (* spinner / progress bar drawing *)

Record event := { ev_chan : chan; ev_cls : cls; ev_esc : bool (* may contain terminal escape sequences *) }.

(** OutputStream::write: forwards only while active *)
Definition w_out (e : env) (k : cls) (esc : bool) : list event :=
  if s_active (e_out e) then [{| ev_chan := COut; ev_cls := k; ev_esc := esc |}] else [].
Definition w_err (e : env) (k : cls) (esc : bool) : list event :=
  if s_active (e_err e) then [{| ev_chan := CErr; ev_cls := k; ev_esc := esc |}] else [].
(** indicatif: ProgressDrawTarget::stderr() is hidden unless fd 2 is a terminal; drawing moves the cursor *)
Definition w_widget (c : config) (attached : bool) : list event :=
  if attached && c_err_tty c then [{| ev_chan := CRaw; ev_cls := Widget; ev_esc := true |}] else [].
(** eprintln!: unconditional *)
Definition w_eprintln (k : cls) : list event := [{| ev_chan := CRaw; ev_cls := k; ev_esc := false |}].

(** Step::print: dim / bold prefixes and suffixes from err's style *)
Definition banner (e : env) : list event := w_err e Banner (s_style (e_err e)).

(** the guard under which the widgets are created / attached (create_content.rs, create.rs, verify.rs) *)
Definition widget_guard (styled_term quiet : bool) : bool := styled_term && negb quiet.
Definition widget_on (c : config) (e : env) : bool := widget_guard (is_styled_term (e_err e)) (c_quiet c).

Inductive action :=
| Write (evs : list event)
| Check (f : failure)    (* a `?` that fails exactly when the environment says so *)
| Abort.                 (* an unconditional `return Err(..)` *)

Definition fails (c : config) (f : failure) : bool :=
  match c_fail c, f with
  | Some FInput, FInput => true
  | Some FWork, FWork => true
  | Some FUsage, FUsage => true
  | _, _ => false
  end.

(** the subcommands' run() functions, in source order *)
Definition body (c : config) (e : env) : list action :=
  match c_cmd c with
  | Announce =>
      [ Check FInput;                                                    (* env.read, Infohash / Metainfo::from_input *)
        Write (if c_warn c then w_err e Diagnostic false else []);       (* errln!("Skipping tracker" / "Announce failed") *)
        Check FWork;                                                     (* usable_trackers == 0 *)
        Write (w_out e PeerLines false) ]
  | Create i o =>
      [ Write (banner e);                                                (* CreateStep::Searching *)
        Check FInput;                                                    (* Walker: root metadata *)
        Write (match i with InDir => w_widget c (widget_on c e) | _ => [] end);   (* spinner.tick() per entry *)
        Check FWork;                                                     (* lints, output exists *)
        Write (banner e);                                                (* CreateStep::Hashing *)
        Write (w_widget c (widget_on c e));                              (* progress_bar.inc *)
        Write (banner e);                                                (* CreateStep::Writing *)
        Write (match o with OStdout => w_out e Payload false | OFile => [] end);
        Write (w_err e Done false) ]
  | Dump =>
      [ Check FInput; Write (w_out e DumpLine false) ]
  | FromLink =>
      [ Write (if negb (c_quiet c) then w_err e Progress false else []);
        Write (if negb (c_quiet c) then w_err e Progress false else []);
        Check FWork;                                                     (* Error::FromLinkNoInfo *)
        Write (if negb (c_quiet c) then w_err e Progress false else []);
        Check FInput;                                                    (* fs::File::create / write_all *)
        Write (if negb (c_quiet c) then w_err e Progress false else []) ]
  | Link =>
      [ Check FInput; Check FWork; Write (w_out e LinkLine false) ]
  | PieceLength =>
      [ Write (w_out e PieceTable false) ]
  | Show json =>
      [ Check FInput;
        Write (if json then w_out e JsonLine false
               else w_out e Table (s_term (e_out e) && s_style (e_out e))) ]   (* human-readable only on a terminal *)
  | Stats =>
      (if c_unstable c then [] else [Abort]) ++                          (* options.require_unstable(..)? *)
      [ Check FInput;
        Write (w_eprintln Report);                                       (* eprintln!("Processing torrent ..") *)
        Write (w_err e Report false) ]
  | Verify =>
      [ Write (banner e);                                                (* VerifyStep::Loading *)
        Check FInput;
        Write (banner e);                                                (* VerifyStep::Verifying *)
        Write (w_widget c (widget_on c e));
        Write (if fails c FWork then w_err e Diagnostic (s_style (e_err e)) else []);   (* status.print *)
        Check FWork;                                                     (* Error::Verify *)
        Write (w_err e Done false) ]
  | Completions to_dir =>
      if to_dir then [ Check FWork ] else [ Write (w_out e Script false) ]
  | Help | Version => []
  end.

(** run the actions until one fails: the events so far and whether an error is returned *)
Fixpoint exec (c : config) (acts : list action) : list event * bool :=
  match acts with
  | [] => ([], false)
  | Write evs :: rest => let '(more, failed) := exec c rest in (evs ++ more, failed)
  | Check f :: rest => if fails c f then ([], true) else exec c rest
  | Abort :: _ => ([], true)
  end.

(** clap colours its own messages from atty and TERM only (ColorAuto + ColoredHelp) *)
Definition clap_colour (tty : bool) (c : config) : bool := tty && negb (c_term_dumb c).

Definition EXIT_OK : N := 0.
Definition EXIT_FAILURE : N := 1.

(** Env::status + run + main: (events, exit status) *)
Definition status (c : config) : list event * N :=
  let e0 := env_main c in
  if fails c FUsage then
    (* get_matches_from_safe failed before the streams were reconfigured *)
    (w_err e0 UsageMsg (clap_colour (c_err_tty c) c), EXIT_FAILURE)
  else match c_cmd c with
  | Help => (w_out e0 HelpText (clap_colour (c_out_tty c) c), EXIT_OK)
  | Version => (w_out e0 VersionText false, EXIT_OK)
  | _ =>
      let e := configure c e0 in
      let '(evs, failed) := exec c (body c e) in
      if failed then (evs ++ w_err e ErrorMsg (s_style (e_err e)), EXIT_FAILURE)
      else (evs, EXIT_OK)
  end.

(** * Observables *)

Definition on_chan (ch : chan) (ev : event) : bool :=
  match ch, ev_chan ev with COut, COut | CErr, CErr | CRaw, CRaw => true | _, _ => false end.

(** what reaches fd 1 / fd 2 *)
Definition stdout_of (c : config) : list event := filter (on_chan COut) (fst (status c)).
Definition stderr_of (c : config) : list event := filter (fun ev => negb (on_chan COut ev)) (fst (status c)).
Definition exit_of (c : config) : N := snd (status c).

(** did run() return an error (a "reported failure")? Help and version are not failures. *)
Definition reported_failure (c : config) : bool :=
  if fails c FUsage then true
  else match c_cmd c with
       | Help | Version => false
       | _ => snd (exec c (body c (configure c (env_main c))))
       end.

Definition is_payload (k : cls) : bool :=
  match k with
  | Payload | LinkLine | JsonLine | PeerLines | Table | DumpLine | PieceTable | Script | HelpText | VersionText => true
  | _ => false
  end.

Definition cls_eqb (a b : cls) : bool :=
  match a, b with
  | Payload, Payload | LinkLine, LinkLine | JsonLine, JsonLine | PeerLines, PeerLines | Table, Table
  | DumpLine, DumpLine | PieceTable, PieceTable | Script, Script | HelpText, HelpText | VersionText, VersionText
  | Banner, Banner | Done, Done | Progress, Progress | Diagnostic, Diagnostic | Report, Report
  | ErrorMsg, ErrorMsg | UsageMsg, UsageMsg | Widget, Widget => true
  | _, _ => false
  end.

(** the property's own words: what a successful run of each command puts on stdout *)
Definition spec_stdout (k : cmd) : list cls :=
  match k with
  | Create _ OStdout => [Payload]
  | Create _ OFile => []
  | Link => [LinkLine]
  | Show true => [JsonLine]
  | Show false => [Table]
  | Announce => [PeerLines]
  | Dump => [DumpLine]
  | PieceLength => [PieceTable]
  | Completions false => [Script]
  | Completions true => []
  | FromLink | Verify | Stats => []
  | Help => [HelpText]
  | Version => [VersionText]
  end.

(** subcommands not gated by --unstable *)
Definition stable (k : cmd) : bool := match k with Stats => false | _ => true end.

(** the `imdl torrent <name>` spelling, for the tie to the generated GenCli table *)
Definition cli_name (k : cmd) : option string :=
  match k with
  | Announce => Some "announce"%string
  | Create _ _ => Some "create"%string
  | Dump => Some "dump"%string
  | FromLink => Some "from-link"%string
  | Link => Some "link"%string
  | PieceLength => Some "piece-length"%string
  | Show _ => Some "show"%string
  | Stats => Some "stats"%string
  | Verify => Some "verify"%string
  | Completions _ | Help | Version => None
  end.

(** every place outside env.rs / output_stream.rs that this model knows can write to fd 1 / fd 2 by itself:
    (file, function, kind), in the order of the generated inventory *)
Definition known_sites : list (string * string * string) :=
  [ ("src/run.rs", "run", "eprintln");                                                       (* Env::main failed *)
    ("src/subcommand/torrent/create/create_content.rs", "from_create", "spinner");          (* file search *)
    ("src/subcommand/torrent/create/create_content.rs", "from_create", "progress-bar");     (* hashing files *)
    ("src/subcommand/torrent/create/create_content.rs", "from_create", "spinner");          (* hashing stdin *)
    ("src/subcommand/torrent/stats.rs", "process", "eprintln");
    ("src/subcommand/torrent/stats.rs", "process", "eprintln");
    ("src/subcommand/torrent/verify.rs", "run", "progress-bar") ]%string.

(** every place outside env.rs that writes through the out OutputStream, i.e. every stdout event of [body]:
    (file, function, how) in the order of the generated inventory *)
Definition known_stdout_sites : list (string * string * string) :=
  [ ("src/torrent_summary.rs", "write", "out_mut()");                       (* Table, human-readable *)
    ("src/torrent_summary.rs", "write", "out_mut()");                       (* Table, tab-delimited *)
    ("src/torrent_summary.rs", "write_json", "outln!");                     (* JsonLine *)
    ("src/subcommand/completions.rs", "run", "out!");                       (* Script *)
    ("src/subcommand/torrent/announce.rs", "run", "outln!");                (* PeerLines *)
    ("src/subcommand/torrent/create.rs", "run", "out_mut()");               (* Payload *)
    ("src/subcommand/torrent/create.rs", "run", "outln!");                  (* the magnet link of `create --link` *)
    ("src/subcommand/torrent/dump.rs", "run", "outln!");                    (* DumpLine *)
    ("src/subcommand/torrent/link.rs", "run", "outln!");                    (* LinkLine *)
    ("src/subcommand/torrent/piece_length.rs", "run", "outln!") ]%string.   (* PieceTable *)

(** * The finite space *)

Definition all_bool : list bool := [false; true].
Definition all_color : list use_color := [Auto; Always; Never].
Definition all_fail : list (option failure) := [None; Some FUsage; Some FInput; Some FWork].
Definition all_cmd : list cmd :=
  [ Announce;
    Create InDir OFile; Create InDir OStdout; Create InFile OFile; Create InFile OStdout;
    Create InStdin OFile; Create InStdin OStdout;
    Dump; FromLink; Link; PieceLength; Show false; Show true; Stats; Verify;
    Completions false; Completions true; Help; Version ].

Definition all_configs : list config :=
  flat_map (fun k => flat_map (fun q => flat_map (fun col => flat_map (fun t => flat_map (fun u =>
  flat_map (fun nc => flat_map (fun td => flat_map (fun ot => flat_map (fun et => flat_map (fun w =>
  map (fun f => {| c_cmd := k; c_quiet := q; c_color := col; c_terminal := t; c_unstable := u;
                   c_no_color := nc; c_term_dumb := td; c_out_tty := ot; c_err_tty := et;
                   c_warn := w; c_fail := f |}) all_fail)
  all_bool) all_bool) all_bool) all_bool) all_bool) all_bool) all_bool) all_color) all_bool) all_cmd.

(** * Executable entry point for the correspondence run *)

Definition cls_code (k : cls) : N :=
  match k with
  | Payload => 1 | LinkLine => 2 | JsonLine => 3 | PeerLines => 4 | Table => 5 | DumpLine => 6
  | PieceTable => 7 | Script => 8 | HelpText => 9 | VersionText => 10
  | Banner => 20 | Done => 21 | Progress => 22 | Diagnostic => 23 | Report => 24 | ErrorMsg => 25
  | UsageMsg => 26 | Widget => 27
  end.

Definition bool_of_N (n : N) : bool := negb (n =? 0).
Definition N_of_bool (b : bool) : N := if b then 1 else 0.

Definition color_of_N (n : N) : use_color := if n =? 1 then Always else if n =? 2 then Never else Auto.
Definition fail_of_N (n : N) : option failure :=
  if n =? 1 then Some FUsage else if n =? 2 then Some FInput else if n =? 3 then Some FWork else None.

(** reply: exit status, stdout has an escape-capable event, stderr non-empty, stderr has a widget,
    stderr has an escape-capable event, then the class codes on stdout, 0, the class codes on stderr *)
Definition streams_run (k q col t u nc td ot et w f : N) : list N :=
  let c := {| c_cmd := nth (N.to_nat k) all_cmd Version; c_quiet := bool_of_N q; c_color := color_of_N col;
              c_terminal := bool_of_N t; c_unstable := bool_of_N u; c_no_color := bool_of_N nc;
              c_term_dumb := bool_of_N td; c_out_tty := bool_of_N ot; c_err_tty := bool_of_N et;
              c_warn := bool_of_N w; c_fail := fail_of_N f |} in
  [ exit_of c;
    N_of_bool (existsb ev_esc (stdout_of c));
    N_of_bool (negb (match stderr_of c with [] => true | _ => false end));
    N_of_bool (existsb (fun ev => cls_eqb (ev_cls ev) Widget) (stderr_of c));
    N_of_bool (existsb ev_esc (stderr_of c)) ]
  ++ map (fun ev => cls_code (ev_cls ev)) (stdout_of c) ++ [0]
  ++ map (fun ev => cls_code (ev_cls ev)) (stderr_of c).
