(** C08 - crash model of the local input paths of imdl (definitions only).

    Every function that stands for Rust code returns [result A]: [Val a] (the code went on
    with a), [Fail] (an [Err] reached [Env::status]: exit status 1 with an `error:` line) or
    [Abort] (a panic: exit status 101 / abort). **Every partial operation of the Rust code is
    an explicit Abort-returning primitive** ([unwrap], [index], [slice_from], [slice_to],
    [add_u64], [add_usize], [sub_usize], [rem_u64], [truncate], [stack_guard]); nothing else can
    produce [Abort]. The model mirrors the tree *after* the repairs 0001-0007, the argv
    repair (env::args_os + StrictUtf8) and the file-tree repair (src/table.rs without recursion);
    DESIGN.md section 6 lists what the unrepaired code did at the same places.

    External code is a Section variable: [url_ok] (url crate accepts the text), [node_ok]
    (the node deserialiser - url::Host::parse - accepts the encoded node), [stack_budget]
    (decoder frames the main-thread stack holds), [verdict] (what the verifier finds on disk). *)
From Coq Require Import Decimal DecimalN DecimalFacts.
From Coq Require Import NArith ZArith Bool List.
From Imdl Require Import Model.Bencode Model.Float53.
From Imdl Require Export Model.BencodeWide.
Import ListNotations.
Local Open Scope N_scope.

(* ------------------------------------------------------------------ outcomes *)
(** [Ok0]: exit status 0. [Err1]: exit status 1 with an `error:` line. [Panic101]: panic or abort.
    (Named so that the extracted constructors do not shadow OCaml's [Ok].) *)
Inductive outcome := Ok0 | Err1 | Panic101.

Inductive result (A : Type) := Val (a : A) | Fail | Abort.
Arguments Val {A} a.
Arguments Fail {A}.
Arguments Abort {A}.

Definition bind {A B} (r : result A) (k : A -> result B) : result B :=
  match r with Val a => k a | Fail => Fail | Abort => Abort end.

Definition finish {A} (r : result A) : outcome :=
  match r with Val _ => Ok0 | Fail => Err1 | Abort => Panic101 end.

(** `?` on a Result / Option that is turned into an Error *)
Definition try_ {A} (o : option A) : result A := match o with Some a => Val a | None => Fail end.
Definition check (b : bool) : result unit := if b then Val tt else Fail.

(* ------------------------------------------------------------------ the partial operations of Rust *)
(** [Option::unwrap], [Result::unwrap], [expect], [Invariant::invariant_unwrap] *)
Definition unwrap {A} (o : option A) : result A := match o with Some a => Val a | None => Abort end.
(** [v[i]] *)
Definition index {A} (l : list A) (i : N) : result A := unwrap (nth_error l (N.to_nat i)).
(** [v[i..]] and [v[..i]] *)
Definition slice_from {A} (l : list A) (i : N) : result (list A) :=
  if i <=? N.of_nat (length l) then Val (skipn (N.to_nat i) l) else Abort.
Definition slice_to {A} (l : list A) (i : N) : result (list A) :=
  if i <=? N.of_nat (length l) then Val (firstn (N.to_nat i) l) else Abort.
(** [+] on u64 / usize, [-] on usize, [%] on u64 in the debug profile *)
Definition add_u64 (a b : N) : result N := if a + b <? 2 ^ 64 then Val (a + b) else Abort.
Definition add_usize (a b : N) : result N := if a + b <? 2 ^ 64 then Val (a + b) else Abort.
Definition sub_usize (a b : N) : result N := if b <=? a then Val (a - b) else Abort.
Definition rem_u64 (a b : N) : result N := if b =? 0 then Abort else Val (a mod b).
(** recursion [depth] frames deep on a stack that holds [budget] such frames *)
Definition stack_guard (budget depth : N) : result unit := if depth <=? budget then Val tt else Abort.

Fixpoint for_each {A} (f : A -> result unit) (l : list A) : result unit :=
  match l with [] => Val tt | x :: r => bind (f x) (fun _ => for_each f r) end.

(* ------------------------------------------------------------------ text *)
Fixpoint bytes_eqb (a b : bytes) : bool :=
  match a, b with
  | [], [] => true
  | x :: a', y :: b' => (x =? y) && bytes_eqb a' b'
  | _, _ => false
  end.

Definition between (lo hi b : N) : bool := (lo <=? b) && (b <=? hi).
Definition cont (b : N) : bool := between 128 191 b.

(** [core::str::from_utf8] (Unicode table 3-7: no overlongs, no surrogates, at most U+10FFFF) *)
Fixpoint utf8_ok (bs : bytes) : bool :=
  match bs with
  | [] => true
  | b0 :: r =>
      if b0 <? 128 then utf8_ok r
      else if between 194 223 b0 then
        match r with b1 :: r1 => cont b1 && utf8_ok r1 | _ => false end
      else if between 224 239 b0 then
        match r with
        | b1 :: b2 :: r2 =>
            (if b0 =? 224 then between 160 191 b1 else if b0 =? 237 then between 128 159 b1 else cont b1)
            && cont b2 && utf8_ok r2
        | _ => false
        end
      else if between 240 244 b0 then
        match r with
        | b1 :: b2 :: b3 :: r3 =>
            (if b0 =? 240 then between 144 191 b1 else if b0 =? 244 then between 128 143 b1 else cont b1)
            && cont b2 && cont b3 && utf8_ok r3
        | _ => false
        end
      else false
  end.

Definition is_hex (b : N) : bool := between 48 57 b || between 97 102 b || between 65 70 b.

(** [hex::decode]: pairs of hex digits; [None] on odd length or a non-digit. The decoded
    bytes themselves are irrelevant here, only how many there are. *)
Fixpoint hex_decode (bs : bytes) : option bytes :=
  match bs with
  | [] => Some []
  | a :: b :: r => if is_hex a && is_hex b then option_map (cons 0) (hex_decode r) else None
  | _ => None
  end.

(* the structure reader with integers of any size ([wdecode]), [all_i64], [depth] and [max_depth] are shared with the
   other loader models: Model/BencodeWide.v (re-exported here) *)

Fixpoint lookup (k : bytes) (d : list (bytes * value)) : option value :=
  match d with
  | [] => None
  | (k', v) :: r => if bytes_eqb k k' then Some v else lookup k r
  end.

(* ------------------------------------------------------------------ typed metainfo *)
Record file_info := { f_length : N; f_path : list bytes; f_md5 : option bytes }.
Inductive mode := Single (len : N) (md5 : option bytes) | Multiple (files : list file_info).
Record info := { i_name : bytes; i_piece_length : N; i_pieces : list bytes; i_mode : mode;
                 i_private : option bool; i_source : option bytes; i_update_url : option bytes }.
Record metainfo := { m_announce : option bytes; m_announce_list : option (list (list bytes));
                     m_comment : option bytes; m_created_by : option bytes; m_creation_date : option N;
                     m_encoding : option bytes; m_info : info; m_nodes : option (list value) }.

(** dictionary keys and constant texts as byte lists (spelled out so that the extracted model does
    not contain Coq's [string]; Proofs/CrashProofs.v [keys_spelled] checks the spelling) *)
Definition k_announce : bytes := [97; 110; 110; 111; 117; 110; 99; 101].
Definition k_announce_list : bytes := [97; 110; 110; 111; 117; 110; 99; 101; 45; 108; 105; 115; 116].
Definition k_comment : bytes := [99; 111; 109; 109; 101; 110; 116].
Definition k_created_by : bytes := [99; 114; 101; 97; 116; 101; 100; 32; 98; 121].
Definition k_creation_date : bytes := [99; 114; 101; 97; 116; 105; 111; 110; 32; 100; 97; 116; 101].
Definition k_encoding : bytes := [101; 110; 99; 111; 100; 105; 110; 103].
Definition k_files : bytes := [102; 105; 108; 101; 115].
Definition k_info : bytes := [105; 110; 102; 111].
Definition k_length : bytes := [108; 101; 110; 103; 116; 104].
Definition k_magnet : bytes := [109; 97; 103; 110; 101; 116; 58].
Definition k_md5sum : bytes := [109; 100; 53; 115; 117; 109].
Definition k_name : bytes := [110; 97; 109; 101].
Definition k_nodes : bytes := [110; 111; 100; 101; 115].
Definition k_path : bytes := [112; 97; 116; 104].
Definition k_piece_length : bytes := [112; 105; 101; 99; 101; 32; 108; 101; 110; 103; 116; 104].
Definition k_pieces : bytes := [112; 105; 101; 99; 101; 115].
Definition k_private : bytes := [112; 114; 105; 118; 97; 116; 101].
Definition k_source : bytes := [115; 111; 117; 114; 99; 101].
Definition k_update_url : bytes := [117; 112; 100; 97; 116; 101; 45; 117; 114; 108].

(** [String] *)
Definition de_string (v : value) : option bytes :=
  match v with Str s => if utf8_ok s then Some s else None | _ => None end.
(** [u64] read straight from the token ([str::parse::<u64>]) *)
Definition de_u64 (v : value) : option N :=
  match v with Int z => if ((0 <=? z) && (z <? 2 ^ 64))%Z then Some (Z.to_N z) else None | _ => None end.
(** [u64] read from a buffered [Content::I64] (inside the flattened [Mode]) *)
Definition de_u64_buffered (v : value) : option N :=
  match v with Int z => if ((0 <=? z) && i64_ok z)%Z then Some (Z.to_N z) else None | _ => None end.
(** [bool]: bendy accepts exactly the integers 0 and 1 *)
Definition de_bool (v : value) : option bool :=
  match v with Int z => if (z =? 0)%Z then Some false else if (z =? 1)%Z then Some true else None | _ => None end.

Fixpoint map_opt {A B} (f : A -> option B) (l : list A) : option (list B) :=
  match l with
  | [] => Some []
  | x :: r => match f x, map_opt f r with Some y, Some ys => Some (y :: ys) | _, _ => None end
  end.

Definition de_list {B} (f : value -> option B) (v : value) : option (list B) :=
  match v with Lst l => map_opt f l | _ => None end.

(** optional field with `default` + `with = unwrap_or_skip`: absent -> None, present -> must parse *)
Definition opt_field {B} (f : value -> option B) (key : bytes) (d : list (bytes * value)) : option (option B) :=
  match lookup key d with
  | None => Some None
  | Some v => match f v with Some b => Some (Some b) | None => None end
  end.

(** Md5Digest after repair 0005: a string of exactly 32 hex digits ([hex::decode_to_slice]) *)
Definition de_md5 (v : value) : option bytes :=
  match de_string v with
  | Some s => match hex_decode s with
              | Some b => if Nat.eqb (length b) 16 then Some s else None
              | None => None
              end
  | None => None
  end.

(** FilePath after repair 0004: every component is one normal path component *)
Definition dot : bytes := [46].
Definition normal_component (c : bytes) : bool :=
  negb (bytes_eqb c []) && negb (bytes_eqb c dot) && negb (bytes_eqb c (dot ++ dot))
  && negb (existsb (N.eqb 47) c).
Definition de_path (v : value) : option (list bytes) :=
  match de_list de_string v with
  | Some cs => if forallb normal_component cs then Some cs else None
  | None => None
  end.

(** FileInfo out of buffered content: a map (unknown keys ignored, keys need not be UTF-8)
    or, as serde allows for any struct read from buffered content, a sequence in field order *)
Definition de_file (v : value) : option file_info :=
  match v with
  | Dict d =>
      match lookup k_length d, lookup k_path d with
      | Some l, Some p =>
          match de_u64_buffered l, de_path p, opt_field de_md5 k_md5sum d with
          | Some n, Some cs, Some m => Some {| f_length := n; f_path := cs; f_md5 := m |}
          | _, _, _ => None
          end
      | _, _ => None
      end
  | Lst (l :: p :: rest) =>
      match de_u64_buffered l, de_path p with
      | Some n, Some cs =>
          match rest with
          | [] => Some {| f_length := n; f_path := cs; f_md5 := None |}
          | [m] => match de_md5 m with Some x => Some {| f_length := n; f_path := cs; f_md5 := Some x |} | None => None end
          | _ => None
          end
      | _, _ => None
      end
  | _ => None
  end.

(** untagged [Mode]: Single is tried first, then Multiple *)
Definition de_mode (d : list (bytes * value)) : option mode :=
  let single :=
    match lookup k_length d with
    | Some l => match de_u64_buffered l, opt_field de_md5 k_md5sum d with
                | Some n, Some m => Some (Single n m)
                | _, _ => None
                end
    | None => None
    end in
  match single with
  | Some m => Some m
  | None => match lookup k_files d with
            | Some f => option_map Multiple (de_list de_file f)
            | None => None
            end
  end.

(** PieceList::deserialize: length check, then [chunks_exact(20)] and
    [try_into().invariant_unwrap("chunks are all Sha1Digest::LENGTH")] per chunk *)
Fixpoint chunks_exact (fuel : nat) (l : bytes) : list bytes :=
  match fuel with
  | O => []
  | S f => if Nat.ltb (length l) 20 then [] else firstn 20 l :: chunks_exact f (skipn 20 l)
  end.

Definition try_into_20 (c : bytes) : option bytes := if Nat.eqb (length c) 20 then Some c else None.

Fixpoint mapM {A B} (f : A -> result B) (l : list A) : result (list B) :=
  match l with
  | [] => Val []
  | x :: r => bind (f x) (fun y => bind (mapM f r) (fun ys => Val (y :: ys)))
  end.

Definition de_pieces (v : value) : result (list bytes) :=
  match v with
  | Str s => if Nat.eqb (Nat.modulo (length s) 20) 0
             then mapM (fun c => unwrap (try_into_20 c)) (chunks_exact (length s) s)
             else Fail
  | _ => Fail
  end.

Definition info_known : list bytes :=
  [k_private; k_piece_length; k_name; k_source; k_pieces; k_update_url].
Definition top_known : list bytes :=
  [k_announce; k_announce_list; k_comment; k_created_by; k_creation_date; k_encoding; k_info; k_nodes].
Definition known (ks : list bytes) (key : bytes) : bool := existsb (bytes_eqb key) ks.

(** values that are skipped or buffered go through [deserialize_any]: integers must fit i64 *)
Definition others_i64 (ks : list bytes) (d : list (bytes * value)) : bool :=
  forallb (fun kv => known ks (fst kv) || all_i64 (snd kv)) d.

Section Ext.
Variable url_ok : bytes -> bool.
Variable node_ok : bytes -> bool.
Variable stack_budget : N.
Variable verdict : metainfo -> bool.

Definition de_url (v : value) : option bytes :=
  match de_string v with Some s => if url_ok s then Some s else None | None => None end.

Definition de_node (v : value) : option value := if node_ok (encode v) then Some v else None.

Definition de_info (v : value) : result info :=
  match v with
  | Dict d =>
      bind (check (forallb utf8_ok (map fst d) && others_i64 info_known d)) (fun _ =>
      bind (try_ (opt_field de_bool k_private d)) (fun private =>
      bind (try_ (match lookup k_piece_length d with Some x => de_u64 x | None => None end)) (fun pl =>
      bind (try_ (match lookup k_name d with Some x => de_string x | None => None end)) (fun name =>
      bind (try_ (opt_field de_string k_source d)) (fun source =>
      bind (match lookup k_pieces d with Some x => de_pieces x | None => Fail end) (fun pieces =>
      bind (try_ (opt_field de_url k_update_url d)) (fun uu =>
      bind (try_ (de_mode d)) (fun m =>
      Val {| i_name := name; i_piece_length := pl; i_pieces := pieces; i_mode := m;
             i_private := private; i_source := source; i_update_url := uu |}))))))))
  | _ => Fail
  end.

(** Mode::content_size_fits (repair 0006): [try_fold(0, checked_add).is_some()] *)
Fixpoint checked_sum (acc : N) (ls : list N) : option N :=
  match ls with
  | [] => Some acc
  | x :: r => if acc + x <? 2 ^ 64 then checked_sum (acc + x) r else None
  end.

Definition lengths (m : mode) : list N :=
  match m with Single n _ => [n] | Multiple fs => map f_length fs end.

Definition content_size_fits (m : mode) : bool :=
  match m with
  | Single _ _ => true
  | Multiple fs => match checked_sum 0 (map f_length fs) with Some _ => true | None => false end
  end.

(** bendy's serde reader: depth limit 2048 while tokenizing, then the derive-generated
    visitors; [Metainfo::deserialize] then checks the content size (repair 0006) *)
Definition de_metainfo_raw (v : value) : result metainfo :=
  bind (check (depth v <=? max_depth)) (fun _ =>
  match v with
  | Dict d =>
      bind (check (forallb utf8_ok (map fst d) && others_i64 top_known d)) (fun _ =>
      bind (try_ (opt_field de_string k_announce d)) (fun announce =>
      bind (try_ (opt_field (de_list (de_list de_string)) k_announce_list d)) (fun al =>
      bind (try_ (opt_field de_string k_comment d)) (fun comment =>
      bind (try_ (opt_field de_string k_created_by d)) (fun cb =>
      bind (try_ (opt_field de_u64 k_creation_date d)) (fun cd =>
      bind (try_ (opt_field de_string k_encoding d)) (fun encoding =>
      bind (match lookup k_info d with Some x => de_info x | None => Fail end) (fun inf =>
      bind (try_ (opt_field (de_list de_node) k_nodes d)) (fun nodes =>
      Val {| m_announce := announce; m_announce_list := al; m_comment := comment; m_created_by := cb;
             m_creation_date := cd; m_encoding := encoding; m_info := inf; m_nodes := nodes |})))))))))
  | _ => Fail
  end).

Definition de_metainfo (v : value) : result metainfo :=
  bind (de_metainfo_raw v) (fun m =>
  bind (check (content_size_fits (i_mode (m_info m)))) (fun _ => Val m)).

(** [Infohash::decode_value] (repair 0007): [Decoder::with_max_depth(2048)], then the recursive
    [Value::decode_bencode_object]; its recursion is as deep as the value *)
Definition decode_value (v : value) : result value :=
  bind (check ((depth v <=? max_depth) && all_i64 v)) (fun _ =>
  bind (stack_guard stack_budget (depth v)) (fun _ => Val v)).

(** [Infohash::from_input] *)
Definition infohash_of (v : value) : result unit :=
  bind (decode_value v) (fun v' =>
  match v' with
  | Dict d => match lookup k_info d with
              | Some (Dict _) => Val tt
              | _ => Fail
              end
  | _ => Fail
  end).

(* ------------------------------------------------------------------ the summary (torrent show) *)
(** [impl Sum for Bytes]: [sum += item] on u64 *)
Fixpoint sum_u64 (acc : N) (ls : list N) : result N :=
  match ls with
  | [] => Val acc
  | x :: r => bind (add_u64 acc x) (fun a => sum_u64 a r)
  end.

Definition content_size (m : mode) : result N :=
  match m with Single n _ => Val n | Multiple fs => sum_u64 0 (map f_length fs) end.

(** a Rust u64 is its value modulo 2^64; the model's N carries no range, so a use that relies
    on the range of the type goes through [as_u64] (the identity on u64 values) *)
Definition as_u64 (x : N) : N := x mod 2 ^ 64.

(** [impl Display for Bytes]: the loop divides the double by 1024 while it is >= 1024; the
    number of divisions is floor(log2 v / 10); then [DISPLAY_SUFFIXES[i - 1]] *)
(** the six entries KiB MiB GiB TiB PiB EiB, by their first letters *)
Definition display_suffixes : list N := [75; 77; 71; 84; 80; 69].
Definition suffix_index (n : N) : N := N.log2 (round53 n) / 10.
Definition bytes_display (n : N) : result unit :=
  let i := suffix_index n in
  if i =? 0 then Val tt
  else bind (sub_usize i 1) (fun j => bind (index display_suffixes j) (fun _ => Val tt)).

(** creation date after repair 0003: [i64::try_from(..).ok().and_then(|s| timestamp_opt(s, 0).single())],
    then a [match] - no unwrap is left; [in_chrono_range] is chrono's answer *)
Definition date_row (in_chrono_range : N -> bool) (d : N) : result unit :=
  match (if d <? 2 ^ 63 then (if in_chrono_range d then Some d else None) else None) with
  | Some _ => Val tt
  | None => Val tt
  end.

(** [for (i, tier) in tiers.iter().enumerate() { .. format!("Tier {}", i + 1) .. }] *)
Fixpoint tiers_rows (i : N) (tiers : list (list bytes)) : result unit :=
  match tiers with
  | [] => Val tt
  | _ :: r => bind (add_usize i 1) (fun _ => tiers_rows (i + 1) r)
  end.

(* the file tree of the terminal layout *)
(** src/table.rs after the repair "fix: build, render and drop the file tree without recursion":
    [Tree::insert] is a loop over the path components, [Tree::lines] a loop over an explicit
    stack of child iterators, [Drop for Tree] a loop over an explicit stack of subtrees. None of
    them uses call stack per path component, so the model has no stack budget here; what is left
    to guard are the partial operations of the loops. *)
Inductive tree := Node (name : bytes) (children : list tree).
Definition t_name (t : tree) : bytes := match t with Node n _ => n end.
Definition t_children (t : tree) : list tree := match t with Node _ cs => cs end.

(** [children.iter().position(|child| child.name == name)] *)
Fixpoint position (name : bytes) (cs : list tree) : option N :=
  match cs with
  | [] => None
  | c :: r => if bytes_eqb (t_name c) name then Some 0 else option_map N.succ (position name r)
  end.

Fixpoint set_nth {A} (n : nat) (x : A) (l : list A) : list A :=
  match l, n with
  | [], _ => []
  | _ :: r, O => x :: r
  | y :: r, S m => y :: set_nth m x r
  end.

(** [Tree::insert]: [for name in file { let index = match position { Some(index) => index, None =>
    { children.push(new(name)); children.len() - 1 } }; tree = &mut tree.children[index]; }].
    The walk down through [&mut] is the functional update on the way back. *)
Fixpoint tree_insert (file : list bytes) (t : tree) : result tree :=
  match file with
  | [] => Val t
  | name :: rest =>
      let cs := t_children t in
      bind (match position name cs with
            | Some i => Val (cs, i)
            | None => let cs' := cs ++ [Node name []] in
                      bind (sub_usize (N.of_nat (length cs')) 1) (fun i => Val (cs', i))
            end) (fun ci =>
      bind (index (fst ci) (snd ci)) (fun child =>
      bind (tree_insert rest child) (fun child' =>
      Val (Node (t_name t) (set_nth (N.to_nat (snd ci)) child' (fst ci))))))
  end.

Fixpoint tree_insert_all (files : list (list bytes)) (t : tree) : result tree :=
  match files with
  | [] => Val t
  | f :: r => bind (tree_insert f t) (tree_insert_all r)
  end.

(** the four texts drawn in front of a name: corner and tee connect a node to its parent, blank and
    bar continue the line of an ancestor (UTF-8 of U+2514 U+2500, U+251C U+2500, two spaces,
    U+2502 space; Proofs/CrashProofs.v [segments_spelled] checks the spelling) *)
Definition seg_corner : bytes := [226; 148; 148; 226; 148; 128].
Definition seg_tee : bytes := [226; 148; 156; 226; 148; 128].
Definition seg_blank : bytes := [32; 32].
Definition seg_bar : bytes := [226; 148; 130; 32].

(** [str::is_char_boundary]: [index == 0], or [index == len] past the end, or [(b as i8) >= -0x40] *)
Definition is_char_boundary (s : bytes) (n : nat) : bool :=
  match n with
  | O => true
  | _ => match nth_error s n with
         | None => Nat.eqb n (length s)
         | Some b => negb (cont b)
         end
  end.

(** [String::truncate]: [if new_len <= self.len() { assert!(self.is_char_boundary(new_len)); .. }] *)
Definition truncate (s : bytes) (n : nat) : result bytes :=
  if Nat.leb n (length s)
  then (if is_char_boundary s n then Val (firstn n s) else Abort)
  else Val s.

Definition is_nil {A} (l : list A) : bool := match l with [] => true | _ => false end.

(** a frame of the explicit stack of [Tree::lines]: the children not yet drawn, and the length of
    the prefix in front of them *)
Definition frame := (list tree * nat)%type.

(** [Tree::lines], the [while let Some((children, indent)) = stack.last_mut()] loop; one unit
    of fuel per round; [out] collects the lines handed to the callback, newest first *)
Fixpoint lines_loop (fuel : nat) (prefix : bytes) (stack : list frame) (out : list bytes) : result (list bytes) :=
  match fuel with
  | O => Fail   (* never reached with the fuel passed by tree_lines, see lines_fuel_suffices *)
  | S f =>
      match stack with
      | [] => Val (rev out)
      | (children, indent) :: below =>
          match children with
          | [] => lines_loop f prefix below out
          | child :: more =>
              let last := is_nil more in
              bind (truncate prefix indent) (fun p1 =>
              let p2 := p1 ++ (if last then seg_corner else seg_tee) in
              bind (truncate p2 indent) (fun p3 =>
              let p4 := p3 ++ (if last then seg_blank else seg_bar) in
              lines_loop f p4 ((t_children child, length p4) :: (more, indent) :: below)
                         ((p2 ++ t_name child) :: out)))
          end
      end
  end.

Fixpoint tree_size (t : tree) : nat :=
  match t with Node _ cs => S (fold_right (fun c a => (tree_size c + a)%nat) O cs) end.

(** every node but the root is drawn in one round, every frame is popped in one round, and one
    round finds the stack empty *)
Definition tree_lines (t : tree) : result (list bytes) :=
  lines_loop (2 * tree_size t) [] [(t_children t, O)] [t_name t].

(** [Drop for Tree]: [let mut stack = take(&mut self.children); while let Some(mut tree) = stack.pop()
    { stack.append(&mut tree.children); }] *)
Fixpoint drop_loop (fuel : nat) (stack : list tree) : result unit :=
  match fuel with
  | O => Fail   (* never reached with the fuel passed by tree_drop, see drop_fuel_suffices *)
  | S f => match stack with [] => Val tt | t :: rest => drop_loop f (t_children t ++ rest) end
  end.
Definition tree_drop (t : tree) : result unit := drop_loop (tree_size t) (t_children t).

(** [Table::directory]: [files.sort()], the derived order of [FilePath]: component by component,
    each compared as bytes; the sort is stable *)
Fixpoint path_leb (a b : list bytes) : bool :=
  match a, b with
  | [], _ => true
  | _ :: _, [] => false
  | x :: a', y :: b' => if bytes_ltb x y then true else if bytes_ltb y x then false else path_leb a' b'
  end.
Fixpoint sort_insert (p : list bytes) (l : list (list bytes)) : list (list bytes) :=
  match l with
  | [] => [p]
  | q :: r => if path_leb p q then p :: l else q :: sort_insert p r
  end.
Definition sort_paths (l : list (list bytes)) : list (list bytes) := fold_right sort_insert [] l.

(** the Directory arm of [write_human_readable]: build the tree, hand every line to the writer, drop the tree *)
Definition directory_rows (root : bytes) (files : list (list bytes)) : result (list bytes) :=
  bind (tree_insert_all (sort_paths files) (Node root [])) (fun t =>
  bind (tree_lines t) (fun ls =>
  bind (tree_drop t) (fun _ => Val ls))).

(** what the code before the repair computed, by recursion on the tree (unlimited stack): the
    specification the loops are proved equal to *)
Fixpoint insert_spec_children (insert_rest : tree -> tree) (name : bytes) (cs : list tree) : list tree :=
  match cs with
  | [] => [insert_rest (Node name [])]
  | c :: r => if bytes_eqb (t_name c) name then insert_rest c :: r else c :: insert_spec_children insert_rest name r
  end.
Fixpoint insert_spec (file : list bytes) (t : tree) : tree :=
  match file with
  | [] => t
  | name :: rest => Node (t_name t) (insert_spec_children (insert_spec rest) name (t_children t))
  end.

(** [lines_inner] with [last] kept as the prefix text of the ancestors *)
Section SpecChildren.
Variable line_of : bool -> tree -> list bytes.
Fixpoint spec_children (cs : list tree) : list bytes :=
  match cs with
  | [] => []
  | c :: r => line_of (is_nil r) c ++ spec_children r
  end.
End SpecChildren.
Fixpoint lines_spec_node (anc : bytes) (last : bool) (t : tree) {struct t} : list bytes :=
  match t with
  | Node name cs =>
      (anc ++ (if last then seg_corner else seg_tee) ++ name) ::
      spec_children (fun l c => lines_spec_node (anc ++ (if last then seg_blank else seg_bar)) l c) cs
  end.
Definition lines_spec (t : tree) : list bytes :=
  t_name t :: spec_children (fun l c => lines_spec_node [] l c) (t_children t).

(** [name_width - UnicodeWidthStr::width(name)] where [name_width] is the maximum over the rows *)
Definition name_width (ws : list N) : N := fold_right N.max 0 ws.
Definition pad_rows (ws : list N) : result unit :=
  for_each (fun w => bind (sub_usize (name_width ws) w) (fun _ => Val tt)) ws.

Variable in_chrono_range : N -> bool.

(** widths of the row labels: whatever they are *)
Definition summary (term : bool) (m : metainfo) (row_widths : list N) : result unit :=
  bind (match m_creation_date m with Some d => date_row in_chrono_range d | None => Val tt end) (fun _ =>
  bind (content_size (i_mode (m_info m))) (fun size =>
  bind (match m_announce_list m with Some t => tiers_rows 0 t | None => Val tt end) (fun _ =>
  if term then
    bind (pad_rows row_widths) (fun _ =>
    bind (bytes_display (as_u64 size)) (fun _ =>
    bind (bytes_display (as_u64 (i_piece_length (m_info m)))) (fun _ =>
    match i_mode (m_info m) with
    | Single _ _ => Val tt
    | Multiple fs => bind (directory_rows (i_name (m_info m)) (map f_path fs)) (fun _ => Val tt)
    end)))
  else Val tt))).

(* ------------------------------------------------------------------ commands *)
Definition parse (data : bytes) : result value :=
  match wdecode (fuel_for data) data with Some (v, _) => Val v | None => Fail end.

Definition load (data : bytes) : result (value * metainfo) :=
  bind (parse data) (fun v => bind (de_metainfo v) (fun m => Val (v, m))).

(** torrent show (text, --json; [term] = stdout is a terminal or --terminal) *)
Definition show_model (term : bool) (row_widths : list N) (data : bytes) : result unit :=
  bind (load data) (fun vm =>
  bind (infohash_of (fst vm)) (fun _ =>
  summary term (snd vm) row_widths)).

(** the lines of the file tree `torrent show` draws in terminal layout for a multi-file torrent *)
Definition tree_rows (data : bytes) : option (list bytes) :=
  match load data with
  | Val (_, m) =>
      match i_mode (m_info m) with
      | Multiple fs => match directory_rows (i_name (m_info m)) (map f_path fs) with Val ls => Some ls | _ => None end
      | Single _ _ => None
      end
  | _ => None
  end.

Definition trackers (m : metainfo) : list bytes :=
  (match m_announce m with Some a => [a] | None => [] end) ++
  (match m_announce_list m with Some t => concat t | None => [] end).

(** torrent link: infohash, metainfo, every tracker parsed as a Url, then
    [Url::parse("magnet:").invariant_unwrap("`magnet:` is valid URL")] *)
Definition link_model (data : bytes) : result unit :=
  bind (parse data) (fun v =>
  bind (infohash_of v) (fun _ =>
  bind (de_metainfo v) (fun m =>
  bind (check (forallb url_ok (trackers m))) (fun _ =>
  bind (unwrap (if url_ok k_magnet then Some tt else None)) (fun _ => Val tt))))).

(** torrent verify: load, piece length as u32 and non-zero (repair 0001), then the verifier's verdict *)
Definition verify_model (data : bytes) : result unit :=
  bind (load data) (fun vm =>
  let pl := i_piece_length (m_info (snd vm)) in
  bind (check ((pl <? 2 ^ 32) && negb (pl =? 0))) (fun _ =>
  check (verdict (snd vm)))).

(** torrent dump (repairs 0002, 0007): bounded decode, recursive Display *)
Definition dump_model (data : bytes) : result unit :=
  bind (parse data) (fun v =>
  bind (decode_value v) (fun v' =>
  bind (stack_guard stack_budget (depth v')) (fun _ => Val tt))).

(** torrent stats over the .torrent files of a directory: every file is counted, decode
    failures are counted, nothing fails. [torrents % 10000], [torrents += 1],
    [bencode_decode_errors += 1]; [extract] and [pretty_print] recurse as deep as the value,
    which the serde reader has limited to 2048 *)
Fixpoint stats_files (torrents errors : N) (files : list bytes) : result unit :=
  match files with
  | [] => Val tt
  | data :: r =>
      bind (rem_u64 torrents 10000) (fun _ =>
      bind (add_u64 torrents 1) (fun t =>
      match wdecode (fuel_for data) data with
      | Some (v, _) =>
          if (depth v <=? max_depth) && all_i64 v
          then bind (stack_guard stack_budget (depth v)) (fun _ => stats_files t errors r)
          else bind (add_u64 errors 1) (fun e => stats_files t e r)
      | None => bind (add_u64 errors 1) (fun e => stats_files t e r)
      end))
  end.
Definition stats_model (files : list bytes) : result unit := stats_files 0 0 files.

(* ------------------------------------------------------------------ argument strings *)
(** [Env::main] after the argv repair: [env::args_os()], clap with StrictUtf8: an argument
    that is not UTF-8 is a usage error. (Before: [env::args()] panicked.) *)
Definition argv_stage (args : list bytes) : result unit := check (forallb utf8_ok args).

(** MagnetLink::parse, the `xt` value: length check, [hex::decode], then
    [buf.as_slice().try_into().invariant_unwrap("bounds are checked above")] into [u8; 20] *)
Definition magnet_topic (infohash : bytes) : result bytes :=
  if negb (Nat.eqb (length infohash) 40) then Fail
  else bind (try_ (hex_decode infohash)) (fun buf => unwrap (try_into_20 buf)).

(** the argument parsers as total functions of the text: a parser either accepts or
    returns a clap "Invalid value" error; [accepts] is the parser's verdict *)
Definition arg_model (accepts : bytes -> bool) (args : list bytes) (value : bytes) : result unit :=
  bind (argv_stage (value :: args)) (fun _ => check (accepts value)).

End Ext.

(* ------------------------------------------------------------------ entry points for the extracted runner *)
Definition accepted (l : list bytes) (s : bytes) : bool := existsb (bytes_eqb s) l.

(** class of a command on [data], the external answers given as accept-lists *)
Definition crash_class_of (cmd : N) (okurls oknodes : list bytes) (data : bytes) : outcome :=
  let url_ok := fun s => accepted (k_magnet :: okurls) s in
  let node_ok := accepted oknodes in
  let budget := max_depth in
  if cmd =? 0 then finish (show_model url_ok node_ok budget (fun _ => true) true [] data)
  else if cmd =? 1 then finish (link_model url_ok node_ok budget data)
  else if cmd =? 2 then finish (verify_model url_ok node_ok (fun _ => true) data)
  else if cmd =? 3 then finish (dump_model budget data)
  else finish (stats_model budget [data]).

Definition crash_utf8_ok (bs : bytes) : bool := utf8_ok bs.

(** the file tree of a torrent as the model draws it, the external answers given as accept-lists *)
Definition crash_tree_rows (okurls oknodes : list bytes) (data : bytes) : option (list bytes) :=
  tree_rows (fun s => accepted (k_magnet :: okurls) s) (accepted oknodes) data.
