(** Model of magnet-link printing and parsing (C10). Definitions only.

    Anchors (in the tree *as repaired* by "fix: percent-encode magnet link parameter values"):
      src/magnet_link.rs   MagnetLink::push_value, to_url, parse; the BTreeSet of indices
      src/metainfo.rs      Metainfo::trackers (announce, then tiers, HashSet de-duplication)
      src/subcommand/torrent/link.rs, create.rs   how the link is assembled
    url 2.5.2 (read in url/src/parser.rs, lib.rs; form_urlencoded 1.2.1; percent-encoding 2.3.1):
      Url::set_query = drop TAB/LF/CR, percent-encode the QUERY set and every byte >= 0x80;
      Url::parse on a `magnet:` text (trim C0/space, drop TAB/LF/CR, scheme, path up to ?/#,
      query up to #); query_pairs = form_urlencoded::parse (skip empty segments, first `=`,
      `+` -> space, percent-decode, lossy UTF-8).
    Typed fields are external: [url_norm] stands for `Url::parse(v).as_str()`, [hp_norm] for
    `HostPort::from_str(v).to_string()`, [lossy] for `String::from_utf8_lossy`; they are
    Section variables, never axioms. Byte strings are [list N]. *)
From Coq Require Import String.
From Coq Require Import Decimal DecimalN DecimalFacts.
From Coq Require Import NArith Bool List.
From Coq Require Strings.Byte.
From Imdl Require Import Model.Bencode.
Import ListNotations.
Local Open Scope N_scope.

(** literal text as bytes (evaluated at definition time, so the constants are plain lists) *)
Definition B (s : string) : bytes := map Strings.Byte.to_N (list_byte_of_string s).

Definition k_magnet_q : bytes := Eval vm_compute in B "magnet:?".
Definition k_magnet : bytes := Eval vm_compute in B "magnet".
Definition k_xt : bytes := Eval vm_compute in B "xt".
Definition k_dn : bytes := Eval vm_compute in B "dn".
Definition k_tr : bytes := Eval vm_compute in B "tr".
Definition k_pe : bytes := Eval vm_compute in B "x.pe".
Definition k_so : bytes := Eval vm_compute in B "so".
Definition k_urn_btih : bytes := Eval vm_compute in B "urn:btih:".
(** the pieces `to_url` pushes *)
Definition k_xt_topic : bytes := Eval vm_compute in B "xt=urn:btih:".
Definition k_amp_dn : bytes := Eval vm_compute in B "&dn=".
Definition k_amp_tr : bytes := Eval vm_compute in B "&tr=".
Definition k_amp_pe : bytes := Eval vm_compute in B "&x.pe=".
Definition k_amp_so : bytes := Eval vm_compute in B "&so=".

Definition in_range (lo hi b : N) : bool := (lo <=? b) && (b <=? hi).

Fixpoint bytes_eqb (a b : bytes) : bool :=
  match a, b with
  | [], [] => true
  | x :: a', y :: b' => (x =? y) && bytes_eqb a' b'
  | _, _ => false
  end.

Fixpoint strip_prefix (p s : bytes) : option bytes :=
  match p with
  | [] => Some s
  | c :: p' => match s with
               | d :: s' => if c =? d then strip_prefix p' s' else None
               | [] => None
               end
  end.

(* ------------------------------------------------------------------ printing *)

(** MagnetLink::push_value: the bytes left as they are *)
Definition safe_punct : bytes := Eval vm_compute in B "-._~:/?@!$'()*,;=[]".
Definition safe (b : byte) : bool :=
  in_range 48 57 b || in_range 65 90 b || in_range 97 122 b || existsb (N.eqb b) safe_punct.

Definition hexd_up (d : N) : byte := if d <? 10 then 48 + d else 55 + d.   (* {:02X} *)
Definition hexd_lo (d : N) : byte := if d <? 10 then 48 + d else 87 + d.   (* {:02x} *)
Definition pct (b : byte) : bytes := [37; hexd_up (b / 16); hexd_up (b mod 16)].
Definition enc1 (b : byte) : bytes := if safe b then [b] else pct b.
Definition push_value (s : bytes) : bytes := flat_map enc1 s.

(** Sha1Digest's Display *)
Definition hex_lower (s : bytes) : bytes := flat_map (fun b => [hexd_lo (b / 16); hexd_lo (b mod 16)]) s.

(** BTreeSet<u64>::insert, on the ascending list of its elements *)
Fixpoint set_insert (x : N) (s : list N) : list N :=
  match s with
  | [] => [x]
  | y :: r => if x <? y then x :: s else if x =? y then s else y :: set_insert x r
  end.
(** `for index in indices { link.add_index(index) }` *)
Definition index_set (l : list N) : list N := fold_left (fun s x => set_insert x s) l [].

Fixpoint join (sep : byte) (segs : list bytes) : bytes :=
  match segs with
  | [] => []
  | [a] => a
  | a :: rest => a ++ sep :: join sep rest
  end.

(** the `so` value: decimal indices separated by commas *)
Definition so_value (s : list N) : bytes := join 44 (map dec s).

Record link := Link {
  l_ih : bytes;                (* 20 bytes *)
  l_name : option bytes;
  l_trackers : list bytes;     (* Url::as_str of each tracker *)
  l_peers : list bytes;        (* HostPort::to_string of each peer *)
  l_indices : list N           (* the BTreeSet, ascending *)
}.

(** MagnetLink::to_url, the string handed to set_query *)
Definition to_query (l : link) : bytes :=
  k_xt_topic ++ hex_lower (l_ih l)
  ++ match l_name l with Some n => k_amp_dn ++ push_value n | None => [] end
  ++ flat_map (fun t => k_amp_tr ++ push_value t) (l_trackers l)
  ++ flat_map (fun p => k_amp_pe ++ push_value p) (l_peers l)
  ++ match l_indices l with [] => [] | _ :: _ => k_amp_so ++ so_value (l_indices l) end.

(** url crate: TAB / LF / CR are dropped from the input *)
Definition is_tnl (b : byte) : bool := (b =? 9) || (b =? 10) || (b =? 13).
(** url crate QUERY set (non-special scheme): C0 controls, DEL, space, double quote, #, <, >; plus every non-ASCII byte *)
Definition in_query_set (b : byte) : bool :=
  (b <=? 31) || (127 <=? b) || (b =? 32) || (b =? 34) || (b =? 35) || (b =? 60) || (b =? 62).
Definition qenc1 (b : byte) : bytes := if in_query_set b then pct b else [b].
Definition query_encode (q : bytes) : bytes := flat_map qenc1 q.
Definition drop_tnl (s : bytes) : bytes := filter (fun b => negb (is_tnl b)) s.
Definition set_query (q : bytes) : bytes := query_encode (drop_tnl q).

(** Display of the Url: `magnet:` + `?` + query *)
Definition print (l : link) : bytes := k_magnet_q ++ set_query (to_query l).

(* ------------------------------------------------------------------ the tracker list *)

(** Metainfo::trackers: announce, then every tier in order, skipping texts already seen *)
Fixpoint dedup_loop (seen : list bytes) (l : list bytes) : list bytes :=
  match l with
  | [] => []
  | t :: r => if existsb (bytes_eqb t) seen then dedup_loop seen r
              else t :: dedup_loop (t :: seen) r
  end.
Definition tracker_texts (announce : option bytes) (tiers : list (list bytes)) : list bytes :=
  dedup_loop [] (match announce with Some a => [a] | None => [] end ++ concat tiers).

Fixpoint map_opt {A C} (f : A -> option C) (l : list A) : option (list C) :=
  match l with
  | [] => Some []
  | a :: r => match f a with
              | Some c => match map_opt f r with Some cs => Some (c :: cs) | None => None end
              | None => None
              end
  end.

(* ------------------------------------------------------------------ a standard query-string parser *)

Definition unhex (c : byte) : option N :=
  if in_range 48 57 c then Some (c - 48)
  else if in_range 65 70 c then Some (c - 55)
  else if in_range 97 102 c then Some (c - 87)
  else None.

(** percent-decoding; [plus] = the `+`-as-space convention *)
Fixpoint pct_decode (plus : bool) (s : bytes) : bytes :=
  match s with
  | [] => []
  | c :: r =>
      if c =? 37 then
        match r with
        | h :: l :: r' =>
            match unhex h, unhex l with
            | Some x, Some y => (16 * x + y) :: pct_decode plus r'
            | _, _ => c :: pct_decode plus r
            end
        | _ => c :: pct_decode plus r
        end
      else if plus && (c =? 43) then 32 :: pct_decode plus r
      else c :: pct_decode plus r
  end.

Fixpoint split_on (sep : byte) (s : bytes) : list bytes :=
  match s with
  | [] => [[]]
  | c :: r => if c =? sep then [] :: split_on sep r
              else match split_on sep r with
                   | seg :: segs => (c :: seg) :: segs
                   | [] => [[c]]
                   end
  end.

Fixpoint split_first (sep : byte) (s : bytes) : bytes * bytes :=
  match s with
  | [] => ([], [])
  | c :: r => if c =? sep then ([], r) else let '(k, v) := split_first sep r in (c :: k, v)
  end.

(** split on `&` and the first `=`, percent-decode *)
Definition std_parse (plus : bool) (q : bytes) : list (bytes * bytes) :=
  map (fun seg => let '(k, v) := split_first 61 seg in (pct_decode plus k, pct_decode plus v))
      (split_on 38 q).

(** the text after `magnet:?` *)
Definition uri_query (uri : bytes) : option bytes := strip_prefix k_magnet_q uri.

(** what the property says the link must decode to *)
Definition expected (l : link) : list (bytes * bytes) :=
  (k_xt, k_urn_btih ++ hex_lower (l_ih l))
  :: match l_name l with Some n => [(k_dn, n)] | None => [] end
  ++ map (fun t => (k_tr, t)) (l_trackers l)
  ++ map (fun p => (k_pe, p)) (l_peers l)
  ++ match l_indices l with [] => [] | _ :: _ => [(k_so, so_value (l_indices l))] end.

(** reading the `so` value back: comma-separated canonical decimals *)
Definition read_dec (s : bytes) : option N :=
  match s with
  | [] => None
  | _ :: _ => let '(u, r) := take_digits s in
              match r with [] => Some (N.of_uint u) | _ :: _ => None end
  end.
Definition read_so (v : bytes) : option (list N) := map_opt read_dec (split_on 44 v).

(* ------------------------------------------------------------------ imdl's own parser *)

Inductive perr := EUrl | EScheme | ETopicMissing | EInfohashLength | EHexParse | ETracker | EPeer.

Inductive outcome :=
| Parsed (ih : bytes) (name : option bytes) (trackers peers : list bytes)
| Rejected (e : perr)
| Unmodelled.     (* `magnet://…`: authority parsing of the url crate is not modelled *)

(** what Url::parse makes of the text, as far as MagnetLink::parse looks at it *)
Inductive uq := UQ (query : option bytes) | UErr (e : perr) | UUnmodelled.

Definition is_alpha (b : byte) : bool := in_range 65 90 b || in_range 97 122 b.
Definition is_digit_b (b : byte) : bool := in_range 48 57 b.
Definition lower (b : byte) : byte := if in_range 65 90 b then b + 32 else b.

Fixpoint drop_ws (s : bytes) : bytes :=
  match s with
  | [] => []
  | c :: r => if c <=? 32 then drop_ws r else s
  end.
(** trim_matches(c0_control_or_space) *)
Definition trim (s : bytes) : bytes := rev (drop_ws (rev (drop_ws s))).

(** scheme state: ASCII letter, then letters / digits / + - . up to `:`; lower-cased *)
Fixpoint scheme_rest (s : bytes) : option (bytes * bytes) :=
  match s with
  | [] => None
  | c :: r => if c =? 58 then Some ([], r)
              else if is_alpha c || is_digit_b c || (c =? 43) || (c =? 45) || (c =? 46)
                   then match scheme_rest r with
                        | Some (sc, rest) => Some (lower c :: sc, rest)
                        | None => None
                        end
                   else None
  end.
Definition parse_scheme (s : bytes) : option (bytes * bytes) :=
  match s with
  | c :: _ => if is_alpha c then scheme_rest s else None
  | [] => None
  end.

(** bytes before the first `#` *)
Fixpoint until_hash (s : bytes) : bytes :=
  match s with
  | [] => []
  | c :: r => if c =? 35 then [] else c :: until_hash r
  end.

(** skip the path: everything up to the first `?` (query follows) or `#` / end (no query) *)
Fixpoint after_path (s : bytes) : option bytes :=
  match s with
  | [] => None
  | c :: r => if c =? 63 then Some (query_encode (until_hash r))
              else if c =? 35 then None
              else after_path r
  end.

Definition url_query (text : bytes) : uq :=
  match parse_scheme (drop_tnl (trim text)) with
  | None => UErr EUrl                       (* relative URL without a base *)
  | Some (scheme, rest) =>
      if bytes_eqb scheme k_magnet then
        match strip_prefix [47; 47] rest with
        | Some _ => UUnmodelled             (* `//`: authority *)
        | None => UQ (after_path rest)
        end
      else UErr EScheme                     (* or a url error: rejected either way *)
  end.

Definition nonempty (s : bytes) : bool := match s with [] => false | _ :: _ => true end.

Fixpoint unhex_str (s : bytes) : option bytes :=
  match s with
  | [] => Some []
  | h :: l :: r => match unhex h, unhex l, unhex_str r with
                   | Some x, Some y, Some t => Some (16 * x + y :: t)
                   | _, _, _ => None
                   end
  | [_] => None
  end.

Section Own.
  Variable lossy : bytes -> bytes.               (* String::from_utf8_lossy *)
  Variable url_norm : bytes -> option bytes.     (* Url::parse(v).map(|u| u.as_str()) *)
  Variable hp_norm : bytes -> option bytes.      (* HostPort::from_str(v).map(|p| p.to_string()) *)

  (** Url::query_pairs = form_urlencoded::parse *)
  Definition form_pairs (q : bytes) : list (bytes * bytes) :=
    map (fun seg => let '(k, v) := split_first 61 seg in
                    (lossy (pct_decode true k), lossy (pct_decode true v)))
        (filter nonempty (split_on 38 q)).

  (** first loop of MagnetLink::parse: the first `xt` whose value starts with `urn:btih:` decides *)
  Fixpoint find_topic (pairs : list (bytes * bytes)) : perr + bytes :=
    match pairs with
    | [] => inl ETopicMissing
    | (k, v) :: r =>
        if bytes_eqb k k_xt then
          match strip_prefix k_urn_btih v with
          | Some h => if Nat.eqb (length h) 40
                      then match unhex_str h with Some ih => inr ih | None => inl EHexParse end
                      else inl EInfohashLength
          | None => find_topic r
          end
        else find_topic r
    end.

  (** second loop: tr / dn / x.pe in order; the first bad tracker or peer value aborts *)
  Fixpoint collect (pairs : list (bytes * bytes)) (name : option bytes) (trs prs : list bytes)
    : perr + (option bytes * list bytes * list bytes) :=
    match pairs with
    | [] => inr (name, trs, prs)
    | (k, v) :: r =>
        if bytes_eqb k k_tr then
          match url_norm v with Some u => collect r name (trs ++ [u]) prs | None => inl ETracker end
        else if bytes_eqb k k_dn then collect r (Some v) trs prs
        else if bytes_eqb k k_pe then
          match hp_norm v with Some p => collect r name trs (prs ++ [p]) | None => inl EPeer end
        else collect r name trs prs
    end.

  Definition parse_pairs (pairs : list (bytes * bytes)) : outcome :=
    match find_topic pairs with
    | inl e => Rejected e
    | inr ih => match collect pairs None [] [] with
                | inl e => Rejected e
                | inr (name, trs, prs) => Parsed ih name trs prs
                end
    end.

  (** MagnetLink::parse *)
  Definition own_parse (text : bytes) : outcome :=
    match url_query text with
    | UErr e => Rejected e
    | UUnmodelled => Unmodelled
    | UQ None => parse_pairs []
    | UQ (Some q) => parse_pairs (form_pairs q)
    end.

  (** `torrent link`: name and trackers of the metainfo, then --peer and --select-only *)
  Definition link_cmd (ih name : bytes) (announce : option bytes) (tiers : list (list bytes))
             (peers : list bytes) (select_only : list N) : option bytes :=
    match map_opt url_norm (tracker_texts announce tiers) with
    | Some trs => Some (print (Link ih (Some name) trs peers (index_set select_only)))
    | None => None                           (* Error::AnnounceUrlParse *)
    end.
End Own.

(* ------------------------------------------------------------------ entry points for the runner *)
Definition id_bytes (s : bytes) : bytes := s.
Definition some_bytes (s : bytes) : option bytes := Some s.
Definition run_print (ih : bytes) (name : option bytes) (trs prs : list bytes) (idx : list N) : bytes :=
  print (Link ih name trs prs (index_set idx)).
Definition run_parse (text : bytes) : outcome := own_parse id_bytes some_bytes some_bytes text.
Definition run_trackers (announce : option bytes) (tiers : list (list bytes)) : list bytes :=
  tracker_texts announce tiers.
Definition run_std (plus : bool) (uri : bytes) : option (list (bytes * bytes)) :=
  match uri_query uri with Some q => Some (std_parse plus q) | None => None end.
