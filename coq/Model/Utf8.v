(** Model of Rust std's lossy UTF-8 decoding (X12; used by C10). Definitions only.

    Anchors (rust-src of the installed toolchain):
      library/core/src/str/lossy.rs        impl Iterator for Utf8Chunks  (`next`, the `while` loop and its `safe_get`)
      library/core/src/str/validations.rs  utf8_char_width / UTF8_CHAR_WIDTH
      library/alloc/src/string.rs          String::from_utf8_lossy  (first chunk borrowed when its invalid part is empty,
                                           otherwise `valid` + U+FFFD per chunk with a non-empty invalid part)
    form_urlencoded::parse (url::Url::query_pairs, hence MagnetLink::parse) converts every percent-decoded key and value
    with `decode_utf8_lossy`, which is String::from_utf8_lossy.

    One iteration of the `while` loop of `Utf8Chunks::next` is [scan1]: it looks at a lead byte and up to three following
    bytes ([safe_get] = 0 beyond the end) and either accepts a whole sequence or breaks after the bytes it accepted so far.
    [upto] is the value of `i` (counted from the lead byte) when the iteration ends: those bytes form either one well-formed
    sequence or one invalid part - a "maximal subpart" in the sense of the Unicode standard (3.9, U+FFFD substitution of maximal
    subparts) - which from_utf8_lossy replaces by EF BF BD.

    [lossy] is the direct, structurally recursive statement (copy / replace sequence by sequence); [chunks] and
    [from_utf8_lossy] follow the iterator and String::from_utf8_lossy literally; Proofs/Utf8Proofs.v proves them equal.
    Byte strings are [list N]; [cont] is `b & 192 == 128` on a u8, written as a range test (as in Crash / Summary). *)
From Coq Require Import NArith Bool List.
From Imdl Require Import Model.Bencode.
Import ListNotations.
Local Open Scope N_scope.

Definition between (lo hi b : N) : bool := (lo <=? b) && (b <=? hi).

(** `byte & 192 == TAG_CONT_U8` *)
Definition cont (b : byte) : bool := between 128 191 b.

(** core::str::utf8_char_width, i.e. the UTF8_CHAR_WIDTH table: 1 for 00..7F, 2 for C2..DF, 3 for E0..EF, 4 for F0..F4,
    0 for 80..C1 and F5..FF *)
Definition width (b : byte) : N :=
  if b <? 128 then 1 else if b <? 194 then 0 else if b <? 224 then 2 else if b <? 240 then 3 else if b <? 245 then 4 else 0.

(** `*xs.get(i).unwrap_or(&0)` *)
Definition safe_get (xs : bytes) (i : nat) : byte := nth i xs 0.

(** the `match (byte, safe_get(self.source, i))` of a three-byte sequence *)
Definition second3 (b0 b1 : byte) : bool :=
  ((b0 =? 224) && between 160 191 b1)            (* (0xE0, 0xA0..=0xBF) *)
  || (between 225 236 b0 && between 128 191 b1)  (* (0xE1..=0xEC, 0x80..=0xBF) *)
  || ((b0 =? 237) && between 128 159 b1)         (* (0xED, 0x80..=0x9F) *)
  || (between 238 239 b0 && between 128 191 b1). (* (0xEE..=0xEF, 0x80..=0xBF) *)

(** the same of a four-byte sequence *)
Definition second4 (b0 b1 : byte) : bool :=
  ((b0 =? 240) && between 144 191 b1)            (* (0xF0, 0x90..=0xBF) *)
  || (between 241 243 b0 && between 128 191 b1)  (* (0xF1..=0xF3, 0x80..=0xBF) *)
  || ((b0 =? 244) && between 128 143 b1).        (* (0xF4, 0x80..=0x8F) *)

(** `i`, counted from the lead byte, when one iteration of the loop body ends *)
Inductive upto := I1 | I2 | I3 | I4.

(** one iteration of the `while` loop on lead byte [b0] followed by [r]:
    (true, i) = the iteration ran to `valid_up_to = i`; (false, i) = it hit `break` with that `i` *)
Definition scan1 (b0 : byte) (r : bytes) : bool * upto :=
  if b0 <? 128 then (true, I1)
  else if width b0 =? 2 then
    if cont (safe_get r 0) then (true, I2) else (false, I1)
  else if width b0 =? 3 then
    if second3 b0 (safe_get r 0) then
      if cont (safe_get r 1) then (true, I3) else (false, I2)
    else (false, I1)
  else if width b0 =? 4 then
    if second4 b0 (safe_get r 0) then
      if cont (safe_get r 1) then
        if cont (safe_get r 2) then (true, I4) else (false, I3)
      else (false, I2)
    else (false, I1)
  else (false, I1).

(** the bytes after the lead byte that belong to the sequence, and what follows it. (Every byte counted by [upto] exists:
    a missing byte reads as 0 and is refused. [tail1] returns its argument on the empty list so that [after] is a subterm.) *)
Definition extra (c : upto) : nat := match c with I1 => 0%nat | I2 => 1%nat | I3 => 2%nat | I4 => 3%nat end.
Definition taken (c : upto) (r : bytes) : bytes := firstn (extra c) r.
Definition tail1 (r : bytes) : bytes := match r with [] => r | _ :: t => t end.
Definition after (c : upto) (r : bytes) : bytes :=
  match c with I1 => r | I2 => tail1 r | I3 => tail1 (tail1 r) | I4 => tail1 (tail1 (tail1 r)) end.

(** U+FFFD REPLACEMENT CHARACTER in UTF-8 *)
Definition repl : bytes := [239; 191; 189].

(** String::from_utf8_lossy, sequence by sequence: well-formed sequences are copied, every invalid part becomes U+FFFD *)
Fixpoint lossy (s : bytes) : bytes :=
  match s with
  | [] => []
  | b0 :: r => let (ok, c) := scan1 b0 r in
               (if ok then b0 :: taken c r else repl) ++ lossy (after c r)
  end.

(** core::str::from_utf8(s).is_ok(): the scan never breaks *)
Fixpoint utf8_valid (s : bytes) : bool :=
  match s with
  | [] => true
  | b0 :: r => let (ok, c) := scan1 b0 r in ok && utf8_valid (after c r)
  end.

(** the sequences of a byte string in order: (true, one well-formed sequence) or (false, one invalid part) *)
Fixpoint pieces (s : bytes) : list (bool * bytes) :=
  match s with
  | [] => []
  | b0 :: r => let (ok, c) := scan1 b0 r in (ok, b0 :: taken c r) :: pieces (after c r)
  end.
Definition render (p : bool * bytes) : bytes := if fst p then snd p else repl.
Definition invalid_parts (s : bytes) : list bytes := map snd (filter (fun p => negb (fst p)) (pieces s)).

(** [p] is a non-empty proper initial subsequence of a well-formed sequence (Unicode table 3-7) *)
Definition proper_prefix (p : bytes) : bool :=
  match p with
  | [b0] => 2 <=? width b0
  | [b0; b1] => ((width b0 =? 3) && second3 b0 b1) || ((width b0 =? 4) && second4 b0 b1)
  | [b0; b1; b2] => (width b0 =? 4) && second4 b0 b1 && cont b2
  | _ => false
  end.
(** [p] is exactly one well-formed sequence *)
Definition one_sequence (p : bytes) : bool :=
  match p with
  | b0 :: r => let (ok, c) := scan1 b0 r in ok && match after c r with [] => true | _ :: _ => false end
  | [] => false
  end.

(** Utf8Chunks: the items `(valid(), invalid())` the iterator yields. One call of `next` runs the loop until it breaks or the
    input ends: the accepted sequences are `valid`, the bytes of the broken one `invalid` (empty only for the last item) *)
Fixpoint chunks (s : bytes) : list (bytes * bytes) :=
  match s with
  | [] => []
  | b0 :: r =>
      let (ok, c) := scan1 b0 r in
      if ok then
        match chunks (after c r) with
        | [] => [(b0 :: taken c r, [])]
        | (v, i) :: cs => ((b0 :: taken c r) ++ v, i) :: cs
        end
      else ([], b0 :: taken c r) :: chunks (after c r)
  end.

Definition nonempty (s : bytes) : bool := match s with [] => false | _ :: _ => true end.

(** `res.push_str(chunk.valid()); if !chunk.invalid().is_empty() { res.push_str(REPLACEMENT) }` *)
Definition push_chunk (c : bytes * bytes) : bytes := fst c ++ (if nonempty (snd c) then repl else []).

(** String::from_utf8_lossy over the iterator *)
Definition from_utf8_lossy (v : bytes) : bytes :=
  match chunks v with
  | [] => []                                        (* Cow::Borrowed("") *)
  | (valid, invalid) :: rest =>
      if nonempty invalid then valid ++ repl ++ flat_map push_chunk rest
      else valid                                    (* Cow::Borrowed(valid): the whole input *)
  end.

(** number of U+FFFD the conversion inserts *)
Definition replacements (s : bytes) : nat := length (filter (fun c => nonempty (snd c)) (chunks s)).

(* ------------------------------------------------------------------ entry points for the runner *)
Definition run_lossy (s : bytes) : bytes := lossy s.
Definition run_from_utf8_lossy (s : bytes) : bytes := from_utf8_lossy s.
Definition run_valid (s : bytes) : bool := utf8_valid s.
Definition run_chunks (s : bytes) : list (bytes * bytes) := chunks s.
