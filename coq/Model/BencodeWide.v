(** Bencode as bendy's *serde* reader sees it: the structure reader of Model/Bencode.v without the i64 range
    check in the tokenizer ([wdecode]), and the two limits bendy applies separately - [all_i64] where a token is
    parsed into i64 ([deserialize_any]: skipped and buffered values, [Value]), [depth] <= [max_depth] while
    tokenizing. Definitions only. Shared by Model/Crash.v (C08), Model/Summary.v (C07) and Model/Verify.v
    (C03, C13, C02); moved here unchanged from Model/Crash.v by work package X4.

    Checked against the real binary (X4): `creation date` = 2^63 .. 2^64-1 is accepted by `torrent verify`
    (parsed as u64) while an integer outside i64 under an unknown key, or under a key of the flattened info
    dictionary that is buffered (`length`, `files`, `md5sum`, unknown keys), is refused; a value nested deeper than
    2048 is refused wherever it occurs. *)
From Coq Require Import Decimal DecimalN DecimalFacts.
From Coq Require Import NArith ZArith Bool List.
From Imdl Require Import Model.Bencode.
Import ListNotations.
Local Open Scope N_scope.

(** [Bencode.decode] checks the i64 range in the tokenizer; bendy checks it only where an
    integer is parsed into i64 ([Value], [deserialize_any]), while `creation date` and
    `piece length` are parsed as u64. The structure reader below is [Bencode.decode]
    without the range check; [all_i64] is applied where the code parses i64. *)
Definition wdec_int (r : bytes) : option (value * bytes) :=
  match hd_is 45 r with
  | Some r1 =>
      let '(u, r2) := take_digits r1 in
      if nonzero_start u then
        match hd_is 101 r2 with Some r3 => Some (Int (- Z.of_N (N.of_uint u))%Z, r3) | None => None end
      else None
  | None =>
      let '(u, r2) := take_digits r in
      if canon u then
        match hd_is 101 r2 with Some r3 => Some (Int (Z.of_N (N.of_uint u)), r3) | None => None end
      else None
  end.

(** [Bencode.dec_str] with the length compared in [N] before it is turned into a [nat]
    (same function; a length literal of twenty digits must not be unfolded into a unary number) *)
Definition wdec_str (bs : bytes) : option (bytes * bytes) :=
  let '(u, r) := take_digits bs in
  if canon u then
    match hd_is 58 r with
    | Some r1 =>
        let n := N.of_uint u in
        if n <=? N.of_nat (length r1) then Some (firstn (N.to_nat n) r1, skipn (N.to_nat n) r1) else None
    | None => None
    end
  else None.

Fixpoint wdecode (fuel : nat) (bs : bytes) {struct fuel} : option (value * bytes) :=
  match fuel with
  | O => None
  | S f =>
      match hd_is 105 bs with
      | Some r => wdec_int r
      | None =>
      match hd_is 108 bs with
      | Some r => match wdecode_list f r with Some (l, r') => Some (Lst l, r') | None => None end
      | None =>
      match hd_is 100 bs with
      | Some r => match wdecode_dict f None r with Some (d, r') => Some (Dict d, r') | None => None end
      | None => match wdec_str bs with Some (s, r) => Some (Str s, r) | None => None end
      end end end
  end
with wdecode_list (fuel : nat) (bs : bytes) {struct fuel} : option (list value * bytes) :=
  match fuel with
  | O => None
  | S f =>
      match hd_is 101 bs with
      | Some r => Some ([], r)
      | None => match wdecode f bs with
                | Some (v, r) => match wdecode_list f r with
                                 | Some (vs, r') => Some (v :: vs, r')
                                 | None => None
                                 end
                | None => None
                end
      end
  end
with wdecode_dict (fuel : nat) (last : option bytes) (bs : bytes) {struct fuel}
  : option (list (bytes * value) * bytes) :=
  match fuel with
  | O => None
  | S f =>
      match hd_is 101 bs with
      | Some r => Some ([], r)
      | None => match wdec_str bs with
                | Some (k, r) =>
                    if (match last with None => true | Some l => bytes_ltb l k end) then
                      match wdecode f r with
                      | Some (v, r1) => match wdecode_dict f (Some k) r1 with
                                        | Some (kvs, r2) => Some ((k, v) :: kvs, r2)
                                        | None => None
                                        end
                      | None => None
                      end
                    else None
                | None => None
                end
      end
  end.

(** every token consumes at least one byte and every level of the three functions spends
    one unit of fuel per token, so twice the length (plus a margin) is enough *)
Definition fuel_for (bs : bytes) : nat := S (S (2 * length bs)).

Fixpoint all_i64 (v : value) : bool :=
  match v with
  | Int z => i64_ok z
  | Str _ => true
  | Lst l => forallb all_i64 l
  | Dict d => forallb (fun kv => all_i64 (snd kv)) d
  end.

Fixpoint depth (v : value) : N :=
  match v with
  | Int _ | Str _ => 0
  | Lst l => 1 + fold_right (fun x m => N.max (depth x) m) 0 l
  | Dict d => 1 + fold_right (fun kv m => N.max (depth (snd kv)) m) 0 d
  end.

(** bendy's default and, after repair 0007, [Infohash::decode_value]'s nesting limit *)
Definition max_depth : N := 2048.

