(** chrono 0.4.38's rendering of a `creation date` (C07, C08): the text `torrent show` prints for
    [Utc.timestamp_opt(seconds, 0).single()], and the range in which it prints one. Definitions only.

    Mirrors src/torrent_summary.rs (TorrentSummary::table, after repair 0003)
        i64::try_from(creation_date).ok().and_then(|s| Utc.timestamp_opt(s, 0).single())
    and, in chrono 0.4.38,
      DateTime::from_timestamp (src/datetime/mod.rs)
        days = secs.div_euclid(86_400) + UNIX_EPOCH_DAY (719_163); secs = secs.rem_euclid(86_400)
        days outside i32 -> None
        NaiveDate::from_num_days_from_ce_opt(days as i32): days.checked_add(365)?; the 400-year cycle;
        from_ordinal_and_flags refuses a year outside MIN_YEAR ..= MAX_YEAR, MAX_YEAR = (i32::MAX >> 13) - 1
      Display for DateTime<Utc> = Debug of NaiveDate, ' ', Debug of NaiveTime, ' ', "UTC"
        year: write_hundreds(year / 100), write_hundreds(year % 100) when 0 <= year <= 9999, else "{:+05}"
        '-' write_hundreds(month) '-' write_hundreds(day); hms(): mins = secs / 60, hour = mins / 60,
        min = mins % 60, sec = secs % 60; write_hundreds each, ':' between; no fraction (nanoseconds are 0).
    The day count is turned into year / month / day by closed-form arithmetic with constant divisors
    ([civil_from_days], the era / day-of-era / year-of-era / day-of-year / shifted-month scheme) where chrono walks
    its 400-entry YEAR_DELTAS table and the ordinal-to-month table; the two are compared on the real binary in every
    run of the C07 check (tools/props/c07.py). [cal_max] was established on the real binary: 8210266876799 prints
    `+262142-12-31 23:59:59 UTC`, 8210266876800 prints the integer.

    Specification side (used only in statements): [days_from_civil] / [civil_to_secs], the calendar's own counting of
    days, [days_in_month] with the 4/100/400 leap rule, and [cal_parse], a reader of the printed text. *)
From Coq Require Import Decimal DecimalN DecimalFacts.
From Coq Require Import NArith ZArith Bool List.
From Imdl Require Import Model.Bencode.
Import ListNotations.
Local Open Scope Z_scope.

(* ---------- the proleptic Gregorian calendar ---------- *)
Definition is_leap (y : Z) : bool := (y mod 4 =? 0) && (negb (y mod 100 =? 0) || (y mod 400 =? 0)).

Definition days_in_month (y m : Z) : Z :=
  if m =? 2 then (if is_leap y then 29 else 28)
  else if (m =? 4) || (m =? 6) || (m =? 9) || (m =? 11) then 30
  else 31.

(** days since 1970-01-01 -> (year, month, day); every divisor is a constant, [/] is floor division, so negative
    day counts are covered too. The year of the computation starts on 1 March ([mp] = 0 is March). *)
Definition civil_from_days (days : Z) : Z * Z * Z :=
  let z := days + 719468 in
  let era := z / 146097 in
  let doe := z - era * 146097 in
  let yoe := (doe - doe / 1460 + doe / 36524 - doe / 146096) / 365 in
  let doy := doe - (365 * yoe + yoe / 4 - yoe / 100) in
  let mp := (5 * doy + 2) / 153 in
  let d := doy - (153 * mp + 2) / 5 + 1 in
  let m := if mp <? 10 then mp + 3 else mp - 9 in
  let y := yoe + era * 400 in
  (if m <=? 2 then y + 1 else y, m, d).

(** specification side: (year, month, day) -> days since 1970-01-01, counting whole years, leap days and months *)
Definition days_from_civil (y m d : Z) : Z :=
  let y' := if m <=? 2 then y - 1 else y in
  let era := y' / 400 in
  let yoe := y' - era * 400 in
  let mp := if 2 <? m then m - 3 else m + 9 in
  let doy := (153 * mp + 2) / 5 + d - 1 in
  let doe := yoe * 365 + yoe / 4 - yoe / 100 + doy in
  era * 146097 + doe - 719468.

(* ---------- the six fields ---------- *)
Record stamp := { s_year : N; s_month : N; s_day : N; s_hour : N; s_min : N; s_sec : N }.

(** NaiveTime::hms on the seconds of the day, the date from the whole days *)
Definition fields (n : N) : stamp :=
  let secs := (n mod 86400)%N in
  let mins := (secs / 60)%N in
  let '(y, m, d) := civil_from_days (Z.of_N (n / 86400)) in
  {| s_year := Z.to_N y; s_month := Z.to_N m; s_day := Z.to_N d;
     s_hour := (mins / 60)%N; s_min := (mins mod 60)%N; s_sec := (secs mod 60)%N |}.

Definition valid_stamp (s : stamp) : bool :=
  (1 <=? s_month s)%N && (s_month s <=? 12)%N && (1 <=? s_day s)%N &&
  (Z.of_N (s_day s) <=? days_in_month (Z.of_N (s_year s)) (Z.of_N (s_month s))) &&
  (s_hour s <? 24)%N && (s_min s <? 60)%N && (s_sec s <? 60)%N.

(** specification side: the second count a stamp denotes (may be negative before 1970) *)
Definition civil_to_secs_z (y m d hh mm ss : N) : Z :=
  days_from_civil (Z.of_N y) (Z.of_N m) (Z.of_N d) * 86400 + Z.of_N hh * 3600 + Z.of_N mm * 60 + Z.of_N ss.
Definition civil_to_secs (y m d hh mm ss : N) : N := Z.to_N (civil_to_secs_z y m d hh mm ss).
Definition secs_of (s : stamp) : Z :=
  civil_to_secs_z (s_year s) (s_month s) (s_day s) (s_hour s) (s_min s) (s_sec s).
Definition stamp_secs (s : stamp) : N :=
  civil_to_secs (s_year s) (s_month s) (s_day s) (s_hour s) (s_min s) (s_sec s).
(** a date of the calendar: month 1..12, day 1..length of that month in that year *)
Definition valid_date (y m d : Z) : Prop := 1 <= m <= 12 /\ 1 <= d <= days_in_month y m.

(** the natural order of (year, month, day, hour, minute, second) *)
Definition stamp_lt (a b : stamp) : Prop :=
  (s_year a < s_year b)%N \/ s_year a = s_year b /\
  ((s_month a < s_month b)%N \/ s_month a = s_month b /\
  ((s_day a < s_day b)%N \/ s_day a = s_day b /\
  ((s_hour a < s_hour b)%N \/ s_hour a = s_hour b /\
  ((s_min a < s_min b)%N \/ s_min a = s_min b /\ (s_sec a < s_sec b)%N)))).

(* ---------- the text ---------- *)
(** an ASCII decimal digit (used in the statements about the layout) *)
Definition digit (b : N) : Prop := (48 <= b <= 57)%N.

(** write_hundreds: two digits, tens first *)
Definition two (n : N) : bytes := [48 + n / 10; 48 + n mod 10]%N.

(** four digits up to 9999; above, `{:+05}`: the sign and the decimal digits (five or more, so never padded) *)
Definition year_text (y : N) : bytes :=
  if (y <=? 9999)%N then two (y / 100) ++ two (y mod 100) else 43%N :: dec y.

Definition utc_suffix : bytes := [32; 85; 84; 67]%N.

Definition stamp_text (s : stamp) : bytes :=
  year_text (s_year s) ++ [45%N] ++ two (s_month s) ++ [45%N] ++ two (s_day s) ++ [32%N] ++
  two (s_hour s) ++ [58%N] ++ two (s_min s) ++ [58%N] ++ two (s_sec s) ++ utc_suffix.

(* ---------- chrono's range ---------- *)
Definition i32_max : Z := 2147483647.
Definition unix_epoch_day : Z := 719163.
Definition max_year : Z := 262142.       (* (i32::MAX >> 13) - 1 *)
Definition min_year : Z := -262143.      (* (i32::MIN >> 13) + 1 *)

(** i64::try_from, the two i32 checks on the day number, the year check of from_ordinal_and_flags *)
Definition chrono_accepts (n : N) : bool :=
  (n <? 2 ^ 63)%N &&
  (let days := Z.of_N (n / 86400) + unix_epoch_day in (days <=? i32_max) && (days + 365 <=? i32_max)) &&
  (let '(y, _, _) := civil_from_days (Z.of_N (n / 86400)) in (min_year <=? y) && (y <=? max_year)).

(** the largest second count with a calendar text: 262142-12-31 23:59:59 (measured on the real binary;
    [CalendarProofs.accepts_iff] proves that it is what [chrono_accepts] computes) *)
Definition cal_max : N := 8210266876799.

(** what `show` prints for a creation date when chrono can represent it *)
Definition cal (n : N) : option bytes := if chrono_accepts n then Some (stamp_text (fields n)) else None.

(** the Creation Date row of TorrentSummary::table (= Summary.date_text cal) *)
Definition creation_date_text (n : N) : bytes := match cal n with Some t => t | None => dec n end.

(* ---------- specification side: reading the text back ---------- *)
Definition digit_val (b : N) : option N := if ((48 <=? b) && (b <=? 57))%N then Some (b - 48)%N else None.

Definition take_two (t : bytes) : option (N * bytes) :=
  match t with
  | a :: b :: r =>
      match digit_val a, digit_val b with
      | Some x, Some y => Some (10 * x + y, r)%N
      | _, _ => None
      end
  | _ => None
  end.

(** `+` and a canonical numeral above 9999, or exactly four digits *)
Definition parse_year (t : bytes) : option (N * bytes) :=
  match hd_is 43 t with
  | Some r =>
      let '(u, r') := take_digits r in
      if canon u && (9999 <? N.of_uint u)%N then Some (N.of_uint u, r') else None
  | None =>
      match take_two t with
      | Some (hi, r) => match take_two r with Some (lo, r') => Some (100 * hi + lo, r')%N | None => None end
      | None => None
      end
  end.

Fixpoint suffix_eqb (a b : bytes) : bool :=
  match a, b with
  | [], [] => true
  | x :: a', y :: b' => (x =? y)%N && suffix_eqb a' b'
  | _, _ => false
  end.

(** year `-` MM `-` DD ` ` HH `:` MM `:` SS ` UTC`, a valid date and time of day, not before 1970 *)
Definition cal_parse (t : bytes) : option N :=
  match parse_year t with
  | None => None
  | Some (y, r0) =>
  match hd_is 45 r0 with None => None | Some r1 =>
  match take_two r1 with None => None | Some (m, r2) =>
  match hd_is 45 r2 with None => None | Some r3 =>
  match take_two r3 with None => None | Some (d, r4) =>
  match hd_is 32 r4 with None => None | Some r5 =>
  match take_two r5 with None => None | Some (hh, r6) =>
  match hd_is 58 r6 with None => None | Some r7 =>
  match take_two r7 with None => None | Some (mm, r8) =>
  match hd_is 58 r8 with None => None | Some r9 =>
  match take_two r9 with None => None | Some (ss, r10) =>
    let s := {| s_year := y; s_month := m; s_day := d; s_hour := hh; s_min := mm; s_sec := ss |} in
    if suffix_eqb r10 utc_suffix && valid_stamp s && (0 <=? civil_to_secs_z y m d hh mm ss)
    then Some (stamp_secs s) else None
  end end end end end end end end end end
  end.

(** entry points of the extracted model (runner/driver.d/calendar.ml) *)
Definition calendar_cal_entry := cal.
Definition calendar_parse_entry := cal_parse.
Definition calendar_accepts_entry := chrono_accepts.
