(** u64 -> binary64 conversion (`x as f64`) and correctly rounded division, in exact
    integer arithmetic. Definitions only. Shared by Picker (C15) and ByteSize (C16). *)
From Coq Require Import NArith ZArith.
Local Open Scope N_scope.

(** round-half-even integer division *)
Definition rne_div (a b : N) : N :=
  let d := a / b in let r := a mod b in
  if 2 * r <? b then d else if b <? 2 * r then d + 1 else if N.even d then d else d + 1.

(** [round53 n]: the integer value of the double nearest to [n] (ties to even).
    Below 2^53 every integer is representable. Above, the spacing is 2^(log2 n - 52). *)
Definition round53 (n : N) : N :=
  if n <? 2 ^ 53 then n
  else let s := N.log2 n - 52 in rne_div n (2 ^ s) * 2 ^ s.
