(** `imdl torrent create` followed by `imdl torrent verify` (C02). Definitions only.

    Builds on Model/Hasher.v (C01: the hashing loop of src/hasher.rs, with its own schedule of
    short reads), Model/Fs.v and Model/Verify.v (C03/C13: the tree, the kernel's path walk, the
    verifier with its own schedule). Nothing of those is repeated here.

    - [gather]: what create hands to the hasher. The input resolves to a regular file
      ([Files::contents() = None], single-file mode) or to a directory together with the
      relative paths the walker selected, in the walker's order (C06 owns filter and order; here
      the selection [sel] is arbitrary). Every selected path must open as a regular file,
      otherwise create fails ([Hasher::hash_file]: `File::open(..)?`).
    - [create_t]: create.rs steps 7 (piece length 0 refused), 12 (`as_piece_length`: must fit
      u32), 13 ([Hasher::hash_files], the real loop, any schedule), then the info dictionary as
      the verifier will read it back ([Verify.torrent]): name, piece length, pieces, mode.
    - [listing_of]: the (relative path, bytes) pairs as they were at creation; the single file
      has the empty relative path, so that [absolute root []] = root is where it is looked up.
    - [paths_of], [named], [verify_report]: [Status::print] - which paths `torrent verify`
      names on standard error, and whether it prints "Pieces corrupted."
    - [op], [run_history]: a history of arbitrary edits interleaved with verify and
      `create --force`.
    SHA-1, MD5 are [Section] variables. *)
From Coq Require Import NArith List Bool.
From Imdl Require Import Base.Chunks Model.Bencode Model.Fs Model.Verify.
From Imdl Require Model.Hasher.
Import ListNotations.
Local Open Scope N_scope.

(** relative path (components) and bytes of one hashed file *)
Notation lentry := (list (list N) * list N)%type (only parsing).
Notation hcontent := (@Hasher.content N (list (list N))) (only parsing).
Notation hmode := (@Hasher.mode (list N) (list (list N))) (only parsing).

Definition gather_file (src : node) (pa : list bytes) : option lentry :=
  match lookup src pa with
  | Some (File c) => Some (pa, c)
  | _ => None
  end.

Definition gather (src : node) (sel : list (list bytes)) : option hcontent :=
  match src with
  | File c => Some (Hasher.SingleFile c)
  | Dir _ => match mapM (gather_file src) sel with
             | Some l => Some (Hasher.Directory l)
             | None => None
             end
  end.

Definition listing_of (c : hcontent) : list lentry :=
  match c with
  | Hasher.SingleFile d => [([], d)]
  | Hasher.Directory l => l
  end.

(** [Mode] as written by create -> as read back by verify *)
Definition conv_file (pf : list bytes * (option bytes * N)) : tfile :=
  {| fpath := fst pf; flen := snd (snd pf); fmd5 := fst (snd pf) |}.

Definition conv_mode (m : hmode) : mode :=
  match m with
  | Hasher.Single md5 len => Single len md5
  | Hasher.Multiple fs => Multiple (map conv_file fs)
  end.

(** the relative path under which [Status::print] reports each visited entry *)
Definition paths_of (t : torrent) : list (list bytes) :=
  match tmode t with
  | Single _ _ => [[]]
  | Multiple fs => map fpath fs
  end.

Definition named_one (ps : list bytes * option ferr) : list (list bytes * ferr) :=
  match snd ps with Some e => [(fst ps, e)] | None => [] end.

(** [Status::print]: one line per entry whose [FileError::verify] failed *)
Definition named (t : torrent) (ss : list (option ferr)) : list (list bytes * ferr) :=
  flat_map named_one (combine (paths_of t) ss).

Record report := { r_good : bool; r_pieces : bool; r_named : list (list bytes * ferr) }.

(** one created torrent and what it was created from *)
Record created := { c_torrent : torrent; c_listing : list lentry }.

(** a step of a history: any change to the filesystem at all, a verification, a re-creation *)
Inductive op :=
| Edit (f : node -> node)
| DoVerify
| Recreate (sel : list (list bytes)).

Section CreateVerify.
Variable H : bytes -> bytes.       (* SHA-1 *)
Variable MD5 : bytes -> bytes.

Definition create_t (md5 : bool) (p : N) (name : bytes) (csch : Hasher.schedule)
           (src : node) (sel : list (list bytes)) : option torrent :=
  if p =? 0 then None                          (* Error::PieceLengthZero *)
  else if 2 ^ 32 <=? p then None               (* as_piece_length: does not fit u32 *)
  else match gather src sel with
       | None => None
       | Some c =>
           match Hasher.hash_files H MD5 md5 (N.to_nat p) csch c with
           | Hasher.Ok (m, pieces) =>
               Some {| tname := name; tplen := p; tpieces := pieces; tmode := conv_mode m |}
           | _ => None                          (* read error: nothing is written *)
           end
       end.

(** the torrent that the specification side (C01) says create writes *)
Definition spec_torrent (md5 : bool) (p : N) (name : bytes) (c : hcontent) : torrent :=
  {| tname := name; tplen := p;
     tpieces := map H (chunks (N.to_nat p) (concat (map snd (listing_of c))));
     tmode := conv_mode (Hasher.spec_mode MD5 md5 c) |}.

(** "[pa] is currently a regular file holding exactly the bytes [d]" *)
Definition holds (fs : node) (root : bytes) (e : lentry) : Prop :=
  resolve fs (absolute root (fst e)) = Some (File (snd e)).

Definition holds_b (fs : node) (root : bytes) (e : lentry) : bool :=
  match resolve fs (absolute root (fst e)) with
  | Some (File c) => bytes_eqb c (snd e)
  | _ => false
  end.

(** the blocks whose hashes are compared: no two different ones may collide *)
Definition collision_free (p : N) (old new : list bytes) : Prop :=
  forall a b, In a (chunks (N.to_nat p) (concat new)) -> In b (chunks (N.to_nat p) (concat old)) ->
              H a = H b -> a = b.

(** ** what verify prints *)
Definition verify_report (vsch : nat -> N) (fs : node) (root : bytes) (t : torrent) : option report :=
  match verifier_new t with
  | None => None
  | Some p =>
      match verify_metainfo H MD5 vsch p fs root t with
      | Some s => Some {| r_good := status_good s; r_pieces := fst s; r_named := named t (snd s) |}
      | None => None
      end
  end.

(** ** histories. State: the filesystem and the torrent last written (with its listing).
    [Recreate] is `create --force` on the same input with the same options; when it fails
    nothing is written and the old torrent stays. Verdicts are collected in order. *)
Definition recreate (md5 : bool) (p : N) (name : bytes) (csch : Hasher.schedule)
           (fs : node) (root : bytes) (sel : list (list bytes)) (old : created) : created :=
  match resolve fs root with
  | None => old
  | Some src =>
      match create_t md5 p name csch src sel, gather src sel with
      | Some t, Some c => {| c_torrent := t; c_listing := listing_of c |}
      | _, _ => old
      end
  end.

Fixpoint run_history (md5 : bool) (p : N) (name : bytes) (csch : Hasher.schedule) (vsch : nat -> N)
         (root : bytes) (fs : node) (cur : created) (ops : list op) : list (option bool) :=
  match ops with
  | [] => []
  | Edit f :: r => run_history md5 p name csch vsch root (f fs) cur r
  | DoVerify :: r =>
      verify H MD5 vsch fs root (c_torrent cur) :: run_history md5 p name csch vsch root fs cur r
  | Recreate sel :: r =>
      run_history md5 p name csch vsch root fs (recreate md5 p name csch fs root sel cur) r
  end.

(** the same history judged by content equality alone *)
Fixpoint spec_history (md5 : bool) (p : N) (name : bytes) (csch : Hasher.schedule)
         (root : bytes) (fs : node) (cur : created) (ops : list op) : list bool :=
  match ops with
  | [] => []
  | Edit f :: r => spec_history md5 p name csch root (f fs) cur r
  | DoVerify :: r =>
      forallb (holds_b fs root) (c_listing cur) :: spec_history md5 p name csch root fs cur r
  | Recreate sel :: r =>
      spec_history md5 p name csch root fs (recreate md5 p name csch fs root sel cur) r
  end.

End CreateVerify.

(* ---------- executable entry points for the correspondence run ----------
   Digests are left uninterpreted (H := MD5 := identity, which is collision free): the verdict
   of the composed model is then decided by the bytes themselves. The torrent written by the
   real binary is judged separately by Verify.verify_cmd with real SHA-1 (command vcmd). *)
Definition idh (b : bytes) : bytes := b.

(** the hasher's schedule as a function: answer 0 = read error, S s = Count s *)
Definition sched_of_fun (f : nat -> nat) : Hasher.schedule :=
  fun i => match f i with O => Hasher.Fail | S s => Hasher.Count s end.

Definition run_create (md5 : bool) (p : N) (csch : nat -> nat) (src : node) (sel : list (list bytes))
  : option (torrent * list lentry) :=
  match create_t idh idh md5 p [] (sched_of_fun csch) src sel, gather src sel with
  | Some t, Some c => Some (t, listing_of c)
  | _, _ => None
  end.

Definition run_report (vsch : nat -> N) (fs : node) (root : bytes) (t : torrent) : option report :=
  verify_report idh idh vsch fs root t.
