(** Helpers over the generated serde schema tables (Generated/GenSchema.v) and the dictionary
    builder that mirrors bendy's struct / map serializer (C05; reusable by C07, C11).
    Definitions only.

    bendy 0.3.3, serde path: every struct / map is collected by [UnsortedDictEncoder::save_pair]
    into a BTreeMap keyed by the raw key bytes; a key that is already present makes the whole
    serialisation fail ("Duplicate key"); [end_unsorted_dict] then writes the pairs in key
    order. [dict_insert] / [save_all] are that, on a sorted association list. *)
From Coq Require Import Ascii String.
From Coq Require Import NArith ZArith Bool List.
From Imdl Require Import Model.Bencode.
Import ListNotations.
Local Open Scope N_scope.

(** text literal -> bytes, so that statements can name keys the way BEP 3 does *)
Definition txt (s : string) : bytes := map N_of_ascii (list_ascii_of_string s).

(** one generated table: (bencode key, rust field name, optional) per field *)
Definition schema := list (bytes * string * bool).

Fixpoint key_of (fs : schema) (f : string) : bytes :=
  match fs with
  | [] => []
  | (k, n, _) :: r => if String.eqb n f then k else key_of r f
  end.

Fixpoint optional_of (fs : schema) (f : string) : bool :=
  match fs with
  | [] => false
  | (_, n, o) :: r => if String.eqb n f then o else optional_of r f
  end.

Definition schema_keys (fs : schema) : list (bytes * bool) := map (fun e => (fst (fst e), snd e)) fs.

Fixpoint bytes_eqb (a b : bytes) : bool :=
  match a, b with
  | [], [] => true
  | x :: a', y :: b' => (x =? y) && bytes_eqb a' b'
  | _, _ => false
  end.

Definition dict := list (bytes * value).

Fixpoint dget (k : bytes) (d : dict) : option value :=
  match d with
  | [] => None
  | (k', v) :: r => if bytes_eqb k k' then Some v else dget k r
  end.

(** lookup in a value that should be a dictionary *)
Definition vget (k : bytes) (v : value) : option value :=
  match v with Dict d => dget k d | _ => None end.

(** [save_pair]: insert into the ordered map, failing on a key that is already there *)
Fixpoint dict_insert (k : bytes) (v : value) (d : dict) : option dict :=
  match d with
  | [] => Some [(k, v)]
  | (k', v') :: r =>
      if bytes_ltb k k' then Some ((k, v) :: d)
      else if bytes_ltb k' k then
        match dict_insert k v r with Some r' => Some ((k', v') :: r') | None => None end
      else None
  end.

(** the derived [Serialize]: fields in declaration order; [None] = skipped
    (skip_serializing_if = "Option::is_none") *)
Fixpoint save_all (es : list (bytes * option value)) (d : dict) : option dict :=
  match es with
  | [] => Some d
  | (_, None) :: r => save_all r d
  | (k, Some v) :: r =>
      match dict_insert k v d with Some d' => save_all r d' | None => None end
  end.

Definition mk_dict (es : list (bytes * option value)) : option value :=
  match save_all es [] with Some d => Some (Dict d) | None => None end.

(** what a reader finds under a key, stated on the field list *)
Fixpoint lookup (q : bytes) (es : list (bytes * option value)) : option value :=
  match es with
  | [] => None
  | (k, ov) :: r => if bytes_eqb q k then ov else lookup q r
  end.

Fixpoint distinct_keys (ks : list bytes) : bool :=
  match ks with
  | [] => true
  | k :: r => negb (existsb (bytes_eqb k) r) && distinct_keys r
  end.

Fixpoint all_some {A} (l : list (option A)) : option (list A) :=
  match l with
  | [] => Some []
  | None :: _ => None
  | Some x :: r => match all_some r with Some xs => Some (x :: xs) | None => None end
  end.
