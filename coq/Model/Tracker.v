(** Model of the UDP tracker client, src/tracker/{connect,announce,action,client}.rs (C12).
    Definitions only. Everything table-like (field layouts, `new` initialisers, length guards,
    fixed parse offsets, action codes, magic, retry count, buffer sizes, strides) is read from
    Generated/GenTracker.v, which tools/rs2v_tracker.py regenerates from the Rust source on every
    run; the control flow of `Client::exchange`, `connect_exchange`, `announce_exchange`,
    `parse_compact_peer_list` is mirrored by hand (and its shape is pinned by the translator). *)
From Coq Require Import NArith List Bool Arith.
From Imdl Require Import Base.Key Base.BE Generated.GenTracker.
Import ListNotations.
Local Open Scope N_scope.
Local Open Scope key_scope.

(* association lists keyed by field name *)
Fixpoint lookup {A : Type} (k : key) (l : list (key * A)) : option A :=
  match l with
  | [] => None
  | (k', v) :: r => if key_eqb k k' then Some v else lookup k r
  end.

Definition get (k : key) (fs : list (key * N)) : N :=
  match lookup k fs with Some v => v | None => 0 end.

(* ---------- requests: `Request::new` then `serialize` ---------- *)
Definition field := (key * nat * bool)%type.

(** one `msg.extend_from_slice(..)` line: `&self.F.to_be_bytes()` or `&self.F` *)
Definition enc_field (ints : key -> N) (raws : key -> bytes) (f : field) : bytes :=
  let '(name, w, isint) := f in if isint then be w (ints name) else raws name.

Definition ser (lay : list field) (ints : key -> N) (raws : key -> bytes) : bytes :=
  flat_map (enc_field ints raws) lay.

Definition action_code (a : key) : N :=
  match lookup a action_codes with Some c => c | None => 0 end.

(** one field initialiser of `Request::new` *)
Definition init_int (params : key -> N) (rnd : N) (i : key * key * N) : N :=
  let '(kind, arg, lit) := i in
  if key_eqb kind "lit" then lit
  else if key_eqb kind "param" then params arg
  else if key_eqb kind "random" then rnd
  else if key_eqb kind "action" then action_code arg
  else 0.

Definition new_ints (tbl : list (key * (key * key * N))) (params : key -> N) (rnd : N)
  : key -> N :=
  fun name => match lookup name tbl with Some i => init_int params rnd i | None => 0 end.

Definition new_raws (tbl : list (key * (key * key * N))) (rparams : key -> bytes)
  : key -> bytes :=
  fun name => match lookup name tbl with
              | Some (kind, arg, _) => if key_eqb kind "param" then rparams arg else []
              | None => []
              end.

(** connect::Request::new() — [txid] is the value drawn from the rng *)
Definition connect_ints (txid : N) : key -> N := new_ints connect_request_new (fun _ => 0) txid.
Definition connect_req (txid : N) : bytes := ser connect_request_layout (connect_ints txid) (fun _ => []).

(** announce::Request::new(connection_id, btinh, peer_id, port) *)
Definition announce_params (conn port : N) : key -> N :=
  fun p => if key_eqb p "connection_id" then conn else if key_eqb p "port" then port else 0.
Definition announce_rparams (ih pid : bytes) : key -> bytes :=
  fun p => if key_eqb p "btinh" then ih else if key_eqb p "peer_id" then pid else [].
Definition announce_ints (conn port txid : N) : key -> N :=
  new_ints announce_request_new (announce_params conn port) txid.
Definition announce_req (conn : N) (ih pid : bytes) (port txid : N) : bytes :=
  ser announce_request_layout (announce_ints conn port txid)
      (new_raws announce_request_new (announce_rparams ih pid)).

(* ---------- responses: `Response::deserialize` ---------- *)
Inductive failure :=
| FNoAnswer   (* Error::TrackerExchange: nothing (or an empty datagram) received *)
| FResponse   (* Error::TrackerResponse / TrackerResponseLength *)
| FPeerList.  (* Error::TrackerCompactPeerList *)

(** [Panic] stands for an out-of-bounds slice index / failed `try_into().invariant_unwrap()` *)
Inductive outcome (A : Type) := Ok (a : A) | Fail (e : failure) | Panic.
Arguments Ok {A} a.
Arguments Fail {A} e.
Arguments Panic {A}.

(** `buf[a..b]` — panics unless a <= b <= len *)
Definition index_opt (a b : nat) (buf : bytes) : option bytes :=
  if ((a <=? b) && (b <=? length buf))%nat then Some (slice a (b - a) buf) else None.

(** `&buf[n..]` — panics unless n <= len *)
Definition tail_opt (n : nat) (buf : bytes) : option bytes :=
  if (n <=? length buf)%nat then Some (skipn n buf) else None.

Fixpoint parse_fields (tbl : list (key * nat * nat)) (buf : bytes) : option (list (key * N)) :=
  match tbl with
  | [] => Some []
  | (name, a, b) :: r =>
      match index_opt a b buf, parse_fields r buf with
      | Some s, Some fs => Some ((name, unbe s) :: fs)
      | _, _ => None
      end
  end.

(** the guard `if buf.len() OP LENGTH { return Err(..) }` *)
Definition guard_rejects (op : key) (len n : nat) : bool :=
  if key_eqb op "lt" then (n <? len)%nat
  else if key_eqb op "ne" then negb (n =? len)%nat
  else if key_eqb op "le" then (n <=? len)%nat
  else false.

Definition fields := list (key * N).

Definition deserialize (op : key) (len : nat) (tbl : list (key * nat * nat)) (buf : bytes)
  : outcome (fields * bytes) :=
  if guard_rejects op len (length buf) then Fail FResponse
  else match parse_fields tbl buf, tail_opt len buf with
       | Some fs, Some p => Ok (fs, p)
       | _, _ => Panic
       end.

Definition deser_connect : bytes -> outcome (fields * bytes) :=
  deserialize connect_response_guard (N.to_nat connect_response_length) connect_response_fields.
Definition deser_announce : bytes -> outcome (fields * bytes) :=
  deserialize announce_response_guard (N.to_nat announce_response_length) announce_response_fields.

(* ---------- Client::exchange ---------- *)
(** [answers]: what `recv` yields after the 1st, 2nd, … `send` — [None] = Err (timeout), [Some d] =
    the datagram d (the socket copies at most [buflen] bytes of it and discards the rest);
    past the end of the list nothing ever arrives. Returns (number of sends, bytes read). *)
Fixpoint send_recv (tries : nat) (answers : list (option bytes)) (buflen sent : nat) : nat * bytes :=
  match tries with
  | O => (sent, [])
  | S t =>
      match answers with
      | Some d :: _ => (S sent, firstn buflen d)
      | None :: rest => send_recv t rest buflen (S sent)
      | [] => send_recv t [] buflen (S sent)
      end
  end.

Definition exchange (req : key -> N) (buflen : nat) (deser : bytes -> outcome (fields * bytes))
           (answers : list (option bytes)) : nat * outcome (fields * bytes) :=
  let '(sent, data) := send_recv (N.to_nat retry_count) answers buflen 0 in
  (sent,
   match data with
   | [] => Fail FNoAnswer                       (* len_read == 0 *)
   | _ :: _ =>
       match deser data with
       | Ok (fs, payload) =>
           if negb (N.eqb (get "transaction_id" fs) (req "transaction_id"))
              || negb (N.eqb (get "action" fs) (req "action"))
           then Fail FResponse else Ok (fs, payload)
       | Fail e => Fail e
       | Panic => Panic
       end
   end).

(* ---------- Client::parse_compact_peer_list ---------- *)
Fixpoint take_chunks (n s : nat) (l : bytes) : list bytes :=
  match n with O => [] | S n' => firstn s l :: take_chunks n' s (skipn s l) end.

(** `slice::chunks_exact(s)` as std implements it: (the full chunks, the remainder) *)
Definition chunks_exact (s : nat) (l : bytes) : list bytes * bytes :=
  let rem := (length l mod s)%nat in
  let fst_len := (length l - rem)%nat in
  (take_chunks (fst_len / s) s (firstn fst_len l), skipn fst_len l).

(** a peer: the address octets (4 or 16) and the port *)
Definition peer := (bytes * N)%type.

(** `hostpost.split_at(stride - 2)`, port = u16::from_be_bytes *)
Definition record (s : nat) (c : bytes) : peer := (firstn (s - 2) c, unbe (skipn (s - 2) c)).

Definition stride (v6 : bool) : nat := N.to_nat (if v6 then stride_v6 else stride_v4).

Definition peers (v6 : bool) (payload : bytes) : outcome (list peer) :=
  let s := stride v6 in
  if (s <? 2)%nat then Panic  (* chunks_exact(0) panics; `stride - 2` would underflow *)
  else let '(cs, r) := chunks_exact s payload in
       match r with
       | [] => Ok (map (record s) cs)
       | _ :: _ => Fail FPeerList
       end.

(* ---------- Client::connect + announce_exchange ---------- *)
Definition connect_exchange (txid : N) (ans : list (option bytes)) : nat * outcome (fields * bytes) :=
  exchange (connect_ints txid) (N.to_nat connect_rx_buf_len) deser_connect ans.

Definition announce_exchange (conn : N) (port txid : N) (v6 : bool) (ans : list (option bytes))
  : nat * outcome (list peer) :=
  let '(n, r) := exchange (announce_ints conn port txid) (N.to_nat rx_buf_len) deser_announce ans in
  (n, match r with
      | Ok (_, payload) => peers v6 payload
      | Fail e => Fail e
      | Panic => Panic
      end).

Record report := mkReport {
  r_connect_sends : nat;      (* datagrams sent in the connect phase *)
  r_connect_dgram : bytes;    (* each of them is this *)
  r_announce_sends : nat;
  r_announce_dgram : bytes;   (* [] when no announce was sent *)
  r_result : outcome (list peer)
}.

(** one tracker: `Client::connect(addr)` (single address) then `announce_exchange(infohash)`.
    [txid1], [txid2] are the two values drawn from the rng, [pid] the random peer id, [port] and
    [v6] the local socket's port and family. *)
Definition session (txid1 txid2 : N) (ih pid : bytes) (port : N) (v6 : bool)
           (ans1 ans2 : list (option bytes)) : report :=
  match connect_exchange txid1 ans1 with
  | (n1, Ok (fs, _)) =>
      let conn := get "connection_id" fs in
      let '(n2, r) := announce_exchange conn port txid2 v6 ans2 in
      mkReport n1 (connect_req txid1) n2 (announce_req conn ih pid port txid2) r
  | (n1, Fail e) => mkReport n1 (connect_req txid1) 0 [] (Fail e)
  | (n1, Panic) => mkReport n1 (connect_req txid1) 0 [] Panic
  end.

(* ---------- what `torrent announce` prints: a HashSet of the peers ---------- *)
Definition peer_eq_dec : forall a b : peer, {a = b} + {a <> b}.
Proof. decide equality; [apply N.eq_dec | apply (list_eq_dec N.eq_dec)]. Defined.

Definition printed (l : list peer) : list peer := nodup peer_eq_dec l.

(* ---------- Client::from_url: tracker URL screening ---------- *)
Inductive screening := Usable | SkipNotUdp | SkipNoHostPort.

(** [host], [port]: whether `Url::host()` / `Url::port()` are `Some` *)
Definition screen (scheme : key) (host port : bool) : screening :=
  if negb (key_eqb scheme udp_scheme) then SkipNotUdp
  else if host && port then Usable else SkipNoHostPort.
