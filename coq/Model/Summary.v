(** `imdl torrent show` (C07): the typed metainfo loader as serde + bendy run it, TorrentSummary's JSON
    fields and text table, and the two text renderers of table.rs. Definitions only.

    Mirrors (after the repairs 0003-0006): src/metainfo.rs Metainfo::deserialize (+ content_size_fits),
    src/info.rs, src/mode.rs (untagged: Single is tried first, then Multiple), src/file_info.rs,
    src/file_path.rs (validating Deserialize), src/md5_digest.rs, src/piece_list.rs, src/host_port.rs
    (Tuple(String, u16)), src/torrent_summary.rs (table / torrent_summary_data), src/table.rs
    (write_tab_delimited / write_human_readable / Tree), src/mode.rs content_size (u64 `+=` fold).

    External code is a Section variable: [cal] chrono's rendering of a representable timestamp (None when
    not representable), [human] Bytes' Display (C16), [host_disp] the node deserialiser's reading of the host text
    (src/host_port.rs: url::Host::parse of the text - of `[text]` when it contains a colon - followed by Display,
    brackets around IPv6), [url_norm] Url::parse followed by Display. No hypotheses about them are needed. *)
From Coq Require Import Decimal DecimalN DecimalFacts.
From Coq Require Import Ascii String.
From Coq Require Import NArith ZArith Bool List.
From Imdl Require Import Model.Bencode Model.BencodeWide.
Import ListNotations.
Local Open Scope N_scope.

(* ---------- text helpers ---------- *)
Definition bs (s : string) : bytes := map (fun a => N_of_ascii a) (list_ascii_of_string s).
Arguments bs s%string.
(** text constants are evaluated to literal byte lists where they are written, so that nothing extracted
    mentions Coq's [string] (the shared OCaml driver opens the extracted module) *)
Notation "'lit' s" := (ltac:(let x := eval vm_compute in (bs s) in exact x)) (at level 0, s at level 0, only parsing).

Fixpoint bytes_eqb (a b : bytes) : bool :=
  match a, b with
  | [], [] => true
  | x :: a', y :: b' => (x =? y) && bytes_eqb a' b'
  | _, _ => false
  end.

Fixpoint join (sep : bytes) (l : list bytes) : bytes :=
  match l with
  | [] => []
  | [x] => x
  | x :: r => x ++ sep ++ join sep r
  end.

Definition inr (lo hi b : N) : bool := (lo <=? b) && (b <=? hi).
Definition cont (b : N) : bool := inr 128 191 b.

(** Rust's str::from_utf8: shortest form only, no surrogates, at most U+10FFFF *)
Fixpoint utf8_valid (s : bytes) : bool :=
  match s with
  | [] => true
  | b :: r =>
      if b <? 128 then utf8_valid r
      else if inr 194 223 b then
        match r with c1 :: r1 => cont c1 && utf8_valid r1 | _ => false end
      else if inr 224 239 b then
        match r with
        | c1 :: c2 :: r2 =>
            (if b =? 224 then inr 160 191 c1 else if b =? 237 then inr 128 159 c1 else cont c1)
            && cont c2 && utf8_valid r2
        | _ => false
        end
      else if inr 240 244 b then
        match r with
        | c1 :: c2 :: c3 :: r3 =>
            (if b =? 240 then inr 144 191 c1 else if b =? 244 then inr 128 143 c1 else cont c1)
            && cont c2 && cont c3 && utf8_valid r3
        | _ => false
        end
      else false
  end.

Definition is_hex (b : N) : bool := inr 48 57 b || inr 65 70 b || inr 97 102 b.
Definition hex_digit (n : N) : N := if n <? 10 then 48 + n else 87 + n.

(* ---------- serde keys (checked against the Rust source by GenSummary) ---------- *)
Definition k_announce : bytes := lit "announce".
Definition k_announce_list : bytes := lit "announce-list".
Definition k_comment : bytes := lit "comment".
Definition k_created_by : bytes := lit "created by".
Definition k_creation_date : bytes := lit "creation date".
Definition k_encoding : bytes := lit "encoding".
Definition k_info : bytes := lit "info".
Definition k_nodes : bytes := lit "nodes".
Definition k_private : bytes := lit "private".
Definition k_piece_length : bytes := lit "piece length".
Definition k_name : bytes := lit "name".
Definition k_source : bytes := lit "source".
Definition k_pieces : bytes := lit "pieces".
Definition k_update_url : bytes := lit "update-url".
Definition k_length : bytes := lit "length".
Definition k_md5sum : bytes := lit "md5sum".
Definition k_files : bytes := lit "files".
Definition k_path : bytes := lit "path".

(** (struct, key, optional) for every field the loader reads, in declaration order *)
Definition model_schema : list (string * bytes * bool) :=
  [ ("Metainfo", k_announce, true); ("Metainfo", k_announce_list, true); ("Metainfo", k_comment, true);
    ("Metainfo", k_created_by, true); ("Metainfo", k_creation_date, true); ("Metainfo", k_encoding, true);
    ("Metainfo", k_info, false); ("Metainfo", k_nodes, true);
    ("Info", k_private, true); ("Info", k_piece_length, false); ("Info", k_name, false); ("Info", k_source, true);
    ("Info", k_pieces, false); ("Info", k_update_url, true);
    ("Mode::Single", k_length, false); ("Mode::Single", k_md5sum, true); ("Mode::Multiple", k_files, false);
    ("FileInfo", k_length, false); ("FileInfo", k_path, false); ("FileInfo", k_md5sum, true) ]%string.

(* ---------- typed records ---------- *)
(** [f_md5] / [md5]: the md5sum text (32 hex digits) when the entry carries one; `torrent show` does not print it,
    the verifier (Model/Verify.v, through [Verify.project]) compares it *)
Record file := { f_length : N; f_path : list bytes; f_md5 : option bytes }.
Inductive mode := Single (length : N) (md5 : option bytes) | Multiple (files : list file).

Record metainfo := {
  m_announce : option bytes;
  m_announce_list : option (list (list bytes));
  m_comment : option bytes;
  m_created_by : option bytes;
  m_creation_date : option N;
  m_encoding : option bytes;
  m_nodes : option (list bytes);        (* each already rendered host:port, as HostPort's Display prints it *)
  m_private : option bool;
  m_piece_length : N;
  m_name : bytes;
  m_source : option bytes;
  m_pieces : bytes;
  m_mode : mode;
  m_update_url : option bytes           (* Url's Display *)
}.

(* ---------- lookups and typed readers ---------- *)
Definition lookup (k : bytes) (d : list (bytes * value)) : option value :=
  match find (fun kv => bytes_eqb (fst kv) k) d with Some kv => Some (snd kv) | None => None end.

Notation "'do' x <- a ; b" := (match a with Some x => b | None => None end)
  (at level 200, x pattern, a at level 100, b at level 200, only parsing).

Definition as_string (v : value) : option bytes :=
  match v with Str s => if utf8_valid s then Some s else None | _ => None end.

(** an unsigned field of width [bits]: the token is parsed as that type; negatives and too-large values fail *)
Definition as_uint (bits : N) (v : value) : option N :=
  match v with
  | Int z => if ((0 <=? z) && (z <? 2 ^ Z.of_N bits))%Z then Some (Z.to_N z) else None
  | _ => None
  end.

(** bendy's deserialize_bool: the integer text must be exactly 0 or 1 *)
Definition as_bool (v : value) : option bool :=
  match v with
  | Int z => if (z =? 0)%Z then Some false else if (z =? 1)%Z then Some true else None
  | _ => None
  end.

Fixpoint map_opt {A B} (f : A -> option B) (l : list A) : option (list B) :=
  match l with
  | [] => Some []
  | x :: r => do y <- f x; do ys <- map_opt f r; Some (y :: ys)
  end.

Definition as_list {B} (f : value -> option B) (v : value) : option (list B) :=
  match v with Lst l => map_opt f l | _ => None end.

(** required / optional (serde `default`) field *)
Definition req {B} (f : value -> option B) (k : bytes) (d : list (bytes * value)) : option B :=
  do v <- lookup k d; f v.
Definition opt {B} (f : value -> option B) (k : bytes) (d : list (bytes * value)) : option (option B) :=
  match lookup k d with
  | None => Some None
  | Some v => do x <- f v; Some (Some x)
  end.

(** Md5Digest after repair 0005: a String of exactly 32 hex digits *)
Definition as_md5 (v : value) : option bytes :=
  do s <- as_string v;
  if (Nat.eqb (List.length s) 32) && forallb is_hex s then Some s else None.

(** FilePath after repair 0004: every component is one normal path component *)
Definition normal_component (c : bytes) : bool :=
  negb (bytes_eqb c []) && negb (bytes_eqb c [46]) && negb (bytes_eqb c [46; 46]) && negb (existsb (N.eqb 47) c).
Definition as_component (v : value) : option bytes :=
  do s <- as_string v; if normal_component s then Some s else None.
Definition as_path (v : value) : option (list bytes) := as_list as_component v.

(** PieceList: any bytes, length a multiple of 20 *)
Definition as_pieces (v : value) : option bytes :=
  match v with
  | Str s => if (N.of_nat (List.length s) mod 20 =? 0) then Some s else None
  | _ => None
  end.

(** FileInfo is read out of content buffered by serde's flatten (i64 first, then u64). A derived struct read from
    buffered content may be a map (unknown keys ignored, keys need not be UTF-8) or - serde's
    [ContentRefDeserializer::deserialize_struct] hands a [Content::Seq] to [visit_seq] - a sequence of the fields in
    declaration order: length, path, then md5sum or nothing (a fourth element is "invalid length").
    The real binary accepts `files: [[5, ["a"]]]` (checked by X4; Model/Crash.v always had this reading). *)
Definition as_file (v : value) : option file :=
  match v with
  | Dict d =>
      do n <- req (as_uint 63) k_length d;
      do p <- req as_path k_path d;
      do m <- opt as_md5 k_md5sum d;
      Some {| f_length := n; f_path := p; f_md5 := m |}
  | Lst (lv :: pv :: rest) =>
      do n <- as_uint 63 lv;
      do p <- as_path pv;
      match rest with
      | [] => Some {| f_length := n; f_path := p; f_md5 := None |}
      | [mv] => do m <- as_md5 mv; Some {| f_length := n; f_path := p; f_md5 := Some m |}
      | _ => None
      end
  | _ => None
  end.

Definition try_single (d : list (bytes * value)) : option mode :=
  do n <- req (as_uint 63) k_length d;
  do m <- opt as_md5 k_md5sum d;
  Some (Single n m).
Definition try_multiple (d : list (bytes * value)) : option mode :=
  do fs <- req (as_list as_file) k_files d; Some (Multiple fs).
(** #[serde(untagged)]: variants in declaration order, first that deserialises wins *)
Definition as_mode (d : list (bytes * value)) : option mode :=
  match try_single d with Some m => Some m | None => try_multiple d end.

(* ---------- u64 arithmetic of the content size ---------- *)
Definition u64_mod : N := 2 ^ 64.
Definition checked_add (a b : N) : option N := let s := a + b in if s <? u64_mod then Some s else None.
Fixpoint checked_sum (acc : N) (l : list N) : option N :=
  match l with
  | [] => Some acc
  | x :: r => do s <- checked_add acc x; checked_sum s r
  end.
(** Mode::content_size_fits (repair 0006) *)
Definition content_size_fits (m : mode) : bool :=
  match m with
  | Single _ _ => true
  | Multiple fs => match checked_sum 0 (map f_length fs) with Some _ => true | None => false end
  end.
(** Mode::content_size: `sum += item` on u64 — overflow panics in the debug profile ([None]) and wraps in release *)
Definition content_size_debug (m : mode) : option N :=
  match m with Single n _ => Some n | Multiple fs => checked_sum 0 (map f_length fs) end.
Definition content_size_release (m : mode) : N :=
  match m with Single n _ => n | Multiple fs => fold_left (fun acc x => (acc + x) mod u64_mod) (map f_length fs) 0 end.
Fixpoint list_sum (l : list N) : N := match l with [] => 0 | x :: r => x + list_sum r end.

Section Show.
  Variable cal : N -> option bytes.
  Variable human : N -> bytes.
  Variable host_disp : bytes -> option bytes.
  Variable url_norm : bytes -> option bytes.

  (** HostPort: Tuple(String, u16), host through url::Host::parse, shown as host:port *)
  Definition as_node (v : value) : option bytes :=
    match v with
    | Lst [h; p] =>
        do hs <- as_string h;
        do pn <- as_uint 16 p;
        do ht <- host_disp hs;
        Some (ht ++ [58] ++ dec pn)
    | _ => None
    end.

  Definition as_url (v : value) : option bytes := do s <- as_string v; url_norm s.

  (** keys of a derived struct are read with deserialize_identifier -> deserialize_str: UTF-8 required
      (top level and the flattened info dictionary; not inside buffered content such as file entries) *)
  Definition keys_utf8 (d : list (bytes * value)) : bool := forallb (fun kv => utf8_valid (fst kv)) d.

  Definition typed_of_value (v : value) : option metainfo :=
    match v with
    | Dict d =>
        if keys_utf8 d then
          do announce <- opt as_string k_announce d;
          do announce_list <- opt (as_list (as_list as_string)) k_announce_list d;
          do comment <- opt as_string k_comment d;
          do created_by <- opt as_string k_created_by d;
          do creation_date <- opt (as_uint 64) k_creation_date d;
          do encoding <- opt as_string k_encoding d;
          do nodes <- opt (as_list as_node) k_nodes d;
          do iv <- lookup k_info d;
          match iv with
          | Dict i =>
              if keys_utf8 i then
                do private <- opt as_bool k_private i;
                do piece_length <- req (as_uint 64) k_piece_length i;
                do name <- req as_string k_name i;
                do source <- opt as_string k_source i;
                do pieces <- req as_pieces k_pieces i;
                do md <- as_mode i;
                do update_url <- opt as_url k_update_url i;
                if content_size_fits md then
                  Some {| m_announce := announce; m_announce_list := announce_list; m_comment := comment;
                          m_created_by := created_by; m_creation_date := creation_date; m_encoding := encoding;
                          m_nodes := nodes; m_private := private; m_piece_length := piece_length; m_name := name;
                          m_source := source; m_pieces := pieces; m_mode := md; m_update_url := update_url |}
                else None
              else None
          | _ => None
          end
        else None
    | _ => None
    end.

  (** values serde skips (unknown keys: IgnoredAny) or buffers (every key of the flattened info dictionary that is
      not one of Info's own fields - `length`, `files`, `md5sum` and the unknown ones) go through bendy's
      [deserialize_any], which parses an integer token as i64 *)
  Definition top_known : list bytes :=
    [k_announce; k_announce_list; k_comment; k_created_by; k_creation_date; k_encoding; k_info; k_nodes].
  Definition info_known : list bytes := [k_private; k_piece_length; k_name; k_source; k_pieces; k_update_url].
  Definition others_i64 (ks : list bytes) (d : list (bytes * value)) : bool :=
    forallb (fun kv => existsb (bytes_eqb (fst kv)) ks || all_i64 (snd kv)) d.
  Definition skipped_i64 (v : value) : bool :=
    match v with
    | Dict d => others_i64 top_known d &&
                match lookup k_info d with Some (Dict i) => others_i64 info_known i | _ => true end
    | _ => true
    end.

  (** [Metainfo::from_input] / [Metainfo::deserialize] on the bytes, the ONE typed loader of `torrent show`,
      `link` and `verify`: bendy's serde reader (integers of any size in the tokenizer, nesting at most 2048,
      trailing bytes ignored), the derived visitors ([typed_of_value]), i64 for what is skipped or buffered.
      Commands that also compute the infohash ([show], `link`) decode the whole value as a generic [Value] first,
      which demands i64 everywhere - that is why [show] below may use the strict [decode]. *)
  Definition from_value (v : value) : option metainfo :=
    if (depth v <=? max_depth) && skipped_i64 v then typed_of_value v else None.
  Definition from_input (input : bytes) : option metainfo :=
    match wdecode (fuel_for input) input with
    | Some (v, _) => from_value v
    | None => None
    end.

  (* ---------- JSON report (TorrentSummaryJson, fields in declaration order) ---------- *)
  Inductive jv := JvNull | JvStr (s : bytes) | JvNum (n : N) | JvBool (b : bool) | JvArr (l : list jv).

  Definition jopt_str (o : option bytes) : jv := match o with Some s => JvStr s | None => JvNull end.
  Definition jopt_num (o : option N) : jv := match o with Some n => JvNum n | None => JvNull end.

  (** PathBuf::push of a normal component *)
  Definition path_push (p c : bytes) : bytes :=
    match p with
    | [] => c
    | _ => if last p 0 =? 47 then p ++ c else p ++ [47] ++ c
    end.
  Definition joined_under (name : bytes) (p : list bytes) : bytes := fold_left path_push p name.

  Definition is_single (m : metainfo) : bool := match m_mode m with Single _ _ => true | Multiple _ => false end.
  Definition file_paths (m : metainfo) : list (list bytes) :=
    match m_mode m with Single _ _ => [] | Multiple fs => map f_path fs end.
  Definition file_count (m : metainfo) : N :=
    match m_mode m with Single _ _ => 1 | Multiple fs => N.of_nat (List.length fs) end.
  Definition piece_count (m : metainfo) : N := N.of_nat (List.length (m_pieces m)) / 20.
  Definition private_flag (m : metainfo) : bool := match m_private m with Some b => b | None => false end.
  Definition hex_text (ih : bytes) : bytes := ih.   (* the info hash arrives as its 40 hex digits; C04 owns its value *)

  Definition json_of (m : metainfo) (content : N) (input_len : N) (ih : bytes) : list (bytes * jv) :=
    [ ((lit "name"), JvStr (m_name m));
      ((lit "comment"), jopt_str (m_comment m));
      ((lit "creation_date"), jopt_num (m_creation_date m));
      ((lit "created_by"), jopt_str (m_created_by m));
      ((lit "source"), jopt_str (m_source m));
      ((lit "info_hash"), JvStr (hex_text ih));
      ((lit "torrent_size"), JvNum input_len);
      ((lit "content_size"), JvNum content);
      ((lit "private"), JvBool (private_flag m));
      ((lit "tracker"), jopt_str (m_announce m));
      ((lit "announce_list"), JvArr (map (fun tier => JvArr (map JvStr tier))
                                     (match m_announce_list m with Some t => t | None => [] end)));
      ((lit "update_url"), jopt_str (m_update_url m));
      ((lit "dht_nodes"), JvArr (map JvStr (match m_nodes m with Some l => l | None => [] end)));
      ((lit "piece_size"), JvNum (m_piece_length m));
      ((lit "piece_count"), JvNum (piece_count m));
      ((lit "file_count"), JvNum (file_count m));
      ((lit "files"), JvArr (if is_single m then [JvStr (m_name m)]
                         else map (fun p => JvStr (joined_under (m_name m) p)) (file_paths m))) ].

  (* ---------- text table (TorrentSummary::table, table.rs Value) ---------- *)
  Inductive cell :=
  | Scalar (s : bytes)
  | Size (n : N)
  | LList (l : list bytes)
  | Tiers (t : list (bytes * list bytes))
  | Directory (root : bytes) (files : list (list bytes)).

  (** derived Ord on Vec<String>: lexicographic over components, each compared bytewise *)
  Definition bytes_leb (a b : bytes) : bool := negb (bytes_ltb b a).
  Fixpoint path_leb (p q : list bytes) : bool :=
    match p, q with
    | [], _ => true
    | _ :: _, [] => false
    | a :: p', b :: q' => if bytes_ltb a b then true else if bytes_ltb b a then false else path_leb p' q'
    end.
  Fixpoint insert_sorted (p : list bytes) (l : list (list bytes)) : list (list bytes) :=
    match l with
    | [] => [p]
    | q :: r => if path_leb p q then p :: l else q :: insert_sorted p r
    end.
  (** files.sort(): stable; insertion from the right keeps equal paths in their original order *)
  Definition sort_paths (l : list (list bytes)) : list (list bytes) := fold_right insert_sorted [] l.

  (** a row that is present only when the metainfo has the field *)
  Definition opt_cell (label : bytes) (o : option cell) : list (bytes * cell) :=
    match o with Some c => [(label, c)] | None => [] end.

  (** repair 0003: a representable date in chrono's form, otherwise the number of seconds *)
  Definition date_text (d : N) : bytes := match cal d with Some t => t | None => dec d end.

  Fixpoint number_tiers (i : N) (t : list (list bytes)) : list (bytes * list bytes) :=
    match t with
    | [] => []
    | tier :: r => ((lit "Tier ") ++ dec i, tier) :: number_tiers (i + 1) r
    end.

  Definition table_of (m : metainfo) (content : N) (input_len : N) (ih : bytes) : list (bytes * cell) :=
    [(lit "Name", Scalar (m_name m))]
    ++ opt_cell (lit "Comment") (option_map Scalar (m_comment m))
    ++ opt_cell (lit "Creation Date") (option_map (fun d => Scalar (date_text d)) (m_creation_date m))
    ++ opt_cell (lit "Created By") (option_map Scalar (m_created_by m))
    ++ opt_cell (lit "Source") (option_map Scalar (m_source m))
    ++ [(lit "Info Hash", Scalar (hex_text ih)); (lit "Torrent Size", Size input_len); (lit "Content Size", Size content);
        (lit "Private", Scalar (if private_flag m then lit "yes" else lit "no"))]
    ++ opt_cell (lit "Tracker") (option_map Scalar (m_announce m))
    ++ opt_cell (lit "Announce List") (option_map (fun t => Tiers (number_tiers 1 t)) (m_announce_list m))
    ++ opt_cell (lit "Update URL") (option_map Scalar (m_update_url m))
    ++ opt_cell (lit "DHT Nodes") (option_map LList (m_nodes m))
    ++ [(lit "Piece Size", Size (m_piece_length m)); (lit "Piece Count", Scalar (dec (piece_count m)));
        (lit "File Count", Scalar (dec (file_count m)));
        (lit "Files", if is_single m then Scalar (m_name m) else Directory (m_name m) (sort_paths (file_paths m)))].

  (* ---------- write_tab_delimited ---------- *)
  Definition lower (b : N) : N := if inr 65 90 b then b + 32 else b.
  Definition tab_values (c : cell) : list bytes :=
    match c with
    | Scalar s => [s]
    | Size n => [dec n]
    | LList l => l
    | Tiers t => flat_map snd t
    | Directory root files => map (fun p => root ++ [47] ++ join [47] p) files
    end.
  Definition render_tab (t : list (bytes * cell)) : bytes :=
    flat_map (fun row => map lower (fst row) ++ [9] ++ join [9] (tab_values (snd row)) ++ [10]) t.

  (* ---------- write_human_readable ---------- *)
  Inductive tree := Node (name : bytes) (children : list tree).
  Definition tname (t : tree) : bytes := match t with Node n _ => n end.

  Fixpoint tinsert (p : list bytes) (t : tree) {struct p} : tree :=
    match p with
    | [] => t
    | h :: r =>
        match t with
        | Node n cs =>
            Node n ((fix go (cs : list tree) : list tree :=
                       match cs with
                       | [] => [tinsert r (Node h [])]
                       | c :: cs' => if bytes_eqb (tname c) h then tinsert r c :: cs' else c :: go cs'
                       end) cs)
        end
    end.

  Fixpoint tlines (lasts : list bool) (t : tree) : list (list bool * bytes) :=
    match t with
    | Node n cs =>
        (lasts, n) :: (fix go (cs : list tree) : list (list bool * bytes) :=
                         match cs with
                         | [] => []
                         | c :: cs' =>
                             tlines (lasts ++ [match cs' with [] => true | _ => false end]) c ++ go cs'
                         end) cs
    end.

  Definition spaces (n : nat) : bytes := repeat 32 n.
  Definition u_vert := [226; 148; 130].    (* │ *)
  Definition u_tee := [226; 148; 156; 226; 148; 128].    (* ├─ *)
  Definition u_ell := [226; 148; 148; 226; 148; 128].    (* └─ *)

  Fixpoint tree_prefix (lasts : list bool) : bytes :=
    match lasts with
    | [] => []
    | [l] => if l then u_ell else u_tee
    | l :: r => (if l then [32; 32] else u_vert ++ [32]) ++ tree_prefix r
    end.

  Definition label_width (t : list (bytes * cell)) : nat :=
    fold_right (fun row w => Nat.max (List.length (fst row)) w) 0%nat t.

  (** lines of a multi-line value: the first continues the label line after two spaces, the others are indented *)
  Fixpoint indent_lines (first : bool) (w : nat) (l : list bytes) : bytes :=
    match l with
    | [] => []
    | x :: r => spaces (if first then 2 else w + 2) ++ x ++ [10] ++ indent_lines false w r
    end.

  Fixpoint tier_values (first : bool) (pad : nat) (vs : list bytes) : bytes :=
    match vs with
    | [] => []
    | v :: r => (if first then [] else spaces pad) ++ [32] ++ v ++ [10] ++ tier_values false pad r
    end.
  Fixpoint tier_lines (first : bool) (w tw : nat) (t : list (bytes * list bytes)) : bytes :=
    match t with
    | [] => []
    | (n, vs) :: r =>
        (if first then [] else spaces w) ++ [32; 32] ++ n ++ [58] ++ spaces (tw - List.length n)
        ++ tier_values true (w + 2 + tw + 1) vs ++ tier_lines false w tw r
    end.

  Definition term_cell (w : nat) (c : cell) : bytes :=
    match c with
    | Scalar s => [32; 32] ++ s ++ [10]
    | Size n => [32; 32] ++ human n ++ [10]
    | LList l => indent_lines true w l
    | Tiers t => tier_lines true w (fold_right (fun nt m => Nat.max (List.length (fst nt)) m) 0%nat t) t
    | Directory root files =>
        indent_lines true w (map (fun ln => tree_prefix (fst ln) ++ snd ln)
                                 (tlines [] (fold_left (fun t p => tinsert p t) files (Node root []))))
    end.
  Definition render_term (t : list (bytes * cell)) : bytes :=
    let w := label_width t in
    flat_map (fun row => spaces (w - List.length (fst row)) ++ fst row ++ term_cell w (snd row)) t.

  (** the values a terminal row carries, without layout *)
  Definition term_values (c : cell) : list bytes :=
    match c with
    | Size n => [human n]
    | Directory root files => map snd (tlines [] (fold_left (fun t p => tinsert p t) files (Node root [])))
    | _ => tab_values c
    end.

  (* ---------- the subcommand ---------- *)
  Inductive target := FromPath | FromStdin.
  Inductive outcome :=
  | ShowRejected                    (* exit status 1, nothing on stdout *)
  | ShowPanicked                    (* arithmetic overflow in the debug profile *)
  | ShowPrinted (json : list (bytes * jv)) (tab : bytes) (term : bytes).

  Definition show_value (v : value) (input_len : N) (ih : bytes) : outcome :=
    match typed_of_value v with
    | None => ShowRejected
    | Some m =>
        match content_size_debug (m_mode m) with
        | None => ShowPanicked
        | Some content =>
            let t := table_of m content input_len ih in
            ShowPrinted (json_of m content input_len ih) (render_tab t) (render_term t)
        end
    end.

  (** Env::read gives the same bytes from a path or from stdin; Infohash::from_input needs the strict
      decoding to succeed (trailing bytes ignored) and a dictionary with a dictionary `info`, which the
      typed loader requires anyway; both readers refuse nesting deeper than 2048 (X4: the bound was missing here,
      the real `show` exits 1 on an unknown key nested 2049 deep) *)
  Definition show (src : target) (input : bytes) (ih : bytes) : outcome :=
    match decode (2 * List.length input + 2) input with
    | Some (v, _) => if depth v <=? max_depth then show_value v (N.of_nat (List.length input)) ih else ShowRejected
    | None => ShowRejected
    end.
End Show.

(** entry point of the extracted model (runner/driver.d/summary.ml) *)
Definition summary_show_entry := show.
