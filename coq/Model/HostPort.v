(** C17 — host:port values (src/host_port.rs). Definitions only.

    Text is UTF-8 bytes. What belongs to libraries is a [Section] variable:
      [all_nd p]   the regex class: [p] is one or more Unicode decimal digits (`\d+`, UTF-8);
      [hparse t]   `str::from_utf8` followed by `url::Host::parse` (url 2.5);
      [std4 a], [std6 a]   `Ipv4Addr` / `Ipv6Addr` `Display` of the standard library
                           (what `Tuple::from(&HostPort)` stores);
      [url6 a]     the url crate's own IPv6 serialiser (`write_ipv6`, used by `Host: Display`).
    The hypotheses the theorems need about them are collected in [url_lib]; each is exercised
    by the correspondence run through the `host_parse` hook.

    imdl's own logic is modelled exactly:
      [hp_split]        the regex `^(?P<host>.*?):(?P<port>\d+?)$` with its leftmost-first,
                     lazy priority (shortest host first; `.` does not match a line feed;
                     `$` only at the very end);
      [parse_u16]    `str::parse::<u16>` (optional `+`, ASCII digits, any number of leading
                     zeros, overflow above 65535);
      [hp_parse]        `FromStr for HostPort` (host first, then port);
      [hp_display]      `Display for HostPort` over `Display for Host`;
      [hp_to_bencode]   `Serialize` through `Tuple(String, u16)` — the host without brackets;
      [hp_from_bencode] `Deserialize`: typed read of a two-element list, then
                     `contains(':')` re-bracketing before `Host::parse`. *)
From Coq Require Import Decimal DecimalN DecimalFacts.
From Coq Require Import NArith ZArith Bool List.
From Imdl Require Import Model.Bencode.
Import ListNotations.
Local Open Scope N_scope.

Inductive hp_host :=
| HDomain (d : bytes)      (* Host::Domain(String) *)
| HIp4 (a : N)              (* Host::Ipv4, the address as u32 *)
| HIp6 (a : N).             (* Host::Ipv6, the address as u128 *)

Inductive hp_err := PortMissing | BadHost | BadPort.
Inductive hp_result := HpOk (hp : hp_host * N) | HpErr (e : hp_err).

Definition hp_mem (c : byte) (s : bytes) : bool := existsb (N.eqb c) s.
Definition hp_is_dig (b : byte) : bool := (48 <=? b) && (b <=? 57).

(** `str::parse::<u16>`: checked accumulation of ASCII digits (the value only grows, so the
    per-step overflow check of the standard library equals one comparison at the end) *)
Fixpoint hp_digits_val (acc : N) (p : bytes) : option N :=
  match p with
  | [] => Some acc
  | c :: r => if hp_is_dig c then hp_digits_val (acc * 10 + (c - 48)) r else None
  end.

Definition parse_u16 (p : bytes) : option N :=
  let ds := match hd_is 43 p with Some r => r | None => p end in   (* one leading '+' is legal *)
  match ds with
  | [] => None
  | _ => match hp_digits_val 0 ds with
         | Some v => if v <=? 65535 then Some v else None
         | None => None
         end
  end.

(** the code points `Host::parse` refuses outside brackets when they occur literally
    (url 2.5 `is_invalid_domain_char`, minus `%` which may start an escape) *)
Definition hp_forbidden (b : byte) : bool :=
  (b <=? 32) || (b =? 35) || (b =? 47) || (b =? 58) || (b =? 60) || (b =? 62) || (b =? 63) ||
  (b =? 64) || (b =? 91) || (b =? 92) || (b =? 93) || (b =? 94) || (b =? 124) || (b =? 127).

Definition is_hexl (b : byte) : bool := hp_is_dig b || ((97 <=? b) && (b <=? 102)).
Definition v4_char (b : byte) : bool := hp_is_dig b || (b =? 46).
Definition v6_char (b : byte) : bool := is_hexl b || (b =? 58) || (b =? 46).

Definition hp_rebracket (t : bytes) : bytes := if hp_mem 58 t then 91 :: t ++ [93] else t.

(** typed read of `Tuple(String, u16)` with bendy's strict tokens: `l`, string, integer, `e`;
    anything else (a third element, swapped kinds, a dictionary) is an error; bytes after
    the closing `e` are left alone *)
Definition hp_dec_tuple (bs : bytes) : option (bytes * Z * bytes) :=
  match hd_is 108 bs with
  | None => None
  | Some r0 =>
    match dec_str r0 with
    | None => None
    | Some (t, r1) =>
      match hd_is 105 r1 with
      | None => None
      | Some r2 =>
        match dec_int r2 with
        | Some (Int z, r3) =>
            match hd_is 101 r3 with
            | Some rest => Some (t, z, rest)
            | None => None
            end
        | _ => None
        end
      end
    end
  end.

Section HostPort.
  Variable all_nd : bytes -> bool.
  Variable hparse : bytes -> option hp_host.
  Variables std4 std6 url6 : N -> bytes.

  (** the regex, in its own priority order: try the shortest host first *)
  Fixpoint hp_split (s : bytes) : option (bytes * bytes) :=
    match s with
    | [] => None
    | c :: r =>
        if (c =? 58) && all_nd r then Some ([], r)       (* `:` then `\d+?` up to `$` *)
        else if c =? 10 then None                         (* `.` does not match "\n" *)
        else match hp_split r with
             | Some (h, p) => Some (c :: h, p)
             | None => None
             end
    end.

  Definition hp_parse (s : bytes) : hp_result :=
    match hp_split s with
    | None => HpErr PortMissing
    | Some (ht, pt) =>
        match hparse ht with
        | None => HpErr BadHost
        | Some h =>
            match parse_u16 pt with
            | None => HpErr BadPort
            | Some n => HpOk (h, n)
            end
        end
    end.

  (** `Display for url::Host` *)
  Definition hshow (h : hp_host) : bytes :=
    match h with
    | HDomain d => d
    | HIp4 a => std4 a
    | HIp6 a => 91 :: url6 a ++ [93]
    end.

  (** `Display for HostPort`: "{}:{}" *)
  Definition hp_display (hp : hp_host * N) : bytes := hshow (fst hp) ++ 58 :: dec (snd hp).

  (** `Tuple::from(&HostPort)`: the three `to_string()` calls, no brackets *)
  Definition hp_plain (h : hp_host) : bytes :=
    match h with
    | HDomain d => d
    | HIp4 a => std4 a
    | HIp6 a => std6 a
    end.

  Definition hp_to_value (hp : hp_host * N) : value := Lst [Str (hp_plain (fst hp)); Int (Z.of_N (snd hp))].
  Definition hp_to_bencode (hp : hp_host * N) : bytes := encode (hp_to_value hp).

  Definition hp_from_bencode (bs : bytes) : option (hp_host * N) :=
    match hp_dec_tuple bs with
    | Some (t, z, _) =>
        if ((0 <=? z) && (z <=? 65535))%Z then
          match hparse (hp_rebracket t) with
          | Some h => Some (h, Z.to_N z)
          | None => None
          end
        else None
    | None => None
    end.

  (** What the theorems assume about the libraries. *)
  Record url_lib : Prop := {
    (* regex `\d`: ASCII digits are decimal digits; every other decimal digit is non-ASCII *)
    nd_ascii : forall p, p <> [] -> forallb hp_is_dig p = true -> all_nd p = true;
    nd_bytes : forall p, all_nd p = true ->
                 p <> [] /\ forallb (fun b => hp_is_dig b || (128 <=? b)) p = true;
    (* url: what Host prints, Host::parse reads back as the same value *)
    print_parse : forall t h, hparse t = Some h -> hparse (hshow h) = Some h;
    (* url reads the standard library's IPv6 text, in brackets, as the same address *)
    plain_parse6 : forall t a, hparse t = Some (HIp6 a) -> hparse (91 :: std6 a ++ [93]) = Some (HIp6 a);
    (* a parsed domain is non-empty and free of the forbidden code points *)
    domain_shape : forall t d, hparse t = Some (HDomain d) ->
                     d <> [] /\ forallb (fun b => negb (hp_forbidden b)) d = true;
    std4_shape : forall a, forallb v4_char (std4 a) = true;
    std6_shape : forall a, hp_mem 58 (std6 a) = true /\ forallb v6_char (std6 a) = true;
    url6_shape : forall a, forallb v6_char (url6 a) = true;
    (* rejections by the url crate that the property names *)
    empty_rejected : hparse [] = None;
    forbidden_rejected : forall t, hd_is 91 t = None -> existsb hp_forbidden t = true -> hparse t = None
  }.

  Definition in_range (h : hp_host) : Prop := exists t, hparse t = Some h.
End HostPort.

(** A small concrete library instance (one domain, one IPv4, one IPv6 address) used only to
    show that [url_lib] is satisfiable and to compute the examples. *)
Definition toy_nd (p : bytes) : bool := match p with [] => false | _ => forallb hp_is_dig p end.
Definition toy_dom : bytes := [97; 46; 98].                      (* a.b *)
Definition toy_v4 : bytes := [49; 46; 50; 46; 51; 46; 52].       (* 1.2.3.4 *)
Definition toy_v6 : bytes := [58; 58; 49].                       (* ::1 *)
Definition toy_hparse (t : bytes) : option hp_host :=
  if list_eq_dec N.eq_dec t toy_dom then Some (HDomain toy_dom)
  else if list_eq_dec N.eq_dec t toy_v4 then Some (HIp4 16909060)
  else if list_eq_dec N.eq_dec t (91 :: toy_v6 ++ [93]) then Some (HIp6 1)
  else None.
Definition toy4 (_ : N) : bytes := toy_v4.
Definition toy6 (_ : N) : bytes := toy_v6.
