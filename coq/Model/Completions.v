(** Model of `imdl completions` (C19): src/subcommand/completions.rs, src/shell.rs,
    src/xor_args.rs, Env::write in src/env.rs. Definitions only.

    Everything lives in the inner module [Cpl] so that the monolithic extraction produces one
    OCaml module `Cpl` and no top-level name of this file can clash with another model.

    What is modelled, in the order the process goes through it:
      1. clap's validation of the three arguments as declared by the structopt attributes
         (possible_values = Shell::VARIANTS on both shell arguments, conflicts_with,
         required_unless {dir, shell-flag}, empty_values = false on --dir)        [clap_parse]
      2. Completions::run, including its two `Error::internal` branches             [run_body]
      3. Completions::write = completion_script + Env::write (fs::write: create or truncate;
         fails when the directory does not exist)                                  [write]
      4. Shell::completion_script = clap's generator output, `trim()`med, plus '\n'  [script]
    clap's script generator itself is the Section variable [gen]. *)
From Coq Require Import NArith List String Ascii Bool.
Import ListNotations.

Module Cpl.
Local Open Scope N_scope.

(** text = bytes; file names are bytes too *)
Definition text := list N.

Definition bytes_of_string (s : string) : text := map N_of_ascii (list_ascii_of_string s).

Fixpoint text_eqb (a b : text) : bool :=
  match a, b with
  | [], [] => true
  | x :: a', y :: b' => N.eqb x y && text_eqb a' b'
  | _, _ => false
  end.

(** src/shell.rs: enum Shell, in declaration order *)
Inductive shell := Zsh | Bash | Fish | Powershell | Elvish.

(** Shell::iter() (strum EnumIter): declaration order *)
Definition all_shells : list shell := [Zsh; Bash; Fish; Powershell; Elvish].

Definition shell_ident (s : shell) : string :=
  match s with
  | Zsh => "Zsh" | Bash => "Bash" | Fish => "Fish" | Powershell => "Powershell" | Elvish => "Elvish"
  end.

(** strum serialize_all = "kebab-case": Shell::VARIANTS, EnumString, IntoStaticStr *)
Definition shell_name (s : shell) : string :=
  match s with
  | Zsh => "zsh" | Bash => "bash" | Fish => "fish" | Powershell => "powershell" | Elvish => "elvish"
  end.

(** impl From<Shell> for clap::Shell *)
Definition clap_ident (s : shell) : string :=
  match s with
  | Bash => "Bash" | Fish => "Fish" | Zsh => "Zsh" | Powershell => "PowerShell" | Elvish => "Elvish"
  end.

(** Shell::completion_script_filename *)
Definition filename (s : shell) : string :=
  match s with
  | Bash => "imdl.bash"
  | Fish => "imdl.fish"
  | Zsh => "_imdl"
  | Powershell => "_imdl.ps1"
  | Elvish => "imdl.elvish"
  end.

(** The same two tables as bytes. The executable model uses these: extracted code must not
    depend on Coq's [string], whose extraction would shadow OCaml's own type in the runner.
    [byte_tables_agree] (Proofs) shows they are the strings above, byte for byte. *)

(** the shell's name as typed on the command line *)
Definition shell_arg (s : shell) : text :=
  match s with
  | Zsh => [122; 115; 104] (* zsh *)
  | Bash => [98; 97; 115; 104] (* bash *)
  | Fish => [102; 105; 115; 104] (* fish *)
  | Powershell => [112; 111; 119; 101; 114; 115; 104; 101; 108; 108] (* powershell *)
  | Elvish => [101; 108; 118; 105; 115; 104] (* elvish *)
  end.

(** the file name inside the --dir directory *)
Definition fname (s : shell) : text :=
  match s with
  | Bash => [105; 109; 100; 108; 46; 98; 97; 115; 104] (* imdl.bash *)
  | Fish => [105; 109; 100; 108; 46; 102; 105; 115; 104] (* imdl.fish *)
  | Zsh => [95; 105; 109; 100; 108] (* _imdl *)
  | Powershell => [95; 105; 109; 100; 108; 46; 112; 115; 49] (* _imdl.ps1 *)
  | Elvish => [105; 109; 100; 108; 46; 101; 108; 118; 105; 115; 104] (* imdl.elvish *)
  end.

(** clap: the value must be one of possible_values (case-sensitive), then EnumString::from_str *)
Fixpoint parse_shell_in (l : list shell) (n : text) : option shell :=
  match l with
  | [] => None
  | s :: r => if text_eqb n (shell_arg s) then Some s else parse_shell_in r n
  end.
Definition parse_shell : text -> option shell := parse_shell_in all_shells.

(** str::trim on the byte level: ASCII white space (TAB LF VT FF CR SPACE). Non-ASCII white
    space at the ends of clap's output is excluded by an assumption of the check. *)
Definition is_ws (b : N) : bool := N.eqb b 32 || (N.leb 9 b && N.leb b 13).

Fixpoint drop_ws (t : text) : text :=
  match t with
  | [] => []
  | b :: r => if is_ws b then drop_ws r else t
  end.

Definition trim (t : text) : text := rev (drop_ws (rev (drop_ws t))).

(** the directory named by --dir: file name -> contents; the first binding of a name is the
    current one (writing conses) *)
Definition dir := list (text * text).

Fixpoint lookup (n : text) (d : dir) : option text :=
  match d with
  | [] => None
  | (k, v) :: r => if text_eqb n k then Some v else lookup n r
  end.

(** fs::write on a path inside an existing directory: create or truncate, then write all *)
Definition write_file (n t : text) (d : dir) : dir := (n, t) :: d.

Inductive status := Success | UsageError | InternalError | IoError.

(** what the process did: exit-status class, bytes on stdout, the directory afterwards
    ([None] = the directory does not exist) *)
Record outcome := { o_status : status; o_stdout : text; o_dir : option dir }.

(** the command line after `imdl completions`: raw values as typed; [a_dir = Some []] is
    `--dir ""` *)
Record args := { a_flag : option text; a_pos : option text; a_dir : option text }.

Definition is_some {T} (o : option T) : bool := match o with Some _ => true | None => false end.

(** a shell argument: absent, or present with a value that must be a possible value *)
Definition shell_value (v : option text) : option (option shell) :=
  match v with
  | None => Some None
  | Some n => match parse_shell n with Some s => Some (Some s) | None => None end
  end.

(** clap validation. [None] = clap reports a usage error and nothing runs. *)
Definition clap_parse (a : args) : option (option shell * option shell * option text) :=
  match shell_value (a_flag a), shell_value (a_pos a) with
  | Some f, Some p =>
      match a_dir a with
      | Some [] => None                                             (* empty_values = false *)
      | d =>
          if is_some f && is_some p then None                       (* conflicts_with = shell-flag *)
          else if negb (is_some p) && negb (is_some d || is_some f)
          then None                                                 (* required_unless dir / shell-flag *)
          else Some (f, p, d)
      end
  | _, _ => None                                                    (* possible_values *)
  end.

(** src/xor_args.rs: a.xor(b).ok_or_else(internal) *)
Definition xor_args {T} (a b : option T) : option T :=
  match a, b with
  | Some x, None => Some x
  | None, Some y => Some y
  | _, _ => None
  end.

Section Completions.
  (** Arguments::clap().gen_completions_to("imdl", shell.into(), &mut cursor), as bytes *)
  Variable gen : shell -> text.

  (** Shell::completion_script: `script.trim().to_owned()` then `push('\n')` *)
  Definition script (s : shell) : text := trim (gen s) ++ [10].

  (** Completions::write: [None] = the `?` on Env::write fired (I/O error) *)
  Definition write (tgt : option dir) (s : shell) : option dir :=
    match tgt with
    | None => None
    | Some d => Some (write_file (fname s) (script s) d)
    end.

  (** `for shell in Shell::iter() { Self::write(env, &dir, shell)?; }` *)
  Fixpoint write_all (l : list shell) (tgt : option dir) : outcome :=
    match l with
    | [] => {| o_status := Success; o_stdout := []; o_dir := tgt |}
    | s :: r =>
        match write tgt s with
        | None => {| o_status := IoError; o_stdout := []; o_dir := tgt |}
        | Some d' => write_all r (Some d')
        end
    end.

  (** Completions::run *)
  Definition run_body (f p : option shell) (d : option text) (tgt : option dir) : outcome :=
    if is_some f || is_some p then
      match xor_args f p with
      | None => {| o_status := InternalError; o_stdout := []; o_dir := tgt |}
      | Some s =>
          match d with
          | Some _ =>
              match write tgt s with
              | None => {| o_status := IoError; o_stdout := []; o_dir := tgt |}
              | Some d' => {| o_status := Success; o_stdout := []; o_dir := Some d' |}
              end
          | None => {| o_status := Success; o_stdout := script s; o_dir := tgt |}
          end
      end
    else
      match d with
      | None => {| o_status := InternalError; o_stdout := []; o_dir := tgt |}
      | Some _ => write_all all_shells tgt
      end.

  (** the process: clap, then run. [tgt] is the state of the directory named by --dir. *)
  Definition run (a : args) (tgt : option dir) : outcome :=
    match clap_parse a with
    | None => {| o_status := UsageError; o_stdout := []; o_dir := tgt |}
    | Some (f, p, d) => run_body f p d tgt
    end.
End Completions.

(** ---- the structopt attribute table the clap stage above was written from (compared with
    the table regenerated from src/subcommand/completions.rs in Properties/C19.v) *)
Definition expected_args : list (string * string * list (string * string)) :=
  [ ("shell_flag", "Option<Shell>",
     [("name", "shell-flag"); ("long", "shell"); ("short", "s"); ("value_name", "SHELL");
      ("possible_values", "Shell::VARIANTS")]);
    ("shell_positional", "Option<Shell>",
     [("name", "<SHELL>"); ("value_name", "SHELL"); ("possible_values", "Shell::VARIANTS");
      ("required_unless", "dir"); ("required_unless", "shell-flag"); ("conflicts_with", "shell-flag")]);
    ("dir", "Option<PathBuf>",
     [("long", "dir"); ("short", "d"); ("value_name", "DIR"); ("empty_values", "false");
      ("parse", "from_os_str")]) ]%string.

(** ---- vocabulary of the statements *)

(** exactly one of --shell / positional is given, and it names [s] *)
Definition one_shell (a : args) (s : shell) : Prop :=
  (a_flag a = Some (shell_arg s) /\ a_pos a = None) \/ (a_flag a = None /\ a_pos a = Some (shell_arg s)).

(** a shell argument that clap accepts: absent, or one of the five names *)
Definition valid_value (v : option text) : Prop :=
  match v with None => True | Some n => exists s, n = shell_arg s end.

(** lookup in a generated (identifier, value) table *)
Fixpoint sassoc (k : string) (l : list (string * string)) : option string :=
  match l with
  | [] => None
  | (k', v) :: r => if String.eqb k k' then Some v else sassoc k r
  end.

Fixpoint smem (k : string) (l : list string) : bool :=
  match l with [] => false | x :: r => String.eqb k x || smem k r end.

Fixpoint distinctb (l : list string) : bool :=
  match l with [] => true | x :: r => negb (smem x r) && distinctb r end.

Fixpoint path_eqb (a b : list string) : bool :=
  match a, b with
  | [], [] => true
  | x :: a', y :: b' => String.eqb x y && path_eqb a' b'
  | _, _ => false
  end.

Fixpoint pmem (p : list string) (l : list (list string)) : bool :=
  match l with [] => false | x :: r => path_eqb p x || pmem p r end.

Fixpoint pdistinctb (l : list (list string)) : bool :=
  match l with [] => true | x :: r => negb (pmem x r) && pdistinctb r end.

(** ---- sub-sequence occurrence, for "the script names every subcommand" *)
Definition infix (n t : text) : Prop := exists pre post, t = pre ++ n ++ post.

(** a name that survives trimming: non-empty, no white space at either end *)
Definition nonws_ends (n : text) : bool :=
  match n with
  | [] => false
  | c :: _ => negb (is_ws c) && negb (is_ws (last n 32))
  end.

(** a well-formed subcommand name: non-empty, only [a-z0-9-] *)
Definition name_char (b : N) : bool :=
  (N.leb 97 b && N.leb b 122) || (N.leb 48 b && N.leb b 57) || N.eqb b 45.
Definition name_ok (n : text) : bool :=
  match n with [] => false | _ => forallb name_char n end.


(** a well-formed subcommand tree as listed by the translator: not empty, no empty path, every
    component a well-formed name, no path twice, every proper prefix listed too *)
Definition paths_ok (l : list (list string)) : bool :=
  negb (match l with [] => true | _ => false end) &&
  forallb (fun p => negb (match p with [] => true | _ => false end) &&
                    forallb (fun c => name_ok (bytes_of_string c)) p &&
                    (match removelast p with [] => true | q => pmem q l end)) l &&
  pdistinctb l.

End Cpl.
