(** `imdl torrent verify` (C03, C13; C02 builds on it). Definitions only.

    Mirrors, for the tree with the two repairs applied (zero piece length rejected in
    [Verifier::new]; non-normal path components rejected by [FilePath]'s deserialiser):
      - the loader: [load] is the PROJECTION of the metainfo onto what verification reads (info.name,
        "piece length", pieces, length/md5sum or files[length, path, md5sum]; serde's untagged choice
        Single-before-Multiple; UTF-8 strings; md5sum = 32 hex digits; a file entry as a dictionary or in
        serde's sequence form) and ignores every other key; the command ([verify_cmd]) loads through
        [load_typed], i.e. through the one typed loader [Summary.from_input] that models
        [Metainfo::from_input] for show, link and verify alike (every key type-checked, content size within
        64 bits, nesting bounded, i64 for skipped and buffered integers). Proofs/LoaderProofs.v:
        [loaders_agree], [typed_rejects_more], [typed_exact] and one lemma per refused class,
      - the content-root choice of [Verify::run] and [Env::resolve],
      - [Verifier::new], [Verifier::hash] (the read loop with an arbitrary schedule of short
        reads, one running state across files, open/read errors ignored), [finish],
      - [FileError::verify], [Status::good].
    SHA-1, MD5 and the read schedule are [Section] variables. *)
From Coq Require Import NArith ZArith List Bool.
From Imdl Require Import Base.Chunks Model.Bencode Model.BencodeWide Model.Fs.
From Imdl Require Model.Summary.
Import ListNotations.
Local Open Scope N_scope.

(** ** torrents as the verifier sees them *)
Record tfile := { fpath : list bytes; flen : N; fmd5 : option bytes }.
Inductive mode := Single (len : N) (md5 : option bytes) | Multiple (files : list tfile).
Record torrent := { tname : bytes; tplen : N; tpieces : list bytes; tmode : mode }.

Definition files_of (t : torrent) : list tfile :=
  match tmode t with Single _ _ => [] | Multiple fs => fs end.

(** what [verify_metainfo] visits, in order: (absolute path, listed length, listed md5) *)
Record entry := { epath : bytes; elen : N; emd5 : option bytes }.

Definition entries (root : bytes) (t : torrent) : list entry :=
  match tmode t with
  | Single len md5 => [ {| epath := root; elen := len; emd5 := md5 |} ]
  | Multiple fs =>
      map (fun f => {| epath := absolute root (fpath f); elen := flen f; emd5 := fmd5 f |}) fs
  end.

(** ** loader *)
Definition in_range (lo hi b : N) : bool := (lo <=? b) && (b <=? hi).

(** [core::str::from_utf8] *)
Fixpoint utf8_ok (s : bytes) : bool :=
  match s with
  | [] => true
  | b0 :: r0 =>
    if b0 <? 128 then utf8_ok r0 else
    match r0 with
    | [] => false
    | b1 :: r1 =>
      if in_range 194 223 b0 then in_range 128 191 b1 && utf8_ok r1 else
      match r1 with
      | [] => false
      | b2 :: r2 =>
        if in_range 224 239 b0 then
          (if b0 =? 224 then in_range 160 191 b1
           else if b0 =? 237 then in_range 128 159 b1
           else in_range 128 191 b1)
          && in_range 128 191 b2 && utf8_ok r2
        else
        match r2 with
        | [] => false
        | b3 :: r3 =>
          if in_range 240 244 b0 then
            (if b0 =? 240 then in_range 144 191 b1
             else if b0 =? 244 then in_range 128 143 b1
             else in_range 128 191 b1)
            && in_range 128 191 b2 && in_range 128 191 b3 && utf8_ok r3
          else false
        end
      end
    end
  end.

Definition hexval (b : N) : option N :=
  if in_range 48 57 b then Some (b - 48)
  else if in_range 97 102 b then Some (b - 87)
  else if in_range 65 70 b then Some (b - 55)
  else None.

Fixpoint unhex (s : bytes) : option bytes :=
  match s with
  | [] => Some []
  | a :: b :: r =>
      match hexval a, hexval b, unhex r with
      | Some x, Some y, Some t => Some (16 * x + y :: t)
      | _, _, _ => None
      end
  | _ => None
  end.

Fixpoint mapM {A B : Type} (f : A -> option B) (l : list A) : option (list B) :=
  match l with
  | [] => Some []
  | a :: r => match f a, mapM f r with Some b, Some bs => Some (b :: bs) | _, _ => None end
  end.

Definition dlookup (k : bytes) (d : list (bytes * value)) : option value :=
  match find (fun kv => bytes_eqb (fst kv) k) d with Some kv => Some (snd kv) | None => None end.

(* dictionary keys *)
Definition K_info : bytes := [105;110;102;111].
Definition K_name : bytes := [110;97;109;101].
Definition K_piece_length : bytes := [112;105;101;99;101;32;108;101;110;103;116;104].
Definition K_pieces : bytes := [112;105;101;99;101;115].
Definition K_length : bytes := [108;101;110;103;116;104].
Definition K_files : bytes := [102;105;108;101;115].
Definition K_path : bytes := [112;97;116;104].
Definition K_md5sum : bytes := [109;100;53;115;117;109].

Definition load_u64 (v : value) : option N :=
  match v with Int z => if (0 <=? z)%Z then Some (Z.to_N z) else None | _ => None end.

Definition load_string (v : value) : option bytes :=
  match v with Str s => if utf8_ok s then Some s else None | _ => None end.

Definition load_md5 (v : value) : option bytes :=
  match v with Str s => if Nat.eqb (length s) 32 then unhex s else None | _ => None end.

(** an optional field read with `default, with = "unwrap_or_skip"` *)
Definition load_opt {A : Type} (f : value -> option A) (k : bytes) (d : list (bytes * value))
  : option (option A) :=
  match dlookup k d with
  | None => Some None
  | Some v => match f v with Some a => Some (Some a) | None => None end
  end.

(** the repaired [FilePath] deserialiser: a list of strings, each screened *)
Definition load_comp (v : value) : option bytes :=
  match load_string v with
  | Some s => if screen_comp s then Some s else None
  | None => None
  end.

Definition load_path (v : value) : option (list bytes) :=
  match v with Lst l => mapM load_comp l | _ => None end.

(** a file entry: a dictionary, or serde's sequence form of the struct read from buffered content -
    [length, path] or [length, path, md5sum] (X4: the real binary accepts `files: [[5, ["a"]]]`) *)
Definition load_file (v : value) : option tfile :=
  match v with
  | Dict d =>
      match dlookup K_length d, dlookup K_path d with
      | Some lv, Some pv =>
          match load_u64 lv, load_path pv, load_opt load_md5 K_md5sum d with
          | Some len, Some p, Some m => Some {| fpath := p; flen := len; fmd5 := m |}
          | _, _, _ => None
          end
      | _, _ => None
      end
  | Lst (lv :: pv :: rest) =>
      match load_u64 lv, load_path pv with
      | Some len, Some p =>
          match rest with
          | [] => Some {| fpath := p; flen := len; fmd5 := None |}
          | [mv] => match load_md5 mv with
                    | Some m => Some {| fpath := p; flen := len; fmd5 := Some m |}
                    | None => None
                    end
          | _ => None
          end
      | _, _ => None
      end
  | _ => None
  end.

Definition load_single (d : list (bytes * value)) : option mode :=
  match dlookup K_length d with
  | Some lv =>
      match load_u64 lv, load_opt load_md5 K_md5sum d with
      | Some len, Some m => Some (Single len m)
      | _, _ => None
      end
  | None => None
  end.

Definition load_multiple (d : list (bytes * value)) : option mode :=
  match dlookup K_files d with
  | Some (Lst l) => match mapM load_file l with Some fs => Some (Multiple fs) | None => None end
  | _ => None
  end.

(** `#[serde(untagged)]`: the first variant that deserialises wins *)
Definition load_mode (d : list (bytes * value)) : option mode :=
  match load_single d with Some m => Some m | None => load_multiple d end.

Definition load_pieces (v : value) : option (list bytes) :=
  match v with
  | Str s => if Nat.eqb (Nat.modulo (length s) 20) 0 then Some (chunks 20 s) else None
  | _ => None
  end.

Definition load_info (d : list (bytes * value)) : option torrent :=
  match dlookup K_name d, dlookup K_piece_length d, dlookup K_pieces d with
  | Some nv, Some plv, Some pv =>
      match load_string nv, load_u64 plv, load_pieces pv, load_mode d with
      | Some n, Some pl, Some ps, Some m =>
          Some {| tname := n; tplen := pl; tpieces := ps; tmode := m |}
      | _, _, _, _ => None
      end
  | _, _, _ => None
  end.

Definition load_value (v : value) : option torrent :=
  match v with
  | Dict d => match dlookup K_info d with Some (Dict i) => load_info i | _ => None end
  | _ => None
  end.

(** trailing bytes after the top-level value are ignored, as bendy's serde reader does; that reader does
    not range-check integer tokens ([wdecode]; X4: this used the strict [decode] and so refused a torrent
    whose `creation date` is 2^63, which the real `verify` accepts) *)
Definition load (tb : bytes) : option torrent :=
  match wdecode (fuel_for tb) tb with
  | Some (v, _) => load_value v
  | None => None
  end.

(** ** the typed loader, projected: what [Metainfo::from_input] hands the verifier *)
Definition md5_bytes (s : bytes) : bytes := match unhex s with Some b => b | None => [] end.

Definition project_file (f : Summary.file) : tfile :=
  {| fpath := Summary.f_path f; flen := Summary.f_length f; fmd5 := option_map md5_bytes (Summary.f_md5 f) |}.

Definition project_mode (m : Summary.mode) : mode :=
  match m with
  | Summary.Single n md5 => Single n (option_map md5_bytes md5)
  | Summary.Multiple fs => Multiple (map project_file fs)
  end.

Definition project (m : Summary.metainfo) : torrent :=
  {| tname := Summary.m_name m; tplen := Summary.m_piece_length m;
     tpieces := chunks 20 (Summary.m_pieces m); tmode := project_mode (Summary.m_mode m) |}.

(** [host_disp], [url_norm]: the url crate (Host::parse, Url::parse), as in Model/Summary.v *)
Definition load_typed (host_disp url_norm : bytes -> option bytes) (tb : bytes) : option torrent :=
  match Summary.from_input host_disp url_norm tb with
  | Some m => Some (project m)
  | None => None
  end.

(** ** exactly what the typed loader demands beyond the projection [load]: one named check per class of
    torrent that [load] accepts and [Metainfo::from_input] refuses (Proofs/LoaderProofs.v [typed_exact]) *)
Definition is_some {A : Type} (o : option A) : bool := match o with Some _ => true | None => false end.

Definition size_fits (t : torrent) : bool :=
  match tmode t with
  | Single _ _ => true
  | Multiple fs => is_some (Summary.checked_sum 0 (map flen fs))
  end.

Section Extras.
Variable host_disp : bytes -> option bytes.
Variable url_norm : bytes -> option bytes.

Definition x_depth (v : value) : bool := depth v <=? max_depth.
Definition x_skipped_i64 (v : value) : bool := Summary.skipped_i64 v.
Definition x_top_keys_utf8 (d : list (bytes * value)) : bool := Summary.keys_utf8 d.
Definition x_announce d : bool := is_some (Summary.opt Summary.as_string Summary.k_announce d).
Definition x_announce_list d : bool :=
  is_some (Summary.opt (Summary.as_list (Summary.as_list Summary.as_string)) Summary.k_announce_list d).
Definition x_comment d : bool := is_some (Summary.opt Summary.as_string Summary.k_comment d).
Definition x_created_by d : bool := is_some (Summary.opt Summary.as_string Summary.k_created_by d).
Definition x_creation_date d : bool := is_some (Summary.opt (Summary.as_uint 64) Summary.k_creation_date d).
Definition x_encoding d : bool := is_some (Summary.opt Summary.as_string Summary.k_encoding d).
Definition x_nodes d : bool :=
  is_some (Summary.opt (Summary.as_list (Summary.as_node host_disp)) Summary.k_nodes d).
Definition x_info_keys_utf8 (i : list (bytes * value)) : bool := Summary.keys_utf8 i.
Definition x_private i : bool := is_some (Summary.opt Summary.as_bool Summary.k_private i).
Definition x_piece_length_u64 i : bool := is_some (Summary.req (Summary.as_uint 64) Summary.k_piece_length i).
Definition x_source i : bool := is_some (Summary.opt Summary.as_string Summary.k_source i).
Definition x_update_url i : bool := is_some (Summary.opt (Summary.as_url url_norm) Summary.k_update_url i).

Definition typed_checks (d i : list (bytes * value)) : bool :=
  x_top_keys_utf8 d && x_announce d && x_announce_list d && x_comment d && x_created_by d &&
  x_creation_date d && x_encoding d && x_nodes d &&
  x_info_keys_utf8 i && x_private i && x_piece_length_u64 i && x_source i && x_update_url i.

Definition extras_value (v : value) : bool :=
  match v with
  | Dict d => match dlookup K_info d with
              | Some (Dict i) => x_depth v && x_skipped_i64 v && typed_checks d i
              | _ => false
              end
  | _ => false
  end.

Definition extras (tb : bytes) : bool :=
  match wdecode (fuel_for tb) tb with Some (v, _) => extras_value v | None => false end.
End Extras.

(** ** content root ([Verify::run]) *)
Inductive target := TStdin | TPath (p : bytes).

Definition content_root (content base : option bytes) (input : target) (name : bytes) : bytes :=
  match content with
  | Some c => c
  | None =>
      match base with
      | Some b => lexiclean (push b name)
      | None =>
          match input with
          | TPath p => lexiclean (push (push p [DOT; DOT]) name)
          | TStdin => name
          end
      end
  end.

(** clap: `--content` conflicts with `--base-directory`; empty values are refused *)
Definition args_ok (content base : option bytes) (input : target) : bool :=
  match content, base with
  | Some _, Some _ => false
  | _, _ =>
      negb (match content with Some [] => true | _ => false end) &&
      negb (match base with Some [] => true | _ => false end) &&
      negb (match input with TPath [] => true | _ => false end)
  end.

(** ** [Verifier::new] (with the repair) *)
Definition verifier_new (t : torrent) : option N :=
  if 2 ^ 32 <=? tplen t then None        (* as_piece_length: does not fit u32 *)
  else if tplen t =? 0 then None         (* fix: PieceLengthZero *)
  else Some (tplen t).

Inductive ferr := Missing | IsDirectory | Surfeit | Dearth | BadMd5.

Section Verify.
Variable H : bytes -> bytes.       (* SHA-1 *)
Variable MD5 : bytes -> bytes.
Variable sch : nat -> N.           (* how many bytes the i-th read returns, see [legal] *)
Variable host_disp : bytes -> option bytes.   (* url::Host::parse + Display, used by the typed loader only *)
Variable url_norm : bytes -> option bytes.    (* Url::parse + Display, used by the typed loader only *)

Definition blen (s : bytes) : N := N.of_nat (length s).

(** ** [Verifier::hash] *)
Record hst := { open_ : bytes; closed : list bytes }.
Definition hst0 : hst := {| open_ := []; closed := [] |}.

(** sha1.update(read); piece_bytes_hashed += n; flush when it equals piece_length *)
Definition feed (p : N) (st : hst) (blk : bytes) : hst :=
  let o := open_ st ++ blk in
  if blen o =? p then {| open_ := []; closed := closed st ++ [H o] |}
  else {| open_ := o; closed := closed st |}.

(** what `read` may return when offered a window of w bytes with n bytes left in the file:
    0 exactly when the window is empty or the file is exhausted, otherwise anything in 1..min *)
Definition legal (s w n : N) : N :=
  if (w =? 0) || (n =? 0) then 0 else 1 + s mod (N.min w n).

Fixpoint read_loop (fuel : nat) (p : N) (i : nat) (st : hst) (data : bytes) : option (hst * nat) :=
  match fuel with
  | O => None
  | S f =>
      let w := p - blen (open_ st) in
      let k := legal (sch i) w (blen data) in
      if k =? 0 then Some (st, S i)
      else let kn := N.to_nat k in
           read_loop f p (S i) (feed p st (firstn kn data)) (skipn kn data)
  end.

(** `self.hash(&path).ok()`: a path that does not open, or a directory (open succeeds, the
    first read fails), leaves the state as it was *)
Definition hash_path (fs : node) (p : N) (st : hst * nat) (path : bytes) : option (hst * nat) :=
  match resolve fs path with
  | Some (File c) => read_loop (S (length c)) p (snd st) (fst st) c
  | _ => Some st
  end.

Definition finish (st : hst) : list bytes :=
  match open_ st with [] => closed st | _ => closed st ++ [H (open_ st)] end.

(** ** [FileError::verify] (metadata follows the path; other I/O errors count as Missing) *)
Definition status (fs : node) (e : entry) : option ferr :=
  match resolve fs (epath e) with
  | None => Some Missing
  | Some (Dir _) => Some IsDirectory
  | Some (File c) =>
      let actual := blen c in
      if elen e <? actual then Some Surfeit
      else if actual <? elen e then Some Dearth
      else match emd5 e with
           | Some m => if bytes_eqb (MD5 c) m then None else Some BadMd5
           | None => None
           end
  end.

Definition is_good (s : option ferr) : bool := match s with None => true | Some _ => false end.

(** what the hasher sees of an entry *)
Definition content (fs : node) (e : entry) : bytes :=
  match resolve fs (epath e) with Some (File c) => c | _ => [] end.

(** ** [verify_metainfo]: one hashing state across all entries, a status per entry *)
Fixpoint run_entries (fs : node) (p : N) (st : hst * nat) (es : list entry)
  : option ((hst * nat) * list (option ferr)) :=
  match es with
  | [] => Some (st, [])
  | e :: r =>
      match hash_path fs p st (epath e) with
      | None => None
      | Some st1 =>
          let s := status fs e in
          match run_entries fs p st1 r with
          | Some (st2, ss) => Some (st2, s :: ss)
          | None => None
          end
      end
  end.

Fixpoint digests_eqb (a b : list bytes) : bool :=
  match a, b with
  | [], [] => true
  | x :: a', y :: b' => bytes_eqb x y && digests_eqb a' b'
  | _, _ => false
  end.

(** (pieces == stored, statuses) *)
Definition verify_metainfo (p : N) (fs : node) (root : bytes) (t : torrent)
  : option (bool * list (option ferr)) :=
  match run_entries fs p (hst0, O) (entries root t) with
  | Some (st, ss) => Some (digests_eqb (finish (fst st)) (tpieces t), ss)
  | None => None
  end.

(** [Status::good] *)
Definition status_good (s : bool * list (option ferr)) : bool := fst s && forallb is_good (snd s).

(** the verdict of the verifier proper; [None] only if the loop's fuel ran out (never) *)
Definition verify (fs : node) (root : bytes) (t : torrent) : option bool :=
  match verifier_new t with
  | None => Some false
  | Some p => match verify_metainfo p fs root t with
              | Some s => Some (status_good s)
              | None => None
              end
  end.

(** ** the declarative statement (C03): every visited path is a regular file of the listed
    length (and listed MD5 when present), and the files' concatenation cut at the piece
    length has exactly the listed hashes - as whole lists *)
Definition holds_file (fs : node) (e : entry) (c : bytes) : Prop :=
  resolve fs (epath e) = Some (File c) /\ blen c = elen e /\
  match emd5 e with Some m => MD5 c = m | None => True end.

Definition file_ok (fs : node) (e : entry) : Prop := exists c, holds_file fs e c.

Definition spec_good (p : N) (fs : node) (root : bytes) (t : torrent) : Prop :=
  exists cs, Forall2 (holds_file fs) (entries root t) cs /\
             map H (chunks (N.to_nat p) (concat cs)) = tpieces t.

(** ** the command: exit 0 / exit 1 after verifying / exit 1 before verifying *)
Inductive outcome := Success | Failed | Rejected.

Definition verify_cmd (fs : node) (cwd : bytes) (content base : option bytes) (input : target)
           (tb : bytes) : option outcome :=
  if negb (args_ok content base input) then Some Rejected else
  match load_typed host_disp url_norm tb with
  | None => Some Rejected
  | Some t =>
      match env_resolve cwd (content_root content base input (tname t)) with
      | None => Some Rejected
      | Some root =>
          match verifier_new t with
          | None => Some Rejected
          | Some p =>
              match verify_metainfo p fs root t with
              | Some s => Some (if status_good s then Success else Failed)
              | None => None
              end
          end
      end
  end.

End Verify.
