(** C17 / X9 — a concrete model of what [Model/HostPort.v] leaves to libraries. Definitions only.

    Mirrors, function by function,
      url 2.5.2 src/host.rs     [Host::parse] ([u_hparse]), [parse_ipv4addr] ([u_parse4]), [parse_ipv4number]
                                ([u_ipv4number]), [ends_in_a_number] ([u_ends_in_number]), [parse_ipv6addr]
                                ([u_parse6]), [write_ipv6] ([u_url6]), [longest_zero_sequence] ([u_longest_zero]);
      core::net::ip_addr.rs     `Display for Ipv4Addr` ([u_std4]) and `Display for Ipv6Addr` ([u_std6]: the IPv4-mapped
                                form `::ffff:a.b.c.d`, otherwise the first longest run of two or more zero groups
                                written as `::`, lower-case hex without leading zeros).

    Text is bytes. An IPv4 address is its u32, an IPv6 address its u128 (as in [hp_host]); the eight groups of an
    IPv6 address are [u_groups a], most significant first (`Ipv6Addr::segments`).

    THE FRAGMENT. [u_hparse t] has three outcomes:
      [None]            the text is outside the modelled fragment — nothing is claimed;
      [Some None]       `Host::parse` returns an error;
      [Some (Some h)]   `Host::parse` returns [h].
    Inside the fragment are: every text that starts with `[` (the bracket tests and the IPv6 parser work on bytes;
    any byte that is not a hex digit, `:` or `.` is an error there), and every text made of ASCII bytes only, with no
    `%` and with no label that starts with `xn--` in any letter case. On such a text `percent_decode` is the identity
    and idna 0.5.0 `domain_to_ascii` (the non-strict variant: no STD3 rules, no hyphen checks, no DNS length checks)
    does exactly one thing: it maps `A`..`Z` to lower case (UTS 46 table: 0x41..0x5A `mapped`, `-` `.` digits and
    lower-case letters `valid`, every other ASCII code point `disallowed_STD3_valid`, which is kept because
    `use_std3_ascii_rules` is off; NFC, the Bidi rule and the validity criteria are vacuous on ASCII labels without
    the punycode prefix). Outside the fragment (non-ASCII text, `%` escapes, `xn--` labels) IDNA / percent-decoding /
    punycode do real work, which is not modelled.

    Abstractions, stated: the parser's `pieces: [u16; 8]` with `piece_pointer` is the list of pieces written so far
    ([acc], `piece_pointer = length acc`; the array is zero-initialised and is only ever written at `piece_pointer`,
    so skipping a slot at `::` appends a 0); byte indices into the input are the remaining suffix; loops that are not
    structurally recursive carry explicit fuel (the length of the remaining input, one unit per iteration; each
    iteration consumes at least one byte; [Proofs/UrlHostProofs.v], [p6_loop_fuel], proves that the result does not
    depend on the fuel once it covers the text, so the fuel is never the reason for a rejection). *)
From Coq Require Import Decimal DecimalN DecimalFacts.
From Coq Require Import NArith ZArith Bool List.
From Imdl Require Import Model.Bencode Model.HostPort.
Import ListNotations.
Local Open Scope N_scope.

(* ------------------------------------------------------------------ bytes *)

Definition u_is_empty (s : bytes) : bool := match s with [] => true | _ => false end.

(** `char::to_digit(16)` of `input[i] as char` *)
Definition u_hexval (b : byte) : option N :=
  if hp_is_dig b then Some (b - 48)
  else if (97 <=? b) && (b <=? 102) then Some (b - 87)
  else if (65 <=? b) && (b <=? 70) then Some (b - 55)
  else None.

(** `str::split(c)`: always at least one part *)
Fixpoint u_split (c : byte) (s : bytes) : list bytes :=
  match s with
  | [] => [[]]
  | b :: r =>
      if b =? c then [] :: u_split c r
      else match u_split c r with
           | p :: ps => (b :: p) :: ps
           | [] => [[b]]
           end
  end.

(** the last byte is [c]: the text without it *)
Definition u_strip_last (c : byte) (s : bytes) : option bytes :=
  match rev s with
  | b :: ri => if b =? c then Some (rev ri) else None
  | [] => None
  end.

(* ------------------------------------------------------------------ printing *)

Definition u_digit (d : N) : byte := 48 + d.
Definition u_hexdigit (d : N) : byte := if d <? 10 then 48 + d else 87 + d.

(** `Display for u8` *)
Definition u_dec_octet (o : N) : bytes :=
  if o <? 10 then [u_digit o]
  else if o <? 100 then [u_digit (o / 10); u_digit (o mod 10)]
  else [u_digit (o / 100); u_digit (o / 10 mod 10); u_digit (o mod 10)].

(** `{:x}` of a u16 *)
Definition u_hex (g : N) : bytes :=
  if g <? 16 then [u_hexdigit g]
  else if g <? 256 then [u_hexdigit (g / 16); u_hexdigit (g mod 16)]
  else if g <? 4096 then [u_hexdigit (g / 256); u_hexdigit (g / 16 mod 16); u_hexdigit (g mod 16)]
  else [u_hexdigit (g / 4096 mod 16); u_hexdigit (g / 256 mod 16); u_hexdigit (g / 16 mod 16); u_hexdigit (g mod 16)].

(** `Display for Ipv4Addr`: "{}.{}.{}.{}" of the octets *)
Definition u_std4 (a : N) : bytes :=
  u_dec_octet (a / 16777216 mod 256) ++ 46 :: u_dec_octet (a / 65536 mod 256) ++ 46 ::
  u_dec_octet (a / 256 mod 256) ++ 46 :: u_dec_octet (a mod 256).

(** `Ipv6Addr::segments`: [k] groups of 16 bits, most significant first *)
Fixpoint u_groups_n (k : nat) (a : N) : list N :=
  match k with
  | O => []
  | S k' => u_groups_n k' (a / 65536) ++ [a mod 65536]
  end.
Definition u_groups (a : N) : list N := u_groups_n 8 a.
Definition u_of_groups (gs : list N) : N := fold_left (fun acc g => acc * 65536 + g) gs 0.

(** std `fmt_subslice`: groups separated by `:` *)
Definition u_join (gs : list N) : bytes :=
  match gs with
  | [] => []
  | g :: tail => u_hex g ++ flat_map (fun x => 58 :: u_hex x) tail
  end.

(** url `longest_zero_sequence`: the `finish_sequence!` macro, then the scan with its three variables *)
Definition u_lz_finish (longest ll start e : Z) : Z * Z :=
  if (0 <=? start)%Z then
    (let len := (e - start)%Z in if (ll <? len)%Z then (start, len) else (longest, ll))
  else (longest, ll).

Fixpoint u_lz_scan (zs : list bool) (i : Z) (longest ll start : Z) : Z * Z * Z :=
  match zs with
  | [] => (longest, ll, start)
  | z :: r =>
      if z then u_lz_scan r (i + 1)%Z longest ll (if (start <? 0)%Z then i else start)
      else let '(lo, l) := u_lz_finish longest ll start i in u_lz_scan r (i + 1)%Z lo l (-1)%Z
  end.

Definition u_longest_zero_b (zs : list bool) : Z * Z :=
  let '(lo, l, start) := u_lz_scan zs 0%Z (-1)%Z (-1)%Z (-1)%Z in
  let '(lo, l) := u_lz_finish lo l start 8%Z in
  if (l <? 2)%Z then ((-1)%Z, (-2)%Z) else (lo, (lo + l)%Z).

Definition u_longest_zero (gs : list N) : Z * Z := u_longest_zero_b (map (N.eqb 0) gs).

(** url `write_ipv6`: the `while i < 8` loop ([fuel] = 9 iterations at most, [i] grows every time) *)
Fixpoint u_write6 (fuel : nat) (gs : list N) (cs ce i : Z) : bytes :=
  match fuel with
  | O => []
  | S f =>
      if (i <? 8)%Z then
        if (i =? cs)%Z then
          58 :: (if (i =? 0)%Z then [58] else []) ++
          (if (ce <? 8)%Z then
             u_hex (nth (Z.to_nat ce) gs 0) ++ (if (ce <? 7)%Z then [58] else []) ++ u_write6 f gs cs ce (ce + 1)%Z
           else [])
        else u_hex (nth (Z.to_nat i) gs 0) ++ (if (i <? 7)%Z then [58] else []) ++ u_write6 f gs cs ce (i + 1)%Z
      else []
  end.

Definition u_url6_groups (gs : list N) : bytes :=
  let '(cs, ce) := u_longest_zero gs in u_write6 9 gs cs ce 0%Z.
Definition u_url6 (a : N) : bytes := u_url6_groups (u_groups a).

(** std `Display for Ipv6Addr`: the span scan (`longest`, `current` as (start, len)) *)
Fixpoint u_span_scan (zs : list bool) (i : nat) (longest current : nat * nat) : nat * nat :=
  match zs with
  | [] => longest
  | z :: r =>
      if z then
        let cur := (if Nat.eqb (snd current) 0 then i else fst current, S (snd current)) in
        u_span_scan r (S i) (if Nat.ltb (snd longest) (snd cur) then cur else longest) cur
      else u_span_scan r (S i) longest (O, O)
  end.

Definition u_span_b (zs : list bool) : nat * nat := u_span_scan zs O (O, O) (O, O).

Definition u_std6_groups (gs : list N) : bytes :=
  let '(st, len) := u_span_b (map (N.eqb 0) gs) in
  if Nat.ltb 1 len then u_join (firstn st gs) ++ 58 :: 58 :: u_join (skipn (st + len) gs)
  else u_join gs.

(** `to_ipv4_mapped`: 0:0:0:0:0:ffff:x:y *)
Definition u_is_mapped (a : N) : bool := a / 4294967296 =? 65535.

Definition u_std6 (a : N) : bytes :=
  if u_is_mapped a then [58; 58; 102; 102; 102; 102; 58] ++ u_std4 (a mod 4294967296)
  else u_std6_groups (u_groups a).

(* ------------------------------------------------------------------ IPv4 parsing *)

Definition u_radix_digit (r : N) (b : byte) : option N :=
  match u_hexval b with
  | Some d => if d <? r then Some d else None
  | None => None
  end.

(** the validity test followed by `u32::from_str_radix`, without the overflow test *)
Fixpoint u_radix_val (r acc : N) (s : bytes) : option N :=
  match s with
  | [] => Some acc
  | b :: t => match u_radix_digit r b with
              | Some d => u_radix_val r (acc * r + d) t
              | None => None
              end
  end.

(** `parse_ipv4number`: [None] = Err(()), [Some None] = a valid number that overflows u32 *)
Definition u_ipv4number (s : bytes) : option (option N) :=
  match s with
  | [] => None
  | _ =>
    let '(r, body) :=
      match hd_is 48 s with
      | Some (x :: t) => if (x =? 120) || (x =? 88) then (16, t) else (8, x :: t)
      | _ => (10, s)
      end in
    match body with
    | [] => Some (Some 0)
    | _ => match u_radix_val r 0 body with
           | None => None
           | Some v => Some (if v <=? 4294967295 then Some v else None)
           end
    end
  end.

(** `ends_in_a_number` *)
Definition u_ends_in_number (s : bytes) : bool :=
  match rev (u_split 46 s) with
  | [] => false
  | last :: more =>
      let pick := match last with
                  | [] => match more with l2 :: _ => Some l2 | [] => None end
                  | _ => Some last
                  end in
      match pick with
      | None => false
      | Some l =>
          if negb (u_is_empty l) && forallb hp_is_dig l then true
          else match u_ipv4number l with Some _ => true | None => false end
      end
  end.

Fixpoint u_numbers (parts : list bytes) : option (list N) :=
  match parts with
  | [] => Some []
  | p :: ps => match u_ipv4number p with
               | Some (Some n) => match u_numbers ps with Some ns => Some (n :: ns) | None => None end
               | _ => None
               end
  end.

(** `ipv4 += n << (8 * (3 - counter))` over the numbers before the last *)
Fixpoint u_shift_sum (front : list N) (counter : N) : N :=
  match front with
  | [] => 0
  | n :: r => n * 2 ^ (8 * (3 - counter)) + u_shift_sum r (counter + 1)
  end.

(** `parse_ipv4addr`. (On the empty text the crate panics at `expect`; `Host::parse` never calls it there — the empty
    domain is refused first — and the model answers [None].) *)
Definition u_parse4 (s : bytes) : option N :=
  let parts := u_split 46 s in
  let parts := match rev parts with
               | [] :: more => rev more
               | _ => parts
               end in
  if (4 <? length parts)%nat then None else
  match u_numbers parts with
  | None => None
  | Some nums =>
      match rev nums with
      | [] => None
      | last :: front_rev =>
          let front := rev front_rev in
          if 4294967295 / 2 ^ (8 * N.of_nat (length front)) <? last then None
          else if existsb (fun x => 255 <? x) front then None
          else Some (last + u_shift_sum front 0)
      end
  end.

(* ------------------------------------------------------------------ IPv6 parsing *)

(** the inner `while i < end`: at most [n] hex digits; value, number of digits read, what is left *)
Fixpoint u_read_hex (n : nat) (s : bytes) (v : N) (cnt : nat) : N * nat * bytes :=
  match n with
  | O => (v, cnt, s)
  | S n' =>
      match s with
      | [] => (v, cnt, s)
      | c :: r => match u_hexval c with
                  | Some d => u_read_hex n' r (v * 16 + d) (S cnt)
                  | None => (v, cnt, s)
                  end
      end
  end.

(** one number of the embedded IPv4 tail: [None] = error (a digit after a leading 0, or above 255) *)
Fixpoint u_p6_dec (s : bytes) (cur : option N) : option (option N * bytes) :=
  match s with
  | [] => Some (cur, [])
  | c :: r =>
      if hp_is_dig c then
        match cur with
        | None => u_p6_dec r (Some (c - 48))
        | Some v => if v =? 0 then None
                    else let v' := v * 10 + (c - 48) in if 255 <? v' then None else u_p6_dec r (Some v')
        end
      else Some (cur, s)
  end.

(** the `while i < len` loop of the IPv4 tail, [k] numbers still to come ([first] = `numbers_seen == 0`) *)
Fixpoint u_p6_v4 (k : nat) (first : bool) (s : bytes) : option (list N) :=
  match k with
  | O => match s with [] => Some [] | _ => None end          (* a fifth number, or anything else, is an error *)
  | S k' =>
      match s with
      | [] => None                                            (* numbers_seen != 4 *)
      | _ =>
          match (if first then Some s else hd_is 46 s) with
          | None => None
          | Some s1 =>
              match u_p6_dec s1 None with
              | Some (Some v, rest) =>
                  match u_p6_v4 k' false rest with Some vs => Some (v :: vs) | None => None end
              | _ => None
              end
          end
      end
  end.

(** the main `while i < len` loop; result: the pieces written and the compress pointer *)
Fixpoint u_p6_loop (fuel : nat) (s : bytes) (acc : list N) (comp : option nat) : option (list N * option nat) :=
  match s with
  | [] => Some (acc, comp)
  | c :: r =>
      match fuel with
      | O => None
      | S f =>
          if Nat.eqb (length acc) 8 then None
          else if c =? 58 then
            match comp with
            | Some _ => None
            | None => u_p6_loop f r (acc ++ [0]) (Some (S (length acc)))
            end
          else
            let '(v, cnt, rest) := u_read_hex 4 s 0 O in
            match rest with
            | [] => Some (acc ++ [v], comp)
            | d :: rest' =>
                if d =? 46 then
                  if Nat.eqb cnt 0 then None
                  else if Nat.ltb 6 (length acc) then None
                  else match u_p6_v4 4 true s with           (* i = start; is_ipv4 *)
                       | Some [n0; n1; n2; n3] => Some (acc ++ [n0 * 256 + n1; n2 * 256 + n3], comp)
                       | _ => None
                       end
                else if d =? 58 then
                  match rest' with
                  | [] => None
                  | _ => u_p6_loop f rest' (acc ++ [v]) comp
                  end
                else None
            end
      end
  end.

Definition u_pad8 (l : list N) : list N := l ++ repeat 0 (8 - length l)%nat.

Fixpoint u_set_nth (i : nat) (x : N) (l : list N) : list N :=
  match l with
  | [] => []
  | y :: r => match i with O => x :: r | S i' => y :: u_set_nth i' x r end
  end.

Definition u_swap (l : list N) (i j : nat) : list N :=
  u_set_nth i (nth j l 0) (u_set_nth j (nth i l 0) l).

(** the `while swaps > 0` loop *)
Fixpoint u_swap_loop (swaps pp cp : nat) (l : list N) : list N :=
  match swaps with
  | O => l
  | S k => u_swap_loop k (pp - 1)%nat cp (u_swap l pp (cp + swaps - 1)%nat)
  end.

Definition u_p6_finish (r : list N * option nat) : option (list N) :=
  let '(acc, comp) := r in
  match comp with
  | Some cp => Some (u_swap_loop (length acc - cp)%nat 7%nat cp (u_pad8 acc))
  | None => if Nat.eqb (length acc) 8 then Some acc else None
  end.

Definition u_parse6_groups (s : bytes) : option (list N) :=
  match s with
  | c0 :: c1 :: r =>
      let start := if c0 =? 58 then (if c1 =? 58 then Some (r, [0], Some 1%nat) else None)
                   else Some (s, [], None) in
      match start with
      | None => None
      | Some (s', acc, comp) =>
          match u_p6_loop (length s') s' acc comp with
          | Some res => u_p6_finish res
          | None => None
          end
      end
  | _ => None                                                 (* len < 2 *)
  end.

Definition u_parse6 (s : bytes) : option N := option_map u_of_groups (u_parse6_groups s).

(* ------------------------------------------------------------------ Host::parse on the fragment *)

Definition u_lower (b : byte) : byte := if (65 <=? b) && (b <=? 90) then b + 32 else b.

(** `is_invalid_domain_char` *)
Definition u_invalid_domain_char (b : byte) : bool := hp_forbidden b || (b =? 37).

Definition u_puny_label (l : bytes) : bool :=
  match l with
  | a :: b :: c :: d :: _ => (a =? 120) && (b =? 110) && (c =? 45) && (d =? 45)
  | _ => false
  end.

(** the text is ASCII without `%`, and no label of its lower-cased form starts with `xn--` *)
Definition u_in_fragment (t : bytes) : bool :=
  forallb (fun b => b <? 128) t && negb (hp_mem 37 t) && negb (existsb u_puny_label (u_split 46 (map u_lower t))).

Definition u_hparse (t : bytes) : option (option hp_host) :=
  match hd_is 91 t with
  | Some r =>
      Some (match u_strip_last 93 r with
            | Some inner => option_map HIp6 (u_parse6 inner)
            | None => None
            end)
  | None =>
      if u_in_fragment t then
        let d := map u_lower t in
        Some (if u_is_empty d then None
              else if existsb u_invalid_domain_char d then None
              else if u_ends_in_number d then option_map HIp4 (u_parse4 d)
              else Some (HDomain d))
      else None
  end.

(** a total host parser: the model inside the fragment, [ext] (whatever the library does) outside *)
Definition u_hparse_with (ext : bytes -> option hp_host) (t : bytes) : option hp_host :=
  match u_hparse t with
  | Some r => r
  | None => ext t
  end.

Definition u_no_ext (_ : bytes) : option hp_host := None.

(** the regex class `\d+` on ASCII text; non-ASCII decimal digits are refused here (they never make a port: the
    `u16` parse refuses them), so this is the regex class only up to inputs that are rejected either way *)
Definition u_ascii_nd (p : bytes) : bool := negb (u_is_empty p) && forallb hp_is_dig p.
