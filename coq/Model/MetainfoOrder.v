(** The order in which a directory's files reach the metainfo (C05, reproducibility part).
    Definitions only. `FilePath` derives `Ord` on its `Vec<String>`: lexicographic over the
    components, each compared as a byte string; the walker sorts by it (default `path:ascending`;
    selection of files and the other sort keys are C06's). [walk_order] is that sort, written
    as an insertion sort so that it is a function of the *set* of entries. *)
From Coq Require Import NArith Bool List.
From Imdl Require Import Model.Bencode Model.Metainfo.
Import ListNotations.
Local Open Scope N_scope.

Section Lex.
  Context {A : Type} (ltb : A -> A -> bool).
  (** derived `Ord` of a Vec: first difference decides, a proper prefix is smaller *)
  Fixpoint lex_ltb (a b : list A) : bool :=
    match a, b with
    | [], [] => false
    | [], _ :: _ => true
    | _ :: _, [] => false
    | x :: a', y :: b' => if ltb x y then true else if ltb y x then false else lex_ltb a' b'
    end.
End Lex.

Definition path_ltb : list bytes -> list bytes -> bool := lex_ltb bytes_ltb.

Fixpoint insert_file (f : file) (l : list file) : list file :=
  match l with
  | [] => [f]
  | g :: r => if path_ltb (f_path g) (f_path f) then g :: insert_file f r else f :: l
  end.

Definition walk_order (l : list file) : list file := fold_right insert_file [] l.

(** a directory input as create sees it: the entries in walker order, hashed in that order
    ([hash] stands for the hasher, C01) *)
Definition dir_content (hash : list file -> bytes) (name : bytes) (entries : list file) : content :=
  {| c_input := InDir name (walk_order entries); c_pieces := hash (walk_order entries) |}.
