(** Model of the filesystem effects of `imdl torrent create` (C09). Definitions only.

    Order of effects in src/subcommand/torrent/create.rs `Create::run`, top to bottom
    (E… = the failure position used in [outcome]):

      0. clap has parsed the command line (bad option value, missing/conflicting
         arguments are refused before `run` is entered)                         EClap
      1. xor_args(input_positional, input_flag)                                 (clap guarantees it)
      2. every `--announce-tier` URL is parsed                                  ETier
      3. private && no announce && lint denied                                  EPrivate
      4. creation date (SystemTime::now)                                        -
      5. CreateContent::from_create  (create/create_content.rs)
           path input:  env.resolve(input)        = lexiclean(dir.join(input))
                        Walker::globs             bad glob                      EGlob
                        Walker::files             symlink_metadata(root) fails  EInput
                                                  root is a symlink, no -F      ESymlinkRoot
                                                  metadata(root) fails          EInput
                                                  root is a directory: any walk
                                                  error, undecodable component  EWalk
                        resolved.file_name()      none                          ENameExtract
                        name = --name, else file name .to_str()                 ENameDecode
                        check_name(name): FilePath::is_normal_component, i.e.
                          exactly one normal path component (not empty, not `.`,
                          not `..`, no separator)                               ENameInvalid
                        output = --output, else torrent_path(input, name)
                               = input.join("..").lexiclean().join("{name}.torrent")
           stdin input: name is required by clap                                EInternal
                        check_name(name)                                        ENameInvalid
                        output is required by clap                              EInternal
      6. output.resolve(env)   = lexiclean(dir.join(output)) for a path target
      7. piece length 0                                                          EZero
      8. not a power of two, lint denied                                         EUneven
      9. below 16 KiB, lint denied                                               ESmall
     10. path target: if path.is_dir() then path.push("{name}.torrent")
     11.              if !force && path.exists()                                 EExists
     12. Hasher::new: piece length does not fit u32                              ETooLarge
     13. hash_files / hash_stdin: open or read error                             ERead
     14. metainfo.serialize()                                                    ESerialize
     15. unless --dry-run:
           path target: OpenOptions: force ? write+create+truncate : write+create_new;
                        open fails                                              EOpen
                        write_all fails (file exists, possibly partial)         EWriteIO
           stdout:      write_all to stdout fails                               EStdout
     16. "Done" message, --show, --link (stdout), --open (opener)                EPost

    The ONLY filesystem mutation is step 15. Everything before it reads. In particular the
    name check of step 5 (both branches) precedes hashing and the write.

    Filesystem: association list from clean absolute paths (component lists, relative to
    the sandbox root []) to nodes; first match wins; [update] conses. System calls resolve
    a possibly unclean component list the way the kernel does ([kres]): left to right,
    `..` = parent of the directory reached, intermediate symlinks expanded (targets are
    absolute), ENOENT/ENOTDIR in the middle, the final symlink followed or not.
    Fuel exhaustion = ELOOP/ENAMETOOLONG (an error result), so no theorem depends on fuel. *)
From Coq Require Import NArith List Bool.
Import ListNotations.
Local Open Scope N_scope.

Notation comp := (list N) (only parsing).
Notation path := (list (list N)) (only parsing).

(* ---------- equality on byte strings and paths ---------- *)
Fixpoint list_eqb {A} (eqb : A -> A -> bool) (a b : list A) : bool :=
  match a, b with
  | [], [] => true
  | x :: a', y :: b' => eqb x y && list_eqb eqb a' b'
  | _, _ => false
  end.
Definition bytes_eqb (a b : comp) : bool := list_eqb N.eqb a b.
Definition path_eqb (a b : path) : bool := list_eqb bytes_eqb a b.

Definition is_dotdot (c : comp) : bool := bytes_eqb c [46; 46].
Definition is_dot (c : comp) : bool := bytes_eqb c [46].
Definition is_nil {A} (l : list A) : bool := match l with [] => true | _ => false end.

(* ---------- filesystem ---------- *)
Inductive node := NFile (b : list N) | NDir | NLink (t : path).
Definition fsT := list (path * node).

Fixpoint lookup (fs : fsT) (p : path) : option node :=
  match fs with
  | [] => None
  | (q, n) :: r => if path_eqb q p then Some n else lookup r p
  end.
Definition update (fs : fsT) (p : path) (n : node) : fsT := (p, n) :: fs.

Inductive kresult := RNode (q : path) (n : node) | RAbsent (q : path) | RErr.

(** kernel path resolution from directory [cur] (already resolved) over components [p] *)
Fixpoint kres (fuel : nat) (fs : fsT) (c_follow : bool) (cur : path) (p : path) : kresult :=
  match fuel with
  | O => RErr
  | S k =>
    match p with
    | [] => match cur with
            | [] => RNode [] NDir
            | _ => match lookup fs cur with Some n => RNode cur n | None => RAbsent cur end
            end
    | c :: r =>
      if is_dotdot c then kres k fs c_follow (removelast cur) r
      else
        let q := cur ++ [c] in
        match lookup fs q with
        | Some (NLink t) =>
            if is_nil r && negb c_follow then RNode q (NLink t) else kres k fs c_follow [] (t ++ r)
        | Some NDir => kres k fs c_follow q r
        | Some (NFile b) => if is_nil r then RNode q (NFile b) else RErr
        | None => if is_nil r then RAbsent q else RErr
        end
    end
  end.

Definition FUEL : nat := 400.
Definition sys_stat (fs : fsT) (p : path) : kresult := kres FUEL fs true [] p.
Definition sys_lstat (fs : fsT) (p : path) : kresult := kres FUEL fs false [] p.

(** std::path::Path::is_dir / exists (both follow symlinks; any error = false) *)
Definition path_is_dir (fs : fsT) (p : path) : bool :=
  match sys_stat fs p with RNode _ NDir => true | _ => false end.
Definition path_exists (fs : fsT) (p : path) : bool :=
  match sys_stat fs p with RNode _ _ => true | _ => false end.

(** open(O_WRONLY|O_CREAT|O_EXCL): never follows the final symlink, fails on anything present *)
Definition open_excl (fs : fsT) (p : path) : option path :=
  match sys_lstat fs p with RAbsent q => Some q | _ => None end.
(** open(O_WRONLY|O_CREAT|O_TRUNC): follows symlinks; the regular file that is (re)written *)
Definition open_trunc (fs : fsT) (p : path) : option path :=
  match sys_stat fs p with
  | RAbsent q => Some q
  | RNode q (NFile _) => Some q
  | _ => None
  end.

(* ---------- std::path, lexiclean, Env::resolve ---------- *)
Record ppath := { p_abs : bool; p_comps : path }.

Fixpoint split_slash (s : list N) (cur : list N) : path :=
  match s with
  | [] => [rev cur]
  | b :: r => if b =? 47 then rev cur :: split_slash r [] else split_slash r (b :: cur)
  end.

(** Path::components(): repeated separators and `.` disappear (a leading `.` of a relative
    path is a CurDir component that lexiclean and join-under-an-absolute-directory drop) *)
Definition parse_path (s : list N) : ppath :=
  {| p_abs := match s with b :: _ => b =? 47 | [] => false end;
     p_comps := filter (fun c => negb (is_nil c) && negb (is_dot c)) (split_slash s []) |}.

Definition join (a b : ppath) : ppath :=
  if p_abs b then b else {| p_abs := p_abs a; p_comps := p_comps a ++ p_comps b |}.

(** lexiclean 0.0.1: a stack (kept reversed); `..` pops a normal component, is pushed on an
    empty stack or on `..`, and is dropped at the root of an absolute path *)
Definition clean_step (abs : bool) (st : path) (c : comp) : path :=
  if is_dotdot c then
    match st with
    | [] => if abs then [] else [c]
    | l :: r => if is_dotdot l then c :: st else r
    end
  else c :: st.
Definition clean_run (abs : bool) (st : path) (l : path) : path := fold_left (clean_step abs) l st.
Definition lexiclean (p : ppath) : ppath :=
  {| p_abs := p_abs p; p_comps := rev (clean_run (p_abs p) [] (p_comps p)) |}.

Definition dir_of (c_cwd : path) : ppath := {| p_abs := true; p_comps := c_cwd |}.
(** Env::resolve: self.dir().join(path).lexiclean(); the result is absolute *)
Definition env_resolve (c_cwd : path) (p : ppath) : path := p_comps (lexiclean (join (dir_of c_cwd) p)).

Definition dot_torrent : list N := [46; 116; 111; 114; 114; 101; 110; 116].
Definition name_torrent (c_name : list N) : list N := c_name ++ dot_torrent.
Definition dotdot_path : ppath := {| p_abs := false; p_comps := [[46; 46]] |}.

(** CreateContent::torrent_path *)
Definition torrent_path (c_input : ppath) (c_name : list N) : ppath :=
  join (lexiclean (join c_input dotdot_path)) (parse_path (name_torrent c_name)).

(** PathBuf::push of a string onto an already resolved path (absolute argument replaces) *)
Definition push_str (p : path) (s : list N) : path :=
  let q := parse_path s in if p_abs q then p_comps q else p ++ p_comps q.

(** FilePath::is_normal_component (src/file_path.rs), used by CreateContent::check_name:
    `Path::new(s).components()` yields exactly one component, it is `Normal`, and it is the whole
    string. On Unix: s is not empty, not `.`, not `..`, and holds no `/`. *)
Definition no_sep (s : list N) : bool := forallb (fun b => negb (b =? 47)) s.
Definition name_ok (s : list N) : bool :=
  negb (is_nil s) && negb (is_dot s) && negb (is_dotdot s) && no_sep s.

(* ---------- configuration ---------- *)
Inductive otarget := OStdout | OPath (p : list N).

Record cfg := {
  c_cwd : path;                        (* Env::dir, relative to the sandbox root *)
  c_input : option (list N);           (* None = `-` (stdin); Some text = the path argument *)
  c_output : option otarget;           (* --output *)
  c_name : option (list N);            (* --name *)
  c_force : bool;
  c_dry_run : bool;
  c_follow : bool;                     (* --follow-symlinks *)
  c_piece_length : N;                  (* --piece-length, or the picked / default one *)
  c_allow_uneven : bool;
  c_allow_small : bool;
  c_torrent : list N;                  (* the serialised metainfo (abstract here) *)
  (* failure causes that are not functions of the modelled state, each consulted at its position *)
  f_clap : bool; f_tier : bool; f_private : bool; f_glob : bool; f_walk : bool;
  f_name_decode : bool; f_read : bool; f_serialize : bool; f_write_io : bool;
  f_stdout : bool; f_post : bool
}.

Inductive stage :=
  EClap | ETier | EPrivate | EGlob | EInput | ESymlinkRoot | EWalk | ENameExtract | ENameDecode
| ENameInvalid | EInternal | EZero | EUneven | ESmall | EExists | ETooLarge | ERead | ESerialize | EOpen | EWriteIO
| EStdout | EPost.
Inductive outcome := CSuccess | CFail (e : stage).

Inductive rtarget := TStdout | TPath (p : path).

(** step 5: name and (unresolved) output target *)
Definition from_create (c : cfg) (fs : fsT) : stage + (list N * option ppath) :=
  match c_input c with
  | Some itext =>
    let ip := parse_path itext in
    let root := env_resolve (c_cwd c) ip in
    if f_glob c then inl EGlob else
    match sys_lstat fs root with
    | RErr | RAbsent _ => inl EInput
    | RNode _ ln =>
      if (match ln with NLink _ => negb (c_follow c) | _ => false end) then inl ESymlinkRoot else
      match sys_stat fs root with
      | RErr | RAbsent _ => inl EInput
      | RNode _ n =>
        if (match n with NDir => f_walk c | _ => false end) then inl EWalk else
        match rev root with
        | [] => inl ENameExtract
        | fname :: _ =>
          match (match c_name c with
                 | Some n => inr n
                 | None => if f_name_decode c then inl ENameDecode else inr fname
                 end) with
          | inl e => inl e
          | inr nm =>
            if negb (name_ok nm) then inl ENameInvalid else
            inr (nm, match c_output c with
                     | Some OStdout => None
                     | Some (OPath t) => Some (parse_path t)
                     | None => Some (torrent_path ip nm)
                     end)
          end
        end
      end
    end
  | None =>
    match c_name c with
    | None => inl EInternal
    | Some nm =>
      if negb (name_ok nm) then inl ENameInvalid else
      match c_output c with
      | Some OStdout => inr (nm, None)
      | Some (OPath t) => inr (nm, Some (parse_path t))
      | None => inl EInternal
      end
    end
  end.

(** step 10: the path that will be opened (independent of lints and of --force) *)
Definition final_target (c : cfg) (fs : fsT) : stage + (list N * rtarget) :=
  match from_create c fs with
  | inl e => inl e
  | inr (nm, None) => inr (nm, TStdout)
  | inr (nm, Some o) =>
    let p := env_resolve (c_cwd c) o in
    inr (nm, TPath (if path_is_dir fs p then push_str p (name_torrent nm) else p))
  end.

Definition out_path (c : cfg) (fs : fsT) : option path :=
  match final_target c fs with inr (_, TPath p) => Some p | _ => None end.

Definition is_pow2 (n : N) : bool := (0 <? n) && (2 ^ N.log2 n =? n).

(** the write, step 15 *)
Definition do_write (c : cfg) (fs : fsT) (t : rtarget) : fsT * option stage :=
  match t with
  | TStdout => (fs, if f_stdout c then Some EStdout else None)
  | TPath p =>
    match (if c_force c then open_trunc fs p else open_excl fs p) with
    | None => (fs, Some EOpen)
    | Some q => if f_write_io c then (update fs q (NFile []), Some EWriteIO)
                else (update fs q (NFile (c_torrent c)), None)
    end
  end.

Definition create_fx (c : cfg) (fs : fsT) : fsT * outcome :=
  if f_clap c then (fs, CFail EClap) else
  if f_tier c then (fs, CFail ETier) else
  if f_private c then (fs, CFail EPrivate) else
  match final_target c fs with
  | inl e => (fs, CFail e)
  | inr (nm, t) =>
    if c_piece_length c =? 0 then (fs, CFail EZero) else
    if negb (c_allow_uneven c) && negb (is_pow2 (c_piece_length c)) then (fs, CFail EUneven) else
    if negb (c_allow_small c) && (c_piece_length c <? 16384) then (fs, CFail ESmall) else
    if (match t with TPath p => negb (c_force c) && path_exists fs p | TStdout => false end)
    then (fs, CFail EExists) else
    if 4294967295 <? c_piece_length c then (fs, CFail ETooLarge) else
    if f_read c then (fs, CFail ERead) else
    if f_serialize c then (fs, CFail ESerialize) else
    let '(fs1, werr) := if c_dry_run c then (fs, None) else do_write c fs t in
    match werr with
    | Some e => (fs1, CFail e)
    | None => if f_post c then (fs1, CFail EPost) else (fs1, CSuccess)
    end
  end.

(** `torrent verify`, `torrent show`, `torrent link`: fs::read of the metainfo, then (verify
    only) metadata + open-for-read of each content file. No mutation anywhere. *)
Inductive ro_cmd := RoVerify | RoShow | RoLink.
Definition readable (fs : fsT) (p : path) : bool :=
  match sys_stat fs p with RNode _ (NFile _) => true | _ => false end.
Definition readonly_fx (k : ro_cmd) (metainfo : path) (content : list path) (good : bool) (fs : fsT)
  : fsT * outcome :=
  if negb (readable fs metainfo) then (fs, CFail EInput) else
  match k with
  | RoVerify => (fs, if forallb (readable fs) content && good then CSuccess else CFail ERead)
  | RoShow | RoLink => (fs, if good then CSuccess else CFail ERead)
  end.

(** the fs_delta between two filesystems over the paths either mentions (for the driver) *)
Definition node_eqb (a b : option node) : bool :=
  match a, b with
  | None, None => true
  | Some NDir, Some NDir => true
  | Some (NFile x), Some (NFile y) => bytes_eqb x y
  | Some (NLink x), Some (NLink y) => path_eqb x y
  | _, _ => false
  end.
Fixpoint dedup (l : list path) : list path :=
  match l with
  | [] => []
  | p :: r => if existsb (path_eqb p) r then dedup r else p :: dedup r
  end.
Definition fs_delta (fs fs' : fsT) : list (path * option node) :=
  let ps := map fst fs' ++ map fst fs in
  map (fun p => (p, lookup fs' p))
      (dedup (filter (fun p => negb (node_eqb (lookup fs p) (lookup fs' p))) ps)).
