(** Proofs for C01 over Model/Hasher.v: the hasher refines [map H (chunks p (concat files))]
    for every piece length > 0, every file list and every read schedule. *)
From Coq Require Import NArith List Bool Arith Lia.
From Imdl Require Import Base.Chunks Model.Hasher.
Import ListNotations.

(* ---------- more about [chunks] (generic) ---------- *)
Section ChunksMore.
Context {A : Type}.

Lemma split_full p (Hp : 0 < p) :
  forall l : list A, exists full rest,
    l = concat full ++ rest /\ Forall (fun b => length b = p) full /\ length rest < p.
Proof.
  intros l. remember (length l) as n eqn:En. revert l En.
  induction n as [n IH] using lt_wf_ind. intros l En.
  destruct (Nat.lt_ge_cases (length l) p) as [Hlt|Hge].
  - exists [], l. cbn. repeat split; [constructor|exact Hlt].
  - destruct (IH (length (skipn p l))) with (l := skipn p l) as (full & rest & Hl & Hf & Hr).
    + rewrite skipn_length. lia.
    + reflexivity.
    + exists (firstn p l :: full), rest. cbn [concat]. repeat split.
      * rewrite <- app_assoc, <- Hl, firstn_skipn. reflexivity.
      * constructor; [|exact Hf]. rewrite firstn_length. lia.
      * exact Hr.
Qed.

Lemma length_concat_full p (full : list (list A)) :
  Forall (fun b => length b = p) full -> length (concat full) = length full * p.
Proof.
  intros Hf. induction Hf as [|b full' Hb _ IH]; [reflexivity|].
  cbn [concat length]. rewrite app_length, IH, Hb. lia.
Qed.

Theorem chunks_shape p (l : list A) :
  0 < p ->
  concat (chunks p l) = l /\
  length (chunks p l) = (length l + p - 1) / p /\
  (l = [] -> chunks p l = []) /\
  (l <> [] -> exists body lst,
      chunks p l = body ++ [lst] /\ Forall (fun b => length b = p) body /\
      0 < length lst <= p /\ (length lst < p <-> length l mod p <> 0)).
Proof.
  intros Hp. split; [apply concat_chunks; exact Hp|].
  split; [apply length_chunks; exact Hp|].
  split; [intros ->; reflexivity|].
  intros Hne.
  destruct (split_full p Hp l) as (full & rest & Hl & Hf & Hr).
  pose proof (chunks_concat_full p Hp full rest Hf Hr) as Hc. rewrite <- Hl in Hc.
  pose proof (length_concat_full p full Hf) as Hlen.
  destruct rest as [|x r].
  - rewrite app_nil_r in Hc, Hl.
    destruct (exists_last (l := full)) as (body & lst & Hfull).
    { intros ->. cbn in Hl. contradiction. }
    exists body, lst. rewrite Hc. split; [exact Hfull|].
    rewrite Hfull in Hf. apply Forall_app in Hf. destruct Hf as [Hb Hlst].
    apply Forall_inv in Hlst.
    split; [exact Hb|]. split; [lia|].
    rewrite Hl, Hlen, Nat.mod_mul by lia. split; [lia|congruence].
  - exists full, (x :: r). split; [exact Hc|]. split; [exact Hf|].
    split; [cbn [length] in *; lia|].
    rewrite Hl, app_length, Hlen, Nat.add_comm, Nat.mod_add, Nat.mod_small by lia.
    cbn [length] in *. split; [lia|intros _; exact Hr].
Qed.
End ChunksMore.

(* ---------- the hasher ---------- *)
Section Proofs.
Context {byte digest md5d path : Type}.
Variable H : list byte -> digest.
Variable MD5 : list byte -> md5d.

Notation hst := (@hst byte digest).
Notation fctx := (@fctx byte).
Notation content := (@content byte path).

Lemma avail_eq w (data : list byte) : avail w data = Nat.min w (length data).
Proof. unfold avail. apply firstn_length. Qed.

Lemma legal_zero s w (data : list byte) : legal s w data = 0 -> w = 0 \/ data = [].
Proof.
  unfold legal. pose proof (avail_eq w data) as Ha.
  destruct (avail w data) as [|m]; [|discriminate].
  intros _. destruct data as [|x data']; [right; reflexivity|left]. cbn [length] in Ha. lia.
Qed.

Lemma legal_bounds s w (data : list byte) :
  legal s w data <> 0 -> 1 <= legal s w data <= Nat.min w (length data).
Proof.
  unfold legal. pose proof (avail_eq w data) as Ha.
  destruct (avail w data) as [|m]; [congruence|]. intros _.
  pose proof (Nat.mod_upper_bound s (S m) ltac:(lia)) as Hm. lia.
Qed.

(** every legal count is some [Count s] *)
Lemma legal_complete w (data : list byte) k :
  1 <= k <= Nat.min w (length data) -> legal (k - 1) w data = k.
Proof.
  intros Hk. unfold legal. pose proof (avail_eq w data) as Ha.
  destruct (avail w data) as [|m]; [lia|].
  rewrite Nat.mod_small by lia. lia.
Qed.

(** the loop invariant: [full] are the closed pieces' blocks, [sha1 st] the open block *)
Definition Inv (p : nat) (consumed : list byte) (st : hst) : Prop :=
  exists full, consumed = concat full ++ sha1 st /\
               Forall (fun b => length b = p) full /\
               pieces st = map H full /\
               pbh st = length (sha1 st) /\
               pbh st < p.

Lemma inv_new p : 0 < p -> Inv p [] new_hasher.
Proof. intros Hp. exists []. cbn. repeat split; [constructor|exact Hp]. Qed.

Lemma step_inv p c (st : hst) (rd : list byte) :
  Inv p c st -> pbh st + length rd <= p ->
  Inv p (c ++ rd)
      (let st1 := {| sha1 := sha1 st ++ rd; pbh := pbh st + length rd; pieces := pieces st |} in
       if Nat.eqb (pbh st1) p then flush H st1 else st1).
Proof.
  intros (full & Hc & Hf & Hpc & Hpb & Hlt) Hle. cbn zeta. cbn [pbh].
  destruct (Nat.eqb_spec (pbh st + length rd) p) as [E|E].
  - exists (full ++ [sha1 st ++ rd]). unfold flush. cbn [sha1 pbh pieces]. repeat split.
    + rewrite concat_app. cbn [concat]. rewrite !app_nil_r, Hc, <- app_assoc. reflexivity.
    + apply Forall_app. split; [exact Hf|]. constructor; [|constructor].
      rewrite app_length. lia.
    + rewrite map_app, Hpc. reflexivity.
    + lia.
  - exists full. cbn [sha1 pbh pieces]. repeat split; try assumption.
    + rewrite Hc, <- app_assoc. reflexivity.
    + rewrite app_length. lia.
    + lia.
Qed.

Definition advance (fc : fctx) (data : list byte) : fctx :=
  {| bytes_hashed := bytes_hashed fc + N.of_nat (length data);
     md5ctx := option_map (fun m => m ++ data) (md5ctx fc) |}.

Lemma advance_nil fc : advance fc [] = fc.
Proof.
  destruct fc as [bh m]. unfold advance. cbn [bytes_hashed md5ctx length]. f_equal.
  - apply N.add_0_r.
  - destruct m as [m|]; [|reflexivity]. cbn [option_map]. rewrite app_nil_r. reflexivity.
Qed.

Lemma advance_app fc a b : advance (advance fc a) b = advance fc (a ++ b).
Proof.
  destruct fc as [bh m]. unfold advance. cbn [bytes_hashed md5ctx]. f_equal.
  - rewrite app_length, Nat2N.inj_add, N.add_assoc. reflexivity.
  - destruct m as [m|]; [|reflexivity]. cbn [option_map]. rewrite app_assoc. reflexivity.
Qed.

Lemma read_loop_spec p (Hp : 0 < p) sch :
  forall fuel i (st : hst) (fc : fctx) data c,
    length data < fuel -> Inv p c st ->
    match read_loop H fuel p sch i st fc data with
    | Ok (st', fc', _) => Inv p (c ++ data) st' /\ fc' = advance fc data
    | IoError => exists j, sch j = Fail
    | Panic | OutOfFuel => False
    end.
Proof.
  induction fuel as [|f IH]; intros i st fc data c Hfuel HI; [lia|].
  cbn [read_loop].
  assert (Ho : pbh st < p) by (destruct HI as (? & _ & _ & _ & _ & ?); assumption).
  destruct (Nat.ltb_spec p (pbh st)) as [Hbad|_]; [lia|].
  destruct (sch i) as [s|] eqn:Es; [|exists i; exact Es].
  destruct (Nat.eqb_spec (legal s (p - pbh st) data) 0) as [E|E].
  - apply legal_zero in E. destruct E as [E|E]; [lia|]. subst data.
    rewrite app_nil_r, advance_nil. split; [exact HI|reflexivity].
  - pose proof (legal_bounds s (p - pbh st) data E) as Hb.
    set (k := legal s (p - pbh st) data) in *.
    assert (Hk : length (firstn k data) = k) by (rewrite firstn_length; lia).
    pose proof (step_inv p c st (firstn k data) HI ltac:(lia)) as HI1.
    cbn zeta in HI1. rewrite Hk in HI1.
    specialize (IH (S i) _ {| bytes_hashed := bytes_hashed fc + N.of_nat k;
                              md5ctx := option_map (fun m => m ++ firstn k data) (md5ctx fc) |}
                   (skipn k data) (c ++ firstn k data)
                   ltac:(rewrite skipn_length; lia) HI1).
    destruct (read_loop H f p sch (S i) _ _ (skipn k data)) as [[[st' fc'] i']| | |];
      try exact IH.
    destruct IH as [HI' Hfc]. split.
    + rewrite <- app_assoc, firstn_skipn in HI'. exact HI'.
    + rewrite Hfc. rewrite <- (firstn_skipn k data) at 2. rewrite <- advance_app.
      f_equal. unfold advance. rewrite Hk. reflexivity.
Qed.

Lemma hash_read_io_spec p (Hp : 0 < p) sch md5sum i (st : hst) data c :
  Inv p c st ->
  match hash_read_io H MD5 md5sum p sch i st data with
  | Ok (st', info, _) => Inv p (c ++ data) st' /\ info = spec_info MD5 md5sum data
  | IoError => exists j, sch j = Fail
  | Panic | OutOfFuel => False
  end.
Proof.
  intros HI. unfold hash_read_io.
  pose proof (read_loop_spec p Hp sch (S (length data)) i st (new_fctx md5sum) data c
                             ltac:(lia) HI) as Hr.
  destruct (read_loop H (S (length data)) p sch i st (new_fctx md5sum) data)
    as [[[st' fc'] i']| | |]; try exact Hr.
  destruct Hr as [HI' ->]. split; [exact HI'|].
  unfold spec_info, advance, new_fctx. cbn [bytes_hashed md5ctx]. rewrite N.add_0_l.
  destruct md5sum; reflexivity.
Qed.

Lemma hash_contents_spec p (Hp : 0 < p) sch md5sum :
  forall (fs : list (path * list byte)) i (st : hst) c,
    Inv p c st ->
    match hash_contents H MD5 md5sum p sch i st fs with
    | Ok (st', infos, _) =>
        Inv p (c ++ concat (map snd fs)) st' /\
        infos = map (fun pd => (fst pd, spec_info MD5 md5sum (snd pd))) fs
    | IoError => exists j, sch j = Fail
    | Panic | OutOfFuel => False
    end.
Proof.
  induction fs as [|[pa data] rest IH]; intros i st c HI; cbn [hash_contents map concat snd fst].
  - rewrite app_nil_r. split; [exact HI|reflexivity].
  - pose proof (hash_read_io_spec p Hp sch md5sum i st data c HI) as Hr.
    destruct (hash_read_io H MD5 md5sum p sch i st data) as [[[st1 info] i1]| | |]; try exact Hr.
    destruct Hr as [HI1 ->].
    specialize (IH i1 st1 (c ++ data) HI1).
    destruct (hash_contents H MD5 md5sum p sch i1 st1 rest) as [[[st2 infos] i2]| | |]; try exact IH.
    destruct IH as [HI2 ->]. split; [|reflexivity].
    rewrite app_assoc. exact HI2.
Qed.

Lemma finish_spec p (Hp : 0 < p) c (st : hst) :
  Inv p c st -> pieces (finish H st) = map H (chunks p c).
Proof.
  intros (full & Hc & Hf & Hpc & Hpb & Hlt). rewrite Hc.
  rewrite (chunks_concat_full p Hp full (sha1 st) Hf ltac:(lia)).
  unfold finish, flush. rewrite map_app, Hpb.
  destruct (sha1 st) as [|x o]; cbn [length Nat.ltb Nat.leb pieces map].
  - rewrite app_nil_r. exact Hpc.
  - rewrite Hpc. reflexivity.
Qed.

(** partial correctness for every schedule: a result, when there is one, is the specified one;
    the only other outcome is a propagated read error *)
Theorem hash_files_sound md5sum p sch (c : content) :
  0 < p ->
  match hash_files H MD5 md5sum p sch c with
  | Ok r => r = (spec_mode MD5 md5sum c, spec_pieces H p c)
  | IoError => exists j, sch j = Fail
  | Panic | OutOfFuel => False
  end.
Proof.
  intros Hp. unfold hash_files, spec_pieces. destruct c as [data|fs]; cbn [content_bytes spec_mode].
  - pose proof (hash_read_io_spec p Hp sch md5sum 0 new_hasher data [] (inv_new p Hp)) as Hr.
    destruct (hash_read_io H MD5 md5sum p sch 0 new_hasher data) as [[[st info] i']| | |];
      try exact Hr.
    destruct Hr as [HI ->]. cbn [app] in HI. rewrite (finish_spec p Hp _ _ HI).
    unfold spec_info. reflexivity.
  - pose proof (hash_contents_spec p Hp sch md5sum fs 0 new_hasher [] (inv_new p Hp)) as Hr.
    destruct (hash_contents H MD5 md5sum p sch 0 new_hasher fs) as [[[st infos] i']| | |];
      try exact Hr.
    destruct Hr as [HI ->]. cbn [app] in HI. rewrite (finish_spec p Hp _ _ HI). reflexivity.
Qed.

Theorem hash_files_spec md5sum p sch (c : content) :
  0 < p -> error_free sch ->
  hash_files H MD5 md5sum p sch c = Ok (spec_mode MD5 md5sum c, spec_pieces H p c).
Proof.
  intros Hp Hef. pose proof (hash_files_sound md5sum p sch c Hp) as Hs.
  destruct (hash_files H MD5 md5sum p sch c) as [r| | |].
  - rewrite Hs. reflexivity.
  - destruct Hs as [j Hj]. exfalso. exact (Hef j Hj).
  - contradiction.
  - contradiction.
Qed.

(** hash_stdin runs the same loop: it is literally the single-file path *)
Lemma hash_stdin_is_single md5sum p sch data :
  hash_stdin (path:=path) H MD5 md5sum p sch data = hash_files H MD5 md5sum p sch (SingleFile data).
Proof. reflexivity. Qed.

Theorem hash_stdin_spec md5sum p sch data :
  0 < p -> error_free sch ->
  hash_stdin (path:=path) H MD5 md5sum p sch data =
  Ok (Single (if md5sum then Some (MD5 data) else None) (N.of_nat (length data)),
      map H (chunks p data)).
Proof.
  intros Hp Hef. rewrite hash_stdin_is_single, hash_files_spec by assumption. reflexivity.
Qed.

Theorem schedule_independent md5sum p sch sch' (c : content) :
  0 < p -> error_free sch -> error_free sch' ->
  hash_files H MD5 md5sum p sch c = hash_files H MD5 md5sum p sch' c.
Proof. intros Hp He He'. rewrite !hash_files_spec by assumption. reflexivity. Qed.

(** bytes on standard input, under any schedule, give what a single file gives under any other *)
Theorem stdin_equals_single_file md5sum p sch sch' data :
  0 < p -> error_free sch -> error_free sch' ->
  hash_stdin (path:=path) H MD5 md5sum p sch data = hash_files H MD5 md5sum p sch' (SingleFile data).
Proof.
  intros Hp He He'. rewrite hash_stdin_is_single. apply schedule_independent; assumption.
Qed.

(** hence anything create builds from (name, piece length, mode, pieces) - the info
    dictionary - is the same *)
Corollary stdin_same_info {Info Name : Type} (build : Name -> nat -> outcome (mode * list digest) -> Info)
          name md5sum p sch sch' data :
  0 < p -> error_free sch -> error_free sch' ->
  build name p (hash_stdin (path:=path) H MD5 md5sum p sch data) =
  build name p (hash_files H MD5 md5sum p sch' (SingleFile data)).
Proof. intros Hp He He'. f_equal. apply stdin_equals_single_file; assumption. Qed.

(* ---------- piece length 0: the loop never reads; create must reject it (it does) ---------- *)

Lemma read_loop_zero sch fuel i (fc : fctx) data :
  read_loop H (S fuel) 0 sch i new_hasher fc data =
  match sch i with Fail => IoError | Count _ => Ok (new_hasher, fc, S i) end.
Proof. cbn [read_loop new_hasher pbh Nat.ltb Nat.leb Nat.sub]. destruct (sch i); reflexivity. Qed.

Lemma hash_read_io_zero sch md5sum i data :
  hash_read_io H MD5 md5sum 0 sch i new_hasher data =
  match sch i with
  | Fail => IoError
  | Count _ => Ok (new_hasher, spec_info MD5 md5sum [], S i)
  end.
Proof.
  unfold hash_read_io. rewrite read_loop_zero. destruct (sch i); [|reflexivity].
  destruct md5sum; reflexivity.
Qed.

Lemma hash_contents_zero sch md5sum :
  forall (fs : list (path * list byte)) i,
    match hash_contents H MD5 md5sum 0 sch i new_hasher fs with
    | Ok (st', infos, _) =>
        st' = new_hasher /\ infos = map (fun pd => (fst pd, spec_info MD5 md5sum [])) fs
    | IoError => exists j, sch j = Fail
    | Panic | OutOfFuel => False
    end.
Proof.
  induction fs as [|[pa data] rest IH]; intros i; cbn [hash_contents map fst snd].
  - split; reflexivity.
  - rewrite hash_read_io_zero. destruct (sch i) as [s|] eqn:Es; [|exists i; exact Es].
    specialize (IH (S i)).
    destruct (hash_contents H MD5 md5sum 0 sch (S i) new_hasher rest) as [[[st2 infos] i2]| | |];
      try exact IH.
    destruct IH as [-> ->]. split; reflexivity.
Qed.

(** with piece length 0 the hasher reports every file as empty and no pieces, whatever the
    content: this is why [Create::run] returns [Error::PieceLengthZero] before hashing *)
Theorem zero_piece_length_degenerate md5sum sch (c : content) :
  error_free sch ->
  hash_files H MD5 md5sum 0 sch c =
  Ok (match c with
      | SingleFile _ => Single (fst (spec_info MD5 md5sum [])) 0
      | Directory fs => Multiple (map (fun pd => (fst pd, spec_info MD5 md5sum [])) fs)
      end, []).
Proof.
  intros Hef. unfold hash_files. destruct c as [data|fs].
  - rewrite hash_read_io_zero. destruct (sch 0) as [s|] eqn:Es; [|exfalso; exact (Hef 0 Es)].
    destruct md5sum; reflexivity.
  - pose proof (hash_contents_zero sch md5sum fs 0) as Hz.
    destruct (hash_contents H MD5 md5sum 0 sch 0 new_hasher fs) as [[[st infos] i']| | |].
    + destruct Hz as [-> ->]. reflexivity.
    + destruct Hz as [j Hj]. exfalso. exact (Hef j Hj).
    + contradiction.
    + contradiction.
Qed.

Lemma hash_files_zero_cases md5sum sch (c : content) :
  match hash_files H MD5 md5sum 0 sch c with
  | Ok _ => True
  | IoError => exists j, sch j = Fail
  | Panic | OutOfFuel => False
  end.
Proof.
  unfold hash_files. destruct c as [data|fs].
  - rewrite hash_read_io_zero. destruct (sch 0) as [s|] eqn:Es.
    + destruct (spec_info MD5 md5sum []). exact I.
    + exists 0. exact Es.
  - pose proof (hash_contents_zero sch md5sum fs 0) as Hz.
    destruct (hash_contents H MD5 md5sum 0 sch 0 new_hasher fs) as [[[st infos] i']| | |];
      try exact Hz. exact I.
Qed.

(** every run ends in a result or a propagated read error - for every piece length (0
    included), content and schedule: the fuel passed by [hash_read_io] suffices, the window
    subtraction never underflows, and a run fails only because some read failed *)
Theorem never_stuck md5sum p sch (c : content) :
  hash_files H MD5 md5sum p sch c <> OutOfFuel /\
  hash_files H MD5 md5sum p sch c <> Panic /\
  (hash_files H MD5 md5sum p sch c = IoError -> exists j, sch j = Fail).
Proof.
  assert (Hc : match hash_files H MD5 md5sum p sch c with
               | Ok _ => True
               | IoError => exists j, sch j = Fail
               | Panic | OutOfFuel => False
               end).
  { destruct (Nat.eq_dec p 0) as [->|Hp]; [apply hash_files_zero_cases|].
    pose proof (hash_files_sound md5sum p sch c ltac:(lia)) as Hs.
    destruct (hash_files H MD5 md5sum p sch c); try exact Hs. exact I. }
  destruct (hash_files H MD5 md5sum p sch c); try contradiction;
    (split; [discriminate|split; [discriminate|]]); intros He; try discriminate He. exact Hc.
Qed.

End Proofs.
