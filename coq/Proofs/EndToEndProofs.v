(** End to end (C02): what create serialises (C05's [build], C04's [encode]) loads back through
    the verifier's loader (C03's [load]) as the very torrent the composed create/verify model
    (C02's [create_t]) hands to [verify].

    - bridges between the layers: [dlookup] (Verify) is [dget] (Schema); the loader's keys are the
      BEP keys the generated schema yields; [unhex (hex d) = Some d]; [load_pieces] of a
      concatenation of 20-byte digests; the loader's fuel always suffices for canonical bytes;
    - [built_bytes_load_back]: for every torrent satisfying [torrent_ok] and every command line
      agreeing with it, [load (encode v) = Some t];
    - [created_torrent_ok]: every creation result satisfies [torrent_ok] (digest lengths as
      Section hypotheses; UTF-8 of the name and of the selected components, and the i64 range of
      the lengths, as hypotheses because the models leave them open);
    - [created_bytes_load_back], [end_to_end], [end_to_end_cmd]: the compositions. *)
From Coq Require Import Ascii String.
From Coq Require Import NArith ZArith List Bool Lia ZifyN ZifyBool.
From Imdl Require Import Base.Chunks Model.Bencode Model.Fs Model.Verify Model.CreateVerify Model.EndToEnd
     Proofs.BencodeProofs Proofs.FsProofs Proofs.LoaderProofs Proofs.VerifyProofs Proofs.CreateVerifyProofs.
From Imdl Require Model.Schema Model.Metainfo Model.Hasher
     Proofs.SchemaProofs Proofs.MetainfoProofs Proofs.InfohashProofs Proofs.HasherProofs.
Import ListNotations.
Local Open Scope N_scope.

Notation txt := Schema.txt (only parsing).

(* ---------- dictionaries: the loader's lookup is the serialiser's ---------- *)

Lemma fs_schema_eqb a : forall b, Fs.bytes_eqb a b = Schema.bytes_eqb b a.
Proof.
  induction a as [|x a IH]; intros [|y b]; cbn [Fs.bytes_eqb Schema.bytes_eqb]; try reflexivity.
  rewrite IH, N.eqb_sym. reflexivity.
Qed.

Lemma dlookup_dget k d : dlookup k d = Schema.dget k d.
Proof.
  unfold dlookup. induction d as [|[k' x] d IH]; cbn [find Schema.dget fst snd]; [reflexivity|].
  rewrite fs_schema_eqb. destruct (Schema.bytes_eqb k k'); [reflexivity|exact IH].
Qed.

(** the keys the loader asks for are the BEP keys *)
Lemma K_info_txt : K_info = txt "info". Proof. reflexivity. Qed.
Lemma K_name_txt : K_name = txt "name". Proof. reflexivity. Qed.
Lemma K_piece_length_txt : K_piece_length = txt "piece length". Proof. reflexivity. Qed.
Lemma K_pieces_txt : K_pieces = txt "pieces". Proof. reflexivity. Qed.
Lemma K_length_txt : K_length = txt "length". Proof. reflexivity. Qed.
Lemma K_files_txt : K_files = txt "files". Proof. reflexivity. Qed.
Lemma K_path_txt : K_path = txt "path". Proof. reflexivity. Qed.
Lemma K_md5sum_txt : K_md5sum = txt "md5sum". Proof. reflexivity. Qed.

(* ---------- hex ---------- *)

Lemma hexval_hexdigit x : x < 16 -> hexval (hexdigit x) = Some x.
Proof.
  intros Hx. unfold hexval, hexdigit. destruct (x <? 10) eqn:E.
  - assert (R : in_range 48 57 (48 + x) = true) by (unfold in_range; lia).
    rewrite R. f_equal. lia.
  - assert (R1 : in_range 48 57 (87 + x) = false) by (unfold in_range; lia).
    assert (R2 : in_range 97 102 (87 + x) = true) by (unfold in_range; lia).
    rewrite R1, R2. f_equal. lia.
Qed.

Lemma unhex_hex d : Forall (fun x => x < 256) d -> unhex (hex d) = Some d.
Proof.
  induction 1 as [|b d Hb _ IH]; [reflexivity|].
  cbn [hex flat_map app]. fold (hex d). cbn [unhex].
  rewrite (hexval_hexdigit (b / 16)) by (apply N.div_lt_upper_bound; lia).
  rewrite (hexval_hexdigit (b mod 16)) by (apply N.mod_lt; lia).
  rewrite IH. f_equal. f_equal. symmetry. apply N.div_mod'.
Qed.

Lemma length_hex d : length (hex d) = (2 * length d)%nat.
Proof. induction d as [|b d IH]; [reflexivity|]. cbn [hex flat_map app length]. fold (hex d). lia. Qed.

Lemma load_md5_hex d : length d = 16%nat -> Forall (fun x => x < 256) d -> load_md5 (Str (hex d)) = Some d.
Proof.
  intros Hl Hb. unfold load_md5. rewrite length_hex, Hl.
  change (Nat.eqb (2 * 16) 32) with true. cbv iota. apply unhex_hex. exact Hb.
Qed.

Lemma forallb_lt_Forall d : forallb (fun x => x <? 256) d = true -> Forall (fun x => x < 256) d.
Proof.
  intros Hf. apply Forall_forall. intros x Hx.
  apply (proj1 (forallb_forall _ _) Hf) in Hx. apply N.ltb_lt. exact Hx.
Qed.

Lemma load_opt_md5 md5 m d :
  md5_shape md5 m = true ->
  Schema.dget (txt "md5sum") d = (if md5 then Some (Str (md5_text m)) else None) ->
  load_opt load_md5 K_md5sum d = Some m.
Proof.
  intros Hs Hg. unfold load_opt. rewrite dlookup_dget, K_md5sum_txt, Hg.
  destruct m as [dg|]; cbn [md5_shape] in Hs.
  - apply andb_prop in Hs. destruct Hs as [Hs Hb]. apply andb_prop in Hs. destruct Hs as [Hm Hl].
    rewrite Hm. cbn [md5_text]. rewrite load_md5_hex; [reflexivity| |apply forallb_lt_Forall; exact Hb].
    apply Nat.eqb_eq. exact Hl.
  - destruct md5; [discriminate|reflexivity].
Qed.

(* ---------- integers, strings, pieces, paths ---------- *)

Lemma load_u64_of_N n : load_u64 (Int (Z.of_N n)) = Some n.
Proof.
  unfold load_u64. assert (R : (0 <=? Z.of_N n)%Z = true) by lia. rewrite R, N2Z.id. reflexivity.
Qed.

Lemma length_concat_20 (ds : list bytes) :
  Forall (fun d => length d = 20%nat) ds -> length (concat ds) = (20 * length ds)%nat.
Proof.
  induction 1 as [|d ds Hd _ IH]; [reflexivity|]. cbn [concat length]. rewrite app_length, Hd, IH. lia.
Qed.

Lemma forallb_len_Forall (n : nat) (ds : list bytes) :
  forallb (fun d => Nat.eqb (length d) n) ds = true -> Forall (fun d => length d = n) ds.
Proof.
  intros Hf. apply Forall_forall. intros x Hx.
  apply (proj1 (forallb_forall _ _) Hf) in Hx. apply Nat.eqb_eq. exact Hx.
Qed.

(** the piece string cut at 20 gives the digests back *)
Lemma chunks_concat_20 (ds : list bytes) :
  Forall (fun d => length d = 20%nat) ds -> chunks 20 (concat ds) = ds.
Proof.
  intros Hf. pose proof (chunks_concat_full 20 ltac:(lia) ds [] Hf ltac:(cbn; lia)) as E.
  rewrite !app_nil_r in E. exact E.
Qed.

Lemma load_pieces_concat ds :
  forallb (fun d => Nat.eqb (length d) 20) ds = true -> load_pieces (Str (concat ds)) = Some ds.
Proof.
  intros Hf. apply forallb_len_Forall in Hf. unfold load_pieces.
  rewrite (length_concat_20 ds Hf), Nat.mul_comm, Nat.mod_mul by lia.
  cbn [Nat.eqb]. rewrite chunks_concat_20 by exact Hf. reflexivity.
Qed.

Lemma load_path_ok p : forallb comp_ok p = true -> load_path (Lst (map Str p)) = Some p.
Proof.
  cbn [load_path]. induction p as [|c p IH]; intros Hf; [reflexivity|].
  cbn [forallb] in Hf. apply andb_prop in Hf. destruct Hf as [Hc Hp].
  unfold comp_ok in Hc. apply andb_prop in Hc. destruct Hc as [Hu Hpl].
  cbn [map mapM]. unfold load_comp at 1. cbn [load_string]. rewrite Hu.
  rewrite (proj2 (screen_comp_plain c) Hpl). rewrite (IH Hp). reflexivity.
Qed.

(* ---------- one file entry ---------- *)

Lemma load_file_ok md5 f e :
  tfile_ok md5 f = true ->
  Schema.vget (txt "length") e = Some (Int (Z.of_N (flen f))) ->
  Schema.vget (txt "path") e = Some (Lst (map Str (fpath f))) ->
  Schema.vget (txt "md5sum") e = (if md5 then Some (Str (md5_text (fmd5 f))) else None) ->
  load_file e = Some f.
Proof.
  intros Hok Hl Hp Hm. destruct e as [z|s|l|d]; try discriminate Hl.
  cbn [Schema.vget] in Hl, Hp, Hm. unfold tfile_ok in Hok. apply andb_prop in Hok. destruct Hok as [Hpa Hsh].
  unfold load_file. rewrite !dlookup_dget, K_length_txt, K_path_txt, Hl, Hp.
  rewrite load_u64_of_N, (load_path_ok _ Hpa), (load_opt_md5 md5 (fmd5 f) d Hsh Hm).
  destruct f; reflexivity.
Qed.

Lemma load_files_ok md5 : forall fs es,
  forallb (tfile_ok md5) fs = true ->
  Forall2 (fun f e =>
    Schema.vget (txt "length") e = Some (Int (Z.of_N (Metainfo.f_length f))) /\
    Schema.vget (txt "path") e = Some (Lst (map Str (Metainfo.f_path f))) /\
    Schema.vget (txt "md5sum") e = (if md5 then Some (Str (Metainfo.f_md5 f)) else None) /\
    (forall q x, Schema.vget q e = Some x -> In q [txt "length"; txt "path"; txt "md5sum"]))
    (map file_of fs) es ->
  mapM load_file es = Some fs.
Proof.
  induction fs as [|f fs IH]; intros es Hok HF; cbn [map] in HF; inversion HF as [|f' e fs' es' Hfe HF' E1 E2]; subst.
  - reflexivity.
  - cbn [forallb] in Hok. apply andb_prop in Hok. destruct Hok as [Hf Hfs].
    destruct Hfe as (Hl & Hp & Hm & _). cbn [file_of Metainfo.f_length Metainfo.f_path Metainfo.f_md5] in Hl, Hp, Hm.
    cbn [mapM]. rewrite (load_file_ok md5 f e Hf Hl Hp Hm), (IH es' Hfs HF'). reflexivity.
Qed.

(* ---------- the loader's fuel suffices for canonical bytes ---------- *)

Lemma load_encode v : wfb v = true -> load (encode v) = load_value v.
Proof.
  intros Hw.
  assert (Hd : decode (2 * length (encode v) + 2) (encode v) = Some (v, [])).
  { apply (decode_mono_le (vsize v)).
    - pose proof (InfohashProofs.vsize_bound v). lia.
    - pose proof (encode_decode v Hw []) as E. rewrite app_nil_r in E. exact E. }
  exact (LoaderProofs.strict_load (encode v) v [] Hd).
Qed.

(* ---------- build, then encode, then load ---------- *)

Section LoadBack.
  Variable norm : bytes -> bytes.
  Variable host_canon : bytes -> bytes.
  Variable git_suffix : bytes.

  Notation build := (Metainfo.build norm host_canon git_suffix).

  Lemma agrees_name o md5 t : agrees o md5 t -> Metainfo.name_of o (Metainfo.c_input (content_of t)) <> None.
  Proof. intros (Hn & _ & _). cbn [content_of Metainfo.c_input]. rewrite Hn. discriminate. Qed.

  (** serialisation never fails for a command line that agrees *)
  Lemma agrees_build_total o md5 t : agrees o md5 t -> exists v, build o (content_of t) = Some v.
  Proof. intros Ha. apply MetainfoProofs.build_total. exact (agrees_name o md5 t Ha). Qed.

  Theorem built_bytes_load_back o md5 t v :
    torrent_ok md5 t = true -> Metainfo.opts_ok o = true -> agrees o md5 t ->
    build o (content_of t) = Some v ->
    load (encode v) = Some t.
  Proof.
    intros Hok Ho (Hn & Hp & Hm) Hb.
    unfold torrent_ok in Hok.
    apply andb_prop in Hok. destruct Hok as [Hok Hmode].
    apply andb_prop in Hok. destruct Hok as [Hok Hin].
    apply andb_prop in Hok. destruct Hok as [Hok Hps].
    apply andb_prop in Hok. destruct Hok as [Hu Hpl]. apply N.ltb_lt in Hpl.
    (* canonical: the strict reader gives the value back *)
    assert (Hplen : Metainfo.piece_length_of o (Metainfo.c_input (content_of t)) < 2 ^ 63).
    { cbn [content_of Metainfo.c_input]. rewrite Hp. exact Hpl. }
    pose proof (MetainfoProofs.build_wfb norm (fun _ => true) host_canon git_suffix o (content_of t) v Hin Ho Hplen Hb) as Hw.
    rewrite (load_encode v Hw).
    (* the info dictionary *)
    destruct (MetainfoProofs.build_spec norm host_canon git_suffix o (content_of t) v Hb)
      as (info & d & Hi & Hv & _ & Hget & _).
    destruct (MetainfoProofs.build_info_spec norm o (content_of t) info Hi)
      as (name & me & di & _ & _ & Hinfo & _ & _ & _).
    assert (Higet : forall k, Schema.dget k di = MetainfoProofs.iget k v).
    { intros k. unfold MetainfoProofs.iget. subst v. cbn [Schema.vget]. rewrite Hget.
      change (Schema.lookup (txt "info") (Metainfo.metainfo_entries norm host_canon git_suffix o info)) with (Some info).
      subst info. reflexivity. }
    assert (Htop : dlookup K_info d = Some (Dict di)).
    { rewrite dlookup_dget, K_info_txt, Hget.
      change (Schema.lookup (txt "info") (Metainfo.metainfo_entries norm host_canon git_suffix o info)) with (Some info).
      rewrite Hinfo. reflexivity. }
    rewrite Hv. cbn [load_value]. rewrite Htop.
    (* name, piece length, pieces *)
    unfold load_info. rewrite !dlookup_dget, K_name_txt, K_piece_length_txt, K_pieces_txt, !Higet.
    rewrite (MetainfoProofs.get_info_name norm host_canon git_suffix o (content_of t) v Hb).
    rewrite (MetainfoProofs.get_info_piece_length norm host_canon git_suffix o (content_of t) v Hb).
    rewrite (MetainfoProofs.get_info_pieces norm host_canon git_suffix o (content_of t) v Hb).
    cbn [content_of Metainfo.c_input Metainfo.c_pieces]. rewrite Hn, Hp. cbn [option_map].
    cbn [load_string]. rewrite Hu. rewrite load_u64_of_N, (load_pieces_concat _ Hps).
    (* the mode *)
    assert (Hmd : load_mode di = Some (tmode t)).
    { unfold load_mode. destruct (tmode t) as [len m|fs] eqn:Et.
      - assert (Hs : MetainfoProofs.single_of (Metainfo.c_input (content_of t)) = Some (len, md5_text m)).
        { cbn [content_of Metainfo.c_input]. unfold input_of. rewrite Et. reflexivity. }
        destruct (MetainfoProofs.single_shape norm host_canon git_suffix o (content_of t) v len (md5_text m) Hb Hs)
          as (Hl & Hmd5 & _).
        unfold load_single. rewrite dlookup_dget, K_length_txt, Higet, Hl, load_u64_of_N.
        cbn [mode_ok] in Hmode.
        rewrite (load_opt_md5 md5 m di Hmode); [reflexivity|].
        rewrite Higet, Hmd5, Hm. reflexivity.
      - assert (Hd : Metainfo.c_input (content_of t) = Metainfo.InDir (tname t) (map file_of fs)).
        { cbn [content_of Metainfo.c_input]. unfold input_of. rewrite Et. reflexivity. }
        destruct (MetainfoProofs.multi_shape norm host_canon git_suffix o (content_of t) v _ _ Hb Hd)
          as (Hl & _ & es & Hfl & HF).
        unfold load_single. rewrite dlookup_dget, K_length_txt, Higet, Hl.
        unfold load_multiple. rewrite dlookup_dget, K_files_txt, Higet, Hfl.
        cbn [mode_ok] in Hmode. rewrite Hm in HF.
        rewrite (load_files_ok md5 fs es Hmode HF). reflexivity. }
    rewrite Hmd. destruct t; reflexivity.
  Qed.

  (** the bytes actually written, after the checks of Create::run *)
  Corollary written_bytes_load_back url_ok o md5 t tb :
    torrent_ok md5 t = true -> Metainfo.opts_ok o = true -> agrees o md5 t ->
    Metainfo.create_bytes norm url_ok host_canon git_suffix o (content_of t) = Some tb ->
    load tb = Some t.
  Proof.
    intros Hok Ho Ha. unfold Metainfo.create_bytes.
    destruct (Metainfo.run_create norm url_ok host_canon git_suffix o (content_of t)) as [v|] eqn:Er; [|discriminate].
    intros E. inversion E; subst tb.
    destruct (MetainfoProofs.run_create_build norm url_ok host_canon git_suffix o (content_of t) v Er) as (Hb & _).
    exact (built_bytes_load_back o md5 t v Hok Ho Ha Hb).
  Qed.
End LoadBack.

(** [metainfo_of] agrees by construction, and changes nothing [opts_ok] looks at *)
Lemma opts_of_agrees o md5 t : agrees (opts_of o md5 t) md5 t.
Proof. repeat split. Qed.

Lemma opts_of_ok o md5 t : Metainfo.opts_ok (opts_of o md5 t) = Metainfo.opts_ok o.
Proof. reflexivity. Qed.

(** a command line without --name / --piece-length agrees when the input's own file name and the
    picker's choice are what the hasher was given *)
Lemma agrees_defaults o md5 t :
  Metainfo.o_name o = None -> Metainfo.o_piece_length o = None -> Metainfo.o_md5 o = md5 ->
  tplen t = Picker.pick (Metainfo.total_size (input_of t)) -> agrees o md5 t.
Proof.
  intros Hn Hp Hm Ht. unfold agrees, Metainfo.name_of, Metainfo.piece_length_of. rewrite Hn, Hp.
  unfold input_of. destruct (tmode t) as [len m|fs] eqn:Et.
  - repeat split; [|exact Hm]. rewrite Ht. unfold input_of. rewrite Et. reflexivity.
  - repeat split; [|exact Hm]. rewrite Ht. unfold input_of. rewrite Et. reflexivity.
Qed.

(* ---------- creation results ---------- *)

Section Created.
Variable H : bytes -> bytes.       (* SHA-1 *)
Variable MD5 : bytes -> bytes.
Hypothesis H_len : forall b, length (H b) = 20%nat.
Hypothesis MD5_len : forall b, length (MD5 b) = 16%nat.
Hypothesis MD5_bytes : forall b, Forall (fun x => x < 256) (MD5 b).   (* [byte] is [N] in the models *)

Lemma md5_shape_spec md5 (data : bytes) :
  md5_shape md5 (fst (Hasher.spec_info MD5 md5 data)) = true.
Proof.
  unfold Hasher.spec_info. cbn [fst]. destruct md5; cbn [md5_shape negb andb]; [|reflexivity].
  rewrite MD5_len. cbn [Nat.eqb andb].
  apply forallb_forall. intros x Hx. apply N.ltb_lt.
  exact (proj1 (Forall_forall _ _) (MD5_bytes data) x Hx).
Qed.

Theorem created_torrent_ok md5 p name csch src sel t :
  create_t H MD5 md5 p name csch src sel = Some t ->
  utf8_ok name = true -> Forall plain_path sel -> Forall utf8_path sel ->
  Metainfo.input_ok (input_of t) = true ->
  torrent_ok md5 t = true.
Proof.
  intros Hc Hu Hpl Hut Hin.
  destruct (create_t_spec H MD5 md5 p name csch src sel t Hc) as (c & Hg & Hp & Ht).
  unfold torrent_ok. rewrite Hin. rewrite Ht at 1 2 3. cbn [spec_torrent tname tplen tpieces].
  rewrite Hu.
  assert (Hp63 : (p <? 2 ^ 63) = true).
  { assert (2 ^ 32 < 2 ^ 63) by (apply N.pow_lt_mono_r; lia). lia. }
  rewrite Hp63.
  assert (Hps : forallb (fun d : bytes => Nat.eqb (length d) 20)
                  (map H (chunks (N.to_nat p) (concat (map snd (listing_of c))))) = true).
  { apply forallb_forall. intros x Hx. apply in_map_iff in Hx. destruct Hx as (b & <- & _).
    rewrite H_len. reflexivity. }
  rewrite Hps. cbn [andb].
  rewrite Ht. cbn [spec_torrent tmode].
  pose proof (gather_paths src sel c Hg) as Hpaths.
  destruct c as [data|l]; cbn [Hasher.spec_mode conv_mode mode_ok].
  - apply md5_shape_spec.
  - destruct src as [d|ch]; [unfold gather in Hg; discriminate|]. cbn [listing_of] in Hpaths.
    apply forallb_forall. intros f Hf. rewrite map_map in Hf. apply in_map_iff in Hf.
    destruct Hf as (pd & <- & Hpd). unfold tfile_ok, conv_file. cbn [fpath fmd5 fst snd].
    rewrite md5_shape_spec, andb_true_r.
    assert (Hs : In (fst pd) sel) by (rewrite <- Hpaths; apply in_map; exact Hpd).
    apply forallb_forall. intros cmp Hcmp. unfold comp_ok.
    rewrite (proj1 (Forall_forall _ _) (proj1 (Forall_forall _ _) Hut (fst pd) Hs) cmp Hcmp).
    exact (proj1 (Forall_forall _ _) (proj1 (Forall_forall _ _) Hpl (fst pd) Hs) cmp Hcmp).
Qed.

(** the shape the loader returns, spelled out: same name, same piece length, the piece string cut
    at 20, the mode as create had it *)
Lemma created_shape md5 p name csch src sel t :
  create_t H MD5 md5 p name csch src sel = Some t ->
  t = {| tname := name; tplen := p;
         tpieces := chunks 20 (Metainfo.c_pieces (content_of t)); tmode := tmode t |}.
Proof.
  intros Hc. destruct (create_t_spec H MD5 md5 p name csch src sel t Hc) as (c & _ & _ & Ht).
  cbn [content_of Metainfo.c_pieces]. rewrite chunks_concat_20.
  - rewrite Ht. reflexivity.
  - rewrite Ht. cbn [spec_torrent tpieces]. apply Forall_forall. intros x Hx.
    apply in_map_iff in Hx. destruct Hx as (b & <- & _). apply H_len.
Qed.

Section WithEnvironment.
Variable norm : bytes -> bytes.
Variable host_canon : bytes -> bytes.
Variable git_suffix : bytes.

Notation build := (Metainfo.build norm host_canon git_suffix).

Theorem created_bytes_load_back o md5 p name csch src sel t :
  create_t H MD5 md5 p name csch src sel = Some t ->
  utf8_ok name = true -> Forall plain_path sel -> Forall utf8_path sel ->
  Metainfo.input_ok (input_of t) = true -> Metainfo.opts_ok o = true -> agrees o md5 t ->
  exists v, build o (content_of t) = Some v /\
            load (encode v) = Some t /\
            t = {| tname := name; tplen := p;
                   tpieces := chunks 20 (Metainfo.c_pieces (content_of t)); tmode := tmode t |}.
Proof.
  intros Hc Hu Hpl Hut Hin Ho Ha.
  destruct (agrees_build_total norm host_canon git_suffix o md5 t Ha) as [v Hb].
  exists v. split; [exact Hb|]. split.
  - apply (built_bytes_load_back norm host_canon git_suffix o md5 t v); try assumption.
    exact (created_torrent_ok md5 p name csch src sel t Hc Hu Hpl Hut Hin).
  - exact (created_shape md5 p name csch src sel t Hc).
Qed.

(** the same for the pair [metainfo_of] builds from any command line *)
Corollary created_bytes_load_back_of o md5 p name csch src sel t :
  create_t H MD5 md5 p name csch src sel = Some t ->
  utf8_ok name = true -> Forall plain_path sel -> Forall utf8_path sel ->
  Metainfo.input_ok (input_of t) = true -> Metainfo.opts_ok o = true ->
  exists v, build (fst (metainfo_of o md5 t)) (snd (metainfo_of o md5 t)) = Some v /\
            load (encode v) = Some t.
Proof.
  intros Hc Hu Hpl Hut Hin Ho. cbn [metainfo_of fst snd].
  destruct (created_bytes_load_back (opts_of o md5 t) md5 p name csch src sel t Hc Hu Hpl Hut Hin)
    as (v & Hb & Hl & _); [rewrite opts_of_ok; exact Ho|apply opts_of_agrees|].
  exists v. split; assumption.
Qed.

(** ... and for the bytes written once the checks of Create::run have passed *)
Corollary created_written_bytes_load_back url_ok o md5 p name csch src sel t tb :
  create_t H MD5 md5 p name csch src sel = Some t ->
  utf8_ok name = true -> Forall plain_path sel -> Forall utf8_path sel ->
  Metainfo.input_ok (input_of t) = true -> Metainfo.opts_ok o = true -> agrees o md5 t ->
  Metainfo.create_bytes norm url_ok host_canon git_suffix o (content_of t) = Some tb ->
  load tb = Some t.
Proof.
  intros Hc Hu Hpl Hut Hin Ho Ha Hw.
  apply (written_bytes_load_back norm host_canon git_suffix url_ok o md5 t tb); try assumption.
  exact (created_torrent_ok md5 p name csch src sel t Hc Hu Hpl Hut Hin).
Qed.

(** end to end: create, serialise, load, verify *)
Theorem end_to_end o md5 p name csch vsch fs root src sel t :
  resolve fs root = Some src -> Forall plain_path sel -> Forall utf8_path sel -> utf8_ok name = true ->
  create_t H MD5 md5 p name csch src sel = Some t ->
  Metainfo.input_ok (input_of t) = true -> Metainfo.opts_ok o = true -> agrees o md5 t ->
  exists v c,
    build o (content_of t) = Some v /\ gather src sel = Some c /\
    verify_bytes H MD5 vsch fs root (encode v) = Some true /\
    forall fs',
      collision_free H p (map snd (listing_of c)) (map (content fs') (entries root t)) ->
      (verify_bytes H MD5 vsch fs' root (encode v) = Some true <-> Forall (holds fs' root) (listing_of c)).
Proof.
  intros Hr Hpl Hut Hu Hc Hin Ho Ha.
  destruct (created_bytes_load_back o md5 p name csch src sel t Hc Hu Hpl Hut Hin Ho Ha) as (v & Hb & Hl & _).
  destruct (verify_tracks_content H MD5 md5 p name csch vsch src sel t root Hc) as (c & Hg & Htr).
  exists v, c. split; [exact Hb|]. split; [exact Hg|]. unfold verify_bytes. rewrite Hl. split.
  - exact (create_then_verify H MD5 md5 p name csch vsch fs root src sel t Hr Hpl Hc).
  - exact Htr.
Qed.

(** the whole command on the written bytes: with arguments clap accepts and a content root that
    resolves to where create read, exit status 0 - provided the command's typed loader
    ([Metainfo::from_input], X4) accepts the rest of the metainfo create wrote (announce, announce-list,
    nodes, update-url, ... through the url crate [host_disp] / [url_norm]): [extras] is exactly what it
    demands beyond the info fields proved above ([LoaderProofs.typed_exact]); the content size fits because
    create's own lengths passed [Metainfo.input_ok] - stated as the hypothesis [size_fits t]. *)
Theorem end_to_end_cmd host_disp url_norm o md5 p name csch vsch fs root src sel t cwd cont base input :
  resolve fs root = Some src -> Forall plain_path sel -> Forall utf8_path sel -> utf8_ok name = true ->
  create_t H MD5 md5 p name csch src sel = Some t ->
  Metainfo.input_ok (input_of t) = true -> Metainfo.opts_ok o = true -> agrees o md5 t ->
  args_ok cont base input = true ->
  env_resolve cwd (content_root cont base input name) = Some root ->
  exists v, build o (content_of t) = Some v /\
            (extras host_disp url_norm (encode v) = true -> size_fits t = true ->
             verify_cmd H MD5 vsch host_disp url_norm fs cwd cont base input (encode v) = Some Success).
Proof.
  intros Hr Hpl Hut Hu Hc Hin Ho Ha Hargs Henv.
  destruct (created_bytes_load_back o md5 p name csch src sel t Hc Hu Hpl Hut Hin Ho Ha) as (v & Hb & Hl & Hsh).
  exists v. split; [exact Hb|]. intros Hx Hfit.
  assert (Hlt : load_typed host_disp url_norm (encode v) = Some t).
  { apply LoaderProofs.typed_exact. repeat split; assumption. }
  pose proof (create_then_verify H MD5 md5 p name csch vsch fs root src sel t Hr Hpl Hc) as Hv.
  assert (Hname : tname t = name) by (rewrite Hsh; reflexivity).
  unfold verify_cmd. rewrite Hargs. cbn [negb]. rewrite Hlt, Hname, Henv.
  unfold verify in Hv. destruct (verifier_new t) as [pl|]; [|discriminate].
  destruct (verify_metainfo H MD5 vsch pl fs root t) as [s|]; [|discriminate].
  inversion Hv as [Hs]. rewrite Hs. reflexivity.
Qed.

End WithEnvironment.
End Created.

(* ---------- the hypotheses are satisfiable, and needed ---------- *)

(** stand-ins with the right output shape (constant functions: the theorems above need nothing
    else of H and MD5; collision-freeness is a hypothesis of one direction only) *)
Definition ex_H (b : bytes) : bytes := firstn 20 (b ++ repeat 0 20).
Definition ex_MD5 (b : bytes) : bytes := map (fun x => x mod 256) (firstn 16 (b ++ repeat 0 16)).

Lemma ex_digest_hyps :
  (forall b, length (ex_H b) = 20%nat) /\ (forall b, length (ex_MD5 b) = 16%nat) /\
  (forall b, Forall (fun x => x < 256) (ex_MD5 b)).
Proof.
  split; [|split]; intros b.
  - unfold ex_H. rewrite firstn_length, app_length, repeat_length. lia.
  - unfold ex_MD5. rewrite map_length, firstn_length, app_length, repeat_length. lia.
  - unfold ex_MD5. apply Forall_forall. intros x Hx. apply in_map_iff in Hx. destruct Hx as (y & <- & _).
    apply N.mod_lt. lia.
Qed.
