(** C05 / X10 — the concrete url-crate model ([Model/UrlNorm.v]) put in the place of the `Section` variable [norm] of
    Model/Metainfo.v: what `create` stores under `announce` / `info.update-url` for URLs inside the fragment. *)
From Coq Require Import Ascii String.
From Coq Require Import NArith ZArith Bool List.
From Imdl Require Import Model.Bencode Model.Schema Model.Metainfo Model.HostPort Model.UrlHost Model.UrlNorm
  Proofs.MetainfoProofs Proofs.UrlNormProofs.
Import ListNotations.
Local Open Scope N_scope.

Lemma norm_with_fixed ext u : is_normal_url u = true -> u_norm_with ext u = u.
Proof. intros H. unfold u_norm_with. rewrite (u_norm_fixed u H). reflexivity. Qed.

Lemma norm_with_model ext u s : u_norm u = Some (Some s) -> u_norm_with ext u = s.
Proof. intros H. unfold u_norm_with. rewrite H. reflexivity. Qed.

(** `--announce U` / `--update-url U` with U written in normal form: the metainfo states U, byte for byte *)
Theorem normal_url_stored_verbatim ext host_canon git_suffix o c v :
  build (u_norm_with ext) host_canon git_suffix o c = Some v ->
  (forall u, o_announce o = Some u -> is_normal_url u = true -> vget (txt "announce") v = Some (Str u)) /\
  (forall u, o_update_url o = Some u -> is_normal_url u = true -> iget (txt "update-url") v = Some (Str u)).
Proof.
  intros H. split; intros u Hu Hn.
  - rewrite (get_announce _ _ _ o c v H), Hu. cbn [option_map]. rewrite (norm_with_fixed ext u Hn). reflexivity.
  - rewrite (get_info_update_url _ _ _ o c v H), Hu. cbn [option_map]. rewrite (norm_with_fixed ext u Hn). reflexivity.
Qed.

(** whatever spelling U of a URL inside the fragment is given, the stored text S is the model's normal form, it is itself
    in normal form, and any later `create` that is given S stores S again *)
Theorem stored_url_is_a_fixed_point ext host_canon git_suffix o c v u s :
  build (u_norm_with ext) host_canon git_suffix o c = Some v -> o_announce o = Some u -> u_norm u = Some (Some s) ->
  vget (txt "announce") v = Some (Str s) /\ u_norm s = Some (Some s) /\
  forall o' c' v', build (u_norm_with ext) host_canon git_suffix o' c' = Some v' ->
    (o_announce o' = Some s -> vget (txt "announce") v' = Some (Str s)) /\
    (o_update_url o' = Some s -> iget (txt "update-url") v' = Some (Str s)).
Proof.
  intros H Hu Hs. pose proof (u_norm_idempotent u s Hs) as Hfix. split; [|split; [exact Hfix|]].
  - rewrite (get_announce _ _ _ o c v H), Hu. cbn [option_map]. rewrite (norm_with_model ext u s Hs). reflexivity.
  - intros o' c' v' H'. split; intros Hs'.
    + rewrite (get_announce _ _ _ o' c' v' H'), Hs'. cbn [option_map]. rewrite (norm_with_model ext s s Hfix). reflexivity.
    + rewrite (get_info_update_url _ _ _ o' c' v' H'), Hs'. cbn [option_map]. rewrite (norm_with_model ext s s Hfix). reflexivity.
Qed.

(* ------------------------------------------------------------------ C10: the tracker hypothesis of the magnet round trip *)
From Imdl Require Import Model.Magnet Proofs.MagnetProofs.

(** "the url crate returns a link's own trackers unchanged" is a theorem for trackers written in normal form: the round
    trip through imdl's own parser holds with the concrete normaliser, whatever the crate does outside the fragment *)
Theorem own_parser_roundtrip_normal_trackers lossy ext hp_norm l :
  wf_link l -> length (l_ih l) = 20%nat ->
  (forall s, ascii s -> lossy s = s) -> utf8_fixed lossy l ->
  forallb is_normal_url (l_trackers l) = true ->
  Forall (fun p => hp_norm p = Some p) (l_peers l) ->
  own_parse lossy (u_url_norm_with ext) hp_norm (print l) = Parsed (l_ih l) (l_name l) (l_trackers l) (l_peers l).
Proof.
  intros Hwf Hlen Hl Hu Ht Hp. apply own_parse_print; try assumption. apply url_norm_with_fixed_all, Ht.
Qed.
