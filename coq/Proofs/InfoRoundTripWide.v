(** Bencode as bendy's serde reader sees it (Model/BencodeWide.v [wdecode]: no i64 check in the tokenizer), both
    round-trip directions - the statements and proofs of Proofs/BencodeProofs.v ([decode_exact], [wdecode_mono],
    [encode_decode]) carried over to the wide reader: [wdecode_exact] (what it consumed is the re-encoding of what it
    returned), [encode_wdecode] (every value whose dictionaries have strictly increasing keys decodes back, integers
    of any size). Needed by Proofs/InfoRoundTripProofs.v because `piece length` is a u64: a re-serialised Info may
    carry an integer in [2^63, 2^64), which the strict reader refuses. *)
From Coq Require Import Decimal DecimalN DecimalFacts.
From Coq Require Import NArith ZArith Lia Bool List.
From Imdl Require Import Model.Bencode Model.BencodeWide Proofs.BencodeProofs.
From Imdl Require Proofs.PeerProofs.
Import ListNotations.
Local Open Scope N_scope.

(** keys strictly increasing in every dictionary ([Bencode.wfb] without the i64 range) *)
Fixpoint sortedb (v : value) : bool :=
  match v with
  | Int _ | Str _ => true
  | Lst l => forallb sortedb l
  | Dict d => keys_sorted None (map fst d) && forallb (fun kv => sortedb (snd kv)) d
  end.

Lemma dec_str_w' bs : wdec_str bs = dec_str bs.
Proof.
  unfold wdec_str, dec_str. destruct (take_digits bs) as [u r]. destruct (canon u); [|reflexivity].
  destruct (hd_is 58 r) as [r1|]; [|reflexivity].
  destruct (Nat.leb (N.to_nat (N.of_uint u)) (length r1)) eqn:E1, (N.of_uint u <=? N.of_nat (length r1)) eqn:E2;
    try reflexivity; exfalso.
  - apply Nat.leb_le in E1. apply N.leb_gt in E2. lia.
  - apply Nat.leb_gt in E1. apply N.leb_le in E2. lia.
Qed.

Lemma wdec_int_exact r v rest : wdec_int r = Some (v, rest) -> 105 :: r = encode v ++ rest.
Proof.
  unfold wdec_int. destruct (hd_is 45 r) as [r1|] eqn:E45.
  - apply hd_is_some in E45. subst r.
    destruct (take_digits r1) as [u r2] eqn:E. apply take_digits_exact in E.
    destruct (nonzero_start u) eqn:C; [|discriminate].
    destruct (hd_is 101 r2) as [r3|] eqn:E101; [|discriminate]. apply hd_is_some in E101. subst r2.
    intros HH; inversion HH; subst; clear HH.
    pose proof (of_uint_canon_nonzero u C) as Hnz.
    cbn [encode]. unfold enc_int.
    assert (Hz : (- Z.of_N (N.of_uint u) <? 0)%Z = true) by (apply Z.ltb_lt; lia).
    rewrite Hz. unfold dec. rewrite Zabs2N.inj_opp, Zabs2N.id, DecimalN.Unsigned.to_of,
      (canon_unorm _ (nonzero_start_canon _ C)).
    simpl. rewrite <- ?app_assoc. simpl. reflexivity.
  - destruct (take_digits r) as [u r2] eqn:E. apply take_digits_exact in E.
    destruct (canon u) eqn:C; [|discriminate].
    destruct (hd_is 101 r2) as [r3|] eqn:E101; [|discriminate]. apply hd_is_some in E101. subst r2.
    intros HH; inversion HH; subst; clear HH.
    cbn [encode]. unfold enc_int.
    assert (Hz : (Z.of_N (N.of_uint u) <? 0)%Z = false) by (apply Z.ltb_ge; lia).
    rewrite Hz. unfold dec. rewrite Zabs2N.id, DecimalN.Unsigned.to_of, (canon_unorm _ C).
    simpl. rewrite <- ?app_assoc. simpl. reflexivity.
Qed.

Theorem wdecode_exact :
  forall fuel,
    (forall bs v rest, wdecode fuel bs = Some (v, rest) -> bs = encode v ++ rest) /\
    (forall bs l rest, wdecode_list fuel bs = Some (l, rest) ->
                       bs = flat_map encode l ++ 101 :: rest) /\
    (forall last bs d rest, wdecode_dict fuel last bs = Some (d, rest) ->
        bs = flat_map (fun kv => enc_str (fst kv) ++ encode (snd kv)) d ++ 101 :: rest).
Proof.
  induction fuel as [|f [IHv [IHl IHd]]].
  - repeat split; intros; discriminate.
  - split; [|split].
    + intros bs v rest H. cbn [wdecode] in H.
      destruct (hd_is 105 bs) as [r|] eqn:E1.
      { apply hd_is_some in E1. subst bs. apply wdec_int_exact; exact H. }
      destruct (hd_is 108 bs) as [r|] eqn:E2.
      { apply hd_is_some in E2. subst bs.
        destruct (wdecode_list f r) as [[l r']|] eqn:E; [|discriminate].
        inversion H; subst. apply IHl in E. subst r. cbn. rewrite <- app_assoc. reflexivity. }
      destruct (hd_is 100 bs) as [r|] eqn:E3.
      { apply hd_is_some in E3. subst bs.
        destruct (wdecode_dict f None r) as [[d r']|] eqn:E; [|discriminate].
        inversion H; subst. apply IHd in E. subst r. cbn. rewrite <- app_assoc. reflexivity. }
      destruct (wdec_str bs) as [[s r]|] eqn:E; [|discriminate]. rewrite dec_str_w' in E.
      inversion H; subst. apply dec_str_exact in E. exact E.
    + intros bs l rest H. cbn [wdecode_list] in H.
      destruct (hd_is 101 bs) as [r|] eqn:E0.
      { apply hd_is_some in E0. inversion H; subst. reflexivity. }
      destruct (wdecode f bs) as [[v r]|] eqn:E1; [|discriminate].
      destruct (wdecode_list f r) as [[vs r']|] eqn:E2; [|discriminate].
      inversion H; subst. apply IHv in E1. apply IHl in E2. subst.
      cbn. rewrite <- app_assoc. reflexivity.
    + intros last bs d rest H. cbn [wdecode_dict] in H.
      destruct (hd_is 101 bs) as [r|] eqn:E0.
      { apply hd_is_some in E0. inversion H; subst. reflexivity. }
      destruct (wdec_str bs) as [[k r]|] eqn:Es; [|discriminate]. rewrite dec_str_w' in Es.
      destruct (match last with None => true | Some l => bytes_ltb l k end); [|discriminate].
      destruct (wdecode f r) as [[v r1]|] eqn:E1; [|discriminate].
      destruct (wdecode_dict f (Some k) r1) as [[kvs r2]|] eqn:E2; [|discriminate].
      inversion H; subst. apply dec_str_exact in Es. apply IHv in E1. apply IHd in E2.
      subst. cbn. rewrite <- !app_assoc. reflexivity.
Qed.

Lemma wdecode_mono :
  forall f,
    (forall bs r, wdecode f bs = Some r -> wdecode (S f) bs = Some r) /\
    (forall bs r, wdecode_list f bs = Some r -> wdecode_list (S f) bs = Some r) /\
    (forall last bs r, wdecode_dict f last bs = Some r -> wdecode_dict (S f) last bs = Some r).
Proof.
  induction f as [|f [IHv [IHl IHd]]].
  - repeat split; intros; discriminate.
  - split; [|split].
    + intros bs r H. cbn [wdecode] in H. change (wdecode (S (S f)) bs) with
        (match hd_is 105 bs with
         | Some r => wdec_int r
         | None => match hd_is 108 bs with
           | Some r => match wdecode_list (S f) r with Some (l, r') => Some (Lst l, r') | None => None end
           | None => match hd_is 100 bs with
             | Some r => match wdecode_dict (S f) None r with Some (d, r') => Some (Dict d, r') | None => None end
             | None => match wdec_str bs with Some (s, r) => Some (Str s, r) | None => None end
             end end end).
      destruct (hd_is 105 bs); [exact H|].
      destruct (hd_is 108 bs) as [r1|].
      { destruct (wdecode_list f r1) as [[l r']|] eqn:E; [|discriminate]. rewrite (IHl _ _ E). exact H. }
      destruct (hd_is 100 bs) as [r1|].
      { destruct (wdecode_dict f None r1) as [[d r']|] eqn:E; [|discriminate]. rewrite (IHd _ _ _ E). exact H. }
      exact H.
    + intros bs r H. cbn [wdecode_list] in H. change (wdecode_list (S (S f)) bs) with
        (match hd_is 101 bs with
         | Some r => Some ([], r)
         | None => match wdecode (S f) bs with
                   | Some (v, r) => match wdecode_list (S f) r with
                                    | Some (vs, r') => Some (v :: vs, r') | None => None end
                   | None => None end end).
      destruct (hd_is 101 bs); [exact H|].
      destruct (wdecode f bs) as [[v r0]|] eqn:E1; [|discriminate]. rewrite (IHv _ _ E1).
      destruct (wdecode_list f r0) as [[vs r']|] eqn:E2; [|discriminate]. rewrite (IHl _ _ E2). exact H.
    + intros last bs r H. cbn [wdecode_dict] in H. change (wdecode_dict (S (S f)) last bs) with
        (match hd_is 101 bs with
         | Some r => Some ([], r)
         | None => match wdec_str bs with
                   | Some (k, r) =>
                       if (match last with None => true | Some l => bytes_ltb l k end) then
                         match wdecode (S f) r with
                         | Some (v, r1) => match wdecode_dict (S f) (Some k) r1 with
                                           | Some (kvs, r2) => Some ((k, v) :: kvs, r2) | None => None end
                         | None => None end
                       else None
                   | None => None end end).
      destruct (hd_is 101 bs); [exact H|].
      destruct (wdec_str bs) as [[k r0]|]; [|discriminate].
      destruct (match last with None => true | Some l => bytes_ltb l k end); [|discriminate].
      destruct (wdecode f r0) as [[v r1]|] eqn:E1; [|discriminate]. rewrite (IHv _ _ E1).
      destruct (wdecode_dict f (Some k) r1) as [[kvs r2]|] eqn:E2; [|discriminate].
      rewrite (IHd _ _ _ E2). exact H.
Qed.

Lemma wdecode_mono_le (f g : nat) bs r : (f <= g)%nat -> wdecode f bs = Some r -> wdecode g bs = Some r.
Proof. induction 1; auto. intros. apply wdecode_mono. auto. Qed.

Lemma wdecode_list_mono_le (f g : nat) bs r : (f <= g)%nat -> wdecode_list f bs = Some r -> wdecode_list g bs = Some r.
Proof. induction 1; auto. intros. apply wdecode_mono. auto. Qed.

Lemma wdecode_dict_mono_le (f g : nat) l bs r : (f <= g)%nat -> wdecode_dict f l bs = Some r -> wdecode_dict g l bs = Some r.
Proof. induction 1; auto. intros. apply wdecode_mono. auto. Qed.

Lemma wdec_int_enc z rest : wdec_int (tl (enc_int z) ++ rest) = Some (Int z, rest).
Proof.
  unfold enc_int, wdec_int. cbn [tl].
  destruct (z <? 0)%Z eqn:Hz.
  - apply Z.ltb_lt in Hz. cbn [app hd_is]. rewrite ?N.eqb_refl. rewrite <- app_assoc. cbn [app].
    unfold dec. rewrite take_digits_app by reflexivity.
    rewrite nonzero_to_uint by lia. cbn [hd_is]. rewrite ?N.eqb_refl.
    rewrite DecimalN.Unsigned.of_to.
    replace (- Z.of_N (Z.abs_N z))%Z with z by lia. reflexivity.
  - apply Z.ltb_ge in Hz. cbn [app]. rewrite <- app_assoc. cbn [app].
    destruct (dec_hd (Z.abs_N z)) as (b & t & E & Hd).
    rewrite E. cbn [app]. rewrite (hd_is_digit_none 45 b _ Hd eq_refl). rewrite app_comm_cons, <- E.
    unfold dec. rewrite take_digits_app by reflexivity.
    rewrite to_uint_canon. cbn [hd_is]. rewrite ?N.eqb_refl.
    rewrite DecimalN.Unsigned.of_to.
    replace (Z.of_N (Z.abs_N z)) with z by lia. reflexivity.
Qed.

Lemma wdecode_list_enc (l : list value) :
  Forall (fun v => sortedb v = true -> forall rest, wdecode (vsize v) (encode v ++ rest) = Some (v, rest)) l ->
  forallb sortedb l = true ->
  forall rest, wdecode_list (lfuel l) (flat_map encode l ++ 101 :: rest) = Some (l, rest).
Proof.
  induction l as [|x xs IHxs]; intros IH Hwf rest.
  - cbn. reflexivity.
  - inversion IH as [|? ? IHx IHxs']; subst.
    cbn [forallb] in Hwf. apply andb_prop in Hwf. destruct Hwf as [Hwx Hwxs].
    unfold lfuel. cbn [fold_right flat_map]. fold (lfuel xs). rewrite <- app_assoc.
    replace (vsize x + S (lfuel xs))%nat with (S (vsize x + lfuel xs)) by lia.
    cbn [wdecode_list]. rewrite hd_is_encode_101.
    rewrite (wdecode_mono_le (vsize x) (vsize x + lfuel xs) _ _ ltac:(lia) (IHx Hwx _)).
    rewrite (wdecode_list_mono_le (lfuel xs) (vsize x + lfuel xs) _ _ ltac:(lia) (IHxs IHxs' Hwxs rest)).
    reflexivity.
Qed.

Lemma wdecode_dict_enc (d : list (bytes * value)) :
  Forall (fun kv => sortedb (snd kv) = true ->
                    forall rest, wdecode (vsize (snd kv)) (encode (snd kv) ++ rest) = Some (snd kv, rest)) d ->
  forallb (fun kv => sortedb (snd kv)) d = true ->
  forall last rest, keys_sorted last (map fst d) = true ->
    wdecode_dict (dfuel d) last (flat_map enc_kv d ++ 101 :: rest) = Some (d, rest).
Proof.
  induction d as [|[k v] xs IHxs]; intros IH Hwf last rest Hs.
  - cbn. reflexivity.
  - inversion IH as [|? ? IHx IHxs']; subst. cbn [snd] in IHx.
    cbn [forallb snd] in Hwf. apply andb_prop in Hwf. destruct Hwf as [Hwx Hwxs].
    cbn [map fst keys_sorted] in Hs. apply andb_prop in Hs. destruct Hs as [Hk Hs].
    unfold dfuel. cbn [fold_right flat_map snd]. fold (dfuel xs).
    unfold enc_kv at 1. cbn [fst snd]. rewrite <- !app_assoc.
    replace (vsize v + S (dfuel xs))%nat with (S (vsize v + dfuel xs)) by lia.
    cbn [wdecode_dict].
    destruct (enc_str_hd k) as (b & t & E & Hd). rewrite E. cbn [app].
    rewrite (hd_is_digit_none 101 b _ Hd eq_refl).
    rewrite app_comm_cons, <- E, dec_str_w', dec_str_enc. rewrite Hk.
    rewrite (wdecode_mono_le (vsize v) (vsize v + dfuel xs) _ _ ltac:(lia) (IHx Hwx _)).
    rewrite (wdecode_dict_mono_le (dfuel xs) (vsize v + dfuel xs) _ _ _ ltac:(lia) (IHxs IHxs' Hwxs (Some k) rest Hs)).
    reflexivity.
Qed.

Theorem encode_wdecode v :
  sortedb v = true -> forall rest, wdecode (vsize v) (encode v ++ rest) = Some (v, rest).
Proof.
  induction v as [z|s|l IH|d IH] using value_ind'; intros Hwf rest; cbn [sortedb] in Hwf.
  - cbn [vsize wdecode encode]. unfold enc_int at 1. cbn [app hd_is]. rewrite ?N.eqb_refl.
    change ((if (z <? 0)%Z then [45] else []) ++ dec (Z.abs_N z) ++ [101]) with (tl (enc_int z)).
    apply wdec_int_enc.
  - cbn [vsize wdecode encode].
    destruct (enc_str_hd s) as (b & t & E & Hd). rewrite E. cbn [app].
    rewrite (hd_is_digit_none 105 b _ Hd eq_refl), (hd_is_digit_none 108 b _ Hd eq_refl),
      (hd_is_digit_none 100 b _ Hd eq_refl).
    rewrite app_comm_cons, <- E, dec_str_w', dec_str_enc. reflexivity.
  - cbn [vsize encode]. fold (lfuel l). cbn [wdecode app]. cbn [hd_is].
    change (108 =? 105) with false. cbv iota. rewrite ?N.eqb_refl. rewrite <- app_assoc. cbn [app].
    rewrite (wdecode_list_enc l IH Hwf rest). reflexivity.
  - cbn [vsize encode]. fold (dfuel d). cbn [wdecode app]. cbn [hd_is].
    change (100 =? 105) with false. change (100 =? 108) with false. cbv iota. rewrite ?N.eqb_refl.
    rewrite <- app_assoc. cbn [app].
    apply andb_prop in Hwf. destruct Hwf as [Hs Hw].
    change (flat_map (fun kv => enc_str (fst kv) ++ encode (snd kv)) d) with (flat_map enc_kv d).
    rewrite (wdecode_dict_enc d IH Hw None rest Hs). reflexivity.
Qed.


(** the fuel [fuel_for] gives is enough for any re-encoding *)
Lemma wdecode_enc v rest :
  sortedb v = true -> wdecode (fuel_for (encode v ++ rest)) (encode v ++ rest) = Some (v, rest).
Proof.
  intros Hs. apply (wdecode_mono_le (vsize v)); [|apply encode_wdecode; exact Hs].
  unfold fuel_for. rewrite app_length. pose proof (Proofs.PeerProofs.vsize_bound v). lia.
Qed.

(** what the wide reader returns has strictly increasing keys everywhere *)
Theorem wdecode_sorted :
  forall fuel,
    (forall bs v rest, wdecode fuel bs = Some (v, rest) -> sortedb v = true) /\
    (forall bs l rest, wdecode_list fuel bs = Some (l, rest) -> forallb sortedb l = true) /\
    (forall last bs d rest, wdecode_dict fuel last bs = Some (d, rest) ->
        keys_sorted last (map fst d) = true /\ forallb (fun kv => sortedb (snd kv)) d = true).
Proof.
  induction fuel as [|f [IHv [IHl IHd]]].
  - repeat split; intros; discriminate.
  - split; [|split].
    + intros bs v rest H. cbn [wdecode] in H.
      destruct (hd_is 105 bs) as [r|].
      { unfold wdec_int in H. destruct (hd_is 45 r) as [r1|].
        - destruct (take_digits r1) as [u r2]. destruct (nonzero_start u); [|discriminate].
          destruct (hd_is 101 r2); [|discriminate]. inversion H; subst. reflexivity.
        - destruct (take_digits r) as [u r2]. destruct (canon u); [|discriminate].
          destruct (hd_is 101 r2); [|discriminate]. inversion H; subst. reflexivity. }
      destruct (hd_is 108 bs) as [r|].
      { destruct (wdecode_list f r) as [[l r']|] eqn:E; [|discriminate]. inversion H; subst.
        cbn [sortedb]. exact (IHl _ _ _ E). }
      destruct (hd_is 100 bs) as [r|].
      { destruct (wdecode_dict f None r) as [[d r']|] eqn:E; [|discriminate]. inversion H; subst.
        cbn [sortedb]. destruct (IHd _ _ _ _ E) as [Ha Hb]. rewrite Ha, Hb. reflexivity. }
      destruct (wdec_str bs) as [[s r]|]; [|discriminate]. inversion H; subst. reflexivity.
    + intros bs l rest H. cbn [wdecode_list] in H.
      destruct (hd_is 101 bs) as [r|]; [inversion H; subst; reflexivity|].
      destruct (wdecode f bs) as [[v r]|] eqn:E; [|discriminate].
      destruct (wdecode_list f r) as [[vs r']|] eqn:E'; [|discriminate]. inversion H; subst.
      cbn [forallb]. rewrite (IHv _ _ _ E), (IHl _ _ _ E'). reflexivity.
    + intros last bs d rest H. cbn [wdecode_dict] in H.
      destruct (hd_is 101 bs) as [r|]; [inversion H; subst; split; reflexivity|].
      destruct (wdec_str bs) as [[k r]|]; [|discriminate].
      destruct (match last with None => true | Some l => bytes_ltb l k end) eqn:Ek; [|discriminate].
      destruct (wdecode f r) as [[v r1]|] eqn:E; [|discriminate].
      destruct (wdecode_dict f (Some k) r1) as [[kvs r2]|] eqn:E'; [|discriminate]. inversion H; subst.
      destruct (IHd _ _ _ _ E') as [Ha Hb]. cbn [map fst keys_sorted forallb snd].
      rewrite Ek, Ha, (IHv _ _ _ E), Hb. split; reflexivity.
Qed.
