(** Proofs about Model/Metainfo.v (C05): the assembled metainfo is canonical bencode that decodes
    back to itself, every requested field is found under its BEP key with the requested value,
    keys of options not given are absent, nothing else is present, single/multi-file shape,
    independence of the clock under --no-creation-date. *)
From Coq Require Import Ascii String.
From Coq Require Import NArith ZArith Lia ZifyN ZifyBool Bool List.
From Imdl Require Import Model.Bencode Model.Schema Model.Picker Model.Metainfo
  Proofs.BencodeProofs Proofs.SchemaProofs Generated.GenSchema Generated.GenCreate.
Import ListNotations.
Local Open Scope N_scope.

(* ---------- small facts ---------- *)

Lemma i64_of_N n : n < 2 ^ 63 -> i64_ok (Z.of_N n) = true.
Proof.
  intros H. unfold i64_ok. apply andb_true_intro. split.
  - apply Z.leb_le. change (- 2 ^ 63)%Z with (-9223372036854775808)%Z. lia.
  - apply Z.ltb_lt. change (2 ^ 63)%Z with (Z.of_N (2 ^ 63)). lia.
Qed.

Lemma wfb_int_of n : n < 2 ^ 63 -> wfb (int_of n) = true.
Proof. intros H. cbn [wfb int_of]. apply i64_of_N. exact H. Qed.

Lemma wfb_strs l : wfb (Lst (map Str l)) = true.
Proof. cbn [wfb]. induction l as [|x l IHl]; [reflexivity|]. cbn [map forallb wfb]. exact IHl. Qed.

Lemma opt_if_wfb (b : bool) a x : (if b then Some a else None) = Some x -> wfb a = true -> wfb x = true.
Proof. destruct b; intros H Hw; [injection H as H; subst x; exact Hw|discriminate]. Qed.

Lemma opt_ifn_wfb (b : bool) a x : (if b then None else Some a) = Some x -> wfb a = true -> wfb x = true.
Proof. destruct b; intros H Hw; [discriminate|injection H as H; subst x; exact Hw]. Qed.

Lemma opt_map_wfb {A} (f : A -> value) (o : option A) x :
  option_map f o = Some x -> (forall a, wfb (f a) = true) -> wfb x = true.
Proof. destruct o as [a|]; cbn [option_map]; intros H Hw; [injection H as H; subst x; apply Hw|discriminate]. Qed.

Lemma in_one {A} (x y : A) : In x [y] -> x = y.
Proof. intros [H|[]]. symmetry. exact H. Qed.

Lemma Forall2_weaken {A B} (R1 R2 : A -> B -> Prop) :
  (forall a b, R1 a b -> R2 a b) -> forall l l', Forall2 R1 l l' -> Forall2 R2 l l'.
Proof. intros HR l l' H. induction H as [|a b l l' Hab _ IH]; constructor; [apply HR; exact Hab|exact IH]. Qed.

(** `a,b,c`.split(',') gives back a, b, c in order *)
Fixpoint join (c : byte) (l : list bytes) : bytes :=
  match l with
  | [] => []
  | [x] => x
  | x :: r => x ++ c :: join c r
  end.

Lemma split_on_nocomma c u : ~ In c u -> split_on c u = [u].
Proof.
  induction u as [|x u IHu]; intros H; [reflexivity|].
  cbn [split_on]. destruct (x =? c) eqn:E.
  - apply N.eqb_eq in E. exfalso. apply H. left. exact E.
  - rewrite IHu; [reflexivity|]. intros Hin. apply H. right. exact Hin.
Qed.

Lemma split_on_app c u : forall rest, ~ In c u ->
  split_on c (u ++ c :: rest) = u :: split_on c rest.
Proof.
  induction u as [|x u IHu]; intros rest H.
  - cbn [app split_on]. rewrite N.eqb_refl. reflexivity.
  - cbn [app split_on]. destruct (x =? c) eqn:E.
    + apply N.eqb_eq in E. exfalso. apply H. left. exact E.
    + rewrite IHu; [reflexivity|]. intros Hin. apply H. right. exact Hin.
Qed.

Lemma split_join c : forall l, l <> [] -> Forall (fun u => ~ In c u) l -> split_on c (join c l) = l.
Proof.
  induction l as [|x l IHl]; intros Hne Hall; [contradiction|].
  inversion Hall as [|? ? Hx Hl]; subst.
  destruct l as [|y l'].
  - cbn [join]. apply split_on_nocomma. exact Hx.
  - change (join c (x :: y :: l')) with (x ++ c :: join c (y :: l')).
    rewrite split_on_app by exact Hx. f_equal. apply IHl; [discriminate|exact Hl].
Qed.

(** `[addr]` loses exactly its brackets; anything not starting with `[` is untouched *)
Lemma strip_last_app c s : strip_last c (s ++ [c]) = Some s.
Proof.
  induction s as [|x s IHs].
  - cbn [app strip_last]. rewrite N.eqb_refl. reflexivity.
  - cbn [app]. destruct (s ++ [c]) as [|y t] eqn:E.
    + destruct s; discriminate.
    + cbn [strip_last]. cbn [strip_last] in IHs. rewrite IHs. reflexivity.
Qed.

Lemma unbracket_brackets s : unbracket (91 :: s ++ [93]) = s.
Proof. unfold unbracket. cbn [hd_is]. rewrite N.eqb_refl. rewrite strip_last_app. reflexivity. Qed.

Lemma unbracket_plain h : hd_is 91 h = None -> unbracket h = h.
Proof. intros H. unfold unbracket. rewrite H. reflexivity. Qed.

(* ---------- files ---------- *)

Definition file_entries (md5 : bool) (f : file) : list (bytes * option value) :=
  [ (kF_length, Some (int_of (f_length f)));
    (kF_path, Some (Lst (map Str (f_path f))));
    (kF_md5sum, if md5 then Some (Str (f_md5 f)) else None) ].

Lemma file_entry_spec md5 f :
  exists d, file_entry md5 f = Some (Dict d) /\ sorted d /\
    (forall q, dget q d = lookup q (file_entries md5 f)) /\
    (forall kv, In kv d -> In (fst kv, Some (snd kv)) (file_entries md5 f)).
Proof. apply (mk_dict_spec (file_entries md5 f)). reflexivity. Qed.

Lemma file_entry_fields md5 f e : file_entry md5 f = Some e ->
  vget (txt "length") e = Some (int_of (f_length f)) /\
  vget (txt "path") e = Some (Lst (map Str (f_path f))) /\
  vget (txt "md5sum") e = (if md5 then Some (Str (f_md5 f)) else None) /\
  (forall q x, vget q e = Some x -> In q [txt "length"; txt "path"; txt "md5sum"]).
Proof.
  intros He. destruct (file_entry_spec md5 f) as (d & Hd & _ & Hget & _).
  rewrite Hd in He. inversion He; subst e. cbn [vget]. rewrite !Hget.
  repeat split; try reflexivity.
  intros q x Hq. rewrite Hget in Hq. apply lookup_some_key in Hq.
  cbn in Hq. cbn. tauto.
Qed.

Lemma file_entry_wfb md5 f e : file_ok f = true -> file_entry md5 f = Some e -> wfb e = true.
Proof.
  intros Hok He. unfold file_entry in He.
  apply (mk_dict_wfb (file_entries md5 f) e); [reflexivity| |exact He].
  intros k x Hin. unfold file_entries in Hin.
  destruct Hin as [H|[H|[H|[]]]]; injection H as Hk Hx.
  - subst x. apply wfb_int_of. unfold file_ok in Hok. apply N.ltb_lt. exact Hok.
  - subst x. apply wfb_strs.
  - apply (opt_if_wfb _ _ _ Hx). reflexivity.
Qed.

Lemma files_total md5 fs : exists l, all_some (map (file_entry md5) fs) = Some l.
Proof.
  apply all_some_total. intros f _. destruct (file_entry_spec md5 f) as (d & Hd & _).
  eexists. exact Hd.
Qed.

Lemma mode_entries_total md5 i : exists me, mode_entries md5 i = Some me.
Proof.
  destruct i as [n l m|n fs|l m]; cbn [mode_entries]; try (eexists; reflexivity).
  destruct (files_total md5 fs) as [l Hl]. rewrite Hl. eexists. reflexivity.
Qed.

Section WithEnvironment.
  Variable norm : bytes -> bytes.
  Variable url_ok : bytes -> bool.
  Variable host_canon : bytes -> bytes.
  Variable git_suffix : bytes.

  Notation build := (build norm host_canon git_suffix).
  Notation build_info := (build_info norm).
  Notation run_create := (run_create norm url_ok host_canon git_suffix).
  Notation info_entries := (info_entries norm).
  Notation metainfo_entries := (metainfo_entries norm host_canon git_suffix).

  (* ---------- info dictionary ---------- *)

  Lemma info_keys_distinct o c name me :
    mode_entries (o_md5 o) (c_input c) = Some me ->
    distinct_keys (map fst (info_entries o c name me)) = true.
  Proof.
    intros Hme. destruct (c_input c) as [n l m|n fs|l m]; cbn [mode_entries] in Hme.
    - inversion Hme; subst me. reflexivity.
    - destruct (all_some _) as [l|]; [|discriminate]. inversion Hme; subst me. reflexivity.
    - inversion Hme; subst me. reflexivity.
  Qed.

  Lemma build_info_spec o c info : build_info o c = Some info ->
    exists name me d,
      name_of o (c_input c) = Some name /\ mode_entries (o_md5 o) (c_input c) = Some me /\
      info = Dict d /\ sorted d /\
      (forall q, dget q d = lookup q (info_entries o c name me)) /\
      (forall kv, In kv d -> In (fst kv, Some (snd kv)) (info_entries o c name me)).
  Proof.
    unfold Metainfo.build_info. intros H.
    destruct (name_of o (c_input c)) as [name|] eqn:En; [|discriminate].
    destruct (mode_entries (o_md5 o) (c_input c)) as [me|] eqn:Em; [|discriminate].
    destruct (mk_dict_spec (info_entries o c name me) (info_keys_distinct o c name me Em))
      as (d & Hd & Hs & Hget & Hin).
    rewrite Hd in H. inversion H; subst info.
    exists name, me, d. repeat split; assumption.
  Qed.

  Lemma build_info_total o c : name_of o (c_input c) <> None -> exists info, build_info o c = Some info.
  Proof.
    intros Hn. unfold Metainfo.build_info.
    destruct (name_of o (c_input c)) as [name|] eqn:En; [|contradiction].
    destruct (mode_entries_total (o_md5 o) (c_input c)) as [me Hme]. rewrite Hme.
    destruct (mk_dict_spec (info_entries o c name me) (info_keys_distinct o c name me Hme)) as (d & Hd & _).
    eexists. exact Hd.
  Qed.

  (* ---------- top level ---------- *)

  Lemma build_spec o c v : build o c = Some v ->
    exists info d,
      build_info o c = Some info /\ v = Dict d /\ sorted d /\
      (forall q, dget q d = lookup q (metainfo_entries o info)) /\
      (forall kv, In kv d -> In (fst kv, Some (snd kv)) (metainfo_entries o info)).
  Proof.
    unfold Metainfo.build. intros H.
    destruct (build_info o c) as [info|] eqn:Ei; [|discriminate].
    destruct (mk_dict_spec (metainfo_entries o info) eq_refl) as (d & Hd & Hs & Hget & Hin).
    rewrite Hd in H. inversion H; subst v.
    exists info, d. repeat split; assumption.
  Qed.

  (** serialisation never fails on a duplicate key: the only refusal is a missing name (stdin without --name) *)
  Theorem build_total o c : name_of o (c_input c) <> None -> exists v, build o c = Some v.
  Proof.
    intros Hn. destruct (build_info_total o c Hn) as [info Hi].
    unfold Metainfo.build. rewrite Hi.
    destruct (mk_dict_spec (metainfo_entries o info) eq_refl) as (d & Hd & _).
    eexists. exact Hd.
  Qed.

  (** lookup through `info` *)
  Definition iget (k : bytes) (v : value) : option value :=
    match vget (txt "info") v with Some i => vget k i | None => None end.

  Lemma top_get o c v : build o c = Some v ->
    exists info, build_info o c = Some info /\ forall q, vget q v = lookup q (metainfo_entries o info).
  Proof.
    intros H. destruct (build_spec o c v H) as (info & d & Hi & Hv & _ & Hget & _).
    exists info. split; [exact Hi|]. subst v. exact Hget.
  Qed.

  Lemma info_get o c v : build o c = Some v ->
    exists name me, name_of o (c_input c) = Some name /\ mode_entries (o_md5 o) (c_input c) = Some me /\
      forall q, iget q v = lookup q (info_entries o c name me).
  Proof.
    intros H. destruct (top_get o c v H) as (info & Hi & Hget).
    destruct (build_info_spec o c info Hi) as (name & me & d & Hn & Hm & Hinfo & _ & Hg & _).
    exists name, me. repeat split; [exact Hn|exact Hm|].
    intros q. unfold iget. rewrite Hget.
    change (lookup (txt "info") (metainfo_entries o info)) with (Some info).
    subst info. exact (Hg q).
  Qed.

  (* ----- one lemma per requested field ----- *)

  Theorem get_announce o c v : build o c = Some v ->
    vget (txt "announce") v = option_map (fun u => Str (norm u)) (o_announce o).
  Proof. intros H. destruct (top_get o c v H) as (info & _ & Hget). rewrite Hget. reflexivity. Qed.

  Theorem get_announce_list o c v : build o c = Some v ->
    vget (txt "announce-list") v =
      match o_tiers o with
      | [] => None
      | _ => Some (Lst (map (fun t => Lst (map Str (split_on 44 t))) (o_tiers o)))
      end.
  Proof.
    intros H. destruct (top_get o c v H) as (info & _ & Hget). rewrite Hget.
    change (lookup (txt "announce-list") (metainfo_entries o info))
      with (match tiers_of o with [] => None | ts => Some (tiers_value ts) end).
    unfold tiers_of, tiers_value. destruct (o_tiers o) as [|t ts]; [reflexivity|].
    cbn [map]. rewrite map_map. reflexivity.
  Qed.

  Theorem get_comment o c v : build o c = Some v -> vget (txt "comment") v = option_map Str (o_comment o).
  Proof. intros H. destruct (top_get o c v H) as (info & _ & Hget). rewrite Hget. reflexivity. Qed.

  Theorem get_created_by o c v : build o c = Some v ->
    vget (txt "created by") v =
      if o_no_created_by o then None else Some (Str (GenCreate.created_by_prefix ++ git_suffix)).
  Proof. intros H. destruct (top_get o c v H) as (info & _ & Hget). rewrite Hget. reflexivity. Qed.

  Theorem get_creation_date o c v : build o c = Some v ->
    vget (txt "creation date") v = if o_no_creation_date o then None else Some (Int (Z.of_N (o_now o))).
  Proof. intros H. destruct (top_get o c v H) as (info & _ & Hget). rewrite Hget. reflexivity. Qed.

  Theorem get_encoding o c v : build o c = Some v -> vget (txt "encoding") v = Some (Str (txt "UTF-8")).
  Proof. intros H. destruct (top_get o c v H) as (info & _ & Hget). rewrite Hget. reflexivity. Qed.

  Theorem get_nodes o c v : build o c = Some v ->
    vget (txt "nodes") v =
      match o_nodes o with
      | [] => None
      | _ => Some (Lst (map (fun n => Lst [Str (host_canon (unbracket (fst n))); Int (Z.of_N (snd n))]) (o_nodes o)))
      end.
  Proof.
    intros H. destruct (top_get o c v H) as (info & _ & Hget). rewrite Hget.
    change (lookup (txt "nodes") (metainfo_entries o info))
      with (match o_nodes o with [] => None | ns => Some (Lst (map (node_value host_canon) ns)) end).
    destruct (o_nodes o); reflexivity.
  Qed.

  Theorem get_info_name o c v : build o c = Some v ->
    iget (txt "name") v = option_map Str (name_of o (c_input c)).
  Proof.
    intros H. destruct (info_get o c v H) as (name & me & Hn & _ & Hget). rewrite Hget, Hn. reflexivity.
  Qed.

  Theorem get_info_piece_length o c v : build o c = Some v ->
    iget (txt "piece length") v = Some (Int (Z.of_N (piece_length_of o (c_input c)))).
  Proof. intros H. destruct (info_get o c v H) as (name & me & _ & _ & Hget). rewrite Hget. reflexivity. Qed.

  Theorem get_info_private o c v : build o c = Some v ->
    iget (txt "private") v = if o_private o then Some (Int 1) else None.
  Proof. intros H. destruct (info_get o c v H) as (name & me & _ & _ & Hget). rewrite Hget. reflexivity. Qed.

  Theorem get_info_source o c v : build o c = Some v ->
    iget (txt "source") v = option_map Str (o_source o).
  Proof. intros H. destruct (info_get o c v H) as (name & me & _ & _ & Hget). rewrite Hget. reflexivity. Qed.

  Theorem get_info_pieces o c v : build o c = Some v -> iget (txt "pieces") v = Some (Str (c_pieces c)).
  Proof. intros H. destruct (info_get o c v H) as (name & me & _ & _ & Hget). rewrite Hget. reflexivity. Qed.

  Theorem get_info_update_url o c v : build o c = Some v ->
    iget (txt "update-url") v = option_map (fun u => Str (norm u)) (o_update_url o).
  Proof.
    intros H. destruct (info_get o c v H) as (name & me & _ & Hm & Hget). rewrite Hget.
    destruct (c_input c) as [n l m|n fs|l m]; cbn [mode_entries] in Hm.
    - inversion Hm; subst me. reflexivity.
    - destruct (all_some _) as [l|]; [|discriminate]. inversion Hm; subst me. reflexivity.
    - inversion Hm; subst me. reflexivity.
  Qed.

  (* ----- single-file and multi-file shape ----- *)

  Definition single_of (i : input) : option (N * bytes) :=
    match i with InFile _ l m | InStdin l m => Some (l, m) | InDir _ _ => None end.

  Theorem single_shape o c v l m : build o c = Some v -> single_of (c_input c) = Some (l, m) ->
    iget (txt "length") v = Some (Int (Z.of_N l)) /\
    iget (txt "md5sum") v = (if o_md5 o then Some (Str m) else None) /\
    iget (txt "files") v = None.
  Proof.
    intros H Hs. destruct (info_get o c v H) as (name & me & _ & Hm & Hget). rewrite !Hget.
    destruct (c_input c) as [n l' m'|n fs|l' m']; cbn [single_of] in Hs; try discriminate;
      inversion Hs; subst l' m'; cbn [mode_entries] in Hm; inversion Hm; subst me;
      repeat split; reflexivity.
  Qed.

  Theorem multi_shape o c v n fs : build o c = Some v -> c_input c = InDir n fs ->
    iget (txt "length") v = None /\ iget (txt "md5sum") v = None /\
    exists es, iget (txt "files") v = Some (Lst es) /\
      Forall2 (fun f e =>
        vget (txt "length") e = Some (Int (Z.of_N (f_length f))) /\
        vget (txt "path") e = Some (Lst (map Str (f_path f))) /\
        vget (txt "md5sum") e = (if o_md5 o then Some (Str (f_md5 f)) else None) /\
        (forall q x, vget q e = Some x -> In q [txt "length"; txt "path"; txt "md5sum"])) fs es.
  Proof.
    intros H Hi. destruct (info_get o c v H) as (name & me & _ & Hm & Hget). rewrite !Hget.
    rewrite Hi in Hm. cbn [mode_entries] in Hm.
    destruct (all_some (map (file_entry (o_md5 o)) fs)) as [es|] eqn:Ees; [|discriminate].
    inversion Hm; subst me. repeat split; try reflexivity.
    exists es. split; [reflexivity|].
    apply all_some_Forall2 in Ees. revert Ees. apply Forall2_weaken.
    intros f e Hfe. apply (file_entry_fields (o_md5 o) f e Hfe).
  Qed.

  (* ----- nothing else is in the file ----- *)

  Definition top_keys : list bytes :=
    [txt "announce"; txt "announce-list"; txt "comment"; txt "created by"; txt "creation date";
     txt "encoding"; txt "info"; txt "nodes"].
  Definition info_keys : list bytes :=
    [txt "private"; txt "piece length"; txt "name"; txt "source"; txt "pieces"; txt "length"; txt "md5sum";
     txt "files"; txt "update-url"].

  Theorem no_other_top_keys o c v q x : build o c = Some v -> vget q v = Some x -> In q top_keys.
  Proof.
    clear url_ok. intros H Hq. destruct (top_get o c v H) as (info & _ & Hget). rewrite Hget in Hq.
    apply lookup_some_key in Hq. cbn in Hq. unfold top_keys. cbn. tauto.
  Qed.

  Theorem no_other_info_keys o c v q x : build o c = Some v -> iget q v = Some x -> In q info_keys.
  Proof.
    clear url_ok. intros H Hq. destruct (info_get o c v H) as (name & me & _ & Hm & Hget). rewrite Hget in Hq.
    apply lookup_some_key in Hq.
    destruct (c_input c) as [n l m|n fs|l m]; cbn [mode_entries] in Hm.
    - inversion Hm; subst me. cbn in Hq. unfold info_keys. cbn. tauto.
    - destruct (all_some _) as [l|]; [|discriminate]. inversion Hm; subst me.
      cbn in Hq. unfold info_keys. cbn. tauto.
    - inversion Hm; subst me. cbn in Hq. unfold info_keys. cbn. tauto.
  Qed.

  (** every optional key is absent when its option was not given (the other direction of the
      field lemmas, collected) *)
  Theorem absent_when_not_given o c v : build o c = Some v ->
    (o_announce o = None -> vget (txt "announce") v = None) /\
    (o_tiers o = [] -> vget (txt "announce-list") v = None) /\
    (o_comment o = None -> vget (txt "comment") v = None) /\
    (o_nodes o = [] -> vget (txt "nodes") v = None) /\
    (o_no_created_by o = true -> vget (txt "created by") v = None) /\
    (o_no_creation_date o = true -> vget (txt "creation date") v = None) /\
    (o_source o = None -> iget (txt "source") v = None) /\
    (o_update_url o = None -> iget (txt "update-url") v = None) /\
    (o_private o = false -> iget (txt "private") v = None) /\
    (o_md5 o = false -> iget (txt "md5sum") v = None).
  Proof.
    intros H.
    rewrite (get_announce o c v H), (get_announce_list o c v H), (get_comment o c v H), (get_nodes o c v H),
      (get_created_by o c v H), (get_creation_date o c v H), (get_info_source o c v H),
      (get_info_update_url o c v H), (get_info_private o c v H).
    repeat split; try (intros ->; reflexivity).
    intros Hmd5. destruct (single_of (c_input c)) as [[l m]|] eqn:Es.
    - destruct (single_shape o c v l m H Es) as (_ & Hm & _). rewrite Hm, Hmd5. reflexivity.
    - destruct (c_input c) as [n l m|n fs|l m] eqn:Ei; try discriminate.
      destruct (multi_shape o c v n fs H Ei) as (_ & Hm & _). exact Hm.
  Qed.

  (* ----- canonical form ----- *)

  Lemma mode_entries_wfb md5 i me : input_ok i = true -> mode_entries md5 i = Some me ->
    forall k x, In (k, Some x) me -> wfb x = true.
  Proof.
    intros Hok Hm k x Hin.
    destruct i as [n l m|n fs|l m]; cbn [mode_entries] in Hm; cbn [input_ok] in Hok.
    - inversion Hm; subst me. destruct Hin as [Hin|[Hin|[]]]; injection Hin as Hk Hx.
      + subst x. apply wfb_int_of. apply N.ltb_lt. exact Hok.
      + apply (opt_if_wfb _ _ _ Hx). reflexivity.
    - destruct (all_some (map (file_entry md5) fs)) as [es|] eqn:Ees; [|discriminate].
      inversion Hm; subst me. apply in_one in Hin. injection Hin as Hk Hx. subst x.
      apply all_some_Forall2 in Ees. cbn [wfb]. clear Hm. revert Hok.
      induction Ees as [|f e fs' es' Hfe _ IH]; intros Hok; [reflexivity|].
      cbn [forallb] in Hok |- *. apply andb_prop in Hok. destruct Hok as [Hf Hfs].
      rewrite (file_entry_wfb md5 f e Hf Hfe). cbn [andb]. apply IH. exact Hfs.
    - inversion Hm; subst me. destruct Hin as [Hin|[Hin|[]]]; injection Hin as Hk Hx.
      + subst x. apply wfb_int_of. apply N.ltb_lt. exact Hok.
      + apply (opt_if_wfb _ _ _ Hx). reflexivity.
  Qed.

  Lemma build_info_wfb o c info : input_ok (c_input c) = true -> piece_length_of o (c_input c) < 2 ^ 63 ->
    build_info o c = Some info -> wfb info = true.
  Proof.
    intros Hok Hp H. unfold Metainfo.build_info in H.
    destruct (name_of o (c_input c)) as [name|] eqn:En; [|discriminate].
    destruct (mode_entries (o_md5 o) (c_input c)) as [me|] eqn:Em; [|discriminate].
    apply (mk_dict_wfb (info_entries o c name me) info (info_keys_distinct o c name me Em)); [|exact H].
    intros k x Hin. unfold Metainfo.info_entries in Hin.
    apply in_app_or in Hin. destruct Hin as [Hin|Hin].
    - destruct Hin as [Hin|[Hin|[Hin|[Hin|[Hin|[]]]]]]; injection Hin as Hk Hx.
      + apply (opt_if_wfb _ _ _ Hx). reflexivity.
      + subst x. apply wfb_int_of. exact Hp.
      + subst x. reflexivity.
      + apply (opt_map_wfb _ _ _ Hx). reflexivity.
      + subst x. reflexivity.
    - apply in_app_or in Hin. destruct Hin as [Hin|Hin].
      + apply (mode_entries_wfb (o_md5 o) (c_input c) me Hok Em k x Hin).
      + apply in_one in Hin. injection Hin as Hk Hx. symmetry in Hx. apply (opt_map_wfb _ _ _ Hx). reflexivity.
  Qed.

  Lemma wfb_tiers ts : wfb (tiers_value ts) = true.
  Proof.
    unfold tiers_value. cbn [wfb]. induction ts as [|t ts IH]; [reflexivity|].
    cbn [map forallb]. rewrite wfb_strs. exact IH.
  Qed.

  Lemma wfb_nodes ns : forallb (fun n => snd n <? 2 ^ 16) ns = true ->
    wfb (Lst (map (node_value host_canon) ns)) = true.
  Proof.
    cbn [wfb]. induction ns as [|n ns IH]; intros H; [reflexivity|].
    cbn [forallb] in H. apply andb_prop in H. destruct H as [Hn Hns].
    cbn [map forallb]. rewrite (IH Hns), andb_true_r.
    unfold node_value. cbn [wfb forallb]. rewrite andb_true_r. cbn [andb].
    apply wfb_int_of. apply N.ltb_lt in Hn. lia.
  Qed.

  Theorem build_wfb o c v :
    input_ok (c_input c) = true -> opts_ok o = true -> piece_length_of o (c_input c) < 2 ^ 63 ->
    build o c = Some v -> wfb v = true.
  Proof.
    intros Hi Ho Hp H. unfold Metainfo.build in H.
    destruct (build_info o c) as [info|] eqn:Ei; [|discriminate].
    apply (mk_dict_wfb (metainfo_entries o info) v eq_refl); [|exact H].
    unfold opts_ok in Ho. apply andb_prop in Ho. destruct Ho as [Hnow Hports].
    intros k x Hin. unfold Metainfo.metainfo_entries in Hin.
    destruct Hin as [Hin|[Hin|[Hin|[Hin|[Hin|[Hin|[Hin|[Hin|[]]]]]]]]]; injection Hin as Hk Hx.
    - apply (opt_map_wfb _ _ _ Hx). reflexivity.
    - destruct (tiers_of o) as [|t ts] eqn:Et; [discriminate|]. injection Hx as Hx. subst x. apply wfb_tiers.
    - apply (opt_map_wfb _ _ _ Hx). reflexivity.
    - apply (opt_ifn_wfb _ _ _ Hx). reflexivity.
    - apply (opt_ifn_wfb _ _ _ Hx). apply wfb_int_of. apply N.ltb_lt. exact Hnow.
    - subst x. reflexivity.
    - subst x. apply (build_info_wfb o c info Hi Hp Ei).
    - destruct (o_nodes o) as [|n ns] eqn:En; [discriminate|]. injection Hx as Hx. subst x.
      apply (wfb_nodes (n :: ns)). exact Hports.
  Qed.

  (** canonical: the strict reader consumes the output entirely and returns the assembled value, and
      no other value/remainder can come out of it whatever the fuel *)
  Theorem build_canonical o c v :
    input_ok (c_input c) = true -> opts_ok o = true -> piece_length_of o (c_input c) < 2 ^ 63 ->
    build o c = Some v ->
    wfb v = true /\
    decode (vsize v) (encode v) = Some (v, []) /\
    (forall fuel v' rest, decode fuel (encode v) = Some (v', rest) -> v' = v /\ rest = []).
  Proof.
    intros Hi Ho Hp H. assert (Hw : wfb v = true) by (apply (build_wfb o c v Hi Ho Hp H)).
    assert (Hd : decode (vsize v) (encode v) = Some (v, [])).
    { pose proof (encode_decode v Hw []) as E. rewrite app_nil_r in E. exact E. }
    repeat split; [exact Hw|exact Hd| |].
    - pose proof (decode_mono_le fuel (Nat.max fuel (vsize v)) _ _ (Nat.le_max_l _ _) H0) as E1.
      pose proof (decode_mono_le (vsize v) (Nat.max fuel (vsize v)) _ _ (Nat.le_max_r _ _) Hd) as E2.
      rewrite E1 in E2. inversion E2. reflexivity.
    - pose proof (decode_mono_le fuel (Nat.max fuel (vsize v)) _ _ (Nat.le_max_l _ _) H0) as E1.
      pose proof (decode_mono_le (vsize v) (Nat.max fuel (vsize v)) _ _ (Nat.le_max_r _ _) Hd) as E2.
      rewrite E1 in E2. inversion E2. reflexivity.
  Qed.

  (* ----- Create::run ----- *)

  Theorem run_create_build o c v : run_create o c = Some v ->
    build o c = Some v /\
    0 < piece_length_of o (c_input c) < 2 ^ 32 /\
    (o_allow_small o = false -> 16 * 1024 <= piece_length_of o (c_input c)) /\
    (o_allow_uneven o = false -> is_pow2 (piece_length_of o (c_input c)) = true) /\
    (o_private o = true -> o_allow_private_trackerless o = false -> o_announce o <> None) /\
    (forall t u, In t (o_tiers o) -> In u (split_on 44 t) -> url_ok u = true).
  Proof.
    unfold Metainfo.run_create. intros H.
    destruct (existsb _ (tiers_of o)) eqn:Et; [discriminate|].
    destruct (negb (o_allow_private_trackerless o) && o_private o && _) eqn:Ep; [discriminate|].
    cbv zeta in H.
    destruct (piece_length_of o (c_input c) =? 0) eqn:E0; [discriminate|].
    destruct (negb (o_allow_uneven o) && negb (is_pow2 _)) eqn:Eu; [discriminate|].
    destruct (negb (o_allow_small o) && (_ <? 16 * 1024)) eqn:Es; [discriminate|].
    destruct (negb (_ <? 2 ^ 32)) eqn:E32; [discriminate|].
    split; [exact H|].
    apply N.eqb_neq in E0. apply negb_false_iff in E32. apply N.ltb_lt in E32.
    split; [lia|]. split; [|split; [|split]].
    - intros Ha. rewrite Ha in Es. cbn [negb andb] in Es. apply N.ltb_ge in Es. exact Es.
    - intros Ha. rewrite Ha in Eu. cbn [negb andb] in Eu. apply negb_false_iff in Eu. exact Eu.
    - intros Hp Ha Hn. rewrite Hp, Ha, Hn in Ep. discriminate.
    - intros t u Ht Hu.
      destruct (url_ok u) eqn:Eu'; [reflexivity|]. exfalso.
      assert (X : existsb (fun t => existsb (fun u => negb (url_ok u)) t) (tiers_of o) = true).
      { apply existsb_exists. exists (split_on 44 t). split.
        - unfold tiers_of. apply in_map. exact Ht.
        - apply existsb_exists. exists u. split; [exact Hu|]. rewrite Eu'. reflexivity. }
      rewrite X in Et. discriminate.
  Qed.

  (** what is written is canonical whenever create gets as far as writing *)
  Theorem create_canonical o c v :
    input_ok (c_input c) = true -> opts_ok o = true -> run_create o c = Some v ->
    wfb v = true /\
    decode (vsize v) (encode v) = Some (v, []) /\
    (forall fuel v' rest, decode fuel (encode v) = Some (v', rest) -> v' = v /\ rest = []).
  Proof.
    intros Hi Ho H. destruct (run_create_build o c v H) as (Hb & Hp & _).
    apply (build_canonical o c v Hi Ho); [|exact Hb].
    assert (2 ^ 32 < 2 ^ 63) by (apply N.pow_lt_mono_r; lia). lia.
  Qed.

  (* ----- reproducibility ----- *)

  (** with --no-creation-date the output does not depend on the clock: it is a function of the
      command line and of the content handed over by the walker and the hasher *)
  Theorem reproducible o c t : o_no_creation_date o = true ->
    run_create (with_now o t) c = run_create o c.
  Proof.
    intros Hn. unfold Metainfo.run_create, Metainfo.build, Metainfo.build_info, Metainfo.metainfo_entries,
      Metainfo.info_entries, tiers_of, piece_length_of, name_of, with_now. cbn.
    rewrite Hn. reflexivity.
  Qed.

  (** without the flag, the clock shows in exactly one place *)
  Theorem clock_only_in_creation_date o c t v v' :
    build o c = Some v -> build (with_now o t) c = Some v' ->
    forall q, q <> txt "creation date" -> vget q v' = vget q v.
  Proof.
    intros H H' q Hq.
    destruct (top_get o c v H) as (info & Hi & Hget).
    destruct (top_get (with_now o t) c v' H') as (info' & Hi' & Hget').
    assert (Ei : info' = info).
    { change (build_info (with_now o t) c) with (build_info o c) in Hi'. rewrite Hi in Hi'.
      injection Hi' as Hi'. symmetry. exact Hi'. }
    subst info'. rewrite Hget, Hget'.
    unfold Metainfo.metainfo_entries, tiers_of, with_now. cbn [lookup o_announce o_tiers o_comment
      o_no_created_by o_no_creation_date o_now o_nodes].
    destruct (bytes_eqb q kM_announce); [reflexivity|].
    destruct (bytes_eqb q kM_announce_list); [reflexivity|].
    destruct (bytes_eqb q kM_comment); [reflexivity|].
    destruct (bytes_eqb q kM_created_by); [reflexivity|].
    destruct (bytes_eqb q kM_creation_date) eqn:E.
    - apply bytes_eqb_eq in E. exfalso. apply Hq. exact E.
    - reflexivity.
  Qed.
End WithEnvironment.

(* ---------- a concrete instance (hypotheses are satisfiable, values non-trivial) ---------- *)

Definition ex_opts : opts :=
  {| o_announce := Some (txt "http://example.com/announce");
     o_tiers := [txt "http://a.example/announce,udp://b.example:1337/announce"; txt "http://c.example/announce"];
     o_comment := Some (txt "hello"); o_source := Some (txt "SRC");
     o_nodes := [(txt "router.example.com", 6881); (txt "[2001:db8::1]", 6882); (txt "203.0.113.5", 1)];
     o_private := true; o_update_url := Some (txt "https://example.com/feed"); o_name := None;
     o_piece_length := None; o_md5 := true; o_no_created_by := true; o_no_creation_date := false;
     o_allow_small := false; o_allow_uneven := false; o_allow_private_trackerless := false;
     o_now := 1790000000 |}.

Definition ex_content : content :=
  {| c_input := InDir (txt "dir")
       [ {| f_path := [txt "a"]; f_length := 3; f_md5 := txt "900150983cd24fb0d6963f7d28e17f72" |};
         {| f_path := [txt "sub"; txt "b"]; f_length := 0; f_md5 := txt "d41d8cd98f00b204e9800998ecf8427e" |} ];
     c_pieces := repeat 120 20 |}.

(** the bytes of that instance, written out by the independent Python encoder (tools/lib.py bencode) *)
Definition ex_bytes : bytes := txt
  "d8:announce27:http://example.com/announce13:announce-listll25:http://a.example/announce29:udp://b.example:1337/announceel25:http://c.example/announceee7:comment5:hello13:creation datei1790000000e8:encoding5:UTF-84:infod5:filesld6:lengthi3e6:md5sum32:900150983cd24fb0d6963f7d28e17f724:pathl1:aeed6:lengthi0e6:md5sum32:d41d8cd98f00b204e9800998ecf8427e4:pathl3:sub1:beee4:name3:dir12:piece lengthi16384e6:pieces20:xxxxxxxxxxxxxxxxxxxx7:privatei1e6:source3:SRC10:update-url24:https://example.com/feede5:nodesll18:router.example.comi6881eel11:2001:db8::1i6882eel11:203.0.113.5i1eeee".

Lemma ex_instance :
  create_bytes (fun u => u) (fun _ => true) (fun h => h) [] ex_opts ex_content = Some ex_bytes /\
  input_ok (c_input ex_content) = true /\ opts_ok ex_opts = true /\ name_of ex_opts (c_input ex_content) <> None.
Proof. repeat split; try (vm_compute; reflexivity). discriminate. Qed.

(** set-equality of generated (key, optional) tables with the expected ones, insensitive to
    declaration order *)
Definition entry_eqb (a b : bytes * bool) : bool := bytes_eqb (fst a) (fst b) && Bool.eqb (snd a) (snd b).
Definition same_keys (got want : list (bytes * bool)) : bool :=
  Nat.eqb (length got) (length want) && forallb (fun w => existsb (entry_eqb w) got) want
  && distinct_keys (map fst got).
