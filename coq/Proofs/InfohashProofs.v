(** Proofs about Model/Infohash.v (C04). *)
From Coq Require Import Decimal DecimalN DecimalFacts.
From Coq Require Import NArith ZArith Lia ZifyN ZifyBool Bool List.
From Imdl Require Import Model.Bencode Proofs.BencodeProofs Generated.GenInfohash Model.Infohash.
Import ListNotations.
Local Open Scope N_scope.

(* ---------- byte strings ---------- *)

Lemma bytes_eqb_eq a : forall b, bytes_eqb a b = true <-> a = b.
Proof.
  induction a as [|x a IH]; intros [|y b]; cbn; split; intros E; try reflexivity; try discriminate.
  - apply andb_prop in E. destruct E as [E1 E2]. apply N.eqb_eq in E1. apply IH in E2. subst. reflexivity.
  - inversion E; subst. rewrite N.eqb_refl. cbn. apply IH. reflexivity.
Qed.

Lemma bytes_eqb_refl a : bytes_eqb a a = true.
Proof. apply bytes_eqb_eq. reflexivity. Qed.

Lemma bytes_eqb_neq a b : a <> b -> bytes_eqb a b = false.
Proof. intros Hn. destruct (bytes_eqb a b) eqn:E; [|reflexivity]. apply bytes_eqb_eq in E. contradiction. Qed.

Lemma bytes_ltb_irrefl a : bytes_ltb a a = false.
Proof. induction a as [|x a IH]; cbn; [reflexivity|]. rewrite N.ltb_irrefl. exact IH. Qed.

Lemma bytes_ltb_trans a : forall b c, bytes_ltb a b = true -> bytes_ltb b c = true -> bytes_ltb a c = true.
Proof.
  induction a as [|x a IH]; intros [|y b] [|z c]; cbn; try congruence; try reflexivity.
  intros H1 H2.
  destruct (N.ltb_spec x y) as [Lxy|Lxy]; destruct (N.ltb_spec y x) as [Lyx|Lyx];
  destruct (N.ltb_spec y z) as [Lyz|Lyz]; destruct (N.ltb_spec z y) as [Lzy|Lzy];
  destruct (N.ltb_spec x z) as [Lxz|Lxz]; destruct (N.ltb_spec z x) as [Lzx|Lzx];
  try reflexivity; try discriminate; try lia.
  eapply IH; eassumption.
Qed.

Lemma bytes_ltb_neq a b : bytes_ltb a b = true -> a <> b.
Proof. intros Hl E. subst. rewrite bytes_ltb_irrefl in Hl. discriminate. Qed.

Definition above (last : option bytes) (k : bytes) : bool :=
  match last with None => true | Some l => bytes_ltb l k end.

Lemma keys_sorted_all_above l : forall ks,
  keys_sorted (Some l) ks = true -> Forall (fun k => bytes_ltb l k = true) ks.
Proof.
  intros ks. revert l. induction ks as [|k ks IH]; intros l Hs; [constructor|].
  cbn in Hs. apply andb_prop in Hs. destruct Hs as [Hk Hr]. constructor; [exact Hk|].
  specialize (IH k Hr). eapply Forall_impl; [|exact IH]. cbn. intros k' Hk'.
  eapply bytes_ltb_trans; eassumption.
Qed.

Lemma keys_sorted_weaken last ks : keys_sorted last ks = true -> keys_sorted None ks = true.
Proof. destruct ks as [|k ks]; cbn; [reflexivity|]. intros Hs. apply andb_prop in Hs. destruct Hs as [_ Hs]. exact Hs. Qed.

Lemma keys_sorted_app last a : forall k b,
  keys_sorted last (a ++ k :: b) = true -> keys_sorted (Some k) b = true /\ Forall (fun x => x <> k) a.
Proof.
  revert last. induction a as [|x a IH]; intros last k b Hs.
  - cbn in Hs. apply andb_prop in Hs. destruct Hs as [_ Hs]. split; [exact Hs|constructor].
  - cbn in Hs. apply andb_prop in Hs. destruct Hs as [_ Hs].
    destruct (IH _ _ _ Hs) as [Hb Ha]. split; [exact Hb|]. constructor; [|exact Ha].
    apply keys_sorted_all_above in Hs. rewrite Forall_forall in Hs.
    apply bytes_ltb_neq. apply Hs. apply in_or_app. right. left. reflexivity.
Qed.

(* ---------- decode yields well-formed values ---------- *)

Lemma dec_int_wf r v rest : dec_int r = Some (v, rest) -> wfb v = true.
Proof.
  unfold dec_int. destruct (hd_is 45 r) as [r1|].
  - destruct (take_digits r1) as [u r2]. destruct (nonzero_start u); [|discriminate].
    destruct (hd_is 101 r2) as [r3|]; [|discriminate]. cbv zeta.
    destruct (i64_ok _) eqn:E; [|discriminate]. intros HH; inversion HH; subst. exact E.
  - destruct (take_digits r) as [u r2]. destruct (canon u); [|discriminate].
    destruct (hd_is 101 r2) as [r3|]; [|discriminate]. cbv zeta.
    destruct (i64_ok _) eqn:E; [|discriminate]. intros HH; inversion HH; subst. exact E.
Qed.

Theorem decode_wf :
  forall fuel,
    (forall bs v rest, decode fuel bs = Some (v, rest) -> wfb v = true) /\
    (forall bs l rest, decode_list fuel bs = Some (l, rest) -> forallb wfb l = true) /\
    (forall last bs d rest, decode_dict fuel last bs = Some (d, rest) ->
        keys_sorted last (map fst d) = true /\ forallb (fun kv => wfb (snd kv)) d = true).
Proof.
  induction fuel as [|f [IHv [IHl IHd]]].
  - repeat split; intros; discriminate.
  - split; [|split].
    + intros bs v rest H. cbn [decode] in H.
      destruct (hd_is 105 bs) as [r|]. { eapply dec_int_wf; exact H. }
      destruct (hd_is 108 bs) as [r|].
      { destruct (decode_list f r) as [[l r']|] eqn:E; [|discriminate].
        inversion H; subst. cbn [wfb]. eapply IHl; exact E. }
      destruct (hd_is 100 bs) as [r|].
      { destruct (decode_dict f None r) as [[d r']|] eqn:E; [|discriminate].
        inversion H; subst. cbn [wfb]. destruct (IHd _ _ _ _ E) as [Hs Hw]. rewrite Hs, Hw. reflexivity. }
      destruct (dec_str bs) as [[s r]|]; [|discriminate]. inversion H; subst. reflexivity.
    + intros bs l rest H. cbn [decode_list] in H.
      destruct (hd_is 101 bs) as [r|]. { inversion H; subst. reflexivity. }
      destruct (decode f bs) as [[v r]|] eqn:E1; [|discriminate].
      destruct (decode_list f r) as [[vs r']|] eqn:E2; [|discriminate].
      inversion H; subst. cbn [forallb]. rewrite (IHv _ _ _ E1), (IHl _ _ _ E2). reflexivity.
    + intros last bs d rest H. cbn [decode_dict] in H.
      destruct (hd_is 101 bs) as [r|]. { inversion H; subst. split; reflexivity. }
      destruct (dec_str bs) as [[k r]|]; [|discriminate].
      destruct (match last with None => true | Some l => bytes_ltb l k end) eqn:Ek; [|discriminate].
      destruct (decode f r) as [[v r1]|] eqn:E1; [|discriminate].
      destruct (decode_dict f (Some k) r1) as [[kvs r2]|] eqn:E2; [|discriminate].
      inversion H; subst. destruct (IHd _ _ _ _ E2) as [Hs Hw].
      cbn [map fst keys_sorted forallb snd]. rewrite Ek, Hs, (IHv _ _ _ E1), Hw. split; reflexivity.
Qed.

Lemma decode_some_wf f bs v rest : decode f bs = Some (v, rest) -> wfb v = true.
Proof. apply (proj1 (decode_wf f)). Qed.

Lemma decode_some_exact f bs v rest : decode f bs = Some (v, rest) -> bs = encode v ++ rest.
Proof. apply (proj1 (decode_exact f)). Qed.

Lemma decode_exact_wf f bs v rest : decode f bs = Some (v, rest) -> bs = encode v ++ rest /\ wfb v = true.
Proof. intros Hd. split; [exact (decode_some_exact f bs v rest Hd)|exact (decode_some_wf f bs v rest Hd)]. Qed.

(* ---------- the fuel [ih_from_input] passes is always enough ---------- *)

Lemma dec_length n : (1 <= length (dec n))%nat.
Proof. destruct (dec_hd n) as (b & t & E & _). rewrite E. cbn. lia. Qed.

Lemma enc_str_length s : (2 <= length (enc_str s))%nat.
Proof. unfold enc_str. rewrite app_length. cbn [length]. pose proof (dec_length (N.of_nat (length s))). lia. Qed.

Lemma enc_int_length z : (3 <= length (enc_int z))%nat.
Proof. unfold enc_int. cbn [length]. rewrite !app_length. cbn [length]. pose proof (dec_length (Z.abs_N z)). lia. Qed.

Lemma vsize_bound v : (vsize v + 1 <= 2 * length (encode v))%nat.
Proof.
  induction v as [z|s|l IH|d IH] using value_ind'.
  - cbn [vsize encode]. pose proof (enc_int_length z). lia.
  - cbn [vsize encode]. pose proof (enc_str_length s). lia.
  - cbn [vsize encode]. fold (lfuel l).
    assert (Hl : (lfuel l <= 1 + 2 * length (flat_map encode l))%nat).
    { induction IH as [|x xs Hx _ IHxs]; [cbn; lia|].
      unfold lfuel. cbn [fold_right flat_map]. fold (lfuel xs). rewrite app_length. lia. }
    cbn [length]. rewrite app_length. cbn [length]. lia.
  - cbn [vsize encode]. fold (dfuel d).
    assert (Hl : (dfuel d <= 1 + 2 * length (flat_map (fun kv => enc_str (fst kv) ++ encode (snd kv)) d))%nat).
    { induction IH as [|x xs Hx _ IHxs]; [cbn; lia|].
      unfold dfuel. cbn [fold_right flat_map]. fold (dfuel xs). rewrite !app_length. lia. }
    cbn [length]. rewrite app_length. cbn [length]. lia.
Qed.

Theorem fuel_sufficient f bs r : decode f bs = Some r -> decode (fuel_of bs) bs = Some r.
Proof.
  destruct r as [v rest]. intros Hd.
  pose proof (decode_some_exact _ _ _ _ Hd) as Hx. pose proof (decode_some_wf _ _ _ _ Hd) as Hw.
  subst bs. apply (decode_mono_le (vsize v)); [|apply encode_decode; exact Hw].
  unfold fuel_of. rewrite app_length. pose proof (vsize_bound v). lia.
Qed.

Lemma decode_canonical v rest : wfb v = true -> decode (fuel_of (encode v ++ rest)) (encode v ++ rest) = Some (v, rest).
Proof. intros Hw. eapply fuel_sufficient. apply encode_decode. exact Hw. Qed.

(** no fuel at all makes the decoder accept what [ih_from_input] calls a decode error *)
Corollary decode_error_is_real md bs :
  ih_from_input md bs = IhDecodeError ->
  forall f, match decode f bs with Some (v, _) => depth_ok md v = false | None => True end.
Proof.
  unfold ih_from_input. intros Hf f. destruct (decode f bs) as [[v rest]|] eqn:E; [|exact I].
  rewrite (fuel_sufficient _ _ _ E) in Hf. destruct (depth_ok md v); [|reflexivity].
  unfold ih_from_value in Hf. destruct v as [| | |m]; try discriminate.
  destruct (find_key info_key m) as [[| | |i]|]; discriminate.
Qed.

(* ---------- canonical encodings are prefix-free ---------- *)

Lemma encode_app_inj v v' r r' :
  wfb v = true -> wfb v' = true -> encode v ++ r = encode v' ++ r' -> v = v' /\ r = r'.
Proof.
  intros Hv Hv' E.
  pose proof (decode_mono_le (vsize v) (vsize v + vsize v') _ _ (Nat.le_add_r _ _) (encode_decode v Hv r)) as D.
  pose proof (decode_mono_le (vsize v') (vsize v + vsize v') _ _ (Nat.le_add_l _ _) (encode_decode v' Hv' r')) as D'.
  rewrite E in D. rewrite D in D'. inversion D'; subst. split; reflexivity.
Qed.

Lemma enc_str_app_inj k k' r r' : enc_str k ++ r = enc_str k' ++ r' -> k = k' /\ r = r'.
Proof.
  intros E. pose proof (dec_str_enc k r) as D. rewrite E, dec_str_enc in D. inversion D; subst. split; reflexivity.
Qed.

(* ---------- the lookup ---------- *)

Lemma find_key_split k d v :
  find_key k d = Some v ->
  exists before after, d = before ++ (k, v) :: after /\ Forall (fun kv => fst kv <> k) before.
Proof.
  induction d as [|[k' v'] d IH]; cbn [find_key fst snd]; [discriminate|].
  destruct (bytes_eqb k' k) eqn:E.
  - intros HH; inversion HH; subst. apply bytes_eqb_eq in E. subst k'.
    exists [], d. split; [reflexivity|constructor].
  - intros HH. destruct (IH HH) as (b & a & Hd & Hb). exists ((k', v') :: b), a. subst d. split; [reflexivity|].
    constructor; [|exact Hb]. cbn. intros Ek. subst k'. rewrite bytes_eqb_refl in E. discriminate.
Qed.

Lemma find_key_first k v before after :
  Forall (fun kv => fst kv <> k) before -> find_key k (before ++ (k, v) :: after) = Some v.
Proof.
  induction 1 as [|[k' v'] b Hk _ IH]; cbn [app find_key fst snd].
  - rewrite bytes_eqb_refl. reflexivity.
  - cbn in Hk. rewrite (bytes_eqb_neq _ _ Hk). exact IH.
Qed.

Lemma sorted_before_differs (before : list (bytes * value)) k v after last :
  keys_sorted last (map fst (before ++ (k, v) :: after)) = true -> Forall (fun kv => fst kv <> k) before.
Proof.
  rewrite map_app. cbn [map fst]. intros Hs. apply keys_sorted_app in Hs. destruct Hs as [_ Ha].
  rewrite Forall_map in Ha. exact Ha.
Qed.

Lemma forallb_app_inv {A} (p : A -> bool) a b : forallb p (a ++ b) = true -> forallb p a = true /\ forallb p b = true.
Proof. rewrite forallb_app. intros H. apply andb_prop in H. exact H. Qed.

(* ---------- what [ih_from_input] hashes ---------- *)

Lemma flat_map_enc_kv d : flat_map (fun kv => enc_str (fst kv) ++ encode (snd kv)) d = flat_map enc_kv d.
Proof. reflexivity. Qed.

Lemma encode_dict_split before k v after :
  encode (Dict (before ++ (k, v) :: after)) =
  (100 :: flat_map enc_kv before ++ enc_str k) ++ encode v ++ (flat_map enc_kv after ++ [101]).
Proof.
  cbn [encode]. rewrite flat_map_enc_kv, flat_map_app. cbn [flat_map]. unfold enc_kv at 2. cbn [fst snd].
  cbn [app]. rewrite <- !app_assoc. reflexivity.
Qed.

(** exact characterisation: [ih_from_input] hashes [span] iff the file is a canonical top-level
    dictionary (within the depth limit) whose `info` value is a dictionary with text [span],
    followed by arbitrary trailing bytes *)
Theorem hashed_iff_shape md bs span :
  hashed_bytes md bs = Some span <-> torrent_shape md bs span.
Proof.
  unfold hashed_bytes, ih_from_input, torrent_shape. split.
  - destruct (decode (fuel_of bs) bs) as [[v rest]|] eqn:Hd; [|discriminate].
    destruct (depth_ok md v) eqn:Hdep; [|discriminate].
    pose proof (decode_some_exact _ _ _ _ Hd) as Hx. pose proof (decode_some_wf _ _ _ _ Hd) as Hw.
    unfold ih_from_value. destruct v as [| | |m]; try discriminate.
    destruct (find_key info_key m) as [iv|] eqn:Hf; [|discriminate].
    destruct iv as [| | |i]; try discriminate. intros HH; inversion HH; subst span; clear HH.
    destruct (find_key_split _ _ _ Hf) as (before & after & Hm & _). subst m.
    exists before, i, after, rest. cbv zeta. repeat split; assumption.
  - intros (before & iv & after & trailing & Hbs & Hw & Hdep & Hspan). cbv zeta in *.
    subst bs. rewrite (decode_canonical _ trailing Hw). rewrite Hdep. unfold ih_from_value.
    cbn [wfb] in Hw. apply andb_prop in Hw. destruct Hw as [Hs _].
    rewrite (find_key_first _ _ _ _ (sorted_before_differs _ _ _ _ _ Hs)). subst span. reflexivity.
Qed.

Lemma shape_is_span md bs span :
  torrent_shape md bs span ->
  exists pre post, bs = pre ++ span ++ post /\ info_position pre /\ complete_dict span.
Proof.
  intros (before & iv & after & trailing & Hbs & Hw & _ & Hspan). cbv zeta in *.
  exists (100 :: flat_map enc_kv before ++ enc_str info_key), ((flat_map enc_kv after ++ [101]) ++ trailing).
  cbn [wfb] in Hw. apply andb_prop in Hw. destruct Hw as [Hs Hv].
  apply forallb_app_inv in Hv. destruct Hv as [Hvb Hva]. cbn [forallb snd] in Hva.
  apply andb_prop in Hva. destruct Hva as [Hvi _].
  split; [|split].
  - subst bs span. rewrite encode_dict_split. rewrite <- !app_assoc. reflexivity.
  - exists before. split; [reflexivity|]. split; [exact Hvb|]. eapply sorted_before_differs; exact Hs.
  - exists iv. split; [exact Hvi|exact Hspan].
Qed.

Section Hash.
  Variable digest : Type.
  Variable H : bytes -> digest.

  (** the reported infohash is H of the exact byte span of the `info` value in the file *)
  Theorem infohash_is_span md bs h :
    infohash_of digest H md bs = Some h ->
    exists pre span post,
      bs = pre ++ span ++ post /\ info_position pre /\ complete_dict span /\ h = H span.
  Proof.
    unfold infohash_of. destruct (hashed_bytes md bs) as [span|] eqn:E; [|discriminate].
    cbn. intros HH; inversion HH; subst h; clear HH.
    apply hashed_iff_shape in E. destruct (shape_is_span _ _ _ E) as (pre & post & Hb & Hp & Hc).
    exists pre, span, post. repeat split; assumption.
  Qed.

  (** every canonical torrent-shaped file is accepted, and its infohash depends on nothing but
      the text of the `info` dictionary: not on other top-level keys, not on trailing bytes *)
  Theorem infohash_complete md before iv after trailing :
    let top := Dict (before ++ (info_key, Dict iv) :: after) in
    wfb top = true -> depth_ok md top = true ->
    infohash_of digest H md (encode top ++ trailing) = Some (H (encode (Dict iv))).
  Proof.
    cbv zeta. intros Hw Hd. unfold infohash_of.
    rewrite (proj2 (hashed_iff_shape md _ (encode (Dict iv)))); [reflexivity|].
    exists before, iv, after, trailing. cbv zeta. repeat split; assumption.
  Qed.

  Theorem trailing_bytes_irrelevant md top t1 t2 :
    wfb top = true ->
    infohash_of digest H md (encode top ++ t1) = infohash_of digest H md (encode top ++ t2).
  Proof.
    intros Hw. unfold infohash_of, hashed_bytes, ih_from_input.
    rewrite !(decode_canonical _ _ Hw). reflexivity.
  Qed.
End Hash.

(** the span is determined by the file: there is exactly one way to read a file as
    `d <items without key info> 4:info <one canonical dictionary> <anything>` *)
Lemma span_unique_core iv iv' post post' :
  wfb (Dict iv) = true -> wfb (Dict iv') = true ->
  forall B B' : list (bytes * value),
    forallb (fun kv => wfb (snd kv)) B = true -> Forall (fun kv => fst kv <> info_key) B ->
    forallb (fun kv => wfb (snd kv)) B' = true -> Forall (fun kv => fst kv <> info_key) B' ->
    flat_map enc_kv B ++ enc_str info_key ++ encode (Dict iv) ++ post =
    flat_map enc_kv B' ++ enc_str info_key ++ encode (Dict iv') ++ post' ->
    B = B' /\ iv = iv' /\ post = post'.
Proof.
  intros Hwi Hwi' B. induction B as [|[k v] B IH]; intros [|[k' v'] B'] HwB HnB HwB' HnB' E.
  - cbn [flat_map app] in E. apply enc_str_app_inj in E. destruct E as [_ E].
    apply encode_app_inj in E; [|assumption|assumption]. destruct E as [E1 E2]. inversion E1; subst.
    repeat split; reflexivity.
  - exfalso. cbn [flat_map app] in E. unfold enc_kv at 1 in E. cbn [fst snd] in E. rewrite <- !app_assoc in E.
    apply enc_str_app_inj in E. destruct E as [E _]. inversion HnB' as [|? ? Hk _]; subst. cbn in Hk. congruence.
  - exfalso. cbn [flat_map app] in E. unfold enc_kv at 1 in E. cbn [fst snd] in E. rewrite <- !app_assoc in E.
    apply enc_str_app_inj in E. destruct E as [E _]. inversion HnB as [|? ? Hk _]; subst. cbn in Hk. congruence.
  - cbn [flat_map] in E. unfold enc_kv at 1 3 in E. cbn [fst snd] in E. rewrite <- !app_assoc in E.
    apply enc_str_app_inj in E. destruct E as [Ek E]. subst k'.
    cbn [forallb snd] in HwB, HwB'. apply andb_prop in HwB. apply andb_prop in HwB'.
    destruct HwB as [Hv HwB]. destruct HwB' as [Hv' HwB'].
    apply encode_app_inj in E; [|assumption|assumption]. destruct E as [Ev E]. subst v'.
    inversion HnB; subst. inversion HnB'; subst.
    destruct (IH B' HwB ltac:(assumption) HwB' ltac:(assumption) E) as (EB & Ei & Ep).
    subst. repeat split; reflexivity.
Qed.

Theorem span_unique bs pre span post pre' span' post' :
  bs = pre ++ span ++ post -> info_position pre -> complete_dict span ->
  bs = pre' ++ span' ++ post' -> info_position pre' -> complete_dict span' ->
  pre = pre' /\ span = span' /\ post = post'.
Proof.
  intros Hb (B & Hpre & HwB & HnB) (iv & Hwi & Hspan) Hb' (B' & Hpre' & HwB' & HnB') (iv' & Hwi' & Hspan').
  subst bs pre pre' span span'. rewrite <- !app_comm_cons in Hb'.
  apply (f_equal (@tl N)) in Hb'. cbn [tl] in Hb'. rewrite <- !app_assoc in Hb'. rename Hb' into E.
  destruct (span_unique_core iv iv' post post' Hwi Hwi' B B' HwB HnB HwB' HnB' E) as (EB & Ei & Ep).
  subst. repeat split; reflexivity.
Qed.

(* ------------------------------------------------------------------------------------------ *)
(** ** the lossy path: bendy's serde serialiser writes canonical dictionaries *)

Lemma insert_entry_sorted kv : forall l last s,
  keys_sorted last (map fst l) = true -> above last (fst kv) = true ->
  insert_entry kv l = Some s -> keys_sorted last (map fst s) = true.
Proof.
  induction l as [|x r IH]; intros last s Hs Ha Hi; cbn [insert_entry] in Hi.
  - inversion Hi; subst. cbn [map keys_sorted]. unfold above in Ha. rewrite Ha. reflexivity.
  - cbn [map keys_sorted] in Hs. apply andb_prop in Hs. destruct Hs as [Hx Hr].
    destruct (bytes_ltb (fst kv) (fst x)) eqn:E1.
    + inversion Hi; subst. cbn [map keys_sorted]. unfold above in Ha. rewrite Ha, E1, Hr. reflexivity.
    + destruct (bytes_ltb (fst x) (fst kv)) eqn:E2; [|discriminate].
      destruct (insert_entry kv r) as [s'|] eqn:Ei; [|discriminate]. inversion Hi; subst.
      cbn [map keys_sorted]. rewrite Hx. cbn [andb]. eapply IH; [exact Hr|exact E2|reflexivity].
Qed.

Lemma insert_entry_in kv : forall l s, insert_entry kv l = Some s -> forall y, In y s <-> y = kv \/ In y l.
Proof.
  induction l as [|x r IH]; intros s Hi y; cbn [insert_entry] in Hi.
  - inversion Hi; subst. cbn. intuition.
  - destruct (bytes_ltb (fst kv) (fst x)).
    + inversion Hi; subst. cbn. intuition.
    + destruct (bytes_ltb (fst x) (fst kv)); [|discriminate].
      destruct (insert_entry kv r) as [s'|] eqn:Ei; [|discriminate]. inversion Hi; subst.
      cbn [In]. rewrite (IH s' eq_refl y). intuition.
Qed.

Lemma sort_entries_spec : forall l s, sort_entries l = Some s ->
  keys_sorted None (map fst s) = true /\ (forall y, In y s <-> In y l).
Proof.
  induction l as [|kv r IH]; intros s Hs; cbn [sort_entries] in Hs.
  - inversion Hs; subst. split; [reflexivity|intros y; reflexivity].
  - destruct (sort_entries r) as [s'|] eqn:Er; [|discriminate]. destruct (IH s' eq_refl) as [Hk Hin].
    split.
    + eapply insert_entry_sorted; [exact Hk|reflexivity|exact Hs].
    + intros y. rewrite (insert_entry_in _ _ _ Hs y). cbn [In]. rewrite Hin. intuition.
Qed.

Lemma ser_struct_wf e v :
  ser_struct e = Some v -> forallb (fun kv => wfb (snd kv)) e = true ->
  exists s, v = Dict s /\ wfb v = true /\ (forall y, In y s <-> In y e).
Proof.
  unfold ser_struct. destruct (sort_entries e) as [s|] eqn:Es; [|discriminate].
  intros HH Hw; inversion HH; subst. destruct (sort_entries_spec _ _ Es) as [Hk Hin].
  exists s. split; [reflexivity|]. split; [|exact Hin]. cbn [wfb]. rewrite Hk. cbn [andb].
  apply forallb_forall. intros y Hy. rewrite forallb_forall in Hw. apply Hw. apply Hin. exact Hy.
Qed.

Lemma u64_value_wf n : (n <? 2 ^ 63) = true -> wfb (u64_value n) = true.
Proof. intros Hn. cbn [u64_value wfb]. unfold i64_ok. lia. Qed.

Lemma opt_entry_wf k o :
  match o with Some v => wfb v = true | None => True end ->
  forallb (fun kv => wfb (snd kv)) (opt_entry k o) = true.
Proof. destruct o as [v|]; cbn; [intros ->; reflexivity|reflexivity]. Qed.

Lemma opt_str_wf o : match opt_str o with Some v => wfb v = true | None => True end.
Proof. destruct o; cbn; exact I || reflexivity. Qed.

Lemma strs_wf l : forallb wfb (map Str l) = true.
Proof. induction l; cbn; auto. Qed.

Lemma file_info_value_wf f v : file_info_small f = true -> file_info_value f = Some v -> wfb v = true.
Proof.
  unfold file_info_small, file_info_value. intros Hs Hv.
  destruct (ser_struct_wf _ _ Hv) as (s & _ & Hw & _); [|exact Hw].
  unfold file_info_entries. rewrite forallb_app. cbn [forallb snd]. rewrite (u64_value_wf _ Hs).
  cbn [wfb]. rewrite strs_wf. cbn [andb]. apply opt_entry_wf, opt_str_wf.
Qed.

Lemma files_wf files : forall vs,
  forallb file_info_small files = true -> all_some (map file_info_value files) = Some vs -> forallb wfb vs = true.
Proof.
  induction files as [|f r IH]; intros vs Hs Ha; cbn [map all_some] in Ha.
  - inversion Ha; subst. reflexivity.
  - cbn [forallb] in Hs. apply andb_prop in Hs. destruct Hs as [Hf Hr].
    destruct (file_info_value f) as [v|] eqn:Ev; [|discriminate].
    destruct (all_some (map file_info_value r)) as [vs'|] eqn:Er; [|discriminate].
    inversion Ha; subst. cbn [forallb]. rewrite (file_info_value_wf _ _ Hf Ev), (IH _ Hr eq_refl). reflexivity.
Qed.

Lemma info_value_wf i v :
  info_small i = true -> info_value i = Some v -> exists iv, v = Dict iv /\ wfb v = true.
Proof.
  unfold info_small, info_value, info_entries. intros Hs Hv. apply andb_prop in Hs. destruct Hs as [Hp Hm].
  destruct (mode_entries (ti_mode i)) as [me|] eqn:Em; [|discriminate].
  destruct (ser_struct_wf _ _ Hv) as (s & Hd & Hw & _); [|exists s; split; assumption].
  assert (Hme : forallb (fun kv => wfb (snd kv)) me = true).
  { unfold mode_entries in Em. destruct (ti_mode i) as [len md5|files].
    - inversion Em; subst. rewrite ?forallb_app. cbn [app forallb snd]. rewrite (u64_value_wf _ Hm). cbn [andb].
      apply opt_entry_wf, opt_str_wf.
    - destruct (all_some (map file_info_value files)) as [vs|] eqn:Ea; [|discriminate].
      inversion Em; subst. cbn [forallb snd wfb]. rewrite (files_wf _ _ Hm Ea). reflexivity. }
  rewrite !forallb_app. cbn [forallb snd]. rewrite (u64_value_wf _ Hp), Hme. cbn [wfb andb].
  rewrite !(opt_entry_wf _ _ (opt_str_wf _)). rewrite andb_true_r. cbn [andb].
  apply opt_entry_wf. destruct (ti_private i) as [[|]|]; cbn; exact I || reflexivity.
Qed.

(** (T) the key `ih_from_input` looks up is the serde name of `Metainfo`'s `info` field *)
Lemma lookup_is_metainfo_field : info_key = GenInfohash.metainfo_info_key.
Proof. reflexivity. Qed.

Section Lossy.
  Variable digest : Type.
  Variable H : bytes -> digest.

  (** `create --show` / `create --link` hash the serialisation of the typed `Info`
      (`infohash_lossy`); `show` / `link` on the file `create` has just written hash the span
      found by [ih_from_input]. They agree, whatever else the metainfo holds and whatever follows. *)
  Theorem lossy_agrees_on_created md others i top trailing :
    info_small i = true -> forallb (fun kv => wfb (snd kv)) others = true ->
    metainfo_value others i = Some top -> depth_ok md top = true ->
    exists typed, ser_info i = Some typed /\ ser_metainfo others i = Some (encode top) /\
      infohash_of digest H md (encode top ++ trailing) = Some (H typed).
  Proof.
    intros Hs Ho Hm Hd. unfold ser_info, ser_metainfo. rewrite Hm. unfold metainfo_value in Hm.
    destruct (info_value i) as [v|] eqn:Ev; [|discriminate].
    destruct (info_value_wf _ _ Hs Ev) as (iv & Hv & Hw). subst v.
    exists (encode (Dict iv)). split; [reflexivity|]. split; [reflexivity|].
    assert (He : forallb (fun kv => wfb (snd kv)) ((metainfo_info_key, Dict iv) :: others) = true).
    { cbn [forallb snd]. rewrite Hw, Ho. reflexivity. }
    destruct (ser_struct_wf _ _ Hm He) as (s & Htop & Hwt & Hin).
    assert (Hi : In (info_key, Dict iv) s). { apply Hin. left. rewrite lookup_is_metainfo_field. reflexivity. }
    apply in_split in Hi. destruct Hi as (before & after & Hsplit). subst s top.
    apply infohash_complete; assumption.
  Qed.
End Lossy.
