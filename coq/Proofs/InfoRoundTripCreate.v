(** C11 (X16) - the typed round trip of Model/InfoRoundTrip.v against the CREATE side and the known-finding class:
      [info_serde_value]      the writer [info_value] is bendy's struct serializer (Model/Schema.v [mk_dict], the model the
                              create side uses) applied to Info's field list in declaration order;
      [build_info_value]      the info dictionary `imdl torrent create` serialises (Model/Metainfo.v [build_info]) IS
                              [info_value] of a typed value;
      [created_info_normal]   (d) under the create model's well-formedness it is typed-normal;
      [known_class_changed], [known_witness]   (e) the class of the open finding, its witness. *)
From Coq Require Import Decimal DecimalN DecimalFacts.
From Coq Require Import NArith ZArith Bool List Lia ZifyN ZifyBool.
From Imdl Require Import Model.Bencode Model.BencodeWide Model.Summary Model.HostPort Model.UrlHost Model.UrlNorm
  Model.InfoRoundTrip Proofs.BencodeProofs Proofs.InfoRoundTripWide Proofs.UrlNormProofs Proofs.InfoRoundTripProofs.
From Imdl Require Model.Schema Model.Metainfo.
Import ListNotations.
Local Open Scope N_scope.

(* ------------------------------------------------------------------ the writer is the struct serializer *)
Lemma file_serde_value f : file_serde f = Some (file_value f).
Proof. unfold file_serde, file_value. destruct (f_md5 f); reflexivity. Qed.

Lemma files_serde_value fs : Schema.all_some (map file_serde fs) = Some (map file_value fs).
Proof.
  induction fs as [|f r IH]; [reflexivity|]. cbn [map Schema.all_some]. rewrite file_serde_value, IH. reflexivity.
Qed.

Theorem info_serde_value t : info_serde t = Some (info_value t).
Proof.
  destruct t as [pr pl nm so ps md uu]. unfold info_serde, info_value.
  cbn [t_private t_piece_length t_name t_source t_pieces t_mode t_update_url].
  destruct md as [n md5|fs]; cbn [mode_serde mode_part].
  - destruct md5 as [m|], pr as [b|], so as [s|], uu as [u|]; reflexivity.
  - rewrite files_serde_value. destruct pr as [b|], so as [s|], uu as [u|]; reflexivity.
Qed.

(* ------------------------------------------------------------------ (d) what create writes *)
Module M := Metainfo.

Definition create_file (md5 : bool) (f : M.file) : file :=
  {| f_length := M.f_length f; f_path := M.f_path f; f_md5 := if md5 then Some (M.f_md5 f) else None |}.

Definition create_mode (md5 : bool) (i : M.input) : mode :=
  match i with
  | M.InFile _ len m | M.InStdin len m => Single len (if md5 then Some m else None)
  | M.InDir _ fs => Multiple (map (create_file md5) fs)
  end.

(** the typed Info that Create::run assembles (src/subcommand/torrent/create.rs), as Model/Metainfo.v has it *)
Definition create_tinfo (norm : bytes -> bytes) (o : M.opts) (c : M.content) (name : bytes) : tinfo :=
  {| t_private := if M.o_private o then Some true else None;
     t_piece_length := M.piece_length_of o (M.c_input c);
     t_name := name;
     t_source := M.o_source o;
     t_pieces := M.c_pieces c;
     t_mode := create_mode (M.o_md5 o) (M.c_input c);
     t_update_url := option_map norm (M.o_update_url o) |}.

(** Md5Digest's text as the hasher hands it over: 32 lower-case hex digits *)
Definition md5_text_ok (m : bytes) : bool := Nat.eqb (length m) 32 && forallb is_lower_hex m.

(** the create model's well-formedness, as far as the info dictionary goes: texts are UTF-8 (they are Rust Strings),
    path components are plain (FilePath::from_relative_path), the piece string is whole digests, file lengths fit
    bendy's i64, the piece length is a u64, md5 texts are 32 lower-case digits, and the stored update-url - what the
    url crate printed - is in the url crate's normal form *)
Definition create_file_ok (md5 : bool) (f : M.file) : bool :=
  (M.f_length f <? 2 ^ 63) && (negb md5 || md5_text_ok (M.f_md5 f)) &&
  forallb (fun c => utf8_valid c && normal_component c) (M.f_path f).
Definition create_input_ok (md5 : bool) (i : M.input) : bool :=
  match i with
  | M.InFile _ len m | M.InStdin len m => (len <? 2 ^ 63) && (negb md5 || md5_text_ok m)
  | M.InDir _ fs => forallb (create_file_ok md5) fs
  end.
Definition create_ok (norm : bytes -> bytes) (o : M.opts) (c : M.content) (name : bytes) : bool :=
  (M.piece_length_of o (M.c_input c) <? 2 ^ 64) && utf8_valid name &&
  match M.o_source o with Some s => utf8_valid s | None => true end &&
  (N.of_nat (length (M.c_pieces c)) mod 20 =? 0) && create_input_ok (M.o_md5 o) (M.c_input c) &&
  match M.o_update_url o with Some u => is_normal_url (norm u) | None => true end.

Lemma md5_lower_fixed m : md5_text_ok m = true -> map lower_hex m = m.
Proof. unfold md5_text_ok. intros H. apply andb_prop in H. apply map_lower_fixed. exact (proj2 H). Qed.

Lemma create_file_entry md5 f : create_file_ok md5 f = true -> M.file_entry md5 f = Some (file_value (create_file md5 f)).
Proof.
  unfold create_file_ok. intros H. apply andb_prop in H. destruct H as [H _]. apply andb_prop in H. destruct H as [_ Hm].
  unfold M.file_entry, file_value, create_file. cbn [f_length f_path f_md5]. destruct md5; cbn [negb orb] in Hm.
  - cbn [md5_value option_map]. rewrite (md5_lower_fixed _ Hm). reflexivity.
  - reflexivity.
Qed.

Lemma create_files_entries md5 fs : forallb (create_file_ok md5) fs = true ->
  Schema.all_some (map (M.file_entry md5) fs) = Some (map file_value (map (create_file md5) fs)).
Proof.
  induction fs as [|f r IH]; [reflexivity|]. cbn [forallb map Schema.all_some]. intros H. apply andb_prop in H.
  destruct H as [Hf Hr]. rewrite (create_file_entry md5 f Hf), (IH Hr). reflexivity.
Qed.

(** the dictionary create serialises is the re-serialisation writer applied to a typed value *)
Theorem build_info_value norm o c iv : M.build_info norm o c = Some iv ->
  exists name, M.name_of o (M.c_input c) = Some name /\
    (create_input_ok (M.o_md5 o) (M.c_input c) = true -> iv = info_value (create_tinfo norm o c name)).
Proof.
  unfold M.build_info. destruct (M.name_of o (M.c_input c)) as [name|]; [|discriminate]. intros H. exists name.
  split; [reflexivity|]. intros Hin. revert H. unfold create_tinfo, info_value.
  cbn [t_private t_piece_length t_name t_source t_pieces t_mode t_update_url].
  unfold M.info_entries, M.url_value, M.opt_str.
  destruct (M.c_input c) as [nm len m|nm fs|len m]; cbn [M.mode_entries create_mode mode_part create_input_ok] in *.
  - apply andb_prop in Hin. destruct Hin as [_ Hm].
    destruct (M.o_md5 o); cbn [negb orb] in Hm; cbn [md5_value option_map]; rewrite ?(md5_lower_fixed _ Hm);
      destruct (M.o_private o), (M.o_source o), (M.o_update_url o); intros H; inversion H; reflexivity.
  - rewrite (create_files_entries _ fs Hin).
    destruct (M.o_private o), (M.o_source o), (M.o_update_url o); intros H; inversion H; reflexivity.
  - apply andb_prop in Hin. destruct Hin as [_ Hm].
    destruct (M.o_md5 o); cbn [negb orb] in Hm; cbn [md5_value option_map]; rewrite ?(md5_lower_fixed _ Hm);
      destruct (M.o_private o), (M.o_source o), (M.o_update_url o); intros H; inversion H; reflexivity.
Qed.

Lemma md5_text_t_ok m : md5_text_ok m = true -> t_md5_ok (Some m) = true.
Proof.
  unfold md5_text_ok. cbn [t_md5_ok]. intros H. apply andb_prop in H. destruct H as [Hl Hh]. rewrite Hl.
  revert Hh. apply forallb_imp, lower_is_hex.
Qed.

Lemma create_tinfo_ok norm o c name : create_ok norm o c name = true -> t_ok_with is_normal_url (create_tinfo norm o c name) = true.
Proof.
  unfold create_ok, t_ok_with, create_tinfo. cbn [t_private t_piece_length t_name t_source t_pieces t_mode t_update_url].
  intros H. repeat (apply andb_prop in H; let H' := fresh "H" in destruct H as [H H']).
  rewrite H, H4, H3, H2. cbn [andb].
  assert (Hmode : t_mode_ok (create_mode (M.o_md5 o) (M.c_input c)) = true).
  { clear - H1. assert (Hmd : forall md5 m, negb md5 || md5_text_ok m = true -> t_md5_ok (if md5 then Some m else None) = true).
    { intros md5 m Hm. destruct md5; [apply md5_text_t_ok; exact Hm|reflexivity]. }
    destruct (M.c_input c) as [nm len m|nm fs|len m]; cbn [create_input_ok create_mode t_mode_ok] in *.
    - apply andb_prop in H1. destruct H1 as [Hl Hm]. rewrite Hl, (Hmd _ _ Hm). reflexivity.
    - induction fs as [|f r IH]; [reflexivity|]. cbn [forallb map] in *. apply andb_prop in H1. destruct H1 as [Hf Hr].
      rewrite (IH Hr), andb_true_r. unfold create_file_ok in Hf. unfold t_file_ok, create_file. cbn [f_length f_md5 f_path].
      apply andb_prop in Hf. destruct Hf as [Hf Hp]. apply andb_prop in Hf. destruct Hf as [Hl Hm].
      rewrite Hl, Hp, (Hmd _ _ Hm). reflexivity.
    - apply andb_prop in H1. destruct H1 as [Hl Hm]. rewrite Hl, (Hmd _ _ Hm). reflexivity. }
  rewrite Hmode. cbn [andb]. destruct (M.o_update_url o); [exact H0|reflexivity].
Qed.

(** (d) the info dictionary of a torrent imdl created is typed-normal: the typed round trip of `from-link` returns it
    byte for byte *)
Theorem created_info_normal norm o c iv name :
  M.build_info norm o c = Some iv -> M.name_of o (M.c_input c) = Some name -> create_ok norm o c name = true ->
  typed_normal (encode iv) = true /\ forall ext, info_norm ext (encode iv) = Some (encode iv).
Proof.
  intros Hb Hn Hok. destruct (build_info_value norm o c iv Hb) as (name' & Hn' & Hiv). rewrite Hn in Hn'. inversion Hn'; subst name'.
  assert (Hin : create_input_ok (M.o_md5 o) (M.c_input c) = true).
  { unfold create_ok in Hok. repeat (apply andb_prop in Hok; let H' := fresh "H" in destruct Hok as [Hok H']). assumption. }
  rewrite (Hiv Hin). pose proof (written_normal _ _ (create_tinfo_ok norm o c name Hok)) as Hnorm.
  split; [exact Hnorm|]. intros ext. apply normal_fixed. exact Hnorm.
Qed.

(** with the concrete url crate model: whatever spelling of a URL inside the fragment `--update-url` was given, the
    stored text is normal *)
Lemma norm_with_normal ext u s : u_norm u = Some (Some s) -> is_normal_url (u_norm_with ext u) = true.
Proof. intros H. unfold u_norm_with. rewrite H. exact (u_norm_normal u s H). Qed.

(* ------------------------------------------------------------------ (e) the known-finding class *)
(** a dictionary of the class is changed (or refused) by the typed round trip, never returned as served *)
Theorem known_class_changed ext d : c11_known_class d = true -> info_url_modelled d = true -> info_norm ext d <> Some d.
Proof.
  unfold c11_known_class. intros H Hm Hn. apply andb_prop in H. destruct H as [_ H].
  apply (typed_normal_iff ext d Hm) in Hn. rewrite Hn in H. discriminate.
Qed.

(** d6:lengthi5e4:name1:x12:piece lengthi16384e6:pieces0:10:update-url18:http://example.come *)
Definition ex_known_witness : bytes :=
  [100; 54; 58; 108; 101; 110; 103; 116; 104; 105; 53; 101; 52; 58; 110; 97; 109; 101; 49; 58; 120; 49; 50; 58; 112; 105; 101; 99;
   101; 32; 108; 101; 110; 103; 116; 104; 105; 49; 54; 51; 56; 52; 101; 54; 58; 112; 105; 101; 99; 101; 115; 48; 58; 49; 48; 58;
   117; 112; 100; 97; 116; 101; 45; 117; 114; 108; 49; 56; 58; 104; 116; 116; 112; 58; 47; 47; 101; 120; 97; 109; 112; 108; 101;
   46; 99; 111; 109; 101].
(** ... re-serialised with `http://example.com/` *)
Definition ex_known_witness_norm : bytes :=
  [100; 54; 58; 108; 101; 110; 103; 116; 104; 105; 53; 101; 52; 58; 110; 97; 109; 101; 49; 58; 120; 49; 50; 58; 112; 105; 101; 99;
   101; 32; 108; 101; 110; 103; 116; 104; 105; 49; 54; 51; 56; 52; 101; 54; 58; 112; 105; 101; 99; 101; 115; 48; 58; 49; 48; 58;
   117; 112; 100; 97; 116; 101; 45; 117; 114; 108; 49; 57; 58; 104; 116; 116; 112; 58; 47; 47; 101; 120; 97; 109; 112; 108; 101;
   46; 99; 111; 109; 47; 101].

Theorem known_witness ext :
  c11_known_class ex_known_witness = true /\ info_url_modelled ex_known_witness = true /\
  info_norm ext ex_known_witness = Some ex_known_witness_norm /\ ex_known_witness_norm <> ex_known_witness /\
  typed_normal ex_known_witness_norm = true.
Proof.
  split; [vm_compute; reflexivity|]. split; [vm_compute; reflexivity|]. split; [vm_compute; reflexivity|].
  split; [discriminate|]. vm_compute. reflexivity.
Qed.
