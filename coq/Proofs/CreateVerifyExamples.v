(** Concrete instances for C02: the hypotheses of the theorems are satisfiable and the
    outcomes are not vacuous. The stand-in hash is the identity (collision free). *)
From Coq Require Import NArith List Bool.
From Imdl Require Import Base.Chunks Model.Bencode Model.Fs Model.Verify Model.CreateVerify
     Model.Paths Proofs.VerifyProofs.
From Imdl Require Model.Hasher Model.CreateFs.
Import ListNotations.
Local Open Scope N_scope.

Definition A : list N := [97].  Definition B : list N := [98].
Definition Dn : list N := [100]. Definition En : list N := [101]. Definition Zn : list N := [122].
Definition W : list N := [119]. Definition IN : list N := [105; 110].

Definition abcde : list N := [97; 98; 99; 100; 101].
Definition fghijkl : list N := [102; 103; 104; 105; 106; 107; 108].
Definition fghijkX : list N := [102; 103; 104; 105; 106; 107; 88].

(** /w/in/{a = "abcde", d/b = "fghijkl", e = ""} *)
Definition in_dir (b_bytes : list N) (e_node : node) (extra : list (list N * node)) : node :=
  Dir ([(A, File abcde); (Dn, Dir [(B, File b_bytes)]); (En, e_node)] ++ extra).
Definition fs_of (src : node) : node := Dir [(W, Dir [(IN, src)])].

Definition src0 : node := in_dir fghijkl (File []) [].
Definition fs0 : node := fs_of src0.
Definition fs_flip : node := fs_of (in_dir fghijkX (File []) []).            (* last byte of the last, partial piece *)
Definition fs_edir : node := fs_of (in_dir fghijkl (Dir []) []).             (* the empty file replaced by a directory *)
Definition fs_extra : node := fs_of (in_dir fghijkl (File []) [(Zn, File [1; 2; 3])]).   (* an unlisted file added *)

Definition root0 : list N := [Fs.SEP; 119; Fs.SEP; 105; 110].                (* /w/in *)
Definition sel0 : list (list (list N)) := [[A]; [Dn; B]; [En]].
Definition csch0 : Hasher.schedule := Hasher.sched_of_list [3; 1; 4; 1; 5; 9; 2; 6]%nat.
Definition vsch0 (i : nat) : N := N.of_nat (7 * i + 3).

Definition t0 : option torrent := create_t idh idh true 4 IN csch0 src0 sel0.

Example ex_hyps : resolve fs0 root0 = Some src0 /\ Forall plain_path sel0.
Proof. split; [vm_compute; reflexivity|]. repeat constructor. Qed.

Example ex_created :
  exists t, t0 = Some t /\ tpieces t = [[97;98;99;100]; [101;102;103;104]; [105;106;107;108]] /\
            paths_of t = sel0.
Proof. eexists. split; [vm_compute; reflexivity|]. split; reflexivity. Qed.

Definition verdict (fs : node) : option (option bool) :=
  match t0 with Some t => Some (verify idh idh vsch0 fs root0 t) | None => None end.
Definition reported (fs : node) : option (option report) :=
  match t0 with Some t => Some (verify_report idh idh vsch0 fs root0 t) | None => None end.

Example ex_create_then_verify : verdict fs0 = Some (Some true).
Proof. vm_compute. reflexivity. Qed.

Example ex_flip_in_last_partial_piece :
  verdict fs_flip = Some (Some false) /\
  reported fs_flip = Some (Some {| r_good := false; r_pieces := false; r_named := [([Dn; B], BadMd5)] |}).
Proof. split; vm_compute; reflexivity. Qed.

Example ex_empty_file_becomes_directory :
  verdict fs_edir = Some (Some false) /\
  reported fs_edir = Some (Some {| r_good := false; r_pieces := true; r_named := [([En], IsDirectory)] |}).
Proof. split; vm_compute; reflexivity. Qed.

Example ex_unlisted_file_is_irrelevant : verdict fs_extra = Some (Some true).
Proof. vm_compute. reflexivity. Qed.

Example ex_collision_free : forall p old new, collision_free idh p old new.
Proof. intros p old new a b _ _ E. exact E. Qed.

(** verify; flip; verify; add an unrelated file; verify; re-create --force; verify; undo the flip; verify *)
Example ex_history :
  match t0 with
  | Some t =>
      run_history idh idh true 4 IN csch0 vsch0 root0 fs0
        {| c_torrent := t; c_listing := [([A], abcde); ([Dn; B], fghijkl); ([En], [])] |}
        [DoVerify; Edit (fun _ => fs_flip); DoVerify;
         Edit (fun _ => fs_of (in_dir fghijkX (File []) [(Zn, File [1])])); DoVerify;
         Recreate sel0; DoVerify; Edit (fun _ => fs_extra); DoVerify]
  | None => []
  end = [Some true; Some false; Some false; Some true; Some false].
Proof. vm_compute. reflexivity. Qed.

(** default locations: `imdl torrent create in` in /w, then `imdl torrent verify in.torrent` *)
Example ex_default_locations :
  default_locations [47; 119] IN = Some (IN, ([W; CreateFs.name_torrent IN], [W; IN])) /\
  (* input `.` in /w/in: the torrent goes to /w/in.torrent, verify looks at /w/in *)
  default_locations [47; 119; 47; 105; 110] [46] = Some (IN, ([W; CreateFs.name_torrent IN], [W; IN])) /\
  (* input `x/../in/` in /w *)
  default_locations [47; 119] [120; 47; 46; 46; 47; 105; 110; 47] = Some (IN, ([W; CreateFs.name_torrent IN], [W; IN])) /\
  (* absolute input /w/in from anywhere *)
  default_locations [47; 122] [47; 119; 47; 105; 110] = Some (IN, ([W; CreateFs.name_torrent IN], [W; IN])).
Proof. vm_compute. repeat split; reflexivity. Qed.

Example ex_paths_hyp :
  CreateFs.env_resolve [W] (CreateFs.parse_path IN) = [W] ++ [IN] /\ plain_name IN = true.
Proof. vm_compute. split; reflexivity. Qed.
