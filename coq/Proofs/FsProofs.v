(** Facts about Model/Fs.v: what the screening admits ([screen_comp] = [plain]), how a plain
    component pushed onto any path resolves (one descent step) and folds lexically (one more
    piece), hence confinement of plain paths. *)
From Coq Require Import NArith List Bool Lia.
From Imdl Require Import Model.Fs.
Import ListNotations.
Local Open Scope N_scope.

(** ** byte strings *)
Lemma bytes_eqb_eq a : forall b, bytes_eqb a b = true <-> a = b.
Proof.
  induction a as [|x a IH]; intros [|y b]; cbn [bytes_eqb]; split; intros E;
    try reflexivity; try discriminate.
  - apply andb_prop in E. destruct E as [E1 E2]. apply N.eqb_eq in E1. apply IH in E2. congruence.
  - inversion E; subst. apply andb_true_intro. split; [apply N.eqb_refl|apply IH; reflexivity].
Qed.

Lemma bytes_eqb_refl a : bytes_eqb a a = true.
Proof. apply bytes_eqb_eq. reflexivity. Qed.

Lemma is_sep_SEP : is_sep SEP = true.
Proof. reflexivity. Qed.

(** ** [split_sep] *)
Lemma split_sep_nonempty s : split_sep s <> [].
Proof.
  destruct s as [|b r]; cbn [split_sep]; [discriminate|].
  destruct (is_sep b); [discriminate|]. destruct (split_sep r); discriminate.
Qed.

Lemma split_sep_app_sep a b : split_sep (a ++ SEP :: b) = split_sep a ++ split_sep b.
Proof.
  induction a as [|x a IH]; cbn [app split_sep].
  - rewrite is_sep_SEP. reflexivity.
  - destruct (is_sep x); [rewrite IH; reflexivity|].
    rewrite IH. pose proof (split_sep_nonempty a) as Hne.
    destruct (split_sep a) as [|c cs]; [congruence|]. reflexivity.
Qed.

Lemma split_sep_snoc_sep a : split_sep (a ++ [SEP]) = split_sep a ++ [[]].
Proof. apply split_sep_app_sep. Qed.

Definition nosep (c : bytes) : bool := forallb (fun b => negb (is_sep b)) c.

Lemma split_sep_nosep c : nosep c = true -> split_sep c = [c].
Proof.
  induction c as [|b r IH]; cbn [nosep forallb split_sep]; intros Hc; [reflexivity|].
  apply andb_prop in Hc. destruct Hc as [Hb Hr]. apply negb_true_iff in Hb. rewrite Hb.
  rewrite (IH Hr). reflexivity.
Qed.

Lemma split_sep_single s p : split_sep s = [p] -> p = s /\ nosep s = true.
Proof.
  revert p. induction s as [|b r IH]; cbn [split_sep nosep forallb]; intros p E.
  - inversion E. auto.
  - destruct (is_sep b) eqn:Hb.
    + inversion E as [[E1 E2]]. exfalso. exact (split_sep_nonempty r E2).
    + destruct (split_sep r) as [|c cs] eqn:Er; [exfalso; exact (split_sep_nonempty r Er)|].
      inversion E; subst. destruct (IH c eq_refl) as [-> Hn].
      split; [reflexivity|]. cbn [negb andb]. exact Hn.
Qed.

Lemma split_sep_len s : (length (concat (split_sep s)) + length (split_sep s) = S (length s))%nat.
Proof.
  induction s as [|b r IH]; cbn [split_sep]; [reflexivity|].
  destruct (is_sep b).
  - cbn [concat app length]. lia.
  - destruct (split_sep r) as [|c cs] eqn:Er; [exfalso; exact (split_sep_nonempty r Er)|].
    cbn [concat app length] in *. rewrite app_length in *. cbn [length]. lia.
Qed.

Lemma in_concat_len (p : bytes) (l : list bytes) : In p l -> (length p <= length (concat l))%nat.
Proof.
  induction l as [|x l IH]; cbn [In concat]; intros Hin; [contradiction|].
  rewrite app_length. destruct Hin as [->|Hin]; [lia|]. specialize (IH Hin). lia.
Qed.

(** a piece as long as the whole string is the only piece *)
Lemma split_sep_whole s : In s (split_sep s) -> split_sep s = [s].
Proof.
  intros Hin. pose proof (split_sep_len s) as Hl. pose proof (in_concat_len _ _ Hin) as Hc.
  destruct (split_sep s) as [|x [|y l]] eqn:E.
  - contradiction.
  - destruct Hin as [->|[]]. reflexivity.
  - cbn [length] in Hl. lia.
Qed.

(** ** what is admitted: [screen_comp] is [plain] *)
Lemma plain_facts c :
  plain c = true -> is_empty c = false /\ is_dot c = false /\ is_dotdot c = false /\ nosep c = true.
Proof.
  unfold plain. intros Hp.
  apply andb_prop in Hp. destruct Hp as [Hp H4]. apply andb_prop in Hp. destruct Hp as [Hp H3].
  apply andb_prop in Hp. destruct Hp as [H1 H2].
  apply negb_true_iff in H1, H2, H3. auto.
Qed.

Lemma plain_not_abs c : plain c = true -> starts_with_sep c = false.
Proof.
  intros Hp. destruct (plain_facts c Hp) as (He & _ & _ & Hn).
  destruct c as [|b r]; [reflexivity|]. cbn [nosep forallb] in Hn. cbn [starts_with_sep].
  apply andb_prop in Hn. destruct Hn as [Hb _]. apply negb_true_iff in Hb. exact Hb.
Qed.

Lemma piece_comp_normal p n :
  In (CNormal n) (piece_comp p) -> n = p /\ is_empty p = false /\ is_dot p = false /\ is_dotdot p = false.
Proof.
  unfold piece_comp. destruct (is_empty p); [intros []|]. destruct (is_dot p); [intros []|].
  destruct (is_dotdot p); cbn [In]; intros [E|[]]; [discriminate|]. inversion E. auto.
Qed.

Lemma flat_piece_normal ps n :
  In (CNormal n) (flat_map piece_comp ps) ->
  In n ps /\ is_empty n = false /\ is_dot n = false /\ is_dotdot n = false.
Proof.
  intros Hin. apply in_flat_map in Hin. destruct Hin as (p & Hp & Hn).
  destruct (piece_comp_normal p n Hn) as (-> & H1 & H2 & H3). auto.
Qed.

Theorem screen_comp_plain c : screen_comp c = true <-> plain c = true.
Proof.
  split.
  - unfold screen_comp. intros Hs.
    destruct (components c) as [|[| | |n] [|c2 cs]] eqn:Ec; try discriminate.
    apply bytes_eqb_eq in Hs. subst n.
    assert (Hin : In c (split_sep c) /\ is_empty c = false /\ is_dot c = false /\ is_dotdot c = false).
    { unfold components in Ec. destruct c as [|b r]; [discriminate|].
      destruct (is_sep b); [discriminate|].
      destruct (split_sep (b :: r)) as [|p0 ps] eqn:Es; [discriminate|].
      assert (Hc : In (CNormal (b :: r)) ((if is_dot p0 then [CCur] else piece_comp p0) ++ flat_map piece_comp ps))
        by (rewrite Ec; left; reflexivity).
      apply in_app_or in Hc. destruct Hc as [Hc|Hc].
      - destruct (is_dot p0); [destruct Hc as [Hc|[]]; discriminate|].
        destruct (piece_comp_normal _ _ Hc) as (E & H1 & H2 & H3). subst p0.
        split; [left; reflexivity|auto].
      - destruct (flat_piece_normal _ _ Hc) as (Hi & H1 & H2 & H3). split; [right; exact Hi|auto]. }
    destruct Hin as (Hin & H1 & H2 & H3).
    apply split_sep_whole in Hin. apply split_sep_single in Hin. destruct Hin as [_ Hn].
    unfold plain. fold (nosep c). rewrite H1, H2, H3, Hn. reflexivity.
  - intros Hp. destruct (plain_facts c Hp) as (H1 & H2 & H3 & Hn).
    pose proof (plain_not_abs c Hp) as Ha.
    unfold screen_comp, components. destruct c as [|b r]; [discriminate|].
    cbn [starts_with_sep] in Ha. rewrite Ha. rewrite (split_sep_nosep _ Hn). rewrite H2.
    unfold piece_comp. rewrite H1, H2, H3. cbn [flat_map app]. apply bytes_eqb_refl.
Qed.

(** ** pushing a plain component *)
Lemma need_sep_false_snoc P : P <> [] -> need_sep P = false -> exists P', P = P' ++ [SEP].
Proof.
  intros Hne Hn. destruct (exists_last Hne) as (P' & x & E). subst P. exists P'.
  assert (Hl : is_sep (last (P' ++ [x]) 0) = true).
  { unfold need_sep in Hn. destruct (P' ++ [x]) eqn:E; [destruct P'; discriminate|].
    apply negb_false_iff in Hn. exact Hn. }
  rewrite last_last in Hl. apply N.eqb_eq in Hl. subst x. reflexivity.
Qed.

Lemma push_plain_cases P c :
  plain c = true ->
  (P = [] /\ push P c = c) \/
  (P <> [] /\ push P c = P ++ SEP :: c) \/
  (exists P', P = P' ++ [SEP] /\ push P c = P' ++ SEP :: c).
Proof.
  intros Hp. unfold push. rewrite (plain_not_abs c Hp).
  destruct P as [|x P0]; [left; auto|]. right.
  destruct (need_sep (x :: P0)) eqn:Hn; [left; split; [discriminate|reflexivity]|].
  right. destruct (need_sep_false_snoc (x :: P0) ltac:(discriminate) Hn) as (P' & E).
  exists P'. split; [exact E|]. rewrite E, <- app_assoc. reflexivity.
Qed.

Lemma starts_with_sep_app a b : a <> [] -> starts_with_sep (a ++ b) = starts_with_sep a.
Proof. destruct a; [congruence|reflexivity]. Qed.

Lemma starts_with_sep_mid a b c : starts_with_sep (a ++ SEP :: b) = starts_with_sep (a ++ SEP :: c).
Proof. destruct a; reflexivity. Qed.

Lemma walk_app st l1 l2 :
  walk st (l1 ++ l2) = match walk st l1 with Some st' => walk st' l2 | None => None end.
Proof.
  revert st. induction l1 as [|c l1 IH]; intros st; cbn [app walk]; [reflexivity|].
  destruct (step st c); [apply IH|reflexivity].
Qed.

Lemma step_empty_then st c :
  match step st [] with Some st' => step st' c | None => None end = step st c.
Proof.
  destruct st as [cur anc]. destruct (is_dir cur) eqn:Hd.
  - assert (E : step (cur, anc) [] = Some (cur, anc)) by (unfold step; rewrite Hd; reflexivity).
    rewrite E. reflexivity.
  - assert (E : step (cur, anc) [] = None) by (unfold step; rewrite Hd; reflexivity).
    rewrite E. unfold step. rewrite Hd. reflexivity.
Qed.

Lemma step_plain cur anc c :
  plain c = true ->
  step (cur, anc) c = match child cur c with Some n => Some (n, cur :: anc) | None => None end.
Proof.
  intros Hp. destruct (plain_facts c Hp) as (H1 & H2 & H3 & _).
  unfold step. rewrite H1, H2, H3. cbn [orb].
  destruct cur as [x|ch]; cbn [is_dir negb child]; reflexivity.
Qed.

(** the path with a plain component pushed resolves to one walk step from where the path resolves *)
Lemma resolve_st_push_plain fs P c :
  plain c = true ->
  resolve_st fs (push P c) = match resolve_st fs P with Some st => step st c | None => None end.
Proof.
  intros Hp. destruct (plain_facts c Hp) as (_ & _ & _ & Hn).
  pose proof (split_sep_nosep c Hn) as Hs.
  destruct (push_plain_cases P c Hp) as [[-> E]|[[Hne E]|(P' & -> & E)]]; rewrite E; unfold resolve_st.
  - rewrite (plain_not_abs c Hp). reflexivity.
  - rewrite starts_with_sep_app by exact Hne. destruct (starts_with_sep P); [|reflexivity].
    rewrite split_sep_app_sep, Hs, walk_app.
    destruct (walk (fs, []) (split_sep P)) as [st|]; [|reflexivity].
    cbn [walk]. destruct (step st c); reflexivity.
  - rewrite (starts_with_sep_mid P' c []). destruct (starts_with_sep (P' ++ [SEP])); [|reflexivity].
    rewrite split_sep_app_sep, split_sep_snoc_sep, Hs, !walk_app.
    destruct (walk (fs, []) (split_sep P')) as [st|]; [|reflexivity].
    cbn [walk]. rewrite <- (step_empty_then st c).
    destruct (step st []) as [st'|]; [|reflexivity]. destruct (step st' c); reflexivity.
Qed.

Lemma resolve_push_plain fs P c :
  plain c = true ->
  resolve fs (push P c) = match resolve fs P with Some n => child n c | None => None end.
Proof.
  intros Hp. unfold resolve. rewrite (resolve_st_push_plain fs P c Hp).
  destruct (resolve_st fs P) as [[cur anc]|]; [|reflexivity].
  rewrite (step_plain cur anc c Hp). cbn [fst]. destruct (child cur c); reflexivity.
Qed.

(** ** confinement: a path of plain components, pushed onto any root, is found by plain
    descent from the root's node - nothing outside that subtree is consulted *)
Theorem resolve_absolute_plain fs comps : forall root,
  Forall (fun c => plain c = true) comps ->
  resolve fs (absolute root comps) = match resolve fs root with Some r => lookup r comps | None => None end.
Proof.
  induction comps as [|c r IH]; intros root Hf.
  - cbn [absolute fold_left lookup]. destruct (resolve fs root); reflexivity.
  - inversion Hf as [|? ? Hc Hr]; subst. unfold absolute in *. cbn [fold_left lookup].
    rewrite (IH (push root c) Hr). rewrite (resolve_push_plain fs root c Hc).
    destruct (resolve fs root) as [n|]; [|reflexivity]. destruct (child n c); reflexivity.
Qed.

(** ** lexical folding of plain components *)
Lemma fold_norm_empty stk : norm_step stk [] = stk.
Proof. reflexivity. Qed.

Lemma norm_step_plain stk c : plain c = true -> norm_step stk c = c :: stk.
Proof.
  intros Hp. destruct (plain_facts c Hp) as (H1 & H2 & H3 & _).
  unfold norm_step. rewrite H1, H2, H3. reflexivity.
Qed.

Lemma norm_push_plain P c : plain c = true -> norm (push P c) = norm P ++ [c].
Proof.
  intros Hp. destruct (plain_facts c Hp) as (_ & _ & _ & Hn).
  pose proof (split_sep_nosep c Hn) as Hs. unfold norm.
  destruct (push_plain_cases P c Hp) as [[-> E]|[[Hne E]|(P' & -> & E)]]; rewrite E.
  - rewrite Hs. cbn [split_sep fold_left]. rewrite fold_norm_empty, (norm_step_plain [] c Hp). reflexivity.
  - rewrite split_sep_app_sep, Hs, fold_left_app. cbn [fold_left].
    rewrite (norm_step_plain _ c Hp). reflexivity.
  - rewrite split_sep_app_sep, split_sep_snoc_sep, Hs, !fold_left_app. cbn [fold_left].
    rewrite fold_norm_empty, (norm_step_plain _ c Hp). reflexivity.
Qed.

Lemma norm_absolute_plain comps : forall root,
  Forall (fun c => plain c = true) comps -> norm (absolute root comps) = norm root ++ comps.
Proof.
  induction comps as [|c r IH]; intros root Hf.
  - cbn [absolute fold_left]. rewrite app_nil_r. reflexivity.
  - inversion Hf as [|? ? Hc Hr]; subst. unfold absolute in *. cbn [fold_left].
    rewrite (IH (push root c) Hr), (norm_push_plain root c Hc), <- app_assoc. reflexivity.
Qed.

Lemma is_prefix_app a b : is_prefix a (a ++ b) = true.
Proof. induction a as [|x a IH]; cbn [is_prefix app]; [reflexivity|]. rewrite bytes_eqb_refl, IH. reflexivity. Qed.

Theorem plain_never_escapes root comps :
  Forall (fun c => plain c = true) comps -> lex_escapes root comps = false.
Proof.
  intros Hf. unfold lex_escapes, lex_inside. rewrite (norm_absolute_plain comps root Hf), is_prefix_app.
  reflexivity.
Qed.
