(** Proofs for the whole create pipeline (X7) over Model/CreateWalk.v: the selection that
    [create_t] hashes IS [Walk.walk]'s listing of the same tree.
    - the erased tree is link-free: the walk never refuses, never fails, and does not depend on
      `--follow-symlinks`;
    - [walk_selection_resolves] / [walk_selection_plain] / [walk_selection_nodup] /
      [walk_selection_sorted]: what the walker lists are exactly the regular files below the input
      that pass the documented filters, each a plain relative path the verifier's [resolve] finds,
      no duplicates, sorted by the real comparison;
    - [create_walk_lists], [create_walk_then_verify], [create_walk_tracks_content],
      [create_walk_order_independent], [create_walk_end_to_end]: C06, C01, C05 and C02 composed.
    Nothing of Proofs/WalkProofs.v, Proofs/CreateVerifyProofs.v or Proofs/EndToEndProofs.v is
    proved again. *)
From Coq Require Import NArith List Bool Lia ZifyN ZifyBool.
From Coq Require Import Sorting.Permutation Sorting.Sorted.
From Imdl Require Import Base.Chunks Model.Bencode Model.Fs Model.Verify Model.CreateVerify Model.CreateWalk
     Proofs.FsProofs Proofs.VerifyProofs Proofs.CreateVerifyProofs.
From Imdl Require Model.Walk Proofs.WalkProofs Model.Hasher Model.Metainfo Model.EndToEnd Proofs.EndToEndProofs.
Import ListNotations.
Local Open Scope N_scope.

(** ** induction over content trees *)
Section NodeInd.
  Variable P : node -> Prop.
  Hypothesis HF : forall c, P (File c).
  Hypothesis HD : forall ch, Forall (fun kv => P (snd kv)) ch -> P (Dir ch).
  Fixpoint node_ind' (n : node) : P n :=
    match n with
    | File c => HF c
    | Dir ch => HD ch ((fix go (l : list (bytes * node)) : Forall (fun kv => P (snd kv)) l :=
                          match l with
                          | [] => Forall_nil _
                          | x :: xs => Forall_cons _ (node_ind' (snd x)) (go xs)
                          end) ch)
    end.
End NodeInd.

Scheme node_perm_mut := Induction for node_perm Sort Prop
  with children_perm_mut := Induction for children_perm Sort Prop.

Definition erase_kv (kv : bytes * node) : list N * Walk.tree := (fst kv, erase (snd kv)).

Lemma erase_dir ch : erase (Dir ch) = Walk.WDir (map erase_kv ch).
Proof. reflexivity. Qed.

Lemma map_fst_erase ch : map fst (map erase_kv ch) = map fst ch.
Proof. rewrite map_map. reflexivity. Qed.

(** ** well-formedness carries over *)
Lemma erase_wf n : wf_node n -> WalkProofs.wf_tree (erase n).
Proof.
  induction n as [c|ch IH] using node_ind'; intros W.
  - constructor.
  - inversion W as [|? Hnd Hpl Hwf]; subst. rewrite erase_dir. constructor.
    + rewrite map_fst_erase. exact Hnd.
    + rewrite Forall_forall in *. intros ne Hne. apply in_map_iff in Hne. destruct Hne as (kv & <- & Hkv).
      cbn [erase_kv snd]. apply (IH kv Hkv). apply (Hwf kv Hkv).
Qed.

Lemma wf_child ch kv : wf_node (Dir ch) -> In kv ch -> plain (fst kv) = true /\ wf_node (snd kv).
Proof.
  intros W Hin. inversion W as [|? Hnd Hpl Hwf]; subst. rewrite Forall_forall in Hpl, Hwf. auto.
Qed.

(** ** the erased tree has no links: no refusal, no failure, `--follow-symlinks` irrelevant *)
Lemma erase_resolve n : Walk.resolve (erase n) = erase n.
Proof. destruct n; reflexivity. Qed.

Lemma erase_not_symlink n : Walk.is_symlink (erase n) = false.
Proof. destruct n; reflexivity. Qed.

Lemma erase_not_dangling n : Walk.dangling (erase n) = false.
Proof. destruct n; reflexivity. Qed.

Section Erased.
Variable pat : Type.
Variable gmatch : pat -> list (list N) -> bool.
Notation cfg := (Walk.cfg pat).

Lemma erase_no_walk_error (c : cfg) n : Walk.walk_error pat c (erase n) = false.
Proof.
  induction n as [d|ch IH] using node_ind'; [reflexivity|].
  rewrite erase_dir. cbn [Walk.walk_error].
  induction IH as [|kv r Hkv Hr IHr]; [reflexivity|].
  cbn [map existsb erase_kv fst snd]. rewrite erase_not_dangling, Hkv, IHr.
  destruct (Walk.skip_hidden pat c (fst kv)); reflexivity.
Qed.

Lemma walk_erase_file (c : cfg) d : Walk.walk pat gmatch c (erase (File d)) = Walk.WalkSingle (blen d).
Proof. unfold Walk.walk. cbn. rewrite andb_false_r. reflexivity. Qed.

Lemma walk_erase_dir (c : cfg) ch :
  Walk.walk pat gmatch c (erase (Dir ch)) =
  Walk.WalkListing (Walk.isort (Walk.leb (Walk.sort_by c))
                      (filter (Walk.included pat gmatch c) (Walk.all_files pat c (erase (Dir ch))))).
Proof.
  apply WalkProofs.walk_refines_spec.
  - right. apply erase_not_symlink.
  - apply erase_resolve.
  - rewrite <- erase_dir. apply erase_no_walk_error.
Qed.

Lemma all_files_follow_irrelevant (c c' : cfg) n : Walk.all_files pat c (erase n) = Walk.all_files pat c' (erase n).
Proof.
  induction n as [d|ch IH] using node_ind'; [reflexivity|].
  rewrite erase_dir. cbn [Walk.all_files].
  induction IH as [|kv r Hkv Hr IHr]; [reflexivity|].
  cbn [map flat_map erase_kv fst snd]. rewrite Hkv, IHr. reflexivity.
Qed.

(** on a link-free tree the outcome does not depend on `--follow-symlinks` *)
Theorem walk_erase_follow_irrelevant h j f f' ps sb n :
  Walk.walk pat gmatch (Walk.Build_cfg h j f ps sb) (erase n) =
  Walk.walk pat gmatch (Walk.Build_cfg h j f' ps sb) (erase n).
Proof.
  destruct n as [d|ch]; [rewrite !walk_erase_file; reflexivity|].
  rewrite !walk_erase_dir. cbn [Walk.sort_by].
  rewrite (all_files_follow_irrelevant (Walk.Build_cfg h j f ps sb) (Walk.Build_cfg h j f' ps sb)).
  reflexivity.
Qed.

(** ** the files the walker sees are the files the verifier's lookup finds *)
Lemma file_at_erase follow n : forall pa sz,
  Walk.file_at follow (erase n) pa sz <-> exists d, cfile_at n pa d /\ sz = blen d.
Proof.
  induction n as [c|ch IH] using node_ind'; intros pa sz.
  - split.
    + intros Hf. inversion Hf; subst. exists c. split; [constructor|reflexivity].
    + intros (d & Hc & ->). inversion Hc; subst. constructor.
  - rewrite erase_dir. rewrite Forall_forall in IH. split.
    + intros Hf. inversion Hf as [|es n t p sz' Hin Ht|]; subst.
      apply in_map_iff in Hin. destruct Hin as (kv & E & Hkv). inversion E; subst.
      apply (IH kv Hkv) in Ht. destruct Ht as (d & Hc & ->).
      exists d. split; [|reflexivity]. econstructor; [|exact Hc]. destruct kv; exact Hkv.
    + intros (d & Hc & ->). inversion Hc as [|? n t p ? Hin Ht]; subst.
      econstructor.
      * apply in_map_iff. exists (n, t). split; [reflexivity|exact Hin].
      * apply (IH (n, t) Hin). exists d. split; [exact Ht|reflexivity].
Qed.

Lemma find_nodup (ch : list (bytes * node)) kv :
  NoDup (map fst ch) -> In kv ch -> find (fun kv' => bytes_eqb (fst kv') (fst kv)) ch = Some kv.
Proof.
  induction ch as [|x r IH]; cbn [map find In]; intros Hnd Hin; [contradiction|].
  inversion Hnd as [|? ? Hx Hr]; subst. destruct Hin as [->|Hin].
  - rewrite bytes_eqb_refl. reflexivity.
  - destruct (bytes_eqb (fst x) (fst kv)) eqn:E; [|apply IH; assumption].
    apply bytes_eqb_eq in E. exfalso. apply Hx. rewrite E. apply in_map. exact Hin.
Qed.

Lemma child_some ch x n : child (Dir ch) x = Some n -> In (x, n) ch.
Proof.
  cbn [child]. destruct (find _ ch) as [kv|] eqn:Ef; [|discriminate]. intros E. inversion E; subst.
  apply find_some in Ef. destruct Ef as [Hin Hx]. apply bytes_eqb_eq in Hx. subst x. destruct kv; exact Hin.
Qed.

Lemma child_nodup ch x n : NoDup (map fst ch) -> In (x, n) ch -> child (Dir ch) x = Some n.
Proof.
  intros Hnd Hin. pose proof (find_nodup ch (x, n) Hnd Hin) as Hf. cbn [fst] in Hf.
  cbn [child]. rewrite Hf. reflexivity.
Qed.

Lemma cfile_at_lookup n : wf_node n -> forall pa d, cfile_at n pa d <-> lookup n pa = Some (File d).
Proof.
  induction n as [c|ch IH] using node_ind'; intros W pa d.
  - split.
    + intros Hc. inversion Hc; subst. reflexivity.
    + destruct pa as [|x r]; cbn [lookup child]; [|discriminate]. intros E. inversion E; subst. constructor.
  - rewrite Forall_forall in IH. split.
    + intros Hc. inversion Hc as [|? x t p ? Hin Ht]; subst. cbn [lookup].
      inversion W as [|? Hnd Hpl Hwf]; subst. rewrite (child_nodup ch x t Hnd Hin).
      apply (IH (x, t) Hin); [|exact Ht]. apply (wf_child ch (x, t) W Hin).
    + destruct pa as [|x r]; cbn [lookup]; [discriminate|].
      destruct (child (Dir ch) x) as [t|] eqn:Ec; [|discriminate]. intros Hl.
      apply child_some in Ec. econstructor; [exact Ec|].
      apply (IH (x, t) Ec); [|exact Hl]. apply (wf_child ch (x, t) W Ec).
Qed.

(** every path the lookup answers is made of names of the tree: plain components *)
Lemma lookup_plain pa : forall n m, wf_node n -> lookup n pa = Some m -> plain_path pa.
Proof.
  induction pa as [|x r IH]; intros n m W Hl; [constructor|].
  cbn [lookup] in Hl. destruct (child n x) as [t|] eqn:Ec; [|discriminate].
  destruct n as [c|ch]; [discriminate|]. apply child_some in Ec.
  destruct (wf_child ch (x, t) W Ec) as [Hp Ht]. constructor; [exact Hp|]. exact (IH t m Ht Hl).
Qed.

Lemma utf8_child ch kv : utf8_node (Dir ch) -> In kv ch -> utf8_ok (fst kv) = true /\ utf8_node (snd kv).
Proof.
  intros U Hin. inversion U as [|? Hu Hr]; subst. rewrite Forall_forall in Hu, Hr. auto.
Qed.

Lemma lookup_utf8 pa : forall n m, utf8_node n -> lookup n pa = Some m -> EndToEnd.utf8_path pa.
Proof.
  induction pa as [|x r IH]; intros n m U Hl; [constructor|].
  cbn [lookup] in Hl. destruct (child n x) as [t|] eqn:Ec; [|discriminate].
  destruct n as [c|ch]; [discriminate|]. apply child_some in Ec.
  destruct (utf8_child ch (x, t) U Ec) as [Hp Ht]. constructor; [exact Hp|]. exact (IH t m Ht Hl).
Qed.

(** the documented predicate looks at the path only *)
Lemma included_selected (c : cfg) e : Walk.included pat gmatch c e = selected pat gmatch c (fst e).
Proof. reflexivity. Qed.

(** ** the walker's listing of a content tree *)
Definition sized (e : list bytes * bytes) : list (list N) * N := (fst e, blen (snd e)).

(** [walk_selection_resolves]: what the walker lists of a directory is exactly the set of regular
    files the verifier's lookup finds below it that pass the documented filters, with their
    lengths; [walk_selection_nodup], [walk_selection_sorted]: once each, in the real order *)
Theorem walk_selection_resolves (c : cfg) ch files :
  wf_node (Dir ch) -> Walk.walk pat gmatch c (erase (Dir ch)) = Walk.WalkListing files ->
  forall pa sz, In (pa, sz) files <->
                exists d, lookup (Dir ch) pa = Some (File d) /\ sz = blen d /\ selected pat gmatch c pa = true.
Proof.
  intros W Hw pa sz.
  destruct (WalkProofs.walk_listing_characterised pat gmatch c _ _ Hw) as (es & Hres & Hin & _).
  rewrite erase_resolve in Hres. rewrite <- Hres in Hin. rewrite (Hin (pa, sz)).
  rewrite WalkProofs.all_files_exact, file_at_erase, included_selected. cbn [fst]. split.
  - intros [(d & Hc & ->) Hs]. exists d. split; [apply (cfile_at_lookup _ W); exact Hc|auto].
  - intros (d & Hl & -> & Hs). split; [|exact Hs]. exists d. split; [apply (cfile_at_lookup _ W); exact Hl|reflexivity].
Qed.

Theorem walk_selection_nodup (c : cfg) n files :
  wf_node n -> Walk.walk pat gmatch c (erase n) = Walk.WalkListing files -> NoDup (map fst files).
Proof.
  intros W Hw.
  destruct (WalkProofs.walk_listing_characterised pat gmatch c _ _ Hw) as (es & Hres & _ & Hperm & _).
  rewrite erase_resolve in Hres.
  eapply Permutation_NoDup; [apply Permutation_map; exact Hperm|].
  rewrite <- Hres. apply WalkProofs.included_files_nodup. apply erase_wf. exact W.
Qed.

Theorem walk_selection_sorted (c : cfg) n files :
  Walk.walk pat gmatch c (erase n) = Walk.WalkListing files -> WalkProofs.sorted_by (Walk.sort_by c) files.
Proof.
  intros Hw.
  destruct (WalkProofs.walk_listing_characterised pat gmatch c _ _ Hw) as (es & _ & _ & _ & Hs & _).
  exact Hs.
Qed.

(** [walk_selection_plain]: each listed path is a plain relative path (no empty component, no
    `.`, no `..`, no separator), so joining it onto the root stays below the root *)
Theorem walk_selection_plain (c : cfg) ch files :
  wf_node (Dir ch) -> Walk.walk pat gmatch c (erase (Dir ch)) = Walk.WalkListing files ->
  Forall plain_path (map fst files).
Proof.
  intros W Hw. apply Forall_forall. intros pa Hpa. apply in_map_iff in Hpa. destruct Hpa as ([pa' sz] & <- & Hin).
  apply (walk_selection_resolves c ch files W Hw) in Hin. destruct Hin as (d & Hl & _).
  exact (lookup_plain pa' _ _ W Hl).
Qed.

(** ... and the verifier's [resolve] finds it, as a regular file of the listed length, under any
    absolute root that resolves to the input *)
Theorem walk_selection_resolves_fs (c : cfg) ch files fs root :
  wf_node (Dir ch) -> resolve fs root = Some (Dir ch) ->
  Walk.walk pat gmatch c (erase (Dir ch)) = Walk.WalkListing files ->
  forall pa sz, In (pa, sz) files -> exists d, resolve fs (absolute root pa) = Some (File d) /\ sz = blen d.
Proof.
  intros W Hr Hw pa sz Hin. apply (walk_selection_resolves c ch files W Hw) in Hin.
  destruct Hin as (d & Hl & -> & _). exists d. split; [|reflexivity].
  rewrite (resolve_absolute_plain fs pa root (lookup_plain pa _ _ W Hl)), Hr. exact Hl.
Qed.

(** ** what create gathers for the hasher from the walker's listing *)
Lemma gather_listing src : forall files : list (list (list N) * N),
  Forall (fun e => exists d, lookup src (fst e) = Some (File d) /\ snd e = blen d) files ->
  exists l, mapM (gather_file src) (map fst files) = Some l /\ map sized l = files.
Proof.
  induction files as [|[pa sz] r IH]; intros Hf.
  - exists []. split; reflexivity.
  - inversion Hf as [|? ? (d & Hl & Hsz) Hr]; subst. destruct (IH Hr) as (l & Hm & Hs).
    exists ((pa, d) :: l). cbn [map fst mapM]. unfold gather_file at 1. cbn [fst snd] in Hl, Hsz. rewrite Hl, Hm.
    split; [reflexivity|]. cbn [map]. rewrite Hs. unfold sized. cbn [fst snd]. rewrite Hsz. reflexivity.
Qed.

Lemma map_fst_sized l : map fst (map sized l) = map fst l.
Proof. rewrite map_map. reflexivity. Qed.

(** the pivot: selection and gathering never fail on a well-formed tree, and the gathered
    listing is exactly what [walker_selects] describes, in the walker's order *)
Theorem selection_gathers (c : cfg) src :
  wf_node src ->
  exists sel c0,
    selection pat gmatch c src = Some sel /\ gather src sel = Some c0 /\ Forall plain_path sel /\
    (forall pa d, In (pa, d) (listing_of c0) <-> walker_selects pat gmatch c src pa d) /\
    NoDup (map fst (listing_of c0)) /\
    match src with
    | File d => c0 = Hasher.SingleFile d
    | Dir _ => sel = map fst (listing_of c0) /\
               Walk.walk pat gmatch c (erase src) = Walk.WalkListing (map sized (listing_of c0))
    end.
Proof.
  intros W. destruct src as [d0|ch].
  - exists [], (Hasher.SingleFile d0). unfold selection. rewrite walk_erase_file. cbn [gather listing_of].
    split; [reflexivity|]. split; [reflexivity|]. split; [constructor|]. split; [|split; [|reflexivity]].
    + intros pa d. cbn [walker_selects]. split.
      * intros [E|[]]. inversion E; subst. split; reflexivity.
      * intros [-> ->]. left. reflexivity.
    + cbn. constructor; [intros []|constructor].
  - pose proof (walk_erase_dir c ch) as Hw. set (files := Walk.isort _ _) in Hw.
    pose proof (walk_selection_resolves c ch files W Hw) as Hex.
    assert (Hf : Forall (fun e => exists d, lookup (Dir ch) (fst e) = Some (File d) /\ snd e = blen d) files).
    { apply Forall_forall. intros [pa sz] Hin. apply Hex in Hin. destruct Hin as (d & Hl & Hsz & _). exists d. auto. }
    destruct (gather_listing (Dir ch) files Hf) as (l & Hm & Hs).
    destruct (gather_files_spec _ _ _ Hm) as [Hfst Hlk].
    exists (map fst files), (Hasher.Directory l). unfold selection. rewrite Hw. cbn [gather listing_of]. rewrite Hm.
    split; [reflexivity|]. split; [reflexivity|]. split; [exact (walk_selection_plain c ch files W Hw)|].
    rewrite Forall_forall in Hlk.
    split; [|split; [|split]].
    + intros pa d. cbn [walker_selects]. split.
      * intros Hin. pose proof (Hlk _ Hin) as Hl. cbn [fst snd] in Hl. split; [exact Hl|].
        assert (Hin' : In (pa, blen d) files) by (rewrite <- Hs; apply (in_map sized l (pa, d)); exact Hin).
        apply Hex in Hin'. destruct Hin' as (_ & _ & _ & Hsel). exact Hsel.
      * intros [Hl Hsel].
        assert (Hin' : In (pa, blen d) files) by (apply Hex; exists d; auto).
        rewrite <- Hs in Hin'. apply in_map_iff in Hin'. destruct Hin' as ([pa' d'] & E & Hin). inversion E; subst pa'.
        pose proof (Hlk _ Hin) as Hl'. cbn [fst snd] in Hl'. rewrite Hl in Hl'. inversion Hl'; subst. exact Hin.
    + rewrite Hfst. exact (walk_selection_nodup c (Dir ch) files W Hw).
    + symmetry. exact Hfst.
    + rewrite Hs. reflexivity.
Qed.

End Erased.

(** ** permuted trees *)
Lemma node_perm_sym_mut :
  (forall s s', node_perm s s' -> node_perm s' s).
Proof.
  intros s s' Hp.
  induction Hp using node_perm_mut with (P0 := fun l l' _ => children_perm l' l).
  - constructor.
  - constructor. exact IHHp.
  - constructor.
  - constructor; assumption.
  - constructor.
  - eapply cp_trans; eassumption.
Qed.

Lemma node_perm_refl s : node_perm s s.
Proof.
  induction s as [c|ch IH] using node_ind'; constructor.
  induction IH as [|[n t] r Ht Hr IHr]; constructor; assumption.
Qed.

Lemma children_perm_refl l : children_perm l l.
Proof. induction l as [|[n t] r IH]; constructor; [apply node_perm_refl|exact IH]. Qed.

(** a plain permutation of a directory's entries is a [node_perm] *)
Lemma children_perm_of_Permutation l l' : Permutation l l' -> children_perm l l'.
Proof.
  induction 1 as [|[n t] l l' HP IH|x y l|l1 l2 l3 H1 IH1 H2 IH2].
  - constructor.
  - constructor; [apply node_perm_refl|exact IH].
  - eapply cp_trans; [apply cp_swap|apply children_perm_refl].
  - eapply cp_trans; eassumption.
Qed.

Lemma cfile_at_perm s s' : node_perm s s' -> forall pa d, cfile_at s pa d -> cfile_at s' pa d.
Proof.
  intros Hp.
  induction Hp using node_perm_mut
    with (P0 := fun l l' _ => forall n t pa d, In (n, t) l -> cfile_at t pa d ->
                                exists t', In (n, t') l' /\ cfile_at t' pa d).
  - auto.
  - intros pa d Hc. inversion Hc as [|? n t p ? Hin Ht]; subst.
    destruct (IHHp n t p d Hin Ht) as (t' & Hin' & Ht'). econstructor; eassumption.
  - intros n t pa d [].
  - intros n0 t0 pa d [E|Hin] Hc.
    + inversion E; subst. exists t'. split; [left; reflexivity|]. apply IHHp. exact Hc.
    + destruct (IHHp0 n0 t0 pa d Hin Hc) as (t1 & Hin1 & Hc1). exists t1. split; [right; exact Hin1|exact Hc1].
  - intros n t pa d Hin Hc. exists t. split; [|exact Hc].
    destruct Hin as [E|[E|Hin]]; [right; left; exact E|left; exact E|right; right; exact Hin].
  - intros n t pa d Hin Hc. destruct (IHHp n t pa d Hin Hc) as (t1 & Hin1 & Hc1).
    exact (IHHp0 n t1 pa d Hin1 Hc1).
Qed.

Lemma wf_perm s s' : node_perm s s' -> wf_node s -> wf_node s'.
Proof.
  intros Hp.
  induction Hp using node_perm_mut
    with (P0 := fun l l' _ => Permutation (map fst l) (map fst l') /\
                              (Forall (fun kv => plain (fst kv) = true /\ wf_node (snd kv)) l ->
                               Forall (fun kv => plain (fst kv) = true /\ wf_node (snd kv)) l')).
  - auto.
  - intros W. inversion W as [|? Hnd Hpl Hwf]; subst. destruct IHHp as [Hperm Hall].
    assert (Hboth : Forall (fun kv => plain (fst kv) = true /\ wf_node (snd kv)) ch).
    { rewrite Forall_forall in *. auto. }
    apply Hall in Hboth. rewrite Forall_forall in Hboth. constructor.
    + eapply Permutation_NoDup; eassumption.
    + apply Forall_forall. intros kv Hkv. apply (Hboth kv Hkv).
    + apply Forall_forall. intros kv Hkv. apply (Hboth kv Hkv).
  - split; [constructor|auto].
  - destruct IHHp0 as [Hperm Hall]. split; [cbn; constructor; exact Hperm|].
    intros Hf. inversion Hf as [|? ? [Hp1 Hw1] Hr]; subst. cbn [fst snd] in *. constructor; [split; auto|auto].
  - split; [cbn; apply perm_swap|]. intros Hf. inversion Hf as [|? ? Hx Hr]; subst. inversion Hr as [|? ? Hy Hr']; subst.
    constructor; [exact Hy|]. constructor; [exact Hx|exact Hr'].
  - destruct IHHp as [P1 A1], IHHp0 as [P2 A2]. split; [eapply Permutation_trans; eassumption|auto].
Qed.

Lemma erase_perm s s' : node_perm s s' -> WalkProofs.tree_perm (erase s) (erase s').
Proof.
  intros Hp.
  induction Hp using node_perm_mut
    with (P0 := fun l l' _ => WalkProofs.entries_perm (map erase_kv l) (map erase_kv l')).
  - constructor.
  - rewrite !erase_dir. constructor. exact IHHp.
  - constructor.
  - cbn [map erase_kv fst snd]. constructor; assumption.
  - cbn [map]. constructor.
  - eapply WalkProofs.ep_trans; eassumption.
Qed.

(** a regular file is found under the same path with the same bytes in both *)
Lemma gather_file_perm s s' pa : wf_node s -> node_perm s s' -> gather_file s pa = gather_file s' pa.
Proof.
  intros W Hp. pose proof (wf_perm s s' Hp W) as W'. pose proof (node_perm_sym_mut s s' Hp) as Hp'.
  unfold gather_file.
  assert (Hiff : forall d, lookup s pa = Some (File d) <-> lookup s' pa = Some (File d)).
  { intros d. rewrite <- (cfile_at_lookup s W), <- (cfile_at_lookup s' W'). split; apply cfile_at_perm; assumption. }
  destruct (lookup s pa) as [[d|ch]|] eqn:E1.
  - rewrite (proj1 (Hiff d) eq_refl). reflexivity.
  - destruct (lookup s' pa) as [[d'|ch']|] eqn:E2; try reflexivity. pose proof (proj2 (Hiff d') eq_refl) as X. discriminate X.
  - destruct (lookup s' pa) as [[d'|ch']|] eqn:E2; try reflexivity. pose proof (proj2 (Hiff d') eq_refl) as X. discriminate X.
Qed.

Lemma gather_perm s s' sel : wf_node s -> node_perm s s' -> gather s sel = gather s' sel.
Proof.
  intros W Hp. unfold gather. inversion Hp as [c|ch ch' Hch]; subst; [reflexivity|].
  assert (E : mapM (gather_file (Dir ch)) sel = mapM (gather_file (Dir ch')) sel).
  { induction sel as [|pa r IH]; cbn [mapM]; [reflexivity|].
    rewrite (gather_file_perm _ _ pa W Hp), IH. reflexivity. }
  rewrite E. reflexivity.
Qed.

(** ** the composed theorems *)
Section CreateWalkProofs.
Variable pat : Type.
Variable gmatch : pat -> list (list N) -> bool.
Variable H : bytes -> bytes.
Variable MD5 : bytes -> bytes.

Notation cfg := (Walk.cfg pat).
Notation selection := (selection pat gmatch).
Notation create_walk := (create_walk pat gmatch H MD5).
Notation walker_selects := (walker_selects pat gmatch).
Notation create_t := (create_t H MD5).
Notation verify := (verify H MD5).

(** "every file the walker selected still holds its bytes" *)
Definition selected_hold (c : cfg) (src : node) (fs' : node) (root : bytes) : Prop :=
  forall pa d, walker_selects c src pa d -> resolve fs' (absolute root pa) = Some (File d).

Lemma holds_iff_selected (c : cfg) src c0 fs' root :
  (forall pa d, In (pa, d) (listing_of c0) <-> walker_selects c src pa d) ->
  (Forall (holds fs' root) (listing_of c0) <-> selected_hold c src fs' root).
Proof.
  intros Hiff. rewrite Forall_forall. unfold selected_hold, holds. split.
  - intros Hh pa d Hs. apply Hiff in Hs. exact (Hh (pa, d) Hs).
  - intros Hh [pa d] Hin. apply Hiff in Hin. exact (Hh pa d Hin).
Qed.

(** [create_walk] unfolded once and for all *)
Lemma create_walk_inv (c : cfg) md5 p name csch src t :
  wf_node src -> create_walk c md5 p name csch src = Some t ->
  exists sel c0,
    selection c src = Some sel /\ gather src sel = Some c0 /\ Forall plain_path sel /\
    create_t md5 p name csch src sel = Some t /\
    0 < p < 2 ^ 32 /\ t = spec_torrent H MD5 md5 p name c0 /\
    (forall pa d, In (pa, d) (listing_of c0) <-> walker_selects c src pa d) /\
    NoDup (map fst (listing_of c0)) /\
    match src with
    | File d => c0 = Hasher.SingleFile d
    | Dir _ => sel = map fst (listing_of c0) /\
               Walk.walk pat gmatch c (erase src) = Walk.WalkListing (map sized (listing_of c0))
    end.
Proof.
  intros W Hc. destruct (selection_gathers pat gmatch c src W) as (sel & c0 & Hsel & Hg & Hpl & Hiff & Hnd & Hshape).
  unfold CreateWalk.create_walk in Hc. rewrite Hsel in Hc.
  destruct (create_t_spec H MD5 _ _ _ _ _ _ _ Hc) as (c1 & Hg1 & Hp & Ht). rewrite Hg in Hg1. inversion Hg1; subst c1.
  exists sel, c0. repeat (split; [assumption|]). exact Hshape.
Qed.

(** C06 o C01: the created torrent lists exactly the documented files, in the walker's order, and
    its piece list is the hash of the pieces of the concatenation of their contents in that order *)
Theorem create_walk_lists (c : cfg) md5 p name csch src t :
  wf_node src -> create_walk c md5 p name csch src = Some t ->
  exists c0,
    0 < p < 2 ^ 32 /\
    t = spec_torrent H MD5 md5 p name c0 /\
    (forall pa d, In (pa, d) (listing_of c0) <-> walker_selects c src pa d) /\
    NoDup (map fst (listing_of c0)) /\
    match src with
    | File d => c0 = Hasher.SingleFile d
    | Dir _ => Walk.walk pat gmatch c (erase src) = Walk.WalkListing (map sized (listing_of c0)) /\
               WalkProofs.sorted_by (Walk.sort_by c) (map sized (listing_of c0))
    end /\
    paths_of t = map fst (listing_of c0) /\
    tpieces t = map H (chunks (N.to_nat p) (concat (map snd (listing_of c0)))) /\
    entries [] t = map (mk_entry MD5 md5 []) (listing_of c0).
Proof.
  intros W Hc.
  destruct (create_walk_inv c md5 p name csch src t W Hc) as (sel & c0 & Hsel & Hg & Hpl & Hct & Hp & Ht & Hiff & Hnd & Hshape).
  exists c0. split; [exact Hp|]. split; [exact Ht|]. split; [exact Hiff|]. split; [exact Hnd|]. split; [|split; [|split]].
  - destruct src as [d|ch]; [exact Hshape|]. destruct Hshape as [_ Hw]. split; [exact Hw|].
    exact (walk_selection_sorted pat gmatch c _ _ Hw).
  - subst t. apply paths_spec.
  - subst t. reflexivity.
  - subst t. apply entries_spec.
Qed.

(** create, then verify against the unmodified tree: success, whatever the flags excluded *)
Theorem create_walk_then_verify (c : cfg) md5 p name csch vsch fs root src t :
  resolve fs root = Some src -> wf_node src ->
  create_walk c md5 p name csch src = Some t ->
  verify vsch fs root t = Some true.
Proof.
  intros Hr W Hc.
  destruct (create_walk_inv c md5 p name csch src t W Hc) as (sel & c0 & _ & _ & Hpl & Hct & _).
  exact (create_then_verify H MD5 md5 p name csch vsch fs root src sel t Hr Hpl Hct).
Qed.

(** on any later filesystem: success iff every file THE WALKER SELECTED still holds its bytes *)
Theorem create_walk_tracks_content (c : cfg) md5 p name csch vsch src t root :
  wf_node src -> create_walk c md5 p name csch src = Some t ->
  exists c0,
    (forall pa d, In (pa, d) (listing_of c0) <-> walker_selects c src pa d) /\
    forall fs',
      collision_free H p (map snd (listing_of c0)) (map (content fs') (entries root t)) ->
      (verify vsch fs' root t = Some true <-> selected_hold c src fs' root).
Proof.
  intros W Hc.
  destruct (create_walk_inv c md5 p name csch src t W Hc) as (sel & c0 & _ & Hg & _ & Hct & _ & _ & Hiff & _).
  destruct (verify_tracks_content H MD5 md5 p name csch vsch src sel t root Hct) as (c1 & Hg1 & Htr).
  rewrite Hg in Hg1. inversion Hg1; subst c1.
  exists c0. split; [exact Hiff|]. intros fs' Hcf. rewrite (Htr fs' Hcf). apply holds_iff_selected. exact Hiff.
Qed.

(** edits confined to what the walker left out (hidden, junk, glob-excluded files; anything
    else on the filesystem) never matter. No hypothesis on the hash functions. *)
Theorem create_walk_excluded_edits_irrelevant (c : cfg) md5 p name csch vsch src t root fs' :
  wf_node src -> create_walk c md5 p name csch src = Some t ->
  selected_hold c src fs' root -> verify vsch fs' root t = Some true.
Proof.
  intros W Hc Hh.
  destruct (create_walk_inv c md5 p name csch src t W Hc) as (sel & c0 & _ & _ & _ & _ & Hp & Ht & Hiff & _).
  subst t. apply holds_verify_true; [exact Hp|]. apply (holds_iff_selected c src c0 fs' root Hiff). exact Hh.
Qed.

(** an edit to any file the walker included always matters *)
Theorem create_walk_included_edit_fails (c : cfg) md5 p name csch vsch src t root fs' pa d :
  wf_node src -> create_walk c md5 p name csch src = Some t ->
  (forall a b, H a = H b -> a = b) ->
  walker_selects c src pa d -> resolve fs' (absolute root pa) <> Some (File d) ->
  verify vsch fs' root t = Some false.
Proof.
  intros W Hc Hinj Hs Hne.
  destruct (create_walk_tracks_content c md5 p name csch vsch src t root W Hc) as (c0 & Hiff & Htr).
  destruct (verify_total H MD5 vsch fs' root t) as [[|] Hb]; [|exact Hb].
  exfalso. apply Hne. apply (Htr fs') in Hb; [exact (Hb pa d Hs)|].
  intros x y _ _. apply Hinj.
Qed.

(** two filesystems that agree on the selected paths get the same verdict *)
Theorem create_walk_ignores_unselected (c : cfg) md5 p name csch vsch src t root fs1 fs2 :
  wf_node src -> create_walk c md5 p name csch src = Some t ->
  (forall pa d, walker_selects c src pa d -> resolve fs1 (absolute root pa) = resolve fs2 (absolute root pa)) ->
  verify vsch fs1 root t = verify vsch fs2 root t.
Proof.
  intros W Hc Hsame.
  destruct (create_walk_inv c md5 p name csch src t W Hc) as (sel & c0 & _ & Hg & _ & Hct & _ & _ & Hiff & _).
  destruct (created_ignores_unlisted H MD5 md5 p name csch vsch src sel t root fs1 fs2 Hct) as (c1 & Hg1 & Hv).
  rewrite Hg in Hg1. inversion Hg1; subst c1. apply Hv. intros [pa d] Hin. apply Hiff in Hin. exact (Hsame pa d Hin).
Qed.

(** creation succeeds whenever the piece length is admissible and no read fails *)
Theorem create_walk_total (c : cfg) md5 p name csch src :
  wf_node src -> 0 < p < 2 ^ 32 -> Hasher.error_free csch ->
  exists t, create_walk c md5 p name csch src = Some t.
Proof.
  intros W Hp Hef. destruct (selection_gathers pat gmatch c src W) as (sel & c0 & Hsel & Hg & _).
  unfold CreateWalk.create_walk. rewrite Hsel. rewrite (create_t_total H MD5 md5 p name csch src sel c0 Hp Hef Hg). eauto.
Qed.

(** the enumeration order of the directories does not matter: same torrent, same bytes *)
Theorem create_walk_order_independent (c : cfg) md5 p name csch src src' :
  wf_node src -> node_perm src src' ->
  create_walk c md5 p name csch src = create_walk c md5 p name csch src'.
Proof.
  intros W Hp. unfold CreateWalk.create_walk, CreateWalk.selection.
  rewrite <- (WalkProofs.enumeration_order_independent pat gmatch c (erase src) (erase src') (erase_wf src W) (erase_perm src src' Hp)).
  destruct (Walk.walk pat gmatch c (erase src)); try reflexivity;
    unfold CreateVerify.create_t; rewrite (gather_perm src src' _ W Hp); reflexivity.
Qed.

Theorem create_walk_bytes_order_independent norm host_canon git_suffix o (c : cfg) md5 p name csch src src' :
  wf_node src -> node_perm src src' ->
  create_walk_bytes pat gmatch H MD5 norm host_canon git_suffix o c md5 p name csch src =
  create_walk_bytes pat gmatch H MD5 norm host_canon git_suffix o c md5 p name csch src'.
Proof.
  intros W Hp. unfold create_walk_bytes. rewrite (create_walk_order_independent c md5 p name csch src src' W Hp). reflexivity.
Qed.

(** ** end to end: the bytes written, read back by verify's loader *)
Hypothesis H_len : forall b, length (H b) = 20%nat.
Hypothesis MD5_len : forall b, length (MD5 b) = 16%nat.
Hypothesis MD5_bytes : forall b, Forall (fun x => x < 256) (MD5 b).

Lemma selection_utf8 (c : cfg) src sel :
  wf_node src -> utf8_node src -> selection c src = Some sel -> Forall EndToEnd.utf8_path sel.
Proof.
  intros W U Hsel. destruct (selection_gathers pat gmatch c src W) as (sel' & c0 & Hsel' & Hg & _ & Hiff & _ & Hshape).
  rewrite Hsel in Hsel'. inversion Hsel'; subst sel'. destruct src as [d|ch].
  - unfold CreateWalk.selection in Hsel. rewrite walk_erase_file in Hsel. inversion Hsel. constructor.
  - destruct Hshape as [-> _]. apply Forall_forall. intros pa Hpa. apply in_map_iff in Hpa.
    destruct Hpa as ([pa' d] & <- & Hin). apply Hiff in Hin. destruct Hin as [Hl _]. exact (lookup_utf8 pa' _ _ U Hl).
Qed.

Theorem create_walk_end_to_end norm host_canon git_suffix o (c : cfg) md5 p name csch vsch fs root src t :
  resolve fs root = Some src -> wf_node src -> utf8_node src -> utf8_ok name = true ->
  create_walk c md5 p name csch src = Some t ->
  Metainfo.input_ok (EndToEnd.input_of t) = true -> Metainfo.opts_ok o = true -> EndToEnd.agrees o md5 t ->
  exists tb c0,
    create_walk_bytes pat gmatch H MD5 norm host_canon git_suffix o c md5 p name csch src = Some tb /\
    load tb = Some t /\
    (forall pa d, In (pa, d) (listing_of c0) <-> walker_selects c src pa d) /\
    EndToEnd.verify_bytes H MD5 vsch fs root tb = Some true /\
    forall fs',
      collision_free H p (map snd (listing_of c0)) (map (content fs') (entries root t)) ->
      (EndToEnd.verify_bytes H MD5 vsch fs' root tb = Some true <-> selected_hold c src fs' root).
Proof.
  intros Hr W U Hn Hc Hin Hop Hag.
  destruct (create_walk_inv c md5 p name csch src t W Hc) as (sel & c0 & Hsel & Hg & Hpl & Hct & _ & _ & Hiff & _).
  pose proof (selection_utf8 c src sel W U Hsel) as Hu.
  destruct (EndToEndProofs.end_to_end H MD5 H_len MD5_len MD5_bytes norm host_canon git_suffix o md5 p name csch vsch fs root src sel t
              Hr Hpl Hu Hn Hct Hin Hop Hag) as (v & c1 & Hb & Hg1 & Hv & Htr).
  rewrite Hg in Hg1. inversion Hg1; subst c1.
  destruct (EndToEndProofs.created_bytes_load_back H MD5 H_len MD5_len MD5_bytes norm host_canon git_suffix o md5 p name csch src sel t
              Hct Hn Hpl Hu Hin Hop Hag) as (v' & Hb' & Hload & _).
  rewrite Hb in Hb'. inversion Hb'; subst v'.
  exists (encode v), c0. split; [|split; [exact Hload|split; [exact Hiff|split; [exact Hv|]]]].
  - unfold create_walk_bytes. rewrite Hc, Hb. reflexivity.
  - intros fs' Hcf. rewrite (Htr fs' Hcf). apply holds_iff_selected. exact Hiff.
Qed.

End CreateWalkProofs.
