(** Proofs about Model/Streams.v (C18). The configuration space is a finite type; [all_configs]
    enumerates it, [all_configs_complete] proves the enumeration complete, and every theorem is a
    boolean check evaluated by [vm_compute] over the enumeration and then lifted to
    [forall c : config] - no bound is left in the statements. *)
From Coq Require Import String.
From Coq Require Import NArith List Bool.
From Imdl Require Import Model.Streams Generated.GenCli Generated.GenStreams Generated.GenDirectWrites.
Import ListNotations.
Local Open Scope N_scope.

(** * The enumeration is complete *)

Lemma all_bool_complete : forall b, In b all_bool.
Proof. intros []; cbn; auto. Qed.

Lemma all_color_complete : forall u, In u all_color.
Proof. intros []; cbn; auto. Qed.

Lemma all_fail_complete : forall f, In f all_fail.
Proof. intros [[]|]; cbn; auto. Qed.

Lemma all_cmd_complete : forall k, In k all_cmd.
Proof.
  intros [ | [] [] | | | | | [] | | | [] | | ]; unfold all_cmd;
    repeat (first [ left; reflexivity | right ]).
Qed.

Lemma all_configs_complete : forall c, In c all_configs.
Proof.
  intros [k q col t u nc td ot et w f]. unfold all_configs.
  apply in_flat_map; exists k; split; [apply all_cmd_complete|].
  apply in_flat_map; exists q; split; [apply all_bool_complete|].
  apply in_flat_map; exists col; split; [apply all_color_complete|].
  apply in_flat_map; exists t; split; [apply all_bool_complete|].
  apply in_flat_map; exists u; split; [apply all_bool_complete|].
  apply in_flat_map; exists nc; split; [apply all_bool_complete|].
  apply in_flat_map; exists td; split; [apply all_bool_complete|].
  apply in_flat_map; exists ot; split; [apply all_bool_complete|].
  apply in_flat_map; exists et; split; [apply all_bool_complete|].
  apply in_flat_map; exists w; split; [apply all_bool_complete|].
  apply in_map_iff; exists f; split; [reflexivity | apply all_fail_complete].
Qed.

Lemma by_enum : forall P : config -> bool, forallb P all_configs = true -> forall c, P c = true.
Proof.
  intros P HP c. rewrite forallb_forall in HP. apply HP, all_configs_complete.
Qed.

(** * Small decision procedures *)

Definition is_nil {A} (l : list A) : bool := match l with [] => true | _ => false end.

Fixpoint list_cls_eqb (a b : list cls) : bool :=
  match a, b with
  | [], [] => true
  | x :: a', y :: b' => cls_eqb x y && list_cls_eqb a' b'
  | _, _ => false
  end.

Lemma cls_eqb_eq : forall a b, cls_eqb a b = true -> a = b.
Proof. intros [] []; cbn; intros Hab; first [reflexivity | discriminate Hab]. Qed.

Lemma list_cls_eqb_eq : forall a b, list_cls_eqb a b = true -> a = b.
Proof.
  induction a as [|x a IHa]; intros [|y b] Hab; cbn in Hab; try discriminate Hab; [reflexivity|].
  apply andb_true_iff in Hab as [Hxy Hrest].
  f_equal; [apply cls_eqb_eq, Hxy | apply IHa, Hrest].
Qed.

Lemma is_nil_eq : forall A (l : list A), is_nil l = true -> l = [].
Proof. intros A [|x l] Hl; [reflexivity | discriminate Hl]. Qed.

(** * Payload on stdout *)

Definition chk_stdout (c : config) : bool :=
  forallb (fun ev => is_payload (ev_cls ev)) (stdout_of c) &&
  (if reported_failure c then is_nil (stdout_of c)
   else list_cls_eqb (map ev_cls (stdout_of c)) (spec_stdout (c_cmd c))).

Lemma chk_stdout_all : forallb chk_stdout all_configs = true.
Proof. vm_compute. reflexivity. Qed.

Lemma stdout_payload_only : forall c,
  (forall ev, In ev (stdout_of c) -> is_payload (ev_cls ev) = true) /\
  (reported_failure c = false -> map ev_cls (stdout_of c) = spec_stdout (c_cmd c)) /\
  (reported_failure c = true -> stdout_of c = []).
Proof.
  intros c. pose proof (by_enum _ chk_stdout_all c) as H. unfold chk_stdout in H.
  apply andb_true_iff in H as [Hall Hspec].
  split; [|split].
  - intros ev Hev. rewrite forallb_forall in Hall. apply Hall, Hev.
  - intros Hr. rewrite Hr in Hspec. apply list_cls_eqb_eq, Hspec.
  - intros Hr. rewrite Hr in Hspec. apply is_nil_eq, Hspec.
Qed.

(** chatter classes never reach fd 1, whatever the outcome *)
Lemma chatter_never_on_stdout : forall c ev,
  In ev (fst (status c)) -> is_payload (ev_cls ev) = false -> ev_chan ev <> COut.
Proof.
  intros c ev Hin Hcls Hch.
  destruct (stdout_payload_only c) as [Hpay _].
  assert (Hs : In ev (stdout_of c)).
  { unfold stdout_of. apply filter_In. split; [exact Hin|]. unfold on_chan. rewrite Hch. reflexivity. }
  rewrite (Hpay ev Hs) in Hcls. discriminate Hcls.
Qed.

(** * Silence under --quiet *)

Definition chk_quiet (c : config) : bool :=
  implb (c_quiet c) (implb (stable (c_cmd c)) (implb (negb (reported_failure c)) (is_nil (stderr_of c)))).

Lemma chk_quiet_all : forallb chk_quiet all_configs = true.
Proof. vm_compute. reflexivity. Qed.

Lemma quiet_silences_stderr_on_success : forall c,
  c_quiet c = true -> stable (c_cmd c) = true -> reported_failure c = false -> stderr_of c = [].
Proof.
  intros c Hq Hs Hr. pose proof (by_enum _ chk_quiet_all c) as H. unfold chk_quiet in H.
  rewrite Hq, Hs, Hr in H. cbn [implb negb] in H. apply is_nil_eq, H.
Qed.

(** the hypotheses are satisfiable on the very cell where the search spinner used to be drawn *)
Definition spinner_cell : config :=
  {| c_cmd := Create InDir OFile; c_quiet := true; c_color := Auto; c_terminal := false; c_unstable := false;
     c_no_color := false; c_term_dumb := false; c_out_tty := false; c_err_tty := true; c_warn := false;
     c_fail := None |}.

Lemma quiet_hypotheses_satisfiable :
  c_quiet spinner_cell = true /\ stable (c_cmd spinner_cell) = true /\ reported_failure spinner_cell = false /\
  is_styled_term (e_err (configure spinner_cell (env_main spinner_cell))) = true.
Proof. vm_compute. repeat split. Qed.

(** [stable] cannot be dropped: `--unstable --quiet torrent stats` writes with eprintln! *)
Lemma quiet_needs_stable : exists c,
  c_quiet c = true /\ reported_failure c = false /\ stderr_of c <> [].
Proof.
  exists {| c_cmd := Stats; c_quiet := true; c_color := Auto; c_terminal := false; c_unstable := true;
            c_no_color := false; c_term_dumb := false; c_out_tty := false; c_err_tty := false; c_warn := false;
            c_fail := None |}.
  vm_compute. repeat split. intros Hnil; discriminate Hnil.
Qed.

(** * No escape sequences on a stdout that is not a terminal *)

Definition color_is_always (u : use_color) : bool := match u with Always => true | _ => false end.

Definition chk_escape (c : config) : bool :=
  implb (negb (c_out_tty c)) (implb (negb (color_is_always (c_color c)))
    (forallb (fun ev => negb (ev_esc ev)) (stdout_of c))).

Lemma chk_escape_all : forallb chk_escape all_configs = true.
Proof. vm_compute. reflexivity. Qed.

Lemma no_escape_on_non_tty_stdout_unless_always : forall c,
  c_out_tty c = false -> c_color c <> Always ->
  forall ev, In ev (stdout_of c) -> ev_esc ev = false.
Proof.
  intros c Ht Hc ev Hev. pose proof (by_enum _ chk_escape_all c) as H. unfold chk_escape in H.
  rewrite Ht in H.
  assert (Hca : color_is_always (c_color c) = false).
  { destruct (c_color c); try reflexivity. exfalso; apply Hc; reflexivity. }
  rewrite Hca in H. cbn [implb negb] in H. rewrite forallb_forall in H.
  specialize (H ev Hev). destruct (ev_esc ev); [discriminate H | reflexivity].
Qed.

(** the exemption is real: `--color always --terminal torrent show` colours a piped stdout *)
Lemma always_does_colour_a_pipe : exists c ev,
  c_out_tty c = false /\ c_color c = Always /\ In ev (stdout_of c) /\ ev_esc ev = true.
Proof.
  exists {| c_cmd := Show false; c_quiet := false; c_color := Always; c_terminal := true; c_unstable := false;
            c_no_color := false; c_term_dumb := false; c_out_tty := false; c_err_tty := false; c_warn := false;
            c_fail := None |}.
  exists {| ev_chan := COut; ev_cls := Table; ev_esc := true |}.
  vm_compute. repeat split. left. reflexivity.
Qed.

Lemma escape_hypotheses_satisfiable : exists c,
  c_out_tty c = false /\ c_color c <> Always /\ c_terminal c = true /\ stdout_of c <> [].
Proof.
  exists {| c_cmd := Show false; c_quiet := false; c_color := Auto; c_terminal := true; c_unstable := false;
            c_no_color := false; c_term_dumb := false; c_out_tty := false; c_err_tty := true; c_warn := false;
            c_fail := None |}.
  vm_compute. repeat split; intros Hx; discriminate Hx.
Qed.

(** * Exit status *)

Definition chk_exit (c : config) : bool :=
  (if reported_failure c then exit_of c =? 1 else exit_of c =? 0) &&
  implb (fails c FUsage) (exit_of c =? 1) &&
  implb (reported_failure c && (negb (c_quiet c) || fails c FUsage))
        (existsb (fun ev => cls_eqb (ev_cls ev) ErrorMsg || cls_eqb (ev_cls ev) UsageMsg) (stderr_of c)).

Lemma chk_exit_all : forallb chk_exit all_configs = true.
Proof. vm_compute. reflexivity. Qed.

Lemma exit_code_honest : forall c,
  (reported_failure c = false -> exit_of c = 0) /\
  (reported_failure c = true -> exit_of c = 1) /\
  (c_fail c = Some FUsage -> exit_of c = 1).
Proof.
  intros c. pose proof (by_enum _ chk_exit_all c) as H. unfold chk_exit in H.
  apply andb_true_iff in H as [H Hmsg]. apply andb_true_iff in H as [Hrf Hus].
  split; [|split].
  - intros Hr. rewrite Hr in Hrf. apply N.eqb_eq, Hrf.
  - intros Hr. rewrite Hr in Hrf. apply N.eqb_eq, Hrf.
  - intros Hf. unfold fails in Hus. rewrite Hf in Hus. cbn [implb] in Hus. apply N.eqb_eq, Hus.
Qed.

Lemma exit_zero_iff_success : forall c, exit_of c = 0 <-> reported_failure c = false.
Proof.
  intros c. destruct (exit_code_honest c) as [H0 [H1 _]].
  destruct (reported_failure c) eqn:Hr; split; intros Hx; try reflexivity.
  - rewrite (H1 eq_refl) in Hx. discriminate Hx.
  - discriminate Hx.
  - apply H0. reflexivity.
Qed.

(** a failure is reported on stderr (unless --quiet silenced it; usage errors are printed even then) *)
Lemma failure_reported_on_stderr : forall c,
  reported_failure c = true -> (c_quiet c = false \/ c_fail c = Some FUsage) ->
  exists ev, In ev (stderr_of c) /\ (ev_cls ev = ErrorMsg \/ ev_cls ev = UsageMsg).
Proof.
  intros c Hr Hq. pose proof (by_enum _ chk_exit_all c) as H. unfold chk_exit in H.
  apply andb_true_iff in H as [_ Hmsg]. rewrite Hr in Hmsg.
  assert (Hg : (negb (c_quiet c) || fails c FUsage) = true).
  { destruct Hq as [Hq|Hq]; [rewrite Hq; reflexivity|].
    unfold fails. rewrite Hq. apply orb_true_r. }
  rewrite Hg in Hmsg. cbn [andb implb] in Hmsg.
  apply existsb_exists in Hmsg as [ev [Hin Hk]]. exists ev. split; [exact Hin|].
  apply orb_true_iff in Hk as [Hk|Hk]; [left|right]; apply cls_eqb_eq, Hk.
Qed.

Lemma failure_hypotheses_satisfiable : exists c,
  reported_failure c = true /\ c_quiet c = true /\ c_fail c = Some FWork /\ exit_of c = 1 /\ stderr_of c = [].
Proof.
  exists {| c_cmd := Verify; c_quiet := true; c_color := Auto; c_terminal := false; c_unstable := false;
            c_no_color := false; c_term_dumb := false; c_out_tty := false; c_err_tty := false; c_warn := false;
            c_fail := Some FWork |}.
  vm_compute. repeat split.
Qed.

(** * (T) the model's formulas are the ones in the source *)

Definition model_matches_source_stmt : Prop :=
  (forall c, env_style c = GenStreams.src_env_style (negb (c_no_color c)) (negb (c_term_dumb c))) /\
  (forall c, stdout_stream c =
     {| s_active := GenStreams.src_stdout_active (env_style c) (c_out_tty c);
        s_style := GenStreams.src_stdout_style (env_style c) (c_out_tty c);
        s_term := GenStreams.src_stdout_term (env_style c) (c_out_tty c) |}) /\
  (forall c, stderr_stream c =
     {| s_active := GenStreams.src_stderr_active (env_style c) (c_err_tty c);
        s_style := GenStreams.src_stderr_style (env_style c) (c_err_tty c);
        s_term := GenStreams.src_stderr_term (env_style c) (c_err_tty c) |}) /\
  (forall s, s_style (set_use_color Always s) = match GenStreams.src_color_always with Some b => b | None => s_style s end) /\
  (forall s, s_style (set_use_color Auto s) = match GenStreams.src_color_auto with Some b => b | None => s_style s end) /\
  (forall s, s_style (set_use_color Never s) = match GenStreams.src_color_never with Some b => b | None => s_style s end) /\
  (forall s, is_styled_term s = GenStreams.src_is_styled_term (s_style s) (s_term s)) /\
  GenStreams.src_write_gated_by_active = true /\
  GenStreams.src_terminal_sets = [("err", true); ("out", true)]%string /\
  GenStreams.src_quiet_sets = [("err", false)]%string /\
  GenCli.clap_ok_kinds = ["VersionDisplayed"; "HelpDisplayed"]%string /\
  EXIT_FAILURE = GenCli.exit_failure /\ EXIT_FAILURE = GenCli.exit_clap_other /\ EXIT_FAILURE = GenCli.exit_error /\
  EXIT_OK = GenCli.exit_ok /\
  GenCli.clap_error_stream_by_use_stderr = true /\ GenCli.error_written_to_err = true.

(** (T) the subcommands of the model are the subcommands of the source, with the same --unstable gating *)
Definition opt_string_eqb (a : option string) (b : string) : bool :=
  match a with Some x => String.eqb x b | None => false end.

Definition chk_cli : bool :=
  forallb (fun '(n, u) => existsb (fun k => opt_string_eqb (cli_name k) n) all_cmd &&
                          forallb (fun k => implb (opt_string_eqb (cli_name k) n) (Bool.eqb (stable k) (negb u))) all_cmd)
          GenCli.torrent_subcommands &&
  forallb (fun k => match cli_name k with
                    | Some n => existsb (fun '(m, _) => String.eqb n m) GenCli.torrent_subcommands
                    | None => true end) all_cmd &&
  existsb (String.eqb "completions") GenCli.top_subcommands && existsb (String.eqb "torrent") GenCli.top_subcommands &&
  (* the subcommands that consult --quiet themselves must have been handed `options` *)
  forallb (fun n => existsb (String.eqb n) GenCli.takes_options) ["create"; "from-link"; "verify"]%string.

(** * (T) no write bypasses the two OutputStreams on a stable subcommand's path under --quiet *)

Definition site_file (s : GenDirectWrites.site) : string := let '(f, _, _, _, _, _, _) := s in f.
Definition site_fn (s : GenDirectWrites.site) : string := let '(_, f, _, _, _, _, _) := s in f.
Definition site_kind (s : GenDirectWrites.site) : string := let '(_, _, k, _, _, _, _) := s in k.
Definition site_target (s : GenDirectWrites.site) : string := let '(_, _, _, t, _, _, _) := s in t.
Definition site_owner (s : GenDirectWrites.site) : string := let '(_, _, _, _, o, _, _) := s in o.
Definition site_guard (s : GenDirectWrites.site) : bool -> bool -> bool := let '(_, _, _, _, _, g, _) := s in g.
Definition site_failure_only (s : GenDirectWrites.site) : bool := let '(_, _, _, _, _, _, b) := s in b.

(** the site belongs to a subcommand that demands --unstable *)
Definition owner_unstable (s : GenDirectWrites.site) : bool :=
  existsb (fun '(n, u) => u && String.eqb (site_owner s) ("torrent " ++ n)) GenCli.torrent_subcommands.

Definition is_widget_kind (k : string) : bool := String.eqb k "spinner" || String.eqb k "progress-bar".

Definition chk_site (s : GenDirectWrites.site) : bool :=
  negb (String.eqb (site_target s) "stdout") &&
  (owner_unstable s || site_failure_only s || (negb (site_guard s true true) && negb (site_guard s false true))).

Lemma no_bypass_of_check : forall sites, forallb chk_site sites = true ->
  forall s, In s sites ->
  site_target s <> "stdout"%string /\
  (owner_unstable s = true \/ site_failure_only s = true \/ forall styled_term, site_guard s styled_term true = false).
Proof.
  intros sites H s Hs. rewrite forallb_forall in H. specialize (H s Hs).
  unfold chk_site in H. apply andb_true_iff in H as [Ht Hg]. split.
  - intros Heq. rewrite Heq in Ht. discriminate Ht.
  - apply orb_true_iff in Hg as [Hg|Hg]; [apply orb_true_iff in Hg as [Hg|Hg]|]; [left; exact Hg | right; left; exact Hg |].
    right; right. apply andb_true_iff in Hg as [H1 H2]. intros [];
      [destruct (site_guard s true true) | destruct (site_guard s false true)]; first [reflexivity | discriminate].
Qed.

(** the inventory holds exactly the sites the model knows, and every widget among them is created or
    attached under exactly the guard the model uses *)
Definition chk_widget_guards (sites : list GenDirectWrites.site) : bool :=
  forallb (fun s => implb (is_widget_kind (site_kind s))
     (forallb (fun st => forallb (fun q => Bool.eqb (site_guard s st q) (widget_guard st q)) all_bool) all_bool)) sites.

Lemma widget_guards_of_check : forall sites, chk_widget_guards sites = true ->
  forall s, In s sites -> is_widget_kind (site_kind s) = true ->
  forall styled_term quiet, site_guard s styled_term quiet = widget_guard styled_term quiet.
Proof.
  intros sites H s Hs Hk st q. unfold chk_widget_guards in H.
  rewrite forallb_forall in H. specialize (H s Hs). rewrite Hk in H. cbn [implb] in H.
  rewrite forallb_forall in H. specialize (H st (all_bool_complete st)).
  rewrite forallb_forall in H. specialize (H q (all_bool_complete q)).
  apply Bool.eqb_prop, H.
Qed.
