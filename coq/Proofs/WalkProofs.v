(** Proofs about Model/Walk.v (C06). *)
From Coq Require Import NArith List Bool Lia ZifyN ZifyBool.
From Coq Require Import Sorting.Permutation Sorting.Sorted.
From Imdl Require Import Generated.GenWalker Model.Walk.
Import ListNotations.
Local Open Scope N_scope.

(* ================================================================== *)
(** * Comparisons *)

Section TotalCmp.
  Context {A : Type} (c : A -> A -> comparison).
  (** a comparison function that is a (strict) total order: what [Ord] promises *)
  Record total_cmp : Prop := {
    tc_eq : forall a b, c a b = Eq <-> a = b;
    tc_sym : forall a b, c b a = CompOpp (c a b);
    tc_trans : forall a b d, c a b = Lt -> c b d = Lt -> c a d = Lt }.
End TotalCmp.

Lemma N_compare_total : total_cmp N.compare.
Proof.
  split.
  - intros a b. apply N.compare_eq_iff.
  - intros a b. apply N.compare_antisym.
  - intros a b d Hab Hbd. rewrite N.compare_lt_iff in *. lia.
Qed.

Lemma list_cmp_total {A} (c : A -> A -> comparison) : total_cmp c -> total_cmp (list_cmp c).
Proof.
  intros [Heq Hsym Htr]. split.
  - induction a as [|x a IH]; intros [|y b]; cbn; try (split; [discriminate|discriminate]); [tauto|].
    destruct (c x y) eqn:E.
    + apply Heq in E. subst y. rewrite IH. split; [intros ->; reflexivity|intros H; inversion H; reflexivity].
    + split; [discriminate|]. intros H; inversion H; subst. assert (c y y = Eq) by (apply Heq; reflexivity). congruence.
    + split; [discriminate|]. intros H; inversion H; subst. assert (c y y = Eq) by (apply Heq; reflexivity). congruence.
  - induction a as [|x a IH]; intros [|y b]; cbn; try reflexivity.
    rewrite (Hsym x y). destruct (c x y); cbn; [apply IH|reflexivity|reflexivity].
  - induction a as [|x a IH]; intros [|y b] [|z d]; cbn; try discriminate; try reflexivity.
    destruct (c x y) eqn:Exy; try discriminate.
    + apply Heq in Exy. subst y. destruct (c x z); try discriminate; [apply IH|reflexivity].
    + intros _. destruct (c y z) eqn:Eyz; try discriminate.
      * apply Heq in Eyz. subst z. rewrite Exy. reflexivity.
      * intros _. rewrite (Htr _ _ _ Exy Eyz). reflexivity.
Qed.

Lemma name_cmp_total : total_cmp name_cmp.
Proof. apply list_cmp_total, N_compare_total. Qed.

Lemma path_cmp_total : total_cmp path_cmp.
Proof. apply list_cmp_total, name_cmp_total. Qed.

Section WeakCmp.
  Context {A : Type}.
  (** a comparison that is a total preorder (ties allowed): one sort key *)
  Record weak_cmp (c : A -> A -> comparison) : Prop := {
    wc_sym : forall a b, c b a = CompOpp (c a b);
    wc_eq : forall a b d, c a b = Eq -> c a d = c b d;
    wc_trans : forall a b d, c a b = Lt -> c b d = Lt -> c a d = Lt }.

  Lemma wc_lt_eq c : weak_cmp c -> forall a b d, c a b = Lt -> c b d = Eq -> c a d = Lt.
  Proof.
    intros [Hs He Ht] a b d Hab Hbd.
    assert (Hdb : c d b = Eq) by (rewrite (Hs b d), Hbd; reflexivity).
    pose proof (He d b a Hdb) as H. rewrite (Hs a b), Hab in H. cbn in H.
    rewrite (Hs d a), H. reflexivity.
  Qed.

  Lemma weak_of_total {B} (c : B -> B -> comparison) (f : A -> B) :
    total_cmp c -> weak_cmp (fun a b => c (f a) (f b)).
  Proof.
    intros [Heq Hsym Htr]. split.
    - intros a b. apply Hsym.
    - intros a b d H. apply Heq in H. rewrite H. reflexivity.
    - intros a b d. apply Htr.
  Qed.

  Lemma weak_opp c : weak_cmp c -> weak_cmp (fun a b => CompOpp (c a b)).
  Proof.
    intros [Hs He Ht]. split.
    - intros a b. rewrite (Hs a b). reflexivity.
    - intros a b d H. f_equal. apply He. destruct (c a b); try discriminate; reflexivity.
    - intros a b d Hab Hbd.
      assert (Hba : c b a = Lt) by (rewrite (Hs a b); destruct (c a b); try discriminate; reflexivity).
      assert (Hdb : c d b = Lt) by (rewrite (Hs b d); destruct (c b d); try discriminate; reflexivity).
      rewrite (Hs d a), (Ht _ _ _ Hdb Hba). reflexivity.
  Qed.

  Lemma weak_then c1 c2 : weak_cmp c1 -> weak_cmp c2 -> weak_cmp (fun a b => then_with (c1 a b) (c2 a b)).
  Proof.
    intros W1 W2. pose proof (wc_lt_eq c1 W1) as LE1.
    destruct W1 as [Hs1 He1 Ht1]. destruct W2 as [Hs2 He2 Ht2]. split.
    - intros a b. rewrite (Hs1 a b), (Hs2 a b). destruct (c1 a b); reflexivity.
    - intros a b d H. unfold then_with in H. destruct (c1 a b) eqn:E1; try discriminate.
      rewrite (He1 _ _ d E1), (He2 _ _ d H). reflexivity.
    - intros a b d Hab Hbd. unfold then_with in *.
      destruct (c1 a b) eqn:E1; try discriminate.
      + rewrite (He1 _ _ d E1). destruct (c1 b d) eqn:E2; try discriminate; [|reflexivity].
        apply (Ht2 _ _ _ Hab Hbd).
      + destruct (c1 b d) eqn:E2; try discriminate.
        * rewrite (LE1 _ _ _ E1 E2). reflexivity.
        * rewrite (Ht1 _ _ _ E1 E2). reflexivity.
  Qed.

  Lemma weak_const : weak_cmp (fun _ _ : A => Eq).
  Proof. split; intros; try reflexivity; discriminate. Qed.
End WeakCmp.

(** the fold of [SortSpec::compare_specs] is the lexicographic combination of the keys *)
Fixpoint lex (specs : list spec) (a b : list (list N) * N) : comparison :=
  match specs with
  | [] => Eq
  | s :: r => then_with (compare_file_info s a b) (lex r a b)
  end.

Lemma then_with_assoc o1 o2 o3 : then_with (then_with o1 o2) o3 = then_with o1 (then_with o2 o3).
Proof. destruct o1; reflexivity. Qed.

Lemma fold_then specs a b : forall o,
  fold_left (fun ordering s => then_with ordering (compare_file_info s a b)) specs o = then_with o (lex specs a b).
Proof.
  induction specs as [|s r IH]; intros o; cbn.
  - destruct o; reflexivity.
  - rewrite IH, then_with_assoc. reflexivity.
Qed.

Lemma compare_specs_lex specs a b : compare_specs specs a b = lex specs a b.
Proof. unfold compare_specs. rewrite fold_then. reflexivity. Qed.

Lemma compare_lex specs a b : sort_compare specs a b = lex (specs ++ [default_spec]) a b.
Proof. apply compare_specs_lex. Qed.

Lemma cfi_weak s : weak_cmp (compare_file_info s).
Proof.
  destruct s as [k o]. unfold compare_file_info. cbn [fst snd].
  assert (W : weak_cmp (fun a b : list (list N) * N =>
                          match k with KPath => path_cmp (fst a) (fst b) | KSize => N.compare (snd a) (snd b) end)).
  { destruct k.
    - apply (weak_of_total path_cmp fst path_cmp_total).
    - apply (weak_of_total N.compare snd N_compare_total). }
  destruct o; [exact W|apply (weak_opp _ W)].
Qed.

Lemma lex_weak specs : weak_cmp (lex specs).
Proof.
  induction specs as [|s r IH].
  - apply weak_const.
  - apply (weak_then (compare_file_info s) (lex r) (cfi_weak s) IH).
Qed.

Lemma lex_eq_all specs a b : lex specs a b = Eq -> forall s, In s specs -> compare_file_info s a b = Eq.
Proof.
  induction specs as [|s0 r IH]; cbn; intros H s Hin; [contradiction|].
  unfold then_with in H. destruct (compare_file_info s0 a b) eqn:E; try discriminate.
  destruct Hin as [<-|Hin]; [exact E|apply IH; assumption].
Qed.

Lemma compare_weak specs : weak_cmp (sort_compare specs).
Proof.
  pose proof (lex_weak (specs ++ [default_spec])) as [Hs He Ht].
  split; intros; rewrite ?compare_lex in *; eauto.
Qed.

(** two files compare Equal only when they have the same path (the appended path key) *)
Lemma compare_eq_path specs a b : sort_compare specs a b = Eq -> fst a = fst b.
Proof.
  rewrite compare_lex. intros H.
  pose proof (lex_eq_all _ _ _ H default_spec) as Hd.
  assert (Hin : In default_spec (specs ++ [default_spec])) by (apply in_or_app; right; left; reflexivity).
  specialize (Hd Hin). cbn in Hd. apply (tc_eq _ path_cmp_total) in Hd. exact Hd.
Qed.

Lemma compare_refl specs a : sort_compare specs a a = Eq.
Proof.
  pose proof (wc_sym _ (compare_weak specs) a a) as H.
  destruct (sort_compare specs a a); try reflexivity; discriminate.
Qed.

Lemma compare_antisym specs a b : sort_compare specs b a = CompOpp (sort_compare specs a b).
Proof. apply (wc_sym _ (compare_weak specs)). Qed.

Lemma leb_total specs a b : leb specs a b = true \/ leb specs b a = true.
Proof.
  unfold leb. rewrite (compare_antisym specs a b). destruct (sort_compare specs a b); cbn; auto.
Qed.

Lemma leb_trans specs a b d : leb specs a b = true -> leb specs b d = true -> leb specs a d = true.
Proof.
  pose proof (compare_weak specs) as W. pose proof (wc_lt_eq _ W) as LE. destruct W as [Hs He Ht].
  unfold leb. destruct (sort_compare specs a b) eqn:E1; try discriminate; intros _;
    destruct (sort_compare specs b d) eqn:E2; try discriminate; intros _.
  - rewrite (He _ _ d E1), E2. reflexivity.
  - rewrite (He _ _ d E1), E2. reflexivity.
  - rewrite (LE _ _ _ E1 E2). reflexivity.
  - rewrite (Ht _ _ _ E1 E2). reflexivity.
Qed.

Lemma leb_antisym_path specs a b : leb specs a b = true -> leb specs b a = true -> fst a = fst b.
Proof.
  unfold leb. rewrite (compare_antisym specs a b). intros H1 H2.
  apply (compare_eq_path specs). destruct (sort_compare specs a b); try reflexivity; discriminate.
Qed.

(* ================================================================== *)
(** * Sorting: a sorted permutation is unique, so any correct sort is [isort] *)

Section SortUnique.
  Context {A : Type} (le : A -> A -> bool).
  Hypothesis le_total : forall x y, le x y = true \/ le y x = true.
  Hypothesis le_trans : forall x y z, le x y = true -> le y z = true -> le x z = true.

  Definition leP (x y : A) : Prop := le x y = true.

  Lemma insert_perm x l : Permutation (x :: l) (insert le x l).
  Proof.
    induction l as [|y r IH]; cbn; [reflexivity|].
    destruct (le x y); [reflexivity|].
    rewrite perm_swap. constructor. exact IH.
  Qed.

  Lemma isort_perm l : Permutation l (isort le l).
  Proof.
    induction l as [|x r IH]; cbn; [reflexivity|].
    rewrite <- insert_perm. constructor. exact IH.
  Qed.

  Lemma insert_sorted x l : StronglySorted leP l -> StronglySorted leP (insert le x l).
  Proof.
    induction 1 as [|y r Hr IH Hy]; cbn; [repeat constructor|].
    destruct (le x y) eqn:E.
    - constructor; [constructor; assumption|]. constructor; [exact E|].
      eapply Forall_impl; [|exact Hy]. intros z Hz. eapply le_trans; eassumption.
    - constructor; [exact IH|].
      assert (Hyx : leP y x) by (destruct (le_total x y); [congruence|assumption]).
      rewrite <- insert_perm. constructor; assumption.
  Qed.

  Lemma isort_sorted l : StronglySorted leP (isort le l).
  Proof. induction l; cbn; [constructor|apply insert_sorted; assumption]. Qed.

  (** antisymmetry is only needed between the elements being sorted *)
  Lemma sorted_perm_eq l1 : forall l2,
    (forall x y, In x l1 -> In y l1 -> le x y = true -> le y x = true -> x = y) ->
    StronglySorted leP l1 -> StronglySorted leP l2 -> Permutation l1 l2 -> l1 = l2.
  Proof.
    induction l1 as [|x r1 IH]; intros l2 Anti S1 S2 P.
    - apply Permutation_nil in P. congruence.
    - destruct l2 as [|y r2]; [apply Permutation_sym, Permutation_nil in P; discriminate|].
      inversion S1 as [|? ? Sr1 Hx]; subst. inversion S2 as [|? ? Sr2 Hy]; subst.
      assert (Hxy : x = y).
      { assert (Hx2 : In x (y :: r2)) by (eapply Permutation_in; [exact P|left; reflexivity]).
        assert (Hy1 : In y (x :: r1)) by (eapply Permutation_in; [apply Permutation_sym; exact P|left; reflexivity]).
        destruct Hx2 as [->|Hin]; [reflexivity|]. destruct Hy1 as [->|Hin']; [reflexivity|].
        rewrite Forall_forall in Hx, Hy.
        apply Anti; [left; reflexivity|right; exact Hin'|apply Hx; exact Hin'|apply Hy; exact Hin]. }
      subst y. f_equal. apply IH; try assumption.
      + intros a b Ha Hb. apply Anti; right; assumption.
      + eapply Permutation_cons_inv. exact P.
  Qed.

  Lemma isort_unique l l' :
    (forall x y, In x l -> In y l -> le x y = true -> le y x = true -> x = y) ->
    Permutation l l' -> isort le l = isort le l'.
  Proof.
    intros Anti P. apply sorted_perm_eq; try apply isort_sorted.
    - intros x y Hx Hy. apply Anti; eapply Permutation_in; try eassumption; apply Permutation_sym, isort_perm.
    - rewrite <- (isort_perm l), <- (isort_perm l'). exact P.
  Qed.

  (** any list that is a sorted permutation of [l] (e.g. what Rust's merge sort returns) is [isort l] *)
  Lemma sorted_perm_is_isort l s :
    (forall x y, In x l -> In y l -> le x y = true -> le y x = true -> x = y) ->
    Permutation l s -> StronglySorted leP s -> s = isort le l.
  Proof.
    intros Anti P S. symmetry. apply sorted_perm_eq; [| apply isort_sorted | exact S |].
    - intros x y Hx Hy. apply Anti; eapply Permutation_in; try eassumption; apply Permutation_sym, isort_perm.
    - rewrite <- P. apply Permutation_sym, isort_perm.
  Qed.
End SortUnique.

(* ================================================================== *)
(** * Trees *)

Section TreeInd.
  Variable P : tree -> Prop.
  Hypothesis HF : forall sz, P (WFile sz).
  Hypothesis HD : forall es, Forall (fun ne => P (snd ne)) es -> P (WDir es).
  Hypothesis HL : forall t, P t -> P (WLink t).
  Hypothesis HB : P WBroken.
  Fixpoint tree_ind' (t : tree) : P t :=
    match t with
    | WFile sz => HF sz
    | WDir es => HD es ((fix go (es : list (list N * tree)) : Forall (fun ne => P (snd ne)) es :=
                        match es with
                        | [] => Forall_nil _
                        | x :: xs => Forall_cons _ (tree_ind' (snd x)) (go xs)
                        end) es)
    | WLink t' => HL t' (tree_ind' t')
    | WBroken => HB
    end.
End TreeInd.

(** sibling names are distinct at every directory (true of any filesystem) *)
Inductive wf_tree : tree -> Prop :=
| wf_F sz : wf_tree (WFile sz)
| wf_B : wf_tree WBroken
| wf_L t : wf_tree t -> wf_tree (WLink t)
| wf_D es : NoDup (map fst es) -> Forall (fun ne => wf_tree (snd ne)) es -> wf_tree (WDir es).

(** the same tree with the entries of any directories enumerated in a different order *)
Inductive tree_perm : tree -> tree -> Prop :=
| tp_F sz : tree_perm (WFile sz) (WFile sz)
| tp_B : tree_perm WBroken WBroken
| tp_L t t' : tree_perm t t' -> tree_perm (WLink t) (WLink t')
| tp_D es es' : entries_perm es es' -> tree_perm (WDir es) (WDir es')
with entries_perm : list (list N * tree) -> list (list N * tree) -> Prop :=
| ep_nil : entries_perm [] []
| ep_skip n t t' l l' : tree_perm t t' -> entries_perm l l' -> entries_perm ((n, t) :: l) ((n, t') :: l')
| ep_swap x y l : entries_perm (x :: y :: l) (y :: x :: l)
| ep_trans l1 l2 l3 : entries_perm l1 l2 -> entries_perm l2 l3 -> entries_perm l1 l3.

Scheme tree_perm_mut := Induction for tree_perm Sort Prop
  with entries_perm_mut := Induction for entries_perm Sort Prop.

Lemma tree_perm_refl t : tree_perm t t.
Proof.
  induction t as [sz|es IH|t IH|] using tree_ind'; try (constructor; assumption).
  constructor. induction IH as [|[n t] r Ht Hr IHr]; constructor; assumption.
Qed.

Lemma entries_perm_refl es : entries_perm es es.
Proof. induction es as [|[n t] r IH]; constructor; [apply tree_perm_refl|exact IH]. Qed.

(** a plain permutation of a directory's entries is a [tree_perm] *)
Lemma entries_perm_of_Permutation es es' : Permutation es es' -> entries_perm es es'.
Proof.
  induction 1 as [|[n t] l l' HP IH|x y l|l1 l2 l3 H1 IH1 H2 IH2].
  - constructor.
  - constructor; [apply tree_perm_refl|exact IH].
  - eapply ep_trans; [apply ep_swap|apply entries_perm_refl].
  - eapply ep_trans; eassumption.
Qed.

(* ---------- list helpers ---------- *)
Lemma filter_flat_map {A B} (p : B -> bool) (f : A -> list B) l :
  filter p (flat_map f l) = flat_map (fun x => filter p (f x)) l.
Proof. induction l as [|x r IH]; cbn; [reflexivity|]. rewrite filter_app, IH. reflexivity. Qed.

Lemma filter_filter {A} (p q : A -> bool) l :
  filter p (filter q l) = filter (fun x => q x && p x) l.
Proof.
  induction l as [|x r IH]; cbn; [reflexivity|].
  destruct (q x); cbn; [destruct (p x)|]; rewrite IH; reflexivity.
Qed.

Lemma Permutation_filter' {A} (p : A -> bool) l l' :
  Permutation l l' -> Permutation (filter p l) (filter p l').
Proof.
  induction 1 as [|x l l' HP IH|x y l|l1 l2 l3 H1 IH1 H2 IH2]; cbn.
  - constructor.
  - destruct (p x); [constructor|]; exact IH.
  - destruct (p x), (p y); try reflexivity. apply perm_swap.
  - eapply Permutation_trans; eassumption.
Qed.

Lemma flat_map_ext_Forall {A B} (f g : A -> list B) l :
  Forall (fun x => f x = g x) l -> flat_map f l = flat_map g l.
Proof. induction 1 as [|x r Hx Hr IH]; cbn; [reflexivity|]. rewrite Hx, IH. reflexivity. Qed.

Lemma NoDup_app_intro {A} (l1 l2 : list A) :
  NoDup l1 -> NoDup l2 -> (forall x, In x l1 -> ~ In x l2) -> NoDup (l1 ++ l2).
Proof.
  induction 1 as [|x r Hx Hr IH]; cbn; intros H2 Hd; [exact H2|].
  constructor.
  - rewrite in_app_iff. intros [H|H]; [contradiction|]. apply (Hd x); [left; reflexivity|exact H].
  - apply IH; [exact H2|]. intros y Hy. apply Hd. right. exact Hy.
Qed.

Lemma NoDup_map_cons {A} (n : A) (l : list (list A)) : NoDup l -> NoDup (map (cons n) l).
Proof.
  induction 1 as [|x r Hx Hr IH]; cbn; constructor; [|exact IH].
  rewrite in_map_iff. intros (y & Hy & Hin). inversion Hy; subst. contradiction.
Qed.

Lemma NoDup_map_filter {A B} (f : A -> B) (p : A -> bool) l : NoDup (map f l) -> NoDup (map f (filter p l)).
Proof.
  induction l as [|x r IH]; cbn; intros H; [constructor|].
  inversion H as [|? ? Hx Hr]; subst. destruct (p x); cbn; [constructor|]; auto.
  rewrite in_map_iff in *. intros (y & Hy & Hin). apply Hx. exists y. split; [exact Hy|].
  apply filter_In in Hin. tauto.
Qed.

Lemma NoDup_map_inj_in {A B} (f : A -> B) l : NoDup (map f l) ->
  forall x y, In x l -> In y l -> f x = f y -> x = y.
Proof.
  induction l as [|a r IH]; cbn; intros H x y Hx Hy E; [contradiction|].
  inversion H as [|? ? Ha Hr]; subst.
  destruct Hx as [->|Hx], Hy as [->|Hy]; try reflexivity.
  - exfalso. apply Ha. rewrite E. apply in_map. exact Hy.
  - exfalso. apply Ha. rewrite <- E. apply in_map. exact Hx.
  - apply IH; assumption.
Qed.

Section WalkProofs.
  Variable pat : Type.
  Variable gmatch : pat -> list (list N) -> bool.
  Notation cfg := (cfg pat).
  Notation yield := (yield pat).
  Notation all_files := (all_files pat).
  Notation walk := (walk pat gmatch).
  Notation walk_error := (walk_error pat).
  Notation keep := (keep pat gmatch).
  Notation included := (included pat gmatch).
  Notation pattern_filter := (pattern_filter pat gmatch).
  Notation first_match := (first_match pat gmatch).
  Notation glob_ok := (glob_ok pat gmatch).
  Notation no_hidden := (no_hidden pat).
  Notation junk_ok := (junk_ok pat).
  Notation skip_hidden := (skip_hidden pat).

  (* ---------- pruning hidden directories = filtering paths ---------- *)
  Lemma filter_hidden_under (c : cfg) n l :
    filter (fun e => no_hidden c (fst e)) (map (under n) l) =
    if skip_hidden c n then [] else map (under n) (filter (fun e => no_hidden c (fst e)) l).
  Proof.
    unfold skip_hidden, no_hidden.
    induction l as [|e r IH]; cbn [map filter].
    - destruct (negb (include_hidden c) && is_hidden n); reflexivity.
    - rewrite IH. cbn [under fst forallb].
      destruct (include_hidden c); cbn; [reflexivity|].
      destruct (is_hidden n); cbn; [reflexivity|].
      destruct (forallb (fun n0 => negb (is_hidden n0)) (fst e)); reflexivity.
  Qed.

  Lemma yield_spec (c : cfg) t :
    yield c t = filter (fun e => no_hidden c (fst e)) (all_files c t).
  Proof.
    induction t as [sz|es IH|t IH|] using tree_ind'; cbn [Walk.yield Walk.all_files].
    - cbn. unfold no_hidden. cbn. rewrite orb_true_r. reflexivity.
    - rewrite filter_flat_map. apply flat_map_ext_Forall.
      eapply Forall_impl; [|exact IH]. intros [n t] H. cbn [fst snd] in *.
      rewrite filter_hidden_under, H. reflexivity.
    - destruct (follow_symlinks c); [exact IH|reflexivity].
    - reflexivity.
  Qed.

  (** [all_files] is exactly the set of regular files below the root *)
  Theorem all_files_exact (c : cfg) t : forall p sz,
    In (p, sz) (all_files c t) <-> file_at (follow_symlinks c) t p sz.
  Proof.
    intros p sz. split.
    - revert p sz. induction t as [sz0|es IH|t IH|] using tree_ind'; intros p sz Hin; cbn [Walk.all_files] in Hin.
      + destruct Hin as [E|[]]. inversion E; subst. constructor.
      + apply in_flat_map in Hin. destruct Hin as ([n t'] & Hes & Hin). cbn [fst snd] in Hin.
        apply in_map_iff in Hin. destruct Hin as ([q s'] & E & Hq). unfold under in E. cbn in E. inversion E; subst.
        rewrite Forall_forall in IH. econstructor; [exact Hes|]. apply (IH _ Hes). exact Hq.
      + destruct (follow_symlinks c) eqn:Ef; [|destruct Hin]. constructor; [reflexivity|]. apply IH. exact Hin.
      + destruct Hin.
    - induction 1 as [sz0|es n t p sz Hes Hf IH|t p sz Hfo Hf IH]; cbn [Walk.all_files].
      + left. reflexivity.
      + apply in_flat_map. exists (n, t). split; [exact Hes|]. cbn [fst snd].
        apply in_map_iff. exists (p, sz). split; [reflexivity|exact IH].
      + rewrite Hfo. exact IH.
  Qed.

  (* ---------- pattern_filter ---------- *)
  Lemma first_match_find l p :
    first_match l p = option_map fst (find (fun pt => gmatch (snd pt) p) l).
  Proof. induction l as [|pt r IH]; cbn; [reflexivity|]. destruct (gmatch (snd pt) p); [reflexivity|exact IH]. Qed.

  Lemma pattern_filter_glob_ok (c : cfg) p : pattern_filter (patterns c) p = glob_ok c p.
  Proof.
    unfold Walk.pattern_filter, Walk.glob_ok. rewrite first_match_find.
    match goal with |- context [find ?f ?l] => destruct (find f l) end; cbn; [reflexivity|].
    destruct (patterns c); reflexivity.
  Qed.

  Lemma first_match_skip l r p :
    (forall q, In q l -> gmatch (snd q) p = false) -> first_match (l ++ r) p = first_match r p.
  Proof.
    induction l as [|q l IH]; cbn; intros H; [reflexivity|].
    rewrite (H q (or_introl eq_refl)). apply IH. intros q' Hq'. apply H. right. exact Hq'.
  Qed.

  (** no globs: everything passes *)
  Lemma pattern_filter_nil p : pattern_filter [] p = true.
  Proof. reflexivity. Qed.

  (** the last glob that matches decides *)
  Lemma pattern_filter_last_match before inc g after p :
    gmatch g p = true -> (forall q, In q after -> gmatch (snd q) p = false) ->
    pattern_filter (before ++ (inc, g) :: after) p = inc.
  Proof.
    intros Hg Hafter. unfold Walk.pattern_filter.
    rewrite rev_app_distr. cbn [rev]. rewrite <- app_assoc. cbn [app].
    rewrite first_match_skip.
    - cbn. rewrite Hg. reflexivity.
    - intros q Hq. apply Hafter. apply in_rev. exact Hq.
  Qed.

  (** nothing matches: the opposite polarity of the first glob *)
  Lemma pattern_filter_no_match inc0 g0 rest p :
    (forall q, In q ((inc0, g0) :: rest) -> gmatch (snd q) p = false) ->
    pattern_filter ((inc0, g0) :: rest) p = negb inc0.
  Proof.
    intros H. unfold Walk.pattern_filter.
    rewrite <- (app_nil_r (rev _)). rewrite first_match_skip.
    - reflexivity.
    - intros q Hq. apply H. apply in_rev. exact Hq.
  Qed.

  (* ---------- refinement ---------- *)
  Lemma keep_included (c : cfg) e : no_hidden c (fst e) && keep c e = included c e.
  Proof.
    unfold Walk.keep, Walk.included, Walk.junk_ok. rewrite pattern_filter_glob_ok.
    destruct (no_hidden c (fst e)), (glob_ok c (fst e)), (include_junk c), (is_junk (file_name (fst e))); reflexivity.
  Qed.

  Lemma kept_spec (c : cfg) t :
    filter (keep c) (yield c t) = filter (included c) (all_files c t).
  Proof.
    rewrite yield_spec, filter_filter. apply filter_ext. intros e. apply keep_included.
  Qed.

  Theorem walk_refines_spec (c : cfg) root es :
    (follow_symlinks c = true \/ is_symlink root = false) ->
    resolve root = WDir es -> walk_error c (WDir es) = false ->
    walk c root = WalkListing (isort (leb (sort_by c)) (filter (included c) (all_files c (WDir es)))).
  Proof.
    intros Hroot Hres Herr. unfold Walk.walk. rewrite Hres, Herr, kept_spec.
    destruct Hroot as [->| ->]; cbn; [reflexivity|rewrite andb_false_r; reflexivity].
  Qed.

  (** a walk of a directory lists only files ([WalkSingle] is for a file root, not a walk) *)
  Lemma walk_outcomes (c : cfg) root :
    walk c root = WalkRefused \/ walk c root = WalkFailed \/ (exists sz, walk c root = WalkSingle sz /\ resolve root = WFile sz) \/
    exists es, resolve root = WDir es /\
               walk c root = WalkListing (isort (leb (sort_by c)) (filter (included c) (all_files c (WDir es)))).
  Proof.
    unfold Walk.walk. destruct (negb (follow_symlinks c) && is_symlink root); [left; reflexivity|].
    destruct (resolve root) as [sz|es|t|] eqn:E; auto.
    - right; right; left. exists sz. auto.
    - destruct (walk_error c (WDir es)); auto. right; right; right. exists es. rewrite kept_spec. auto.
  Qed.

  (* ---------- distinct paths ---------- *)
  Lemma all_files_paths_under (c : cfg) es p :
    In p (map fst (flat_map (fun ne => map (under (fst ne)) (all_files c (snd ne))) es)) ->
    exists n q, p = n :: q /\ In n (map fst es).
  Proof.
    induction es as [|[n t] r IH]; cbn; [contradiction|].
    rewrite map_app, in_app_iff. intros [H|H].
    - rewrite map_map in H. apply in_map_iff in H. destruct H as (e & <- & _).
      exists n, (fst e). cbn. auto.
    - destruct (IH H) as (n' & q & -> & Hin). exists n', q. auto.
  Qed.

  Lemma all_files_nodup (c : cfg) t : wf_tree t -> NoDup (map fst (all_files c t)).
  Proof.
    induction t as [sz|es IH|t IH|] using tree_ind'; intros W; cbn [Walk.all_files].
    - cbn. constructor; [intros []|constructor].
    - inversion W as [| | |? Hnd Hwf]; subst.
      induction es as [|[n t] r IHr]; cbn; [constructor|].
      inversion IH as [|? ? IHt IHrest]; subst. inversion Hnd as [|? ? Hn Hndr]; subst.
      inversion Hwf as [|? ? Wt Wr]; subst. cbn [fst snd] in *.
      rewrite map_app. apply NoDup_app_intro.
      + rewrite map_map. cbn [under fst]. rewrite <- (map_map fst (cons n)). apply NoDup_map_cons. apply IHt. exact Wt.
      + apply IHr; try assumption. constructor; assumption.
      + intros p Hp Hq. rewrite map_map in Hp. apply in_map_iff in Hp. destruct Hp as (e & <- & _).
        destruct (all_files_paths_under c r _ Hq) as (n' & q & E & Hin). cbn in E. inversion E; subst. contradiction.
    - inversion W; subst. destruct (follow_symlinks c); [apply IH; assumption|constructor].
    - constructor.
  Qed.

  Lemma included_files_nodup (c : cfg) t : wf_tree t -> NoDup (map fst (filter (included c) (all_files c t))).
  Proof. intros W. apply NoDup_map_filter, all_files_nodup, W. Qed.

  (** on the files of one tree the comparison is a total order: antisymmetric *)
  Lemma leb_antisym_on (c : cfg) t : wf_tree t ->
    forall x y, In x (filter (included c) (all_files c t)) -> In y (filter (included c) (all_files c t)) ->
                leb (sort_by c) x y = true -> leb (sort_by c) y x = true -> x = y.
  Proof.
    intros W x y Hx Hy H1 H2.
    eapply NoDup_map_inj_in; [apply (included_files_nodup c t W)| | |]; try eassumption.
    eapply leb_antisym_path; eassumption.
  Qed.

  (** the listing is exactly the included files, sorted; and it is the only such list *)
  Theorem walk_listing_characterised (c : cfg) root files :
    walk c root = WalkListing files ->
    exists es, resolve root = WDir es /\
      (forall e, In e files <-> In e (all_files c (WDir es)) /\ included c e = true) /\
      Permutation (filter (included c) (all_files c (WDir es))) files /\
      StronglySorted (fun a b => leb (sort_by c) a b = true) files /\
      (wf_tree root -> forall other,
         Permutation (filter (included c) (all_files c (WDir es))) other ->
         StronglySorted (fun a b => leb (sort_by c) a b = true) other -> other = files).
  Proof.
    intros H. destruct (walk_outcomes c root) as [E|[E|[(sz & E & _)|(es & Hres & E)]]]; try congruence.
    rewrite E in H. inversion H; subst files. clear H. exists es. split; [exact Hres|].
    set (l := filter (included c) (all_files c (WDir es))).
    pose proof (isort_perm (leb (sort_by c)) l) as P.
    split; [|split; [|split]].
    - intros e. split.
      + intros Hin. apply (Permutation_in _ (Permutation_sym P)) in Hin. apply filter_In in Hin. exact Hin.
      + intros Hin. apply (Permutation_in _ P). apply filter_In. exact Hin.
    - exact P.
    - apply isort_sorted; [apply leb_total|apply leb_trans].
    - intros W other Pm S. apply sorted_perm_is_isort; try assumption; [apply leb_total|apply leb_trans|].
      apply (leb_antisym_on c (WDir es)).
      assert (Wr : forall t, wf_tree t -> wf_tree (resolve t)).
      { induction t as [| | t IHt |]; cbn; intros Wt; auto. inversion Wt; auto. }
      rewrite <- Hres. apply Wr, W.
  Qed.

  (* ---------- enumeration order ---------- *)
  Lemma dangling_perm t t' : tree_perm t t' -> dangling t = dangling t'.
  Proof. induction 1 using tree_perm_mut with (P0 := fun _ _ _ => True); cbn; auto. Qed.

  Lemma yield_perm (c : cfg) t t' : tree_perm t t' -> Permutation (yield c t) (yield c t').
  Proof.
    set (g := fun ne : list N * tree => if skip_hidden c (fst ne) then [] else map (under (fst ne)) (yield c (snd ne))).
    induction 1 using tree_perm_mut
      with (P0 := fun es es' _ => Permutation (flat_map g es) (flat_map g es')); cbn [Walk.yield].
    - reflexivity.
    - reflexivity.
    - destruct (follow_symlinks c); [assumption|reflexivity].
    - exact IHtree_perm.
    - reflexivity.
    - cbn [flat_map]. apply Permutation_app; [|assumption].
      unfold g. cbn [fst snd]. destruct (skip_hidden c n); [reflexivity|]. apply Permutation_map. assumption.
    - cbn [flat_map]. rewrite !app_assoc. apply Permutation_app_tail, Permutation_app_comm.
    - eapply Permutation_trans; eassumption.
  Qed.

  Lemma walk_error_perm (c : cfg) t t' : tree_perm t t' -> walk_error c t = walk_error c t'.
  Proof.
    set (h := fun ne : list N * tree => if dangling (snd ne) then follow_symlinks c
                                         else if skip_hidden c (fst ne) then false else walk_error c (snd ne)).
    induction 1 using tree_perm_mut
      with (P0 := fun es es' _ => existsb h es = existsb h es'); cbn [Walk.walk_error].
    - reflexivity.
    - reflexivity.
    - rewrite IHtree_perm. reflexivity.
    - exact IHtree_perm.
    - reflexivity.
    - cbn [existsb]. f_equal; [|assumption]. unfold h. cbn [fst snd].
      match goal with H : tree_perm t t' |- _ => rewrite (dangling_perm _ _ H) end. destruct (dangling t'); [reflexivity|].
      destruct (skip_hidden c n); [reflexivity|assumption].
    - cbn [existsb]. destruct (h x), (h y); reflexivity.
    - congruence.
  Qed.

  Lemma resolve_perm t t' : tree_perm t t' -> tree_perm (resolve t) (resolve t') /\ is_symlink t = is_symlink t'.
  Proof.
    induction 1 using tree_perm_mut with (P0 := fun _ _ _ => True); cbn; auto.
    - split; [constructor|reflexivity].
    - split; [constructor|reflexivity].
    - split; [apply IHtree_perm|reflexivity].
    - split; [constructor; assumption|reflexivity].
  Qed.

  Lemma wf_resolve t : wf_tree t -> wf_tree (resolve t).
  Proof. induction t as [| | t IHt |]; cbn; intros Wt; auto. inversion Wt; auto. Qed.

  Lemma resolve_not_link t a : resolve t <> WLink a.
  Proof. induction t as [| | t IHt |]; cbn; try discriminate. exact IHt. Qed.

  Theorem enumeration_order_independent (c : cfg) t t' :
    wf_tree t -> tree_perm t t' -> walk c t = walk c t'.
  Proof.
    intros W TP. destruct (resolve_perm _ _ TP) as [RP SL].
    unfold Walk.walk. rewrite <- SL.
    destruct (negb (follow_symlinks c) && is_symlink t); [reflexivity|].
    pose proof (wf_resolve _ W) as Wr.
    inversion RP as [sz E1 E2| E1 E2 |a b Hab E1 E2|es es' Hes E1 E2].
    - reflexivity.
    - reflexivity.
    - exfalso. symmetry in E1. exact (resolve_not_link _ _ E1).
    - rewrite <- E1 in Wr.
      rewrite <- (walk_error_perm c (WDir es) (WDir es') (tp_D _ _ Hes)).
      destruct (walk_error c (WDir es)); [reflexivity|]. f_equal.
      rewrite !kept_spec.
      apply isort_unique; [apply leb_total|apply leb_trans|apply (leb_antisym_on c (WDir es)); exact Wr|].
      rewrite <- !kept_spec. apply Permutation_filter', yield_perm. constructor. exact Hes.
  Qed.

  (* ---------- the root ---------- *)
  Lemma symlink_root_refused (c : cfg) root :
    follow_symlinks c = false -> is_symlink root = true -> walk c root = WalkRefused.
  Proof. intros Hf Hs. unfold Walk.walk. rewrite Hf, Hs. reflexivity. Qed.

  Lemma symlink_root_followed (c : cfg) t :
    follow_symlinks c = true -> walk c (WLink t) = walk c t.
  Proof. intros Hf. unfold Walk.walk. rewrite Hf. reflexivity. Qed.

  Lemma plain_root_not_refused (c : cfg) root : is_symlink root = false -> walk c root <> WalkRefused.
  Proof.
    intros Hs. unfold Walk.walk. rewrite Hs, andb_false_r.
    destruct (resolve root); try discriminate. destruct (walk_error c _); discriminate.
  Qed.
End WalkProofs.

(* ================================================================== *)
(** * Packaged statements used by Properties/C06.v *)

Definition sorted_by (specs : list spec) (l : list (list (list N) * N)) : Prop :=
  StronglySorted (fun a b => leb specs a b = true) l.

Theorem cmp_total_order specs :
  (forall a b, sort_compare specs b a = CompOpp (sort_compare specs a b)) /\
  (forall a, sort_compare specs a a = Eq) /\
  (forall a b, sort_compare specs a b = Eq -> fst a = fst b) /\
  (forall a b d, sort_compare specs a b = Lt -> sort_compare specs b d = Lt -> sort_compare specs a d = Lt) /\
  (forall a b d, sort_compare specs a b = Eq -> sort_compare specs a d = sort_compare specs b d) /\
  (forall a b, leb specs a b = true \/ leb specs b a = true) /\
  (forall a b d, leb specs a b = true -> leb specs b d = true -> leb specs a d = true).
Proof.
  pose proof (compare_weak specs) as [Hs He Ht].
  repeat split; intros.
  - apply Hs.
  - apply compare_refl.
  - eapply compare_eq_path; eassumption.
  - eapply Ht; eassumption.
  - apply He; assumption.
  - apply leb_total.
  - eapply leb_trans; eassumption.
Qed.

(** the user's keys come first, in order; remaining ties go to ascending path *)
Theorem compare_is_lexicographic specs a b :
  sort_compare specs a b = lex (specs ++ [(KPath, Ascending)]) a b /\
  (forall s r, lex (s :: r) a b = match compare_file_info s a b with Eq => lex r a b | o => o end) /\
  lex [] a b = Eq.
Proof.
  split; [apply compare_lex|]. split; [|reflexivity].
  intros s r. cbn [lex]. unfold then_with. destruct (compare_file_info s a b); reflexivity.
Qed.

Lemma leb_antisym_nodup specs l : NoDup (map fst l) ->
  forall x y, In x l -> In y l -> leb specs x y = true -> leb specs y x = true -> x = y.
Proof.
  intros ND x y Hx Hy H1 H2. eapply NoDup_map_inj_in; try eassumption.
  eapply leb_antisym_path; eassumption.
Qed.

Theorem isort_sorted_permutation specs l :
  Permutation l (isort (leb specs) l) /\ sorted_by specs (isort (leb specs) l).
Proof. split; [apply isort_perm|apply isort_sorted; [apply leb_total|apply leb_trans]]. Qed.

Theorem sorted_unique specs l l' :
  Permutation l l' -> NoDup (map fst l) -> isort (leb specs) l = isort (leb specs) l'.
Proof.
  intros P ND. apply isort_unique; [apply leb_total|apply leb_trans|apply leb_antisym_nodup; exact ND|exact P].
Qed.

(** whatever correct sorting algorithm the implementation uses, it returns [isort] *)
Theorem any_sort_agrees specs l s :
  NoDup (map fst l) -> Permutation l s -> sorted_by specs s -> s = isort (leb specs) l.
Proof.
  intros ND P S. apply sorted_perm_is_isort; try assumption; [apply leb_total|apply leb_trans|].
  apply leb_antisym_nodup; exact ND.
Qed.

Theorem pattern_filter_spec (pat : Type) (gmatch : pat -> list (list N) -> bool) (p : list (list N)) :
  pattern_filter pat gmatch [] p = true /\
  (forall before inc g after,
      gmatch g p = true -> (forall q, In q after -> gmatch (snd q) p = false) ->
      pattern_filter pat gmatch (before ++ (inc, g) :: after) p = inc) /\
  (forall inc0 g0 rest,
      (forall q, In q ((inc0, g0) :: rest) -> gmatch (snd q) p = false) ->
      pattern_filter pat gmatch ((inc0, g0) :: rest) p = negb inc0).
Proof.
  split; [reflexivity|]. split.
  - intros. apply pattern_filter_last_match; assumption.
  - intros. apply pattern_filter_no_match; assumption.
Qed.

(** junk names, as the model sees them, are exactly the generated list *)
Lemma name_eqb_eq a : forall b, name_eqb a b = true <-> a = b.
Proof.
  induction a as [|x a IH]; intros [|y b]; cbn; try (split; [discriminate|discriminate]); [tauto|].
  rewrite andb_true_iff, N.eqb_eq, IH. split; [intros [-> ->]; reflexivity|intros H; inversion H; auto].
Qed.

Theorem is_junk_spec n : is_junk n = true <-> In n GenWalker.junk.
Proof.
  unfold is_junk. rewrite existsb_exists. split.
  - intros (x & Hin & E). apply name_eqb_eq in E. subst. exact Hin.
  - intros Hin. exists n. split; [exact Hin|apply name_eqb_eq; reflexivity].
Qed.

(* ---------- a non-trivial instance (hypotheses are satisfiable; used by the Examples) ---------- *)
From Coq Require Import String.
Definition nm := name_of_string.
Definition sample_tree : tree :=
  WDir [ (nm "b", WFile 1);
      (nm ".h", WDir [(nm "x", WFile 1)]);
      (nm "a", WDir [(nm "x", WFile 2); (nm "Thumbs.db", WFile 3); (nm ".y", WFile 1)]);
      (nm "a b", WFile 2);
      (nm "a.b", WFile 2);
      (nm "Desktop.ini", WDir [(nm "q", WFile 7)]);
      (nm "l", WLink (WFile 5));
      (nm "ld", WLink (WDir [(nm "o", WFile 9)])) ]%string.
(** the same tree enumerated in another order, at two levels *)
Definition sample_tree_shuffled : tree :=
  WDir [ (nm "ld", WLink (WDir [(nm "o", WFile 9)]));
      (nm "a.b", WFile 2);
      (nm "a", WDir [(nm ".y", WFile 1); (nm "x", WFile 2); (nm "Thumbs.db", WFile 3)]);
      (nm "b", WFile 1);
      (nm "l", WLink (WFile 5));
      (nm "Desktop.ini", WDir [(nm "q", WFile 7)]);
      (nm "a b", WFile 2);
      (nm ".h", WDir [(nm "x", WFile 1)]) ]%string.
Definition sample_cfg (h j f : bool) (ps : list (bool * list (list (list N)))) (s : list spec) : cfg (list (list (list N))) :=
  Build_cfg h j f ps s.

Lemma sample_wf : wf_tree sample_tree.
Proof.
  unfold sample_tree.
  repeat first [ apply wf_F | apply wf_B | apply wf_L | apply wf_D
               | apply Forall_nil | apply Forall_cons; cbn [snd] ].
  all: cbn [map fst]; repeat (constructor; [cbn; intros H; repeat destruct H as [H|H]; try discriminate H; try contradiction|]); constructor.
Qed.

Lemma sample_perm : tree_perm sample_tree sample_tree_shuffled.
Proof.
  unfold sample_tree, sample_tree_shuffled. constructor.
  eapply ep_trans.
  - apply entries_perm_of_Permutation.
    match goal with |- Permutation [?b; ?h; ?a; ?ab; ?adb; ?di; ?l; ?ld] _ =>
      apply (Permutation_trans (l' := [ld; adb; a; b; l; di; ab; h])) end; [|reflexivity].
    apply NoDup_Permutation_bis.
    + pose proof sample_wf as W. inversion W as [| | |? ND _]; subst. apply (NoDup_map_inv fst). exact ND.
    + cbn. lia.
    + intros x Hx. cbn in *. tauto.
  - repeat (apply ep_skip; [try apply tree_perm_refl|]); try apply ep_nil.
    constructor. apply entries_perm_of_Permutation.
    match goal with |- Permutation [?x; ?t; ?y] _ => apply (Permutation_trans (l' := [y; x; t])) end; [|reflexivity].
    apply Permutation_sym, Permutation_cons_append.
Qed.
