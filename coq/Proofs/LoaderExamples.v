(** X4 - instances for Proofs/LoaderProofs.v: for every class of torrent that the projection [Verify.load]
    accepts and the typed loader ([Summary.from_input], what `imdl torrent verify` really runs) refuses, a
    concrete value whose info dictionary is fine. Each was also run on the real binary by ./check C03
    (tags "typed: ..."): exit status 1 although the content matches. *)
From Coq Require Import NArith ZArith List Bool.
From Imdl Require Import Base.Chunks Model.Bencode Model.BencodeWide Model.Fs Model.Verify Proofs.VerifyExamples.
From Imdl Require Model.Summary.
Import ListNotations.
Local Open Scope N_scope.

Module S := Summary.

(** {name "f", piece length 2, pieces (two hashes), length 3} plus extra keys in info and at the top *)
Definition xinfo (extra : list (bytes * value)) : list (bytes * value) :=
  [(K_length, Int 3); (K_name, Str [102]); (K_piece_length, Int 2);
   (K_pieces, Str (xhash [104; 105] ++ xhash [33]))] ++ extra.
Definition xtop (top info : list (bytes * value)) : value := Dict ((K_info, Dict (xinfo info)) :: top).
Definition xmulti (lens : list Z) : value :=
  Dict [(K_info, Dict [(K_files, Lst (map (fun z => Dict [(K_length, Int z); (K_path, Lst [Str [102]])]) lens));
                       (K_name, Str [114]); (K_piece_length, Int 4); (K_pieces, Str [])])].

Fixpoint nest (n : nat) : value := match n with O => Lst [] | S k => Lst [nest k] end.

Definition accepted (v : value) : bool := is_some (load_value v).
Definition typed (v : value) : bool := is_some (S.from_value xid xid v).

Example ex_plain_accepted : accepted (xtop [] []) = true /\ typed (xtop [] []) = true.
Proof. vm_compute. split; reflexivity. Qed.

(** every optional key, well typed, is accepted by both *)
Example ex_full_accepted :
  let v := xtop [(S.k_announce, Str [104]); (S.k_announce_list, Lst [Lst [Str [104]]]); (S.k_comment, Str []);
                 (S.k_created_by, Str [105]); (S.k_creation_date, Int (2 ^ 64 - 1)); (S.k_encoding, Str [85]);
                 (S.k_nodes, Lst [Lst [Str [104]; Int 65535]]); ([122], Int (2 ^ 63 - 1))]
                [(S.k_private, Int 1); (S.k_source, Str [115]); (S.k_update_url, Str [117]); ([122], Int (- 2 ^ 63))] in
  accepted v = true /\ typed v = true /\
  option_map project (S.from_value xid xid v) = load_value v.
Proof. vm_compute. repeat split; reflexivity. Qed.

Example ex_refused_deep :
  let v := xtop [([122], nest 2047)] [] in
  accepted v = true /\ x_depth v = false /\ typed v = false /\ typed (xtop [([122], nest 2046)] []) = true.
Proof. vm_compute. repeat split; reflexivity. Qed.

Example ex_refused_skipped_integer :
  accepted (xtop [([122], Int (2 ^ 63))] []) = true /\ typed (xtop [([122], Int (2 ^ 63))] []) = false /\
  accepted (xtop [] [([122], Lst [Int (- 2 ^ 63 - 1)])]) = true /\ typed (xtop [] [([122], Lst [Int (- 2 ^ 63 - 1)])]) = false /\
  x_skipped_i64 (xtop [([122], Int (2 ^ 63))] []) = false.
Proof. vm_compute. repeat split; reflexivity. Qed.

(** the verifier's own field: a `length` of 2^63 is read by the projection and refused by serde's i64 buffer *)
Example ex_refused_length_i64 :
  let v := Dict [(K_info, Dict [(K_length, Int (2 ^ 63)); (K_name, Str [102]); (K_piece_length, Int 2); (K_pieces, Str [])])] in
  accepted v = true /\ x_skipped_i64 v = false /\ typed v = false.
Proof. vm_compute. repeat split; reflexivity. Qed.

Example ex_refused_top_key_not_utf8 :
  accepted (xtop [([255], Int 1)] []) = true /\ typed (xtop [([255], Int 1)] []) = false.
Proof. vm_compute. split; reflexivity. Qed.
Example ex_refused_info_key_not_utf8 :
  accepted (xtop [] [([255], Int 1)]) = true /\ typed (xtop [] [([255], Int 1)]) = false.
Proof. vm_compute. split; reflexivity. Qed.

Example ex_refused_announce :
  accepted (xtop [(S.k_announce, Int 5)] []) = true /\ typed (xtop [(S.k_announce, Int 5)] []) = false /\
  typed (xtop [(S.k_announce, Str [255])] []) = false.
Proof. vm_compute. repeat split; reflexivity. Qed.
Example ex_refused_announce_list :
  accepted (xtop [(S.k_announce_list, Lst [Str [104]])] []) = true /\
  typed (xtop [(S.k_announce_list, Lst [Str [104]])] []) = false /\
  typed (xtop [(S.k_announce_list, Lst [Lst [Int 1]])] []) = false /\
  typed (xtop [(S.k_announce_list, Lst [Lst []])] []) = true.
Proof. vm_compute. repeat split; reflexivity. Qed.
Example ex_refused_comment :
  accepted (xtop [(S.k_comment, Lst [])] []) = true /\ typed (xtop [(S.k_comment, Lst [])] []) = false.
Proof. vm_compute. split; reflexivity. Qed.
Example ex_refused_created_by :
  accepted (xtop [(S.k_created_by, Int 0)] []) = true /\ typed (xtop [(S.k_created_by, Int 0)] []) = false.
Proof. vm_compute. split; reflexivity. Qed.
Example ex_refused_creation_date :
  accepted (xtop [(S.k_creation_date, Int (-1))] []) = true /\
  typed (xtop [(S.k_creation_date, Int (-1))] []) = false /\
  typed (xtop [(S.k_creation_date, Int (2 ^ 64))] []) = false /\
  typed (xtop [(S.k_creation_date, Str [49])] []) = false /\
  typed (xtop [(S.k_creation_date, Int (2 ^ 63))] []) = true.
Proof. vm_compute. repeat split; reflexivity. Qed.
Example ex_refused_encoding :
  accepted (xtop [(S.k_encoding, Dict [])] []) = true /\ typed (xtop [(S.k_encoding, Dict [])] []) = false.
Proof. vm_compute. split; reflexivity. Qed.
Example ex_refused_nodes :
  accepted (xtop [(S.k_nodes, Lst [Lst [Str [104]; Int 65536]])] []) = true /\
  typed (xtop [(S.k_nodes, Lst [Lst [Str [104]; Int 65536]])] []) = false /\
  typed (xtop [(S.k_nodes, Lst [Lst [Str [104]]])] []) = false /\
  typed (xtop [(S.k_nodes, Lst [Lst [Str [104]; Int 1; Int 1]])] []) = false /\
  typed (xtop [(S.k_nodes, Lst [Str [104]])] []) = false /\
  (* a host the url crate refuses *)
  S.from_value xnone xid (xtop [(S.k_nodes, Lst [Lst [Str [104]; Int 1]])] []) = None /\
  typed (xtop [(S.k_nodes, Lst [Lst [Str [104]; Int 1]])] []) = true.
Proof. vm_compute. repeat split; reflexivity. Qed.
Example ex_refused_private :
  accepted (xtop [] [(S.k_private, Int 2)]) = true /\ typed (xtop [] [(S.k_private, Int 2)]) = false /\
  typed (xtop [] [(S.k_private, Int (-1))]) = false /\ typed (xtop [] [(S.k_private, Str [49])]) = false /\
  typed (xtop [] [(S.k_private, Int 0)]) = true.
Proof. vm_compute. repeat split; reflexivity. Qed.
Example ex_refused_source :
  accepted (xtop [] [(S.k_source, Int 1)]) = true /\ typed (xtop [] [(S.k_source, Int 1)]) = false.
Proof. vm_compute. split; reflexivity. Qed.
Example ex_refused_update_url :
  accepted (xtop [] [(S.k_update_url, Int 1)]) = true /\ typed (xtop [] [(S.k_update_url, Int 1)]) = false /\
  (* a text the url crate refuses *)
  S.from_value xid xnone (xtop [] [(S.k_update_url, Str [120])]) = None /\
  typed (xtop [] [(S.k_update_url, Str [120])]) = true.
Proof. vm_compute. repeat split; reflexivity. Qed.
Example ex_refused_piece_length_u64 :
  let v := Dict [(K_info, Dict [(K_length, Int 3); (K_name, Str [102]); (K_piece_length, Int (2 ^ 64)); (K_pieces, Str [])])] in
  accepted v = true /\ x_piece_length_u64 (match v with Dict [(_, Dict i)] => i | _ => [] end) = false /\ typed v = false.
Proof. vm_compute. repeat split; reflexivity. Qed.
Example ex_refused_content_size :
  accepted (xmulti [9223372036854775807; 9223372036854775807; 2]%Z) = true /\
  typed (xmulti [9223372036854775807; 9223372036854775807; 2]%Z) = false /\
  typed (xmulti [9223372036854775807; 9223372036854775807; 1]%Z) = true /\
  option_map size_fits (load_value (xmulti [9223372036854775807; 9223372036854775807; 2]%Z)) = Some false.
Proof. vm_compute. repeat split; reflexivity. Qed.

(** serde's sequence form of a file entry: both loaders read it (X4: neither did before) *)
Example ex_file_entry_as_sequence :
  let v := Dict [(K_info, Dict [(K_files, Lst [Lst [Int 3; Lst [Str [102]]];
                                               Lst [Int 0; Lst [Str [103]]; Str (repeat 48 32)]]);
                                (K_name, Str [114]); (K_piece_length, Int 4); (K_pieces, Str [])])] in
  option_map project (S.from_value xid xid v) = load_value v /\ accepted v = true /\
  typed (Dict [(K_info, Dict [(K_files, Lst [Lst [Int 3]]); (K_name, Str [114]); (K_piece_length, Int 4); (K_pieces, Str [])])]) = false /\
  typed (Dict [(K_info, Dict [(K_files, Lst [Lst [Int 3; Lst [Str [102]]; Str (repeat 48 32); Int 1]]); (K_name, Str [114]);
                              (K_piece_length, Int 4); (K_pieces, Str [])])]) = false.
Proof. vm_compute. repeat split; reflexivity. Qed.

(** on bytes: `creation date` 2^63 is read by the serde reader (and by the command), not by the strict reader *)
Example ex_wide_integer_bytes :
  let tb := encode (Dict [(S.k_creation_date, Int (2 ^ 63)); (K_info, Dict (xinfo []))]) in
  is_some (load_typed xid xid tb) = true /\ is_some (load tb) = true /\
  decode (2 * length tb + 2) tb = None /\
  run tb = Some Success.
Proof. vm_compute. repeat split; reflexivity. Qed.
