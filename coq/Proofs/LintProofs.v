(** Proofs about Model/Lint.v (C14): thresholds for every piece length, independence of the
    allows, truthfulness of the note, exact recording. No bound on [pl] or on the allow list. *)
From Coq Require Import NArith List Bool String Lia ZifyN ZifyBool.
From Imdl Require Import Model.Lint Model.Picker Proofs.PickerProofs.
Import ListNotations.
Local Open Scope N_scope.

(** * reflection of the three executable tests *)

Lemma lint_eqb_eq a b : lint_eqb a b = true <-> a = b.
Proof. destruct a, b; cbn; split; intros H; try reflexivity; try discriminate. Qed.

Lemma is_allowed_In A l : is_allowed A l = true <-> In l A.
Proof.
  unfold is_allowed. rewrite existsb_exists. split.
  - intros [x [Hin Heq]]. apply lint_eqb_eq in Heq. subst x. exact Hin.
  - intros Hin. exists l. split; [exact Hin | apply lint_eqb_eq; reflexivity].
Qed.

Lemma allowedP A l : reflect (In l A) (is_allowed A l).
Proof. apply iff_reflect. symmetry. apply is_allowed_In. Qed.

Lemma linter_of_allowed A l : is_allowed (linter_allow linter_new A) l = is_allowed A l.
Proof. unfold linter_allow, linter_new. rewrite app_nil_r. reflexivity. Qed.

Lemma pos_is_pow2_sound p : pos_is_pow2 p = true -> exists k, Npos p = 2 ^ k.
Proof.
  induction p as [q IH | q IH | ]; cbn [pos_is_pow2]; intros H.
  - discriminate.
  - destruct (IH H) as [k Hk]. exists (N.succ k).
    rewrite N.pow_succ_r'. rewrite <- Hk. reflexivity.
  - exists 0. reflexivity.
Qed.

Lemma pos_is_pow2_complete k : forall p, Npos p = 2 ^ k -> pos_is_pow2 p = true.
Proof.
  induction k as [ | k IH] using N.peano_ind; intros p H.
  - cbn in H. injection H as H. subst p. reflexivity.
  - rewrite N.pow_succ_r' in H.
    destruct p as [q | q | ].
    + exfalso. lia.
    + cbn [pos_is_pow2]. apply IH. lia.
    + exfalso. assert (Hpos : 0 < 2 ^ k) by (apply N.neq_0_lt_0, N.pow_nonzero; lia). lia.
Qed.

Lemma is_power_of_two_spec n : is_power_of_two n = true <-> exists k, n = 2 ^ k.
Proof.
  destruct n as [ | p]; cbn [is_power_of_two].
  - split; [discriminate | ]. intros [k Hk]. exfalso.
    assert (Hnz : 2 ^ k <> 0) by (apply N.pow_nonzero; lia). lia.
  - split; [apply pos_is_pow2_sound | ]. intros [k Hk]. exact (pos_is_pow2_complete k p Hk).
Qed.

Lemma pow2P n : reflect (exists k, n = 2 ^ k) (is_power_of_two n).
Proof. apply iff_reflect. symmetry. apply is_power_of_two_spec. Qed.

Lemma small_threshold_val : small_threshold = 16384.
Proof. reflexivity. Qed.

Lemma as_piece_length_spec n :
  as_piece_length n = if n <? 4294967296 then Some n else None.
Proof. reflexivity. Qed.

(** * the decision, flattened: one cascade of booleans in the code's order *)
Lemma decide_cases A pl p a :
  decide A pl p a =
    if negb (is_allowed A PrivateTrackerless) && p && negb a then RejectLint PrivateTrackerless else
    if pl =? 0 then RejectZero else
    if negb (is_allowed A UnevenPieceLength) && negb (is_power_of_two pl) then RejectLint UnevenPieceLength else
    if negb (is_allowed A SmallPieceLength) && (pl <? 16384) then RejectLint SmallPieceLength else
    if pl <? 4294967296 then Accept pl else RejectTooLarge.
Proof.
  unfold decide, run, is_denied. rewrite !linter_of_allowed, as_piece_length_spec, small_threshold_val.
  destruct (negb (is_allowed A PrivateTrackerless) && p && negb a); [reflexivity | ].
  destruct (pl =? 0); [reflexivity | ].
  destruct (negb (is_allowed A UnevenPieceLength) && negb (is_power_of_two pl)); [reflexivity | ].
  destruct (negb (is_allowed A SmallPieceLength) && (pl <? 16384)); [reflexivity | ].
  destruct (pl <? 4294967296); reflexivity.
Qed.

Lemma pow2_32 : 2 ^ 32 = 4294967296.
Proof. reflexivity. Qed.

Lemma zero_not_pow2 : ~ exists k, 0 = 2 ^ k.
Proof. intros [k Hk]. assert (Hnz : 2 ^ k <> 0) by (apply N.pow_nonzero; lia). lia. Qed.

(** a lint [blocks] a request when it is violated and not allowed *)
Definition blocks (A : list lint) (l : lint) (pl : N) (p a : bool) : Prop := violated l pl p a /\ ~ In l A.

Lemma blocksP_reflect A pl p a :
  reflect (blocks A PrivateTrackerless pl p a) (negb (is_allowed A PrivateTrackerless) && p && negb a).
Proof.
  unfold blocks. cbn [violated].
  destruct (allowedP A PrivateTrackerless) as [Hin | Hin]; destruct p; destruct a; cbn [negb andb];
    constructor; try tauto; intros [[Hp Ha] Hn]; try discriminate; tauto.
Qed.

Lemma blocksU_reflect A pl p a :
  reflect (blocks A UnevenPieceLength pl p a) (negb (is_allowed A UnevenPieceLength) && negb (is_power_of_two pl)).
Proof.
  unfold blocks. cbn [violated].
  destruct (allowedP A UnevenPieceLength) as [Hin | Hin]; destruct (pow2P pl) as [Hpow | Hpow]; cbn [negb andb];
    constructor; tauto.
Qed.

Lemma blocksS_reflect A pl p a :
  reflect (blocks A SmallPieceLength pl p a) (negb (is_allowed A SmallPieceLength) && (pl <? 16384)).
Proof.
  unfold blocks. cbn [violated].
  destruct (allowedP A SmallPieceLength) as [Hin | Hin]; destruct (N.ltb_spec0 pl 16384) as [Hsm | Hsm]; cbn [negb andb];
    constructor; try tauto; intros [Hv Hn]; lia.
Qed.

(** the six ways through Create::run, as propositions *)
Inductive outcome (A : list lint) (pl : N) (p a : bool) : verdict -> Prop :=
| O_private : blocks A PrivateTrackerless pl p a -> outcome A pl p a (RejectLint PrivateTrackerless)
| O_zero : ~ blocks A PrivateTrackerless pl p a -> pl = 0 -> outcome A pl p a RejectZero
| O_uneven : ~ blocks A PrivateTrackerless pl p a -> pl <> 0 -> blocks A UnevenPieceLength pl p a ->
             outcome A pl p a (RejectLint UnevenPieceLength)
| O_small : ~ blocks A PrivateTrackerless pl p a -> pl <> 0 -> ~ blocks A UnevenPieceLength pl p a ->
            blocks A SmallPieceLength pl p a -> outcome A pl p a (RejectLint SmallPieceLength)
| O_accept : ~ blocks A PrivateTrackerless pl p a -> pl <> 0 -> ~ blocks A UnevenPieceLength pl p a ->
             ~ blocks A SmallPieceLength pl p a -> pl < 2 ^ 32 -> outcome A pl p a (Accept pl)
| O_too_large : ~ blocks A PrivateTrackerless pl p a -> pl <> 0 -> ~ blocks A UnevenPieceLength pl p a ->
                ~ blocks A SmallPieceLength pl p a -> 2 ^ 32 <= pl -> outcome A pl p a RejectTooLarge.

Lemma decide_outcome A pl p a : outcome A pl p a (decide A pl p a).
Proof.
  rewrite decide_cases.
  destruct (blocksP_reflect A pl p a) as [HbP | HbP]; [apply O_private; exact HbP | ].
  destruct (N.eqb_spec pl 0) as [Hz | Hz]; [apply O_zero; assumption | ].
  destruct (blocksU_reflect A pl p a) as [HbU | HbU]; [apply O_uneven; assumption | ].
  destruct (blocksS_reflect A pl p a) as [HbS | HbS]; [apply O_small; assumption | ].
  destruct (N.ltb_spec pl 4294967296) as [Hlg | Hlg].
  - apply O_accept; first [assumption | rewrite pow2_32; exact Hlg].
  - apply O_too_large; first [assumption | rewrite pow2_32; exact Hlg].
Qed.

(** "every violated lint is allowed" = no lint blocks *)
Lemma none_blocks_iff A pl p a :
  (forall l, violated l pl p a -> In l A) <->
  (~ blocks A PrivateTrackerless pl p a /\ ~ blocks A UnevenPieceLength pl p a /\ ~ blocks A SmallPieceLength pl p a).
Proof.
  unfold blocks. split.
  - intros H. repeat split; intros [Hv Hn]; exact (Hn (H _ Hv)).
  - intros [HP [HU HS]] l Hv.
    destruct (allowedP A l) as [Hin | Hin]; [exact Hin | exfalso].
    destruct l; [apply HP | apply HS | apply HU]; split; assumption.
Qed.

Lemma blocks_zero_uneven A p a : ~ In UnevenPieceLength A -> blocks A UnevenPieceLength 0 p a.
Proof. intros Hn. split; [exact zero_not_pow2 | exact Hn]. Qed.

(** * accepted exactly when nothing forbids it, and then the length is recorded as given *)
Lemma accept_iff A pl p a pl' :
  decide A pl p a = Accept pl' <->
  pl' = pl /\ pl <> 0 /\ pl < 2 ^ 32 /\ (forall l, violated l pl p a -> In l A).
Proof.
  rewrite none_blocks_iff.
  destruct (decide_outcome A pl p a) as [HbP | HbP Hz | HbP Hz HbU | HbP Hz HbU HbS | HbP Hz HbU HbS Hlg | HbP Hz HbU HbS Hlg];
    (split; [intros Hd; try discriminate Hd | intros [He [Hnz [Hlt [HP [HU HS]]]]]; try tauto; try lia]).
  - injection Hd as Hd. subst pl'. tauto.
  - subst pl'. reflexivity.
Qed.

Lemma accept_records_exactly A pl p a pl' : decide A pl p a = Accept pl' -> pl' = pl.
Proof. intros H. apply accept_iff in H. tauto. Qed.

Lemma zero_always A p a pl' : decide A 0 p a <> Accept pl'.
Proof. intros H. apply accept_iff in H. destruct H as [_ [Hnz _]]. apply Hnz. reflexivity. Qed.

Lemma zero_verdict A p a :
  decide A 0 p a = RejectZero \/ decide A 0 p a = RejectLint PrivateTrackerless.
Proof.
  rewrite decide_cases. change (0 =? 0) with true.
  destruct (negb (is_allowed A PrivateTrackerless) && p && negb a); [right | left]; reflexivity.
Qed.

Lemma too_large_always A pl p a pl' : 2 ^ 32 <= pl -> decide A pl p a <> Accept pl'.
Proof. intros Hge H. apply accept_iff in H. lia. Qed.

(** allowing other lints never admits a request that violates a lint which is not allowed *)
Lemma allow_independent A l pl p a pl' :
  violated l pl p a -> ~ In l A -> decide A pl p a <> Accept pl'.
Proof. intros Hv Hn H. apply accept_iff in H. destruct H as [_ [_ [_ Hall]]]. exact (Hn (Hall l Hv)). Qed.

Lemma allow_one_never_disables_another A l l' pl p a pl' :
  l' <> l -> violated l' pl p a -> ~ In l' A -> decide (l :: A) pl p a <> Accept pl'.
Proof.
  intros Hne Hv Hn. apply (allow_independent (l :: A) l'); [exact Hv | ].
  intros [He | Hin]; [apply Hne; symmetry; exact He | exact (Hn Hin)].
Qed.

(** adding `--allow l` turns the request into an accepted one exactly when [l] was the only
    thing in the way *)
Lemma allow_lifts_exactly_one A l pl p a :
  decide (l :: A) pl p a = Accept pl <->
  pl <> 0 /\ pl < 2 ^ 32 /\ (forall l', violated l' pl p a -> l' = l \/ In l' A).
Proof.
  rewrite accept_iff. split.
  - intros [_ [Hnz [Hlt Hall]]]. repeat split; try assumption.
    intros l' Hv. destruct (Hall l' Hv) as [He | Hin]; [left; symmetry; exact He | right; exact Hin].
  - intros [Hnz [Hlt Hall]]. repeat split; try assumption.
    intros l' Hv. destruct (Hall l' Hv) as [He | Hin]; [left; symmetry; exact He | right; exact Hin].
Qed.

(** * each kind of rejection happens for exactly its reason, in the code's order *)
Ltac by_outcome A pl p a :=
  destruct (decide_outcome A pl p a) as [HbP | HbP Hz | HbP Hz HbU | HbP Hz HbU HbS | HbP Hz HbU HbS Hlg | HbP Hz HbU HbS Hlg].

Lemma private_iff A pl p a :
  decide A pl p a = RejectLint PrivateTrackerless <-> blocks A PrivateTrackerless pl p a.
Proof. by_outcome A pl p a; (split; [intros Hd; try discriminate Hd; tauto | intros Hb; try reflexivity; tauto]). Qed.

Lemma zero_iff A pl p a :
  decide A pl p a = RejectZero <-> pl = 0 /\ ~ blocks A PrivateTrackerless pl p a.
Proof. by_outcome A pl p a; (split; [intros Hd; try discriminate Hd; tauto | intros [He Hb]; try reflexivity; tauto]). Qed.

Lemma uneven_iff A pl p a :
  decide A pl p a = RejectLint UnevenPieceLength <->
  blocks A UnevenPieceLength pl p a /\ pl <> 0 /\ ~ blocks A PrivateTrackerless pl p a.
Proof.
  by_outcome A pl p a; (split; [intros Hd; try discriminate Hd; tauto | intros [Hb [Hnz HnP]]; try reflexivity; tauto]).
Qed.

Lemma small_iff A pl p a :
  decide A pl p a = RejectLint SmallPieceLength <->
  blocks A SmallPieceLength pl p a /\ pl <> 0 /\ ~ blocks A PrivateTrackerless pl p a /\
  ~ blocks A UnevenPieceLength pl p a.
Proof.
  by_outcome A pl p a; (split; [intros Hd; try discriminate Hd; tauto | intros [Hb [Hnz [HnP HnU]]]; try reflexivity; tauto]).
Qed.

Lemma too_large_iff A pl p a :
  decide A pl p a = RejectTooLarge <-> 2 ^ 32 <= pl /\ (forall l, violated l pl p a -> In l A).
Proof.
  rewrite none_blocks_iff.
  by_outcome A pl p a;
    (split; [intros Hd; try discriminate Hd; tauto | intros [Hge [HP [HU HS]]]; try reflexivity; try tauto; try lia]).
Qed.

(** the note never lies: a lint rejection names a lint that is violated and not allowed *)
Lemma note_truthful A pl p a l :
  decide A pl p a = RejectLint l -> violated l pl p a /\ ~ In l A.
Proof.
  destruct l; intros H.
  - apply private_iff in H. exact H.
  - apply small_iff in H. destruct H as [H _]. exact H.
  - apply uneven_iff in H. destruct H as [H _]. exact H.
Qed.

(** every verdict has one of the stated causes (no other way to be rejected) *)
Lemma verdict_total A pl p a :
  decide A pl p a = Accept pl \/ decide A pl p a = RejectZero \/ decide A pl p a = RejectTooLarge \/
  exists l, decide A pl p a = RejectLint l.
Proof.
  rewrite decide_cases.
  destruct (negb (is_allowed A PrivateTrackerless) && p && negb a); [right; right; right; eexists; reflexivity | ].
  destruct (pl =? 0); [right; left; reflexivity | ].
  destruct (negb (is_allowed A UnevenPieceLength) && negb (is_power_of_two pl)); [right; right; right; eexists; reflexivity | ].
  destruct (negb (is_allowed A SmallPieceLength) && (pl <? 16384)); [right; right; right; eexists; reflexivity | ].
  destruct (pl <? 4294967296); [left | right; right; left]; reflexivity.
Qed.

(** * the allow list is a set: only membership matters (order, duplicates are irrelevant) *)
Lemma is_allowed_ext A B : (forall l, In l A <-> In l B) -> forall l, is_allowed A l = is_allowed B l.
Proof.
  intros H l. destruct (allowedP A l) as [Ha | Ha], (allowedP B l) as [Hb | Hb]; try reflexivity; exfalso.
  - apply Hb, H, Ha.
  - apply Ha, H, Hb.
Qed.

Lemma allow_set_semantics A B pl p a :
  (forall l, In l A <-> In l B) -> decide A pl p a = decide B pl p a.
Proof. intros H. rewrite !decide_cases, !(is_allowed_ext A B H). reflexivity. Qed.

(** * what the process shows (Env::status) is the verdict *)
Lemma status_decide A pl p a :
  status A pl p a =
    match decide A pl p a with
    | Accept v => {| exit_code := 0; note := None; recorded := Some v |}
    | RejectLint l => {| exit_code := 1; note := Some l; recorded := None |}
    | RejectZero | RejectTooLarge => {| exit_code := 1; note := None; recorded := None |}
    end.
Proof.
  unfold status, decide. destruct (run A pl p a) as [v | e]; [reflexivity | ].
  destruct e; reflexivity.
Qed.

Lemma lint_name_injective l l' : lint_name l = lint_name l' -> l = l'.
Proof. destruct l, l'; cbn; intros H; try reflexivity; discriminate H. Qed.

Lemma note_line_injective l l' : note_line l = note_line l' -> l = l'.
Proof. destruct l, l'; cbn; intros H; try reflexivity; discriminate H. Qed.

(** a run that prints a note exits 1, writes nothing, and the note names a lint that is
    violated and not allowed *)
Lemma lint_rejection_observed A pl p a l :
  note (status A pl p a) = Some l ->
  exit_code (status A pl p a) = 1 /\ recorded (status A pl p a) = None /\
  note_text (status A pl p a) = Some (note_line l) /\ violated l pl p a /\ ~ In l A.
Proof.
  unfold note_text. rewrite status_decide.
  destruct (decide A pl p a) as [v | l0 | | ] eqn:Hd; cbn; intros H; try discriminate H.
  injection H as H. subst l0. repeat split; apply (note_truthful A pl p a l Hd).
Qed.

(** exit status 0 and a recorded length exactly for accepted runs; 1 otherwise *)
Lemma exit_code_spec A pl p a :
  (exit_code (status A pl p a) = 0 /\ recorded (status A pl p a) = Some pl /\ note (status A pl p a) = None /\
   decide A pl p a = Accept pl) \/
  (exit_code (status A pl p a) = 1 /\ recorded (status A pl p a) = None /\ forall v, decide A pl p a <> Accept v).
Proof.
  rewrite status_decide. destruct (decide A pl p a) as [v | l | | ] eqn:Hd; cbn.
  - left. apply accept_records_exactly in Hd. subst v. repeat split.
  - right. repeat split. intros v Hv. discriminate Hv.
  - right. repeat split. intros v Hv. discriminate Hv.
  - right. repeat split. intros v Hv. discriminate Hv.
Qed.

(** * with C15: a piece length chosen by the picker trips no piece-length rule *)
Lemma auto_piece_length_accepted A n p a :
  (p = true -> a = false -> In PrivateTrackerless A) ->
  decide A (pick_ideal n) p a = Accept (pick_ideal n).
Proof.
  intros Hp. apply accept_iff.
  destruct (auto_never_rejected n) as [Hnz [Hlt [Hge Hpow]]].
  change (16 * KiB) with 16384 in Hge.
  repeat split; try assumption.
  intros l Hv. destruct l; cbn [violated] in Hv.
  - destruct Hv as [H1 H2]. exact (Hp H1 H2).
  - exfalso. lia.
  - exfalso. exact (Hv Hpow).
Qed.
