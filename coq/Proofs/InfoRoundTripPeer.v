(** C11 (X16) - the peer-client theorems of Proofs/PeerProofs.v at the concrete typed round trip [info_norm]:
    completeness with the SYNTACTIC hypothesis [typed_normal d = true], authenticity with what is known of the
    dictionary returned, torrents imdl created are fetched back, the known class is never answered as served. *)
From Coq Require Import NArith ZArith Bool List Lia.
From Imdl Require Import Model.Bencode Model.BencodeWide Model.Peer Proofs.PeerProofs Proofs.InfoRoundTripWide.
From Imdl Require Import Model.InfoRoundTrip Proofs.InfoRoundTripProofs Proofs.InfoRoundTripCreate.
From Imdl Require Model.Metainfo Model.UrlNorm.
Import ListNotations.
Local Open Scope N_scope.

Lemma typed_normal_nonempty d : typed_normal d = true -> d <> [].
Proof. intros H E. subst d. vm_compute in H. discriminate. Qed.

Theorem complete_concrete ext H d id ign hsv ign0 target reserved peer_id tail :
  typed_normal d = true -> N.of_nat (length d) < 2 ^ 63 -> H d = target ->
  (forall i, Forall ignorable (ign i)) -> Forall ignorable ign0 ->
  wfb hsv = true -> view_hs hsv = Some (Some (N.of_nat (length d)), Some id) ->
  length target = 20%nat -> length reserved = 8%nat -> length peer_id = 20%nat ->
  (0 <? N.land (nth EXT_INDEX reserved 0) EXT_BIT) = true ->
  Forall ok_item (honest_items d ign hsv ign0) ->
  fetch (info_norm ext) H target (honest_stream d ign hsv ign0 target reserved peer_id tail)
  = (Got d, honest_requests id d).
Proof.
  intros Hn Hsm Hh Hign Hign0 Hwf Hview Ht Hr Hp Hbit Hok.
  apply complete; try assumption; [apply typed_normal_nonempty; exact Hn|apply normal_fixed; exact Hn].
Qed.

(** whatever the peer sends: a dictionary that is returned hashes to the magnet's infohash, is the typed
    re-serialisation of the assembled buffer, is canonical bencode (strictly increasing keys, nesting at most 4, read
    back exactly by bendy's serde reader) and is normal in everything but, possibly, the `update-url` text *)
Theorem authentic_concrete ext H target s i o :
  fetch (info_norm ext) H target s = (Got i, o) ->
  H i = target /\ (exists b, info_norm ext b = Some i) /\ typed_normal_upto_url i = true /\
  exists v, i = encode v /\ sortedb v = true /\ depth v <= 4 /\ wdecode (fuel_for i) i = Some (v, []).
Proof.
  intros Hf. destruct (authentic (info_norm ext) H target s i o Hf) as [Hh [b Hb]].
  split; [exact Hh|]. split; [exists b; exact Hb|]. split; [exact (norm_normal_upto_url ext b i Hb)|].
  exact (norm_canonical ext b i Hb).
Qed.

(** ... and when the `update-url` served lies inside the modelled fragment of the url crate, what is returned is
    typed-normal: serving it again is understood ([complete_concrete]) *)
Theorem authentic_concrete_stable ext H target s i o :
  fetch (info_norm ext) H target s = (Got i, o) ->
  exists b, info_norm ext b = Some i /\ (info_url_modelled b = true -> typed_normal i = true /\ info_norm ext i = Some i).
Proof.
  intros Hf. destruct (authentic (info_norm ext) H target s i o Hf) as [_ [b Hb]]. exists b. split; [exact Hb|].
  intros Hm. exact (norm_normal ext b i Hb Hm).
Qed.

(** (d) a torrent imdl created can be fetched back byte-identically: an honest peer serving the info dictionary that
    `imdl torrent create` wrote is understood, and the dictionary returned is that dictionary *)
Theorem created_torrents_fetch_back ext norm o c iv name H id ign hsv ign0 target reserved peer_id tail :
  Metainfo.build_info norm o c = Some iv -> Metainfo.name_of o (Metainfo.c_input c) = Some name ->
  create_ok norm o c name = true ->
  let d := encode iv in
  N.of_nat (length d) < 2 ^ 63 -> H d = target ->
  (forall i, Forall ignorable (ign i)) -> Forall ignorable ign0 ->
  wfb hsv = true -> view_hs hsv = Some (Some (N.of_nat (length d)), Some id) ->
  length target = 20%nat -> length reserved = 8%nat -> length peer_id = 20%nat ->
  (0 <? N.land (nth EXT_INDEX reserved 0) EXT_BIT) = true ->
  Forall ok_item (honest_items d ign hsv ign0) ->
  fetch (info_norm ext) H target (honest_stream d ign hsv ign0 target reserved peer_id tail)
  = (Got d, honest_requests id d).
Proof.
  intros Hb Hn Hok d Hsm Hh Hign Hign0 Hwf Hview Ht Hr Hp Hbit Hoki.
  apply (complete_concrete ext H d id); try assumption.
  exact (proj1 (created_info_normal norm o c iv name Hb Hn Hok)).
Qed.

(** (e) the open finding, concretely: an honest peer serving a dictionary of the known class (modelled keys only,
    not typed-normal, url inside the fragment) is never answered with the dictionary it served *)
Theorem known_class_never_understood ext H d id ign hsv ign0 target reserved peer_id tail :
  c11_known_class d = true -> info_url_modelled d = true ->
  d <> [] -> N.of_nat (length d) < 2 ^ 63 ->
  (forall i, Forall ignorable (ign i)) -> Forall ignorable ign0 ->
  wfb hsv = true -> view_hs hsv = Some (Some (N.of_nat (length d)), Some id) ->
  length target = 20%nat -> length reserved = 8%nat -> length peer_id = 20%nat ->
  (0 <? N.land (nth EXT_INDEX reserved 0) EXT_BIT) = true ->
  Forall ok_item (honest_items d ign hsv ign0) ->
  fst (fetch (info_norm ext) H target (honest_stream d ign hsv ign0 target reserved peer_id tail)) <> Got d.
Proof.
  intros Hk Hm Hne Hsm Hign Hign0 Hwf Hview Ht Hr Hp Hbit Hok.
  pose proof (known_class_changed ext d Hk Hm) as Hch.
  destruct (info_norm ext d) as [d'|] eqn:En.
  - apply (not_typed_normal_refuted (info_norm ext) H d d' id); try assumption. intros E. apply Hch. rewrite E. reflexivity.
  - unfold fetch. rewrite (session_honest (accept (info_norm ext) H target) d Hne Hsm id ign Hign hsv Hwf Hview ign0 Hign0
                             target reserved peer_id Ht Hr Hbit Hok Hp tail).
    unfold verdict, accept. rewrite En. cbn [fst]. discriminate.
Qed.
