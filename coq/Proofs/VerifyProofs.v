(** Proofs about Model/Verify.v.
    - the read loop computes [map H (chunks p (concat contents))] for every read schedule;
    - [verify_metainfo]'s verdict is the declarative [spec_good] (C03);
    - the command succeeds exactly when arguments, loader, root rule and [Verifier::new] accept
      and [spec_good] holds; never with piece length zero;
    - the loader admits only plain components; verdicts depend on the filesystem only through
      what the root resolves to (C13). *)
From Coq Require Import NArith ZArith List Bool Lia ZifyN ZifyBool.
From Imdl Require Import Base.Chunks Model.Bencode Model.BencodeWide Model.Fs Model.Verify Proofs.FsProofs Proofs.LoaderProofs.
Import ListNotations.
Local Open Scope N_scope.

(** ** loader facts (no hash functions involved) *)
Lemma mapM_Forall {A B : Type} (f : A -> option B) (P : B -> Prop) :
  (forall a b, f a = Some b -> P b) -> forall l bs, mapM f l = Some bs -> Forall P bs.
Proof.
  intros Hf. induction l as [|a l IH]; cbn [mapM]; intros bs E.
  - inversion E. constructor.
  - destruct (f a) as [b|] eqn:Ea; [|discriminate].
    destruct (mapM f l) as [bs'|]; [|discriminate]. inversion E; subst.
    constructor; [exact (Hf a b Ea)|apply IH; reflexivity].
Qed.

Lemma mapM_none {A B : Type} (f : A -> option B) l a : In a l -> f a = None -> mapM f l = None.
Proof.
  induction l as [|x l IH]; cbn [In mapM]; intros Hin Ha; [contradiction|].
  destruct Hin as [->|Hin]; [rewrite Ha; reflexivity|].
  rewrite (IH Hin Ha). destruct (f x); reflexivity.
Qed.

Definition plain_path (p : list bytes) : Prop := Forall (fun c => plain c = true) p.

Lemma load_comp_plain v s : load_comp v = Some s -> plain s = true.
Proof.
  unfold load_comp. destruct (load_string v) as [s'|]; [|discriminate].
  destruct (screen_comp s') eqn:Es; [|discriminate]. intros E. inversion E; subst.
  apply screen_comp_plain. exact Es.
Qed.

Lemma load_path_plain v p : load_path v = Some p -> plain_path p.
Proof.
  unfold load_path. destruct v as [z|s|l|d]; try discriminate.
  apply mapM_Forall. exact load_comp_plain.
Qed.

(** a listed path with a component that is not plain is refused *)
Lemma load_path_rejects l s : In (Str s) l -> plain s = false -> load_path (Lst l) = None.
Proof.
  intros Hin Hp. cbn [load_path]. apply (mapM_none load_comp l (Str s) Hin).
  unfold load_comp, load_string. destruct (utf8_ok s); [|reflexivity].
  destruct (screen_comp s) eqn:Es; [|reflexivity].
  apply screen_comp_plain in Es. congruence.
Qed.

Lemma load_file_plain v f : load_file v = Some f -> plain_path (fpath f).
Proof.
  unfold load_file. destruct v as [z|s|l|d]; try discriminate.
  { destruct l as [|lv [|pv rest]]; try discriminate.
    destruct (load_u64 lv); [|discriminate]. destruct (load_path pv) as [p|] eqn:Ep; [|discriminate].
    pose proof (load_path_plain pv p Ep) as Hp.
    destruct rest as [|mv [|x r]]; try discriminate.
    - intros E. inversion E; subst. exact Hp.
    - destruct (load_md5 mv); [|discriminate]. intros E. inversion E; subst. exact Hp. }
  destruct (dlookup K_length d) as [lv|]; [|discriminate].
  destruct (dlookup K_path d) as [pv|]; [|discriminate].
  destruct (load_u64 lv); [|discriminate].
  destruct (load_path pv) as [p|] eqn:Ep; [|discriminate].
  destruct (load_opt load_md5 K_md5sum d); [|discriminate].
  intros E. inversion E; subst. cbn [fpath]. exact (load_path_plain pv p Ep).
Qed.

Lemma load_mode_plain d m : load_mode d = Some m ->
  match m with Single _ _ => True | Multiple fs => Forall (fun f => plain_path (fpath f)) fs end.
Proof.
  unfold load_mode. destruct (load_single d) as [m'|] eqn:Es.
  - intros E. inversion E; subst. unfold load_single in Es.
    destruct (dlookup K_length d); [|discriminate]. destruct (load_u64 v); [|discriminate].
    destruct (load_opt load_md5 K_md5sum d); [|discriminate]. inversion Es. exact I.
  - unfold load_multiple. destruct (dlookup K_files d) as [[z|s|l|d']|]; try discriminate.
    destruct (mapM load_file l) as [fs|] eqn:Em; [|discriminate].
    intros E. inversion E; subst. exact (mapM_Forall load_file _ load_file_plain l fs Em).
Qed.

Lemma load_value_plain v t : load_value v = Some t -> Forall (fun f => plain_path (fpath f)) (files_of t).
Proof.
  unfold load_value. destruct v as [z|s|l|d]; try discriminate.
  destruct (dlookup K_info d) as [[z|s|l|i]|]; try discriminate.
  unfold load_info. destruct (dlookup K_name i); [|discriminate].
  destruct (dlookup K_piece_length i); [|discriminate]. destruct (dlookup K_pieces i); [|discriminate].
  destruct (load_string v); [|discriminate]. destruct (load_u64 v0); [|discriminate].
  destruct (load_pieces v1); [|discriminate]. destruct (load_mode i) as [m|] eqn:Em; [|discriminate].
  intros E. inversion E; subst. unfold files_of. cbn [tmode].
  pose proof (load_mode_plain i m Em) as Hm. destruct m; [constructor|exact Hm].
Qed.

Theorem load_screens tb t : load tb = Some t -> Forall (fun f => plain_path (fpath f)) (files_of t).
Proof.
  unfold load. destruct (wdecode _ tb) as [[v r]|]; [|discriminate]. apply load_value_plain.
Qed.

(** ... and so does the typed loader the command uses ([typed_rejects_more]) *)
Theorem load_typed_screens hd un tb t :
  load_typed hd un tb = Some t -> Forall (fun f => plain_path (fpath f)) (files_of t).
Proof. intros Hl. exact (load_screens tb t (typed_rejects_more hd un tb t Hl)). Qed.

(** the same at the level of the stored dictionary: a multi-file torrent (no usable single-file
    reading) that lists a component which is not a plain name is not loaded at all *)
Lemma load_file_rejects d l s :
  dlookup K_path d = Some (Lst l) -> In (Str s) l -> plain s = false -> load_file (Dict d) = None.
Proof.
  intros Hp Hin Hs. unfold load_file. destruct (dlookup K_length d) as [lv|]; [|reflexivity].
  rewrite Hp, (load_path_rejects l s Hin Hs). destruct (load_u64 lv); reflexivity.
Qed.

Lemma load_multiple_rejects i fl d l s :
  dlookup K_files i = Some (Lst fl) -> In (Dict d) fl ->
  dlookup K_path d = Some (Lst l) -> In (Str s) l -> plain s = false -> load_multiple i = None.
Proof.
  intros Hf Hin Hp Hs Hpl. unfold load_multiple. rewrite Hf.
  rewrite (mapM_none load_file fl (Dict d) Hin (load_file_rejects d l s Hp Hs Hpl)). reflexivity.
Qed.

Theorem load_info_rejects i fl d l s :
  dlookup K_length i = None ->
  dlookup K_files i = Some (Lst fl) -> In (Dict d) fl ->
  dlookup K_path d = Some (Lst l) -> In (Str s) l -> plain s = false -> load_info i = None.
Proof.
  intros Hlen Hf Hin Hp Hs Hpl.
  assert (Hm : load_mode i = None).
  { unfold load_mode, load_single. rewrite Hlen. eapply load_multiple_rejects; eassumption. }
  unfold load_info. rewrite Hm.
  destruct (dlookup K_name i) as [nv|]; [|reflexivity].
  destruct (dlookup K_piece_length i) as [plv|]; [|reflexivity].
  destruct (dlookup K_pieces i) as [pv|]; [|reflexivity].
  destruct (load_string nv); [|reflexivity]. destruct (load_u64 plv); [|reflexivity].
  destruct (load_pieces pv); reflexivity.
Qed.

(** ** the three-way choice of the content root *)
Theorem content_root_rule base input name :
  (forall c, content_root (Some c) base input name = c) /\
  (forall b, content_root None (Some b) input name = lexiclean (push b name)) /\
  (forall p, content_root None None (TPath p) name = lexiclean (push (push p [DOT; DOT]) name)) /\
  content_root None None TStdin name = name.
Proof. repeat split. Qed.

Section VerifyProofs.
Variable H : bytes -> bytes.
Variable MD5 : bytes -> bytes.
Variable sch : nat -> N.
Notation feed := (feed H).
Notation read_loop := (read_loop H sch).
Notation hash_path := (hash_path H sch).
Notation finish := (finish H).
Notation status := (status MD5).
Notation run_entries := (run_entries H MD5 sch).
Notation verify_metainfo := (verify_metainfo H MD5 sch).
Notation verify := (verify H MD5 sch).
Notation holds_file := (holds_file MD5).
Notation file_ok := (file_ok MD5).
Notation spec_good := (spec_good H MD5).

Lemma blen_app a b : blen (a ++ b) = blen a + blen b.
Proof. unfold blen. rewrite app_length. lia. Qed.

(** ** the read loop: invariant *)
Definition Inv (p : N) (consumed : bytes) (st : hst) : Prop :=
  exists full, consumed = concat full ++ open_ st /\
               Forall (fun b => length b = N.to_nat p) full /\
               closed st = map H full /\
               blen (open_ st) < p.

Lemma legal_bounds s w n : 0 < w -> 0 < n -> 1 <= legal s w n <= N.min w n.
Proof.
  intros Hw Hn. unfold legal.
  destruct (w =? 0) eqn:E1; [lia|]. destruct (n =? 0) eqn:E2; [lia|]. cbn [orb].
  assert (s mod N.min w n < N.min w n) by (apply N.mod_lt; lia). lia.
Qed.

Lemma legal_zero s w n : legal s w n = 0 -> w = 0 \/ n = 0.
Proof.
  unfold legal. destruct (w =? 0) eqn:E1; [lia|]. destruct (n =? 0) eqn:E2; [lia|]. cbn [orb]. lia.
Qed.

Lemma feed_inv p c st blk :
  Inv p c st -> blen (open_ st) + blen blk <= p -> Inv p (c ++ blk) (feed p st blk).
Proof.
  intros (full & Hc & Hf & Hcl & Ho) Hlen. unfold Verify.feed.
  destruct (blen (open_ st ++ blk) =? p) eqn:E.
  - exists (full ++ [open_ st ++ blk]). cbn [open_ closed]. repeat split.
    + rewrite concat_app. cbn [concat]. rewrite !app_nil_r. rewrite Hc, <- app_assoc. reflexivity.
    + apply Forall_app. split; [exact Hf|]. constructor; [|constructor]. unfold blen in E. lia.
    + rewrite map_app, Hcl. reflexivity.
    + unfold blen. cbn [length]. lia.
  - exists full. cbn [open_ closed]. repeat split; try assumption.
    + rewrite Hc, <- app_assoc. reflexivity.
    + rewrite blen_app in *. lia.
Qed.

Lemma read_loop_inv p (Hp : 0 < p) :
  forall fuel i st data c,
    (length data < fuel)%nat -> Inv p c st ->
    exists st' i', read_loop fuel p i st data = Some (st', i') /\ Inv p (c ++ data) st'.
Proof.
  induction fuel as [|f IH]; intros i st data c Hfuel HI; [lia|].
  cbn [Verify.read_loop].
  assert (Ho : blen (open_ st) < p) by (destruct HI as (? & _ & _ & _ & ?); assumption).
  destruct (legal (sch i) (p - blen (open_ st)) (blen data) =? 0) eqn:E.
  - apply N.eqb_eq in E. apply legal_zero in E. destruct E as [E|E]; [lia|].
    assert (data = []) by (destruct data; [reflexivity|unfold blen in E; cbn [length] in E; lia]).
    subst data. rewrite app_nil_r. eauto.
  - apply N.eqb_neq in E.
    assert (Hn : 0 < blen data).
    { destruct data; [|unfold blen; cbn [length]; lia]. exfalso. apply E. unfold legal.
      cbn. rewrite orb_true_r. reflexivity. }
    pose proof (legal_bounds (sch i) (p - blen (open_ st)) (blen data) ltac:(lia) Hn) as Hb.
    set (k := legal (sch i) (p - blen (open_ st)) (blen data)) in *.
    assert (Hk : (N.to_nat k <= length data)%nat) by (unfold blen in Hb; lia).
    destruct (IH (S i) (feed p st (firstn (N.to_nat k) data)) (skipn (N.to_nat k) data)
                 (c ++ firstn (N.to_nat k) data)) as (st' & i' & Hr & HI').
    + rewrite skipn_length. lia.
    + apply feed_inv; [exact HI|]. unfold blen in *. rewrite firstn_length. lia.
    + exists st', i'. split; [exact Hr|]. rewrite <- app_assoc, firstn_skipn in HI'. exact HI'.
Qed.

Definition content_at (fs : node) (path : bytes) : bytes :=
  match resolve fs path with Some (File c) => c | _ => [] end.

Lemma hash_path_inv p (Hp : 0 < p) fs st path c :
  Inv p c (fst st) ->
  exists st', hash_path fs p st path = Some st' /\ Inv p (c ++ content_at fs path) (fst st').
Proof.
  intros HI. unfold Verify.hash_path, content_at.
  destruct (resolve fs path) as [[x|ch]|].
  - destruct (read_loop_inv p Hp (S (length x)) (snd st) (fst st) x c ltac:(lia) HI) as (st' & i' & Hr & HI').
    exists (st', i'). split; [exact Hr|exact HI'].
  - exists st. rewrite app_nil_r. auto.
  - exists st. rewrite app_nil_r. auto.
Qed.

Lemma run_entries_inv p (Hp : 0 < p) fs : forall es st c,
  Inv p c (fst st) ->
  exists st', run_entries fs p st es = Some (st', map (status fs) es) /\
              Inv p (c ++ concat (map (content fs) es)) (fst st').
Proof.
  induction es as [|e r IH]; intros st c HI; cbn [Verify.run_entries map concat].
  - exists st. rewrite app_nil_r. auto.
  - destruct (hash_path_inv p Hp fs st (epath e) c HI) as (st1 & Hh & HI1). rewrite Hh.
    destruct (IH st1 _ HI1) as (st2 & Hr & HI2). rewrite Hr.
    exists st2. split; [reflexivity|]. rewrite app_assoc. exact HI2.
Qed.

Lemma finish_spec p (Hp : 0 < p) c st : Inv p c st -> finish st = map H (chunks (N.to_nat p) c).
Proof.
  intros (full & Hc & Hf & Hcl & Ho). subst c.
  rewrite (chunks_concat_full (N.to_nat p) ltac:(lia) full (open_ st) Hf ltac:(unfold blen in Ho; lia)).
  unfold Verify.finish. rewrite map_app, Hcl. destruct (open_ st); [rewrite app_nil_r|]; reflexivity.
Qed.

Lemma Inv0 p : 0 < p -> Inv p [] hst0.
Proof. intros Hp. exists []. cbn. repeat split; auto. Qed.

(** the hashing side for every schedule of short reads: one SHA-1 per piece of the concatenation *)
Theorem verify_metainfo_spec p (Hp : 0 < p) fs root t :
  verify_metainfo p fs root t =
  Some (digests_eqb (map H (chunks (N.to_nat p) (concat (map (content fs) (entries root t))))) (tpieces t),
        map (status fs) (entries root t)).
Proof.
  unfold Verify.verify_metainfo.
  destruct (run_entries_inv p Hp fs (entries root t) (hst0, O) [] (Inv0 p Hp)) as (st' & Hr & HI).
  rewrite Hr. cbn [app] in HI. rewrite (finish_spec p Hp _ _ HI). reflexivity.
Qed.

(** with an empty window nothing is read: this is what made piece length zero verify unhashed *)
Lemma run_entries_zero fs : forall es st,
  run_entries fs 0 st es = Some ((fst st, (snd st + length (filter (fun e => match resolve fs (epath e) with Some (File _) => true | _ => false end) es))%nat), map (status fs) es).
Proof.
  induction es as [|e r IH]; intros [st i]; cbn [Verify.run_entries map filter length fst snd].
  - rewrite Nat.add_0_r. reflexivity.
  - unfold Verify.hash_path. destruct (resolve fs (epath e)) as [[x|ch]|]; cbn [fst snd].
    + cbn [Verify.read_loop]. unfold legal. cbn [N.sub N.eqb orb]. rewrite IH. cbn [fst snd length].
      rewrite Nat.add_succ_r. reflexivity.
    + rewrite IH. reflexivity.
    + rewrite IH. reflexivity.
Qed.

(** ** verdict = declarative statement *)
Lemma digests_eqb_spec a : forall b, digests_eqb a b = true <-> a = b.
Proof.
  induction a as [|x a IH]; intros [|y b]; cbn [digests_eqb]; split; intros E;
    try reflexivity; try discriminate.
  - apply andb_prop in E. destruct E as [E1 E2]. apply bytes_eqb_eq in E1. apply IH in E2. congruence.
  - inversion E; subst. apply andb_true_intro. split; [apply bytes_eqb_refl|apply IH; reflexivity].
Qed.

Lemma status_good_iff fs e : is_good (status fs e) = true <-> file_ok fs e.
Proof.
  unfold Verify.status, Verify.file_ok, Verify.holds_file. destruct (resolve fs (epath e)) as [[c|ch]|].
  - destruct (elen e <? blen c) eqn:E1.
    { split; [discriminate|]. intros (c' & E & L & _). inversion E; subst. lia. }
    destruct (blen c <? elen e) eqn:E2.
    { split; [discriminate|]. intros (c' & E & L & _). inversion E; subst. lia. }
    destruct (emd5 e) as [m|].
    + destruct (bytes_eqb (MD5 c) m) eqn:E.
      * apply bytes_eqb_eq in E. split; [|reflexivity]. intros _. exists c. repeat split; [lia|exact E].
      * split; [discriminate|]. intros (c' & E' & _ & M). inversion E'; subst c'.
        apply bytes_eqb_eq in M. congruence.
    + split; [|reflexivity]. intros _. exists c. repeat split. lia.
  - split; [discriminate|]. intros (c & E & _). discriminate.
  - split; [discriminate|]. intros (c & E & _). discriminate.
Qed.

Lemma holds_content fs es cs : Forall2 (holds_file fs) es cs -> cs = map (content fs) es.
Proof.
  induction 1 as [|e c es cs He _ IH]; [reflexivity|]. cbn [map]. f_equal; [|exact IH].
  destruct He as (E & _). unfold Verify.content. rewrite E. reflexivity.
Qed.

Lemma file_ok_holds fs es : Forall (file_ok fs) es -> Forall2 (holds_file fs) es (map (content fs) es).
Proof.
  induction 1 as [|e es (c & He) _ IH]; [constructor|]. cbn [map]. constructor; [|exact IH].
  assert (content fs e = c) as -> by (destruct He as (E & _); unfold Verify.content; rewrite E; reflexivity).
  exact He.
Qed.

Theorem verify_iff_spec p (Hp : 0 < p) fs root t :
  exists s, verify_metainfo p fs root t = Some s /\ (status_good s = true <-> spec_good p fs root t).
Proof.
  eexists. split; [apply verify_metainfo_spec; exact Hp|].
  unfold status_good, Verify.spec_good. cbn [fst snd].
  rewrite andb_true_iff, digests_eqb_spec, forallb_forall. split.
  - intros [Hpieces Hst]. exists (map (content fs) (entries root t)). split; [|exact Hpieces].
    apply file_ok_holds. apply Forall_forall. intros e He. apply status_good_iff.
    apply Hst. apply in_map. exact He.
  - intros (cs & Hh & Hpieces). rewrite (holds_content _ _ _ Hh) in Hpieces. split; [exact Hpieces|].
    intros s Hs. apply in_map_iff in Hs. destruct Hs as (e & <- & He).
    apply status_good_iff. rewrite (holds_content _ _ _ Hh) in Hh.
    clear Hpieces. induction (entries root t) as [|e' es IH]; [contradiction|].
    cbn [map] in Hh. inversion Hh; subst. destruct He as [->|He]; [eexists; eassumption|apply IH; assumption].
Qed.

Lemma verifier_new_some t p : verifier_new t = Some p <-> p = tplen t /\ 0 < tplen t < 2 ^ 32.
Proof.
  unfold verifier_new. destruct (2 ^ 32 <=? tplen t) eqn:E1; [split; [discriminate|lia]|].
  destruct (tplen t =? 0) eqn:E2; [split; [discriminate|lia]|].
  split; [intros E; inversion E; lia|intros [-> _]; reflexivity].
Qed.

(** ** the command: it loads through the typed loader ([load_typed], Proofs/LoaderProofs.v) *)
Variable host_disp : bytes -> option bytes.
Variable url_norm : bytes -> option bytes.
Notation load_typed := (load_typed host_disp url_norm).
Notation verify_cmd := (verify_cmd H MD5 sch host_disp url_norm).

(** the fuel of the read loop always suffices: the command always has an outcome *)
Theorem verify_cmd_total fs cwd content base input tb : verify_cmd fs cwd content base input tb <> None.
Proof.
  unfold Verify.verify_cmd. destruct (negb (args_ok content base input)); [discriminate|].
  destruct (load_typed tb) as [t|]; [|discriminate].
  destruct (env_resolve cwd _) as [root|]; [|discriminate].
  destruct (verifier_new t) as [p|] eqn:Ep; [|discriminate].
  apply verifier_new_some in Ep. destruct Ep as [-> Hr].
  rewrite (verify_metainfo_spec (tplen t) ltac:(lia) fs root t).
  discriminate.
Qed.

(** C03, at the level of the command: exit 0 exactly when ... *)
Theorem verify_cmd_success_iff fs cwd content base input tb :
  verify_cmd fs cwd content base input tb = Some Success <->
  args_ok content base input = true /\
  exists t root, load_typed tb = Some t /\
                 env_resolve cwd (content_root content base input (tname t)) = Some root /\
                 0 < tplen t < 2 ^ 32 /\
                 spec_good (tplen t) fs root t.
Proof.
  unfold Verify.verify_cmd. destruct (args_ok content base input); cbn [negb];
    [|split; [discriminate|intros [? _]; discriminate]].
  destruct (load_typed tb) as [t|]; [|split; [discriminate|intros (_ & t & r & ? & _); discriminate]].
  destruct (env_resolve cwd _) as [root|] eqn:Er;
    [|split; [discriminate|intros (_ & t' & r & E & E' & _); inversion E; subst; congruence]].
  destruct (verifier_new t) as [p|] eqn:Ep.
  - apply verifier_new_some in Ep. destruct Ep as [-> Hr].
    destruct (verify_iff_spec (tplen t) ltac:(lia) fs root t) as (s & Hs & Hiff). rewrite Hs.
    split.
    + destruct (status_good s) eqn:Eg; [|discriminate]. intros _. split; [reflexivity|].
      exists t, root. repeat split; try lia; try assumption. apply Hiff. reflexivity.
    + intros (_ & t' & r & E & E' & _ & Hg). inversion E; subst t'.
      assert (r = root) by congruence. subst r. apply Hiff in Hg. rewrite Hg. reflexivity.
  - split; [discriminate|]. intros (_ & t' & r & E & _ & Hr & _). inversion E; subst t'.
    assert (Hn : verifier_new t = Some (tplen t)) by (apply verifier_new_some; split; [reflexivity|exact Hr]).
    congruence.
Qed.

(** never success when nothing can have been hashed *)
Theorem never_good_unhashed fs cwd content base input tb t :
  load_typed tb = Some t -> tplen t = 0 -> verify_cmd fs cwd content base input tb <> Some Success.
Proof.
  intros Hl Hz Hs. apply verify_cmd_success_iff in Hs.
  destruct Hs as (_ & t' & r & E & _ & Hr & _). assert (t' = t) by congruence. subst t'. lia.
Qed.

Theorem verify_zero_false fs root t : tplen t = 0 -> verify fs root t = Some false.
Proof. intros Hz. unfold Verify.verify, verifier_new. rewrite Hz. reflexivity. Qed.

(** ** C13: the verdict depends on the filesystem only through what the root resolves to *)
Lemma run_entries_ext fs fs' p : forall es st,
  (forall e, In e es -> resolve fs (epath e) = resolve fs' (epath e)) ->
  run_entries fs p st es = run_entries fs' p st es.
Proof.
  induction es as [|e r IH]; intros st Hext; [reflexivity|]. cbn [Verify.run_entries].
  assert (He : resolve fs (epath e) = resolve fs' (epath e)) by (apply Hext; left; reflexivity).
  unfold Verify.hash_path, Verify.status. rewrite He.
  destruct (match resolve fs' (epath e) with Some (File c) => _ | _ => _ end) as [st1|]; [|reflexivity].
  rewrite (IH st1) by (intros e' He'; apply Hext; right; exact He'). reflexivity.
Qed.

Lemma entries_confined fs fs' root t :
  Forall (fun f => plain_path (fpath f)) (files_of t) ->
  resolve fs root = resolve fs' root ->
  forall e, In e (entries root t) -> resolve fs (epath e) = resolve fs' (epath e).
Proof.
  intros Hpl Hroot e He. unfold entries in He. unfold files_of in Hpl. destruct (tmode t) as [len md5|fs0].
  - destruct He as [<-|[]]. exact Hroot.
  - apply in_map_iff in He. destruct He as (f & <- & Hf). cbn [epath].
    rewrite Forall_forall in Hpl. specialize (Hpl f Hf).
    rewrite !(resolve_absolute_plain _ _ _ Hpl), Hroot. reflexivity.
Qed.

Theorem verify_metainfo_confined fs fs' p root t :
  Forall (fun f => plain_path (fpath f)) (files_of t) ->
  resolve fs root = resolve fs' root ->
  verify_metainfo p fs root t = verify_metainfo p fs' root t.
Proof.
  intros Hpl Hroot. unfold Verify.verify_metainfo.
  rewrite (run_entries_ext fs fs' p _ _ (entries_confined fs fs' root t Hpl Hroot)). reflexivity.
Qed.

Theorem verify_cmd_confined fs fs' cwd content base input tb :
  (forall t root, load_typed tb = Some t ->
                  env_resolve cwd (content_root content base input (tname t)) = Some root ->
                  resolve fs root = resolve fs' root) ->
  verify_cmd fs cwd content base input tb = verify_cmd fs' cwd content base input tb.
Proof.
  intros Hsame. pose proof (load_typed_screens host_disp url_norm tb) as Hscr.
  unfold Verify.verify_cmd. destruct (negb (args_ok content base input)); [reflexivity|].
  destruct (load_typed tb) as [t|]; [|reflexivity].
  destruct (env_resolve cwd _) as [root|] eqn:Er; [|reflexivity].
  destruct (verifier_new t) as [p|]; [|reflexivity].
  rewrite (verify_metainfo_confined fs fs' p root t (Hscr t eq_refl) (Hsame t root eq_refl Er)).
  reflexivity.
Qed.

(** success implies: every listed path consists of plain names, is found by descending from
    the root's own node, and does not leave the root lexically *)
Theorem success_confined fs cwd content base input tb :
  verify_cmd fs cwd content base input tb = Some Success ->
  exists t root, load_typed tb = Some t /\
    env_resolve cwd (content_root content base input (tname t)) = Some root /\
    forall f, In f (files_of t) ->
      plain_path (fpath f) /\
      lex_escapes root (fpath f) = false /\
      resolve fs (absolute root (fpath f)) =
        match resolve fs root with Some r => lookup r (fpath f) | None => None end.
Proof.
  intros Hs. apply verify_cmd_success_iff in Hs. destruct Hs as (_ & t & root & El & Er & _ & _).
  exists t, root. split; [exact El|]. split; [exact Er|]. intros f Hf.
  pose proof (load_typed_screens host_disp url_norm tb t El) as Hpl. rewrite Forall_forall in Hpl. specialize (Hpl f Hf).
  split; [exact Hpl|]. split; [apply plain_never_escapes; exact Hpl|apply resolve_absolute_plain; exact Hpl].
Qed.

(** whatever lies outside the root: a torrent that lists an escaping path never succeeds *)
Theorem escape_never_good fs cwd content base input tb t :
  load_typed tb = Some t ->
  (exists f root, In f (files_of t) /\ lex_escapes root (fpath f) = true) ->
  verify_cmd fs cwd content base input tb <> Some Success.
Proof.
  intros El (f & root & Hf & He) _.
  pose proof (load_typed_screens host_disp url_norm tb t El) as Hpl. rewrite Forall_forall in Hpl.
  rewrite (plain_never_escapes root (fpath f) (Hpl f Hf)) in He. discriminate.
Qed.

End VerifyProofs.
