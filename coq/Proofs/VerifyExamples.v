(** Concrete instances showing that the hypotheses of the C03 / C13 theorems are satisfiable and
    that the outcomes are not vacuous. The stand-in "hash" keeps the first 20 bytes, zero padded. *)
From Coq Require Import NArith ZArith List Bool.
From Imdl Require Import Base.Chunks Model.Bencode Model.Fs Model.Verify.
Import ListNotations.
Local Open Scope N_scope.

Definition xhash (b : bytes) : bytes := firstn 20 (b ++ repeat 0 20).
Definition xsch (i : nat) : N := N.of_nat i.
(** stand-ins for the url crate: every host and URL accepted, shown as written *)
Definition xid (b : bytes) : option bytes := Some b.
Definition xnone (b : bytes) : option bytes := None.

Definition hi : bytes := [104; 105; 33].                       (* "hi!" *)
Definition cwd_w : bytes := [SEP; 119].                         (* /w *)

(** /w/f = "hi!" ; /w/r/f = "hi!" ; /w/decoy = "hi!" *)
Definition ex_fs : node :=
  Dir [([119], Dir [([102], File hi); ([114], Dir [([102], File hi)]); ([100;101;99;111;121], File hi)])].

Definition ex_single (p : Z) (pieces : bytes) : bytes :=
  encode (Dict [(K_info, Dict [(K_length, Int 3); (K_name, Str [102]); (K_piece_length, Int p);
                               (K_pieces, Str pieces)])]).

Definition ex_multi (path : list value) : bytes :=
  encode (Dict [(K_info, Dict [(K_files, Lst [Dict [(K_length, Int 3); (K_path, Lst path)]]);
                               (K_name, Str [114]); (K_piece_length, Int 4); (K_pieces, Str (xhash hi))])]).

Definition run (tb : bytes) : option outcome :=
  verify_cmd xhash xhash xsch xid xid ex_fs cwd_w None None TStdin tb.

Example ex_single_success : run (ex_single 2 (xhash [104; 105] ++ xhash [33])) = Some Success.
Proof. vm_compute. reflexivity. Qed.

Example ex_single_missing_hash_fails : run (ex_single 2 (xhash [104; 105])) = Some Failed.
Proof. vm_compute. reflexivity. Qed.

Example ex_single_surplus_hash_fails :
  run (ex_single 2 (xhash [104; 105] ++ xhash [33] ++ xhash [33])) = Some Failed.
Proof. vm_compute. reflexivity. Qed.

(** the witness of the repaired defect: {length 3, piece length 0, pieces ""} against a 3-byte file *)
Example ex_zero_piece_length_rejected :
  exists t, load_typed xid xid (ex_single 0 []) = Some t /\ tplen t = 0 /\ run (ex_single 0 []) = Some Rejected.
Proof. eexists. split; [vm_compute; reflexivity|]. split; vm_compute; reflexivity. Qed.

Example ex_multi_success : run (ex_multi [Str [102]]) = Some Success.
Proof. vm_compute. reflexivity. Qed.

(** ["..", "decoy"]: the kernel's walk would find the matching decoy outside the root and the path
    leaves the root lexically - and the loader refuses the torrent *)
Example ex_escape_rejected :
  let comps := [[DOT; DOT]; [100;101;99;111;121]] in
  let root := cwd_w ++ [SEP; 114] in
  resolve ex_fs (absolute root comps) = Some (File hi) /\
  lex_escapes root comps = true /\
  load (ex_multi (map Str comps)) = None /\ load_typed xid xid (ex_multi (map Str comps)) = None /\
  run (ex_multi (map Str comps)) = Some Rejected.
Proof. vm_compute. repeat split; reflexivity. Qed.

(** an absolute component replaces the root ([PathBuf::push]) *)
Example ex_absolute_rejected :
  let comps := [cwd_w ++ [SEP; 100;101;99;111;121]] in
  let root := cwd_w ++ [SEP; 114] in
  resolve ex_fs (absolute root comps) = Some (File hi) /\
  lex_escapes root comps = true /\
  run (ex_multi (map Str comps)) = Some Rejected.
Proof. vm_compute. repeat split; reflexivity. Qed.

(** the three root rules on concrete arguments: --content c ; --base-directory b ; sibling of the
    torrent file ; the name itself on stdin *)
Example ex_roots :
  let name := [114] in
  env_resolve cwd_w (content_root (Some [99]) None (TPath [116]) name) = Some (cwd_w ++ [SEP; 99]) /\
  env_resolve cwd_w (content_root None (Some [98]) (TPath [116]) name) = Some (cwd_w ++ [SEP; 98; SEP; 114]) /\
  env_resolve cwd_w (content_root None None (TPath [115; SEP; 116]) name) = Some (cwd_w ++ [SEP; 115; SEP; 114]) /\
  env_resolve cwd_w (content_root None None TStdin name) = Some (cwd_w ++ [SEP; 114]).
Proof. vm_compute. repeat split; reflexivity. Qed.

Example ex_confined_hyp : resolve ex_fs (cwd_w ++ [SEP; 114]) = Some (Dir [([102], File hi)]).
Proof. vm_compute. reflexivity. Qed.
