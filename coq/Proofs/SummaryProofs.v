(** Proofs about Model/Summary.v against Model/SummarySpec.v (C07). *)
From Coq Require Import Decimal DecimalN DecimalFacts.
From Coq Require Import Ascii String.
From Coq Require Import NArith ZArith Lia ZifyN ZifyBool Bool List Permutation Sorted.
From Imdl Require Import Model.Bencode Model.BencodeWide Proofs.BencodeProofs Model.Summary Model.SummarySpec.
Import ListNotations.
Local Open Scope N_scope.

(* ---------- the u64 sum ---------- *)
Lemma checked_sum_spec l : forall acc s,
  acc < u64_mod -> checked_sum acc l = Some s -> s = acc + list_sum l /\ s < u64_mod.
Proof.
  induction l as [|x r IH]; intros acc s Hacc H; cbn [checked_sum list_sum] in *.
  - inversion H; subst. split; [lia|exact Hacc].
  - unfold checked_add in H. cbv zeta in H. destruct (acc + x <? u64_mod) eqn:E; [|discriminate].
    apply N.ltb_lt in E. destruct (IH _ _ E H) as [H1 H2]. split; [lia|exact H2].
Qed.

Lemma checked_sum_complete l : forall acc,
  acc + list_sum l < u64_mod -> checked_sum acc l = Some (acc + list_sum l).
Proof.
  induction l as [|x r IH]; intros acc H; cbn [checked_sum list_sum] in *.
  - f_equal. lia.
  - unfold checked_add. cbv zeta. assert (E : acc + x <? u64_mod = true) by (apply N.ltb_lt; lia).
    rewrite E. rewrite IH by lia. f_equal. lia.
Qed.

Lemma wrapping_sum_exact l : forall acc s,
  acc < u64_mod -> checked_sum acc l = Some s ->
  fold_left (fun a x => (a + x) mod u64_mod) l acc = s.
Proof.
  induction l as [|x r IH]; intros acc s Hacc H; cbn [checked_sum fold_left] in *.
  - inversion H; reflexivity.
  - unfold checked_add in H. cbv zeta in H. destruct (acc + x <? u64_mod) eqn:E; [|discriminate].
    apply N.ltb_lt in E. rewrite N.mod_small by exact E. apply IH; assumption.
Qed.

Lemma u64_mod_pos : 0 < u64_mod.
Proof. reflexivity. Qed.

Definition total_length (md : mode) : N :=
  match md with Single n _ => n | Multiple fs => list_sum (map f_length fs) end.

(** accepted  =>  the debug fold does not overflow, the release fold does not wrap, both are the true sum *)
Lemma content_size_exact md :
  content_size_fits md = true ->
  content_size_debug md = Some (total_length md) /\ content_size_release md = total_length md /\
  (match md with Single _ _ => True | Multiple _ => total_length md < u64_mod end).
Proof.
  destruct md as [n|fs]; cbn [content_size_fits content_size_debug content_size_release total_length].
  - auto.
  - destruct (checked_sum 0 (map f_length fs)) as [s|] eqn:E; [|discriminate]. intros _.
    destruct (checked_sum_spec _ _ _ u64_mod_pos E) as [H1 H2]. rewrite N.add_0_l in H1. subst s.
    repeat split; [|exact H2]. apply wrapping_sum_exact; [exact u64_mod_pos|exact E].
Qed.

(** a sum that does not fit is rejected by the loader's check, never reported wrapped *)
Lemma overflow_not_fit fs : u64_mod <= list_sum (map f_length fs) -> content_size_fits (Multiple fs) = false.
Proof.
  intros H. cbn [content_size_fits]. destruct (checked_sum 0 (map f_length fs)) as [s|] eqn:E; [|reflexivity].
  destruct (checked_sum_spec _ _ _ u64_mod_pos E) as [H1 H2]. lia.
Qed.

Lemma fits_iff fs : content_size_fits (Multiple fs) = true <-> list_sum (map f_length fs) < u64_mod.
Proof.
  split.
  - intros H. destruct (content_size_exact _ H) as (_ & _ & H3). exact H3.
  - intros H. cbn [content_size_fits]. rewrite (checked_sum_complete _ 0) by (rewrite N.add_0_l; exact H). reflexivity.
Qed.

(* ---------- typed readers against raw lookups ---------- *)
Lemma as_string_inv v s : as_string v = Some s -> v = Str s.
Proof. destruct v; cbn; try discriminate. destruct (utf8_valid s0); [|discriminate]. intros H; inversion H; reflexivity. Qed.

Lemma as_uint_inv b v n : as_uint b v = Some n -> exists z, v = Int z /\ n = Z.to_N z /\ (0 <= z < 2 ^ Z.of_N b)%Z.
Proof.
  destruct v; cbn; try discriminate.
  destruct ((0 <=? z)%Z && (z <? 2 ^ Z.of_N b)%Z) eqn:E; [|discriminate].
  intros H; inversion H; subst. exists z. repeat split; lia.
Qed.

Lemma opt_inv {B} (f : value -> option B) k d o :
  opt f k d = Some o ->
  (lookup k d = None /\ o = None) \/ (exists v x, lookup k d = Some v /\ f v = Some x /\ o = Some x).
Proof.
  unfold opt. destruct (lookup k d) as [v|].
  - destruct (f v) as [x|] eqn:E; [|discriminate]. intros H; inversion H; subst. right. eauto.
  - intros H; inversion H; subst. left. auto.
Qed.

Lemma req_inv {B} (f : value -> option B) k d x :
  req f k d = Some x -> exists v, lookup k d = Some v /\ f v = Some x.
Proof. unfold req. destruct (lookup k d) as [v|]; [|discriminate]. eauto. Qed.

Lemma opt_string_get k d o : opt as_string k d = Some o -> get_str k d = o.
Proof.
  intros H. unfold get_str. destruct (opt_inv _ _ _ _ H) as [[E ->]|(v & x & E & F & ->)]; rewrite E; [reflexivity|].
  apply as_string_inv in F. subst v. reflexivity.
Qed.

Lemma req_string_get k d s : req as_string k d = Some s -> get_str k d = Some s.
Proof.
  intros H. destruct (req_inv _ _ _ _ H) as (v & E & F). apply as_string_inv in F. subst v.
  unfold get_str. rewrite E. reflexivity.
Qed.

Lemma opt_uint_get b k d o : opt (as_uint b) k d = Some o -> get_nat k d = o.
Proof.
  intros H. unfold get_nat. destruct (opt_inv _ _ _ _ H) as [[E ->]|(v & x & E & F & ->)]; rewrite E; [reflexivity|].
  destruct (as_uint_inv _ _ _ F) as (z & -> & -> & _). reflexivity.
Qed.

Lemma req_uint_get b k d n : req (as_uint b) k d = Some n -> get_nat k d = Some n.
Proof.
  intros H. destruct (req_inv _ _ _ _ H) as (v & E & F).
  destruct (as_uint_inv _ _ _ F) as (z & -> & -> & _). unfold get_nat. rewrite E. reflexivity.
Qed.

Lemma opt_bool_get k d o :
  opt as_bool k d = Some o ->
  (match o with Some b => b | None => false end) = (match get_nat k d with Some 1 => true | _ => false end).
Proof.
  intros H. unfold get_nat. destruct (opt_inv _ _ _ _ H) as [[E ->]|(v & x & E & F & ->)]; rewrite E; [reflexivity|].
  destruct v; cbn in F; try discriminate.
  destruct (z =? 0)%Z eqn:E0.
  - inversion F; subst. apply Z.eqb_eq in E0. subst z. reflexivity.
  - destruct (z =? 1)%Z eqn:E1; [|discriminate]. inversion F; subst. apply Z.eqb_eq in E1. subst z. reflexivity.
Qed.

Lemma map_opt_map {A B} (f : A -> option B) (g : A -> B) :
  (forall a b, f a = Some b -> g a = b) -> forall l l', map_opt f l = Some l' -> map g l = l'.
Proof.
  intros Hfg. induction l as [|a r IH]; intros l' H; cbn [map_opt map] in *.
  - inversion H; reflexivity.
  - destruct (f a) as [b|] eqn:E; [|discriminate]. destruct (map_opt f r) as [bs|]; [|discriminate].
    inversion H; subst. rewrite (Hfg _ _ E), (IH _ eq_refl). reflexivity.
Qed.

Lemma map_opt_length {A B} (f : A -> option B) : forall l l', map_opt f l = Some l' -> List.length l' = List.length l.
Proof.
  induction l as [|a r IH]; intros l' H; cbn [map_opt] in *.
  - inversion H; reflexivity.
  - destruct (f a) as [b|]; [|discriminate]. destruct (map_opt f r) as [bs|]; [|discriminate].
    inversion H; subst. cbn. rewrite (IH _ eq_refl). reflexivity.
Qed.

Lemma map_opt_Forall {A B} (f : A -> option B) (P : B -> Prop) :
  (forall a b, f a = Some b -> P b) -> forall l l', map_opt f l = Some l' -> Forall P l'.
Proof.
  intros Hf. induction l as [|a r IH]; intros l' H; cbn [map_opt] in *.
  - inversion H; constructor.
  - destruct (f a) as [b|] eqn:E; [|discriminate]. destruct (map_opt f r) as [bs|]; [|discriminate].
    inversion H; subst. constructor; eauto.
Qed.

Lemma as_strings_raw v l : as_list as_string v = Some l -> raw_strs v = l.
Proof.
  destruct v; cbn [as_list]; try discriminate. intros H. cbn [raw_strs].
  apply (map_opt_map as_string raw_str); [|exact H]. intros a b F. apply as_string_inv in F. subst a. reflexivity.
Qed.

Lemma opt_tiers_get k d o :
  opt (as_list (as_list as_string)) k d = Some o ->
  (match o with Some t => t | None => [] end) = raw_tiers (lookup k d).
Proof.
  intros H. destruct (opt_inv _ _ _ _ H) as [[E ->]|(v & x & E & F & ->)]; rewrite E; [reflexivity|].
  destruct v; cbn [as_list] in F; try discriminate. cbn [raw_tiers]. symmetry.
  apply (map_opt_map (as_list as_string) raw_strs); [|exact F]. intros a b. apply as_strings_raw.
Qed.

Section WithExternals.
  Variable cal : N -> option bytes.
  Variable human : N -> bytes.
  Variable host_disp : bytes -> option bytes.
  Variable url_norm : bytes -> option bytes.

  Lemma as_node_raw v t : as_node host_disp v = Some t -> raw_node host_disp v = t.
  Proof.
    destruct v as [| |l|]; cbn [as_node]; try discriminate.
    destruct l as [|h [|p [|x r]]]; try discriminate.
    destruct (as_string h) as [hs|] eqn:Eh; [|discriminate]. apply as_string_inv in Eh. subst h.
    destruct (as_uint 16 p) as [pn|] eqn:Ep; [|discriminate].
    destruct (as_uint_inv _ _ _ Ep) as (z & -> & -> & _).
    cbn [raw_node]. destruct (host_disp hs); [|discriminate]. intros H; inversion H; reflexivity.
  Qed.

  Lemma opt_nodes_get k d o :
    opt (as_list (as_node host_disp)) k d = Some o ->
    (match o with Some t => t | None => [] end) = raw_nodes host_disp (lookup k d).
  Proof.
    intros H. destruct (opt_inv _ _ _ _ H) as [[E ->]|(v & x & E & F & ->)]; rewrite E; [reflexivity|].
    destruct v; cbn [as_list] in F; try discriminate. cbn [raw_nodes]. symmetry.
    apply (map_opt_map (as_node host_disp) (raw_node host_disp)); [|exact F]. intros a b. apply as_node_raw.
  Qed.

  Lemma opt_url_get k d o :
    opt (as_url url_norm) k d = Some o ->
    (match get_str k d with Some s => url_norm s | None => None end) = o.
  Proof.
    intros H. unfold get_str. destruct (opt_inv _ _ _ _ H) as [[E ->]|(v & x & E & F & ->)]; rewrite E; [reflexivity|].
    unfold as_url in F. destruct (as_string v) as [s|] eqn:Es; [|discriminate]. apply as_string_inv in Es. subst v. exact F.
  Qed.

  Lemma as_pieces_inv v s : as_pieces v = Some s -> v = Str s /\ N.of_nat (List.length s) mod 20 = 0.
  Proof.
    destruct v; cbn; try discriminate. destruct (N.of_nat (List.length s0) mod 20 =? 0) eqn:E; [|discriminate].
    intros H; inversion H; subst. split; [reflexivity|]. apply N.eqb_eq. exact E.
  Qed.

  Lemma as_path_raw pv p :
    as_path pv = Some p -> raw_strs pv = p /\ Forall (fun c => normal_component c = true) p.
  Proof.
    intros Fp. unfold as_path in Fp. destruct pv; cbn [as_list] in Fp; try discriminate. cbn [raw_strs]. split.
    - apply (map_opt_map as_component raw_str); [|exact Fp].
      intros a b F. unfold as_component in F. destruct (as_string a) as [s|] eqn:Es; [|discriminate].
      apply as_string_inv in Es. subst a. destruct (normal_component s); [|discriminate]. inversion F; reflexivity.
    - apply (map_opt_Forall as_component _) with (l := l); [|exact Fp].
      intros a b F. unfold as_component in F. destruct (as_string a) as [s|]; [|discriminate].
      destruct (normal_component s) eqn:En'; [|discriminate]. inversion F; subst. exact En'.
  Qed.

  Lemma as_file_raw v f :
    as_file v = Some f -> raw_file_len v = f_length f /\ raw_file_path v = f_path f /\
                          Forall (fun c => normal_component c = true) (f_path f).
  Proof.
    destruct v as [| |l|d]; cbn [as_file]; try discriminate.
    - (* serde's sequence form *)
      destruct l as [|lv [|pv rest]]; try discriminate.
      destruct (as_uint 63 lv) as [n|] eqn:En; [|discriminate].
      destruct (as_path pv) as [p|] eqn:Ep; [|discriminate].
      destruct (as_uint_inv _ _ _ En) as (z & -> & -> & _).
      destruct (as_path_raw _ _ Ep) as (Hp1 & Hp2).
      assert (Hgoal : forall m, raw_file_len (Lst (Int z :: pv :: rest)) = f_length {| f_length := Z.to_N z; f_path := p; f_md5 := m |} /\
                                raw_file_path (Lst (Int z :: pv :: rest)) = f_path {| f_length := Z.to_N z; f_path := p; f_md5 := m |} /\
                                Forall (fun c => normal_component c = true) (f_path {| f_length := Z.to_N z; f_path := p; f_md5 := m |})).
      { intros m. cbn [raw_file_len raw_file_path f_length f_path]. repeat split; assumption. }
      destruct rest as [|mv [|x r]]; try discriminate.
      + intros H; inversion H; subst; clear H. apply Hgoal.
      + destruct (as_md5 mv); [|discriminate]. intros H; inversion H; subst; clear H. apply Hgoal.
    - destruct (req (as_uint 63) k_length d) as [n|] eqn:En; [|discriminate].
      destruct (req as_path k_path d) as [p|] eqn:Ep; [|discriminate].
      destruct (opt as_md5 k_md5sum d); [|discriminate].
      intros H; inversion H; subst; clear H. cbn [f_length f_path].
      unfold raw_file_len, raw_file_path. cbn [top_of].
      rewrite (req_uint_get _ _ _ _ En). cbn [nat_or_0].
      destruct (req_inv _ _ _ _ Ep) as (pv & Elp & Fp). rewrite Elp.
      destruct (as_path_raw _ _ Fp) as (Hp1 & Hp2). repeat split; assumption.
  Qed.

  (** which reading of the file list the loader took, and that the file really contains it *)
  Lemma as_mode_inv i md :
    as_mode i = Some md ->
    match md with
    | Single n _ => get_nat k_length i = Some n
    | Multiple fs =>
        exists l, lookup k_files i = Some (Lst l) /\ map raw_file_len l = map f_length fs /\
                  map raw_file_path l = map f_path fs /\
                  Forall (fun p => Forall (fun c => normal_component c = true) p) (map f_path fs)
    end.
  Proof.
    unfold as_mode. destruct (try_single i) as [m1|] eqn:E1.
    - intros H; inversion H; subst; clear H. unfold try_single in E1.
      destruct (req (as_uint 63) k_length i) as [n|] eqn:En; [|discriminate].
      destruct (opt as_md5 k_md5sum i); [|discriminate]. inversion E1; subst.
      apply (req_uint_get _ _ _ _ En).
    - unfold try_multiple. destruct (req (as_list as_file) k_files i) as [fs|] eqn:Ef; [|discriminate].
      intros H; inversion H; subst; clear H.
      destruct (req_inv _ _ _ _ Ef) as (fv & El & F). destruct fv; cbn [as_list] in F; try discriminate.
      exists l. split; [exact El|]. clear El Ef E1. revert fs F.
      induction l as [|a r IH]; intros fs F; cbn [map_opt] in F.
      + inversion F; subst. cbn. repeat split; constructor.
      + destruct (as_file a) as [f|] eqn:Ea; [|discriminate]. destruct (map_opt as_file r) as [fs'|]; [|discriminate].
        inversion F; subst; clear F. destruct (as_file_raw _ _ Ea) as (H1 & H2 & H3).
        destruct (IH _ eq_refl) as (I1 & I2 & I3). cbn [map]. rewrite H1, H2, I1, I2.
        repeat split. constructor; assumption.
  Qed.

  (* ---------- inversion of the whole loader ---------- *)
  Lemma typed_inv v m :
    typed_of_value host_disp url_norm v = Some m ->
    exists d i, v = Dict d /\ lookup k_info d = Some (Dict i) /\
      opt as_string k_announce d = Some (m_announce m) /\
      opt (as_list (as_list as_string)) k_announce_list d = Some (m_announce_list m) /\
      opt as_string k_comment d = Some (m_comment m) /\
      opt as_string k_created_by d = Some (m_created_by m) /\
      opt (as_uint 64) k_creation_date d = Some (m_creation_date m) /\
      opt (as_list (as_node host_disp)) k_nodes d = Some (m_nodes m) /\
      opt as_bool k_private i = Some (m_private m) /\
      req (as_uint 64) k_piece_length i = Some (m_piece_length m) /\
      req as_string k_name i = Some (m_name m) /\
      opt as_string k_source i = Some (m_source m) /\
      req as_pieces k_pieces i = Some (m_pieces m) /\
      as_mode i = Some (m_mode m) /\
      opt (as_url url_norm) k_update_url i = Some (m_update_url m) /\
      content_size_fits (m_mode m) = true.
  Proof.
    unfold typed_of_value. destruct v as [| | |d]; try discriminate.
    destruct (keys_utf8 d); [|discriminate].
    destruct (opt as_string k_announce d) as [x1|] eqn:Q1; [|discriminate].
    destruct (opt (as_list (as_list as_string)) k_announce_list d) as [x2|] eqn:Q2; [|discriminate].
    destruct (opt as_string k_comment d) as [x3|] eqn:Q3; [|discriminate].
    destruct (opt as_string k_created_by d) as [x4|] eqn:Q4; [|discriminate].
    destruct (opt (as_uint 64) k_creation_date d) as [x5|] eqn:Q5; [|discriminate].
    destruct (opt as_string k_encoding d) as [x6|] eqn:Q6; [|discriminate].
    destruct (opt (as_list (as_node host_disp)) k_nodes d) as [x7|] eqn:Q7; [|discriminate].
    destruct (lookup k_info d) as [iv|] eqn:Q8; [|discriminate].
    destruct iv as [| | |i]; try discriminate.
    destruct (keys_utf8 i); [|discriminate].
    destruct (opt as_bool k_private i) as [y1|] eqn:Q9; [|discriminate].
    destruct (req (as_uint 64) k_piece_length i) as [y2|] eqn:Q10; [|discriminate].
    destruct (req as_string k_name i) as [y3|] eqn:Q11; [|discriminate].
    destruct (opt as_string k_source i) as [y4|] eqn:Q12; [|discriminate].
    destruct (req as_pieces k_pieces i) as [y5|] eqn:Q13; [|discriminate].
    destruct (as_mode i) as [y6|] eqn:Q14; [|discriminate].
    destruct (opt (as_url url_norm) k_update_url i) as [y7|] eqn:Q15; [|discriminate].
    destruct (content_size_fits y6) eqn:Efit; [|discriminate].
    intros H; inversion H; subst; clear H. cbn.
    exists d, i. repeat split; assumption.
  Qed.

  (* ---------- every JSON field is the direct lookup ---------- *)
  Theorem json_is_direct_reading v m c input_len ih :
    typed_of_value host_disp url_norm v = Some m ->
    content_size_debug (m_mode m) = Some c ->
    json_of m c input_len ih = spec_json host_disp url_norm (is_single m) v input_len ih.
  Proof.
    intros Ht Hc.
    destruct (typed_inv _ _ Ht) as (d & i & -> & Ei & A1 & A2 & A3 & A4 & A5 & A7 & B1 & B2 & B3 & B4 & B5 & B6 & B7 & Fit).
    destruct (content_size_exact _ Fit) as (Hd & _ & _). rewrite Hd in Hc. inversion Hc; subst c; clear Hc.
    unfold spec_json, json_of. cbn zeta. unfold info_of. cbn [top_of]. rewrite Ei.
    rewrite (opt_string_get _ _ _ A1), (opt_string_get _ _ _ A3), (opt_string_get _ _ _ A4), (opt_uint_get _ _ _ _ A5).
    rewrite (req_string_get _ _ _ B3), (opt_string_get _ _ _ B4), (req_uint_get _ _ _ _ B2).
    rewrite (opt_url_get _ _ _ B7). rewrite <- (opt_tiers_get _ _ _ A2), <- (opt_nodes_get _ _ _ A7).
    unfold private_flag. rewrite (opt_bool_get _ _ _ B1).
    destruct (req_inv _ _ _ _ B5) as (pv & Ep & Fp). destruct (as_pieces_inv _ _ Fp) as (-> & _).
    unfold get_str at 1. rewrite Ep. cbn [str_or_nil nat_or_0]. unfold piece_count, file_count, file_paths, is_single, hex_text.
    pose proof (as_mode_inv _ _ B6) as Hm. destruct (m_mode m) as [n|fs]; cbn [total_length].
    - rewrite Hm. reflexivity.
    - destruct Hm as (l & El & L1 & L2 & _). unfold raw_files. rewrite El. rewrite L1.
      rewrite <- (map_length raw_file_len l), L1, map_length.
      replace (map (fun f => JvStr (joined_under (m_name m) (raw_file_path f))) l)
        with (map (fun p => JvStr (joined_under (m_name m) p)) (map raw_file_path l)) by (rewrite map_map; reflexivity).
      rewrite L2. reflexivity.
  Qed.

  (** the reading [spec_json] was given is present in the file *)
  Theorem mode_reading_present v m :
    typed_of_value host_disp url_norm v = Some m ->
    if is_single m then exists n, get_nat k_length (info_of v) = Some n /\ n < 2 ^ 63
    else exists l, lookup k_files (info_of v) = Some (Lst l).
  Proof.
    intros Ht.
    destruct (typed_inv _ _ Ht) as (d & i & -> & Ei & _ & _ & _ & _ & _ & _ & _ & _ & _ & _ & _ & B6 & _).
    unfold info_of. cbn [top_of]. rewrite Ei. unfold is_single.
    pose proof (as_mode_inv _ _ B6) as Hm. destruct (m_mode m) as [n|fs] eqn:Em.
    - exists n. split; [exact Hm|].
      unfold as_mode in B6. destruct (try_single i) as [m1|] eqn:E1.
      + unfold try_single in E1. destruct (req (as_uint 63) k_length i) as [n'|] eqn:En; [|discriminate].
        destruct (opt as_md5 k_md5sum i); [|discriminate]. inversion E1; subst. inversion B6; subst.
        destruct (req_inv _ _ _ _ En) as (lv & _ & F). destruct (as_uint_inv _ _ _ F) as (z & _ & -> & Hz).
        change (Z.of_N 63) with 63%Z in Hz. lia.
      + unfold try_multiple in B6. destruct (req (as_list as_file) k_files i); [|discriminate]. inversion B6.
    - destruct Hm as (l & El & _). eauto.
  Qed.

  (* ---------- content size, counts ---------- *)
  Theorem content_size_is_true_sum v m :
    typed_of_value host_disp url_norm v = Some m ->
    content_size_debug (m_mode m) = Some (total_length (m_mode m)) /\
    content_size_release (m_mode m) = total_length (m_mode m) /\
    total_length (m_mode m) < u64_mod.
  Proof.
    intros Ht.
    destruct (typed_inv _ _ Ht) as (d & i & -> & Ei & _ & _ & _ & _ & _ & _ & _ & _ & _ & _ & _ & B6 & _ & Fit).
    destruct (content_size_exact _ Fit) as (H1 & H2 & H3). repeat split; try assumption.
    pose proof (as_mode_inv _ _ B6) as Hm. destruct (m_mode m) as [n|fs] eqn:Em; [|exact H3].
    cbn [total_length]. unfold as_mode in B6. destruct (try_single i) as [m1|] eqn:E1.
    - unfold try_single in E1. destruct (req (as_uint 63) k_length i) as [n'|] eqn:En; [|discriminate].
      destruct (opt as_md5 k_md5sum i); [|discriminate]. inversion E1; subst. inversion B6; subst.
      destruct (req_inv _ _ _ _ En) as (lv & _ & F). destruct (as_uint_inv _ _ _ F) as (z & _ & -> & Hz).
      change (Z.of_N 63) with 63%Z in Hz. unfold u64_mod. lia.
    - unfold try_multiple in B6. destruct (req (as_list as_file) k_files i); [|discriminate]. inversion B6.
  Qed.

  Theorem piece_count_exact v m :
    typed_of_value host_disp url_norm v = Some m -> 20 * piece_count m = N.of_nat (List.length (m_pieces m)).
  Proof.
    intros Ht.
    destruct (typed_inv _ _ Ht) as (d & i & -> & _ & _ & _ & _ & _ & _ & _ & _ & _ & _ & _ & B5 & _).
    destruct (req_inv _ _ _ _ B5) as (pv & _ & Fp). destruct (as_pieces_inv _ _ Fp) as (_ & Hmod).
    unfold piece_count. pose proof (N.div_mod (N.of_nat (List.length (m_pieces m))) 20 ltac:(lia)). lia.
  Qed.

  Theorem show_never_panics v input_len ih : show_value cal human host_disp url_norm v input_len ih <> ShowPanicked.
  Proof.
    unfold show_value. destruct (typed_of_value host_disp url_norm v) as [m|] eqn:Ht; [|discriminate].
    destruct (content_size_is_true_sum _ _ Ht) as (H1 & _ & _). rewrite H1. discriminate.
  Qed.

  Theorem show_stdin_same input ih :
    show cal human host_disp url_norm FromStdin input ih = show cal human host_disp url_norm FromPath input ih.
  Proof. reflexivity. Qed.
End WithExternals.

(* ---------- the text renderings carry the JSON values ---------- *)
Section Renderings.
  Variable cal : N -> option bytes.
  Variable human : N -> bytes.

  Lemma strs_flat l : flat_map (fun y => match y with JvStr s => [s] | _ => [] end) (map JvStr l) = l.
  Proof. induction l as [|x r IH]; cbn [map flat_map app]; [reflexivity|]. rewrite IH. reflexivity. Qed.

  Lemma list_flat l : flat_map jv_strings (map JvStr l) = l.
  Proof. induction l as [|x r IH]; cbn [map flat_map jv_strings app]; [reflexivity|]. rewrite IH. reflexivity. Qed.

  Lemma tiers_flat t : forall i,
    flat_map snd (number_tiers i t) = flat_map jv_strings (map (fun tier => JvArr (map JvStr tier)) t).
  Proof.
    induction t as [|x r IH]; intros i; cbn [number_tiers map flat_map jv_strings snd]; [reflexivity|].
    rewrite IH, strs_flat. reflexivity.
  Qed.

  Lemma bytes_eqb_refl a : bytes_eqb a a = true.
  Proof. induction a as [|x r IH]; cbn [bytes_eqb]; [reflexivity|]. rewrite N.eqb_refl, IH. reflexivity. Qed.

  Lemma rv_cons_hit f L c r : row_values f ((L, c) :: r) L = f c.
  Proof. unfold row_values. cbn [find fst snd]. rewrite bytes_eqb_refl. reflexivity. Qed.
  Lemma rv_cons_miss f l L c r : bytes_eqb l L = false -> row_values f ((l, c) :: r) L = row_values f r L.
  Proof. intros H. unfold row_values. cbn [find fst snd]. rewrite H. reflexivity. Qed.
  Lemma rv_opt_hit f L o r :
    row_values f (opt_cell L o ++ r) L = match o with Some c => f c | None => row_values f r L end.
  Proof. destruct o as [c|]; cbn [opt_cell app]; [apply rv_cons_hit|reflexivity]. Qed.
  Lemma rv_opt_miss f l L o r : bytes_eqb l L = false -> row_values f (opt_cell l o ++ r) L = row_values f r L.
  Proof. intros H. destruct o as [c|]; cbn [opt_cell app]; [apply rv_cons_miss; exact H|reflexivity]. Qed.
  Lemma rv_nil f L : row_values f [] L = [].
  Proof. reflexivity. Qed.

  Ltac scan :=
    repeat first [ rewrite rv_cons_hit | rewrite rv_opt_hit | rewrite rv_nil
                 | rewrite rv_cons_miss by reflexivity | rewrite rv_opt_miss by reflexivity ].
  Ltac row_goal :=
    cbv [jfield json_of find fst snd bytes_eqb N.eqb Pos.eqb andb]; cbv beta iota;
    unfold table_of; cbn [app]; scan;
    try match goal with |- context [match option_map _ ?o with _ => _ end] => destruct o; cbn [option_map jopt_str jopt_num]; scan end;
    cbv [values_of is_size_key bytes_eqb N.eqb Pos.eqb andb orb tab_values term_values hex_text]; cbv beta iota;
    first [ reflexivity | symmetry; apply list_flat | apply tiers_flat ].

  (** tab-delimited: every row except the file list carries exactly the values of its JSON field under the
      documented maps (sizes as plain byte counts), and a field without a row has no values *)
  Theorem tab_same_values m c input_len ih :
    same_values cal dec tab_values (table_of cal m c input_len ih) (json_of m c input_len ih).
  Proof.
    unfold same_values, scalar_keys, label_map. cbn [removelast].
    repeat apply Forall_cons; try apply Forall_nil; cbn [fst snd]; row_goal.
  Qed.

  (** terminal: the same, with sizes humanised *)
  Theorem term_same_values m c input_len ih :
    same_values cal human (term_values human) (table_of cal m c input_len ih) (json_of m c input_len ih).
  Proof.
    unfold same_values, scalar_keys, label_map. cbn [removelast].
    repeat apply Forall_cons; try apply Forall_nil; cbn [fst snd]; row_goal.
  Qed.
End Renderings.

(* ---------- the text file list: sorted, and a permutation of the listed paths ---------- *)
Lemma path_leb_total p : forall q, path_leb p q = false -> path_leb q p = true.
Proof.
  induction p as [|a p' IH]; intros [|b q'] H; cbn [path_leb] in *; try discriminate; try reflexivity.
  destruct (bytes_ltb a b) eqn:E1; [discriminate|]. destruct (bytes_ltb b a) eqn:E2; [reflexivity|]. apply IH; exact H.
Qed.

Lemma insert_sorted_perm p l : Permutation (insert_sorted p l) (p :: l).
Proof.
  induction l as [|q r IH]; cbn [insert_sorted]; [apply Permutation_refl|].
  destruct (path_leb p q); [apply Permutation_refl|].
  apply Permutation_trans with (q :: p :: r); [apply perm_skip; exact IH|apply perm_swap].
Qed.

Theorem sort_paths_perm l : Permutation (sort_paths l) l.
Proof.
  induction l as [|p r IH]; cbn [sort_paths fold_right]; [apply Permutation_refl|].
  eapply Permutation_trans; [apply insert_sorted_perm|]. apply perm_skip. exact IH.
Qed.

Definition path_le (p q : list bytes) : Prop := path_leb p q = true.

Lemma insert_sorted_sorted p l : Sorted path_le l -> Sorted path_le (insert_sorted p l).
Proof.
  induction l as [|q r IH]; intros Hs; cbn [insert_sorted].
  - repeat constructor.
  - destruct (path_leb p q) eqn:E.
    + constructor; [exact Hs|constructor; exact E].
    + inversion Hs as [|x y Hr Hd]; subst. constructor; [apply IH; exact Hr|].
      destruct r as [|q2 r2]; cbn [insert_sorted].
      * constructor. apply path_leb_total; exact E.
      * destruct (path_leb p q2); constructor; [apply path_leb_total; exact E|].
        inversion Hd; subst; assumption.
Qed.

Theorem sort_paths_sorted l : Sorted path_le (sort_paths l).
Proof.
  induction l as [|p r IH]; cbn [sort_paths fold_right]; [constructor|]. apply insert_sorted_sorted; exact IH.
Qed.

Section FilesRow.
  Variable cal : N -> option bytes.
  Variable human : N -> bytes.
  Variable host_disp : bytes -> option bytes.
  Variable url_norm : bytes -> option bytes.

  Ltac scan :=
    repeat first [ rewrite rv_cons_hit | rewrite rv_opt_hit | rewrite rv_nil
                 | rewrite rv_cons_miss by reflexivity | rewrite rv_opt_miss by reflexivity ].

  (** the `files` row of both text forms: the name alone for a single-file torrent, otherwise the listed paths,
      sorted component-wise; the tab form prints each as name/component/... *)
  Theorem files_row m c input_len ih :
    let t := table_of cal m c input_len ih in
    (is_single m = true -> row_values tab_values t (lit "Files") = [m_name m] /\
                           row_values (term_values human) t (lit "Files") = [m_name m]) /\
    (is_single m = false ->
       row_values tab_values t (lit "Files")
         = map (fun p => m_name m ++ [47] ++ join [47] p) (sort_paths (file_paths m)) /\
       Permutation (sort_paths (file_paths m)) (file_paths m) /\ Sorted path_le (sort_paths (file_paths m))).
  Proof.
    cbv zeta. unfold table_of. cbn [app]. scan. split; intros H; rewrite H.
    - split; reflexivity.
    - split; [reflexivity|]. split; [apply sort_paths_perm|apply sort_paths_sorted].
  Qed.

  (** end to end from the input bytes (stated for the successful result, so no fuel assumption is needed):
      a printed report belongs to a strictly decoded prefix of the input, and its JSON rows are the direct
      reading of that value with the input's length as torrent size *)
  Theorem show_reports_decoded src input ih j tab term :
    show cal human host_disp url_norm src input ih = ShowPrinted j tab term ->
    exists v rest m,
      input = encode v ++ rest /\
      typed_of_value host_disp url_norm v = Some m /\
      j = spec_json host_disp url_norm (is_single m) v (N.of_nat (List.length input)) ih /\
      tab = render_tab (table_of cal m (total_length (m_mode m)) (N.of_nat (List.length input)) ih) /\
      term = render_term human (table_of cal m (total_length (m_mode m)) (N.of_nat (List.length input)) ih).
  Proof.
    unfold show. destruct (decode (2 * List.length input + 2) input) as [[v rest]|] eqn:Ed; [|discriminate].
    destruct (decode_exact (2 * List.length input + 2)) as (Hx & _ & _). apply Hx in Ed.
    destruct (depth v <=? max_depth); [|discriminate].
    unfold show_value. destruct (typed_of_value host_disp url_norm v) as [m|] eqn:Ht; [|discriminate].
    destruct (content_size_is_true_sum host_disp url_norm _ _ Ht) as (H1 & _ & _). rewrite H1.
    intros H; inversion H; subst j tab term; clear H.
    exists v, rest, m. repeat split; try assumption.
    apply json_is_direct_reading; assumption.
  Qed.
End FilesRow.

(* ---------- rows appear in the order of the source ---------- *)
Definition all_rows_sig : list (bytes * string) :=
  [ (lit "Name", "row"); (lit "Comment", "row"); (lit "Creation Date", "row"); (lit "Creation Date", "row");
    (lit "Created By", "row"); (lit "Source", "row"); (lit "Info Hash", "row"); (lit "Torrent Size", "size");
    (lit "Content Size", "size"); (lit "Private", "row"); (lit "Tracker", "row"); (lit "Announce List", "tiers");
    (lit "Update URL", "row"); (lit "DHT Nodes", "list"); (lit "Piece Size", "size"); (lit "Piece Count", "row");
    (lit "File Count", "row"); (lit "Files", "row"); (lit "File Count", "row"); (lit "Files", "directory") ]%string.

Theorem table_rows_in_source_order cal m c input_len ih :
  is_subseq (map (fun r => (fst r, row_kind (snd r))) (table_of cal m c input_len ih)) all_rows_sig = true.
Proof.
  destruct m as [a al co cb cd en nd pr pl nm so pcs md uu].
  unfold table_of, is_single. cbn [m_announce m_announce_list m_comment m_created_by m_creation_date m_nodes m_source
    m_update_url m_mode].
  destruct a, al, co, cb, cd, nd, so, uu, md; reflexivity.
Qed.

(* ---------- JSON and text name each listed file the same way ---------- *)
Lemma last_app_ne {A} (a c : list A) d : c <> [] -> last (a ++ c) d = last c d.
Proof.
  intros Hc. induction a as [|x a' IH]; [reflexivity|]. cbn [app]. rewrite <- IH.
  destruct (a' ++ c) eqn:E; [|reflexivity]. apply app_eq_nil in E. destruct E as [_ E]. contradiction.
Qed.

Lemma last_in_ne {A} (c : list A) d : c <> [] -> In (last c d) c.
Proof.
  induction c as [|x c' IH]; intros H; [contradiction|]. destruct c' as [|y c'']; [left; reflexivity|].
  right. apply IH. discriminate.
Qed.

Lemma normal_component_inv c : normal_component c = true -> c <> [] /\ ~ In 47 c.
Proof.
  unfold normal_component. intros H. apply andb_prop in H. destruct H as [H H4].
  apply andb_prop in H. destruct H as [H _]. apply andb_prop in H. destruct H as [H1 _].
  split.
  - intros ->. discriminate.
  - intros Hin. apply negb_true_iff in H4. assert (E : existsb (N.eqb 47) c = true).
    { apply existsb_exists. exists 47. split; [exact Hin|apply N.eqb_refl]. }
    rewrite E in H4. discriminate.
Qed.

Theorem joined_under_text p : forall name,
  name <> [] -> last name 0 <> 47 -> p <> [] -> Forall (fun c => normal_component c = true) p ->
  joined_under name p = name ++ [47] ++ join [47] p.
Proof.
  induction p as [|c r IH]; intros name Hne Hl Hp HF; [contradiction|].
  inversion HF as [|c' r' Hc Hr]; subst. unfold joined_under in *. cbn [fold_left].
  assert (Epush : path_push name c = name ++ [47] ++ c).
  { destruct name as [|x n]; [contradiction|]. cbn [path_push].
    destruct (N.eqb_spec (last (x :: n) 0) 47) as [E|E]; [contradiction|reflexivity]. }
  rewrite Epush. destruct r as [|c2 r2]; [reflexivity|].
  destruct (normal_component_inv _ Hc) as [Hc1 Hc2].
  rewrite IH; [| | |discriminate|exact Hr].
  - cbn [join]. rewrite <- !app_assoc. reflexivity.
  - destruct name; [contradiction|discriminate].
  - rewrite last_app_ne by discriminate. change ([47] ++ c) with ((47 :: nil) ++ c). rewrite last_app_ne by exact Hc1.
    intros E. apply Hc2. rewrite <- E. apply last_in_ne. exact Hc1.
Qed.

Theorem file_paths_normal host_disp url_norm v m :
  typed_of_value host_disp url_norm v = Some m ->
  Forall (fun p => Forall (fun c => normal_component c = true) p) (file_paths m).
Proof.
  intros Ht.
  destruct (typed_inv _ _ _ _ Ht) as (d & i & -> & _ & _ & _ & _ & _ & _ & _ & _ & _ & _ & _ & _ & B6 & _).
  pose proof (as_mode_inv _ _ B6) as Hm. unfold file_paths. destruct (m_mode m) as [n|fs]; [constructor|].
  destruct Hm as (l & _ & _ & _ & H). exact H.
Qed.
