(** `torrent show` of what `torrent create` wrote, at the concrete calendar and size renderers (X5's theorem
    instantiated, work package X11), and what it says about the creation date: the row shows the clock value in
    chrono's calendar form, which reads back to exactly the clock value. *)
From Coq Require Import String.
From Coq Require Import NArith ZArith List Bool.
From Imdl Require Import Model.Bencode Model.Summary Model.SummarySpec.
From Imdl Require Model.Metainfo.
From Imdl Require Import Model.EndToEndShow Proofs.EndToEndShowProofs.
From Imdl Require Import Model.Calendar Proofs.CalendarProofs Model.ShowConcrete Proofs.ShowConcreteProofs.
Import ListNotations.
Local Open Scope N_scope.

Theorem concrete_written_bytes_show_back
  norm host_canon git_suffix host_disp url_norm url_ok src o c tb name nodes upd ih :
    Metainfo.input_ok (Metainfo.c_input c) = true -> Metainfo.opts_ok o = true ->
    texts_utf8 norm host_canon git_suffix o c = true -> content_shown_ok (Metainfo.o_md5 o) c = true ->
    Metainfo.create_bytes norm url_ok host_canon git_suffix o c = Some tb ->
    Metainfo.name_of o (Metainfo.c_input c) = Some name ->
    nodes_text host_canon host_disp o = Some nodes -> update_text norm url_norm o = Some upd ->
    let len := N.of_nat (List.length tb) in
    let t := table_of Calendar.cal (requested norm git_suffix o c name nodes upd)
               (Metainfo.total_size (Metainfo.c_input c)) len ih in
    show_concrete host_disp url_norm src tb ih =
    ShowPrinted (requested_json norm git_suffix o c name nodes upd len ih) (render_tab t) (render_term human_display t).
Proof. intros. unfold show_concrete. apply written_bytes_show_back with (host_canon := host_canon) (url_ok := url_ok); assumption. Qed.

(** the Creation Date row of that report: absent under --no-creation-date; otherwise the clock value [o_now] in
    calendar form, which [cal_parse] reads back to exactly [o_now] (any clock up to the year 262142), or its digits *)
Theorem created_creation_date_row norm git_suffix o c name nodes upd size len ih :
  let t := table_of Calendar.cal (requested norm git_suffix o c name nodes upd) size len ih in
  (Metainfo.o_no_creation_date o = true -> row_values tab_values t (lit "Creation Date") = []) /\
  (Metainfo.o_no_creation_date o = false ->
     row_values tab_values t (lit "Creation Date") = [creation_date_text (Metainfo.o_now o)] /\
     (Metainfo.o_now o <= cal_max ->
        Calendar.cal (Metainfo.o_now o) = Some (creation_date_text (Metainfo.o_now o)) /\
        cal_parse (creation_date_text (Metainfo.o_now o)) = Some (Metainfo.o_now o))).
Proof.
  cbv zeta. rewrite creation_date_row. unfold requested. cbn [m_creation_date].
  split; intros E; rewrite E; [reflexivity|]. split; [reflexivity|]. intros Hle.
  unfold creation_date_text. destruct (Calendar.cal (Metainfo.o_now o)) as [t|] eqn:Ec.
  - split; [reflexivity|]. apply cal_parse_cal. exact Ec.
  - apply cal_none_iff in Ec. apply N.lt_nge in Ec. contradiction.
Qed.
