(** C11 (X16) - the create model's own well-formedness ([EndToEnd.torrent_ok], which [created_torrent_ok] proves of every
    creation result) implies [create_ok]: the info dictionary of a torrent `imdl torrent create` made, as
    Model/EndToEnd.v assembles it from the creation result, is typed-normal. *)
From Coq Require Import NArith ZArith Bool List Lia ZifyN ZifyBool.
From Imdl Require Import Base.Chunks Model.Bencode Model.Fs Model.Verify Model.CreateVerify Model.EndToEnd
  Proofs.EndToEndProofs Proofs.LoaderProofs.
From Imdl Require Model.Schema Model.Metainfo Model.Summary Model.UrlNorm Model.InfoRoundTrip Proofs.InfoRoundTripProofs
  Proofs.InfoRoundTripCreate.
Import ListNotations.
Local Open Scope N_scope.

Module I := InfoRoundTrip.
Module C := InfoRoundTripCreate.

Lemma hexdigit_lower x : x < 16 -> I.is_lower_hex (hexdigit x) = true.
Proof. intros H. unfold I.is_lower_hex, hexdigit, Summary.inr. destruct (x <? 10) eqn:E; lia. Qed.

Lemma hex_lower d : forallb (fun x => x <? 256) d = true -> forallb I.is_lower_hex (hex d) = true.
Proof.
  induction d as [|b r IH]; [reflexivity|]. cbn [forallb]. intros H. apply andb_prop in H. destruct H as [Hb Hr].
  unfold hex. cbn [flat_map app forallb]. fold (hex r).
  rewrite (hexdigit_lower (b / 16)) by (apply N.div_lt_upper_bound; lia).
  rewrite (hexdigit_lower (b mod 16)) by (apply N.mod_lt; lia). rewrite (IH Hr). reflexivity.
Qed.

Lemma md5_shape_text md5 m : md5_shape md5 m = true -> negb md5 || C.md5_text_ok (md5_text m) = true.
Proof.
  destruct m as [d|]; cbn [md5_shape md5_text].
  - intros H. apply andb_prop in H. destruct H as [H Hb]. apply andb_prop in H. destruct H as [Hm Hl]. rewrite Hm. cbn [negb orb].
    unfold C.md5_text_ok. rewrite length_hex. apply Nat.eqb_eq in Hl. rewrite Hl. cbn [Nat.mul Nat.add Nat.eqb andb].
    exact (hex_lower d Hb).
  - intros H. rewrite H. reflexivity.
Qed.

Theorem torrent_ok_create_ok norm o md5 t :
  torrent_ok md5 t = true ->
  match Metainfo.o_source o with Some s => Summary.utf8_valid s | None => true end = true ->
  match Metainfo.o_update_url o with Some u => UrlNorm.is_normal_url (norm u) | None => true end = true ->
  C.create_ok norm (opts_of o md5 t) (content_of t) (tname t) = true.
Proof.
  unfold torrent_ok. intros H Hs Hu.
  repeat (apply andb_prop in H; let H' := fresh "H" in destruct H as [H H']).
  unfold C.create_ok. cbn [opts_of content_of Metainfo.o_source Metainfo.o_update_url Metainfo.o_md5 Metainfo.c_input Metainfo.c_pieces].
  unfold Metainfo.piece_length_of. cbn [opts_of Metainfo.o_piece_length].
  rewrite Hs, Hu. rewrite <- utf8_eq, H. replace (tplen t <? 2 ^ 64) with true by lia. cbn [andb].
  assert (Hp : (N.of_nat (length (concat (tpieces t))) mod 20 =? 0) = true).
  { rewrite (length_concat_20 _ (forallb_len_Forall 20 _ H2)). rewrite Nat2N.inj_mul. rewrite N.mul_comm, N.mod_mul by lia. reflexivity. }
  rewrite Hp. cbn [andb]. rewrite andb_true_r.
  unfold input_of in *. destruct (tmode t) as [len m|fs]; cbn [C.create_input_ok mode_ok Metainfo.input_ok] in *.
  - rewrite H1. apply md5_shape_text. exact H0.
  - clear - H1 H0. induction fs as [|f r IH]; [reflexivity|]. cbn [map forallb] in *.
    apply andb_prop in H1, H0. destruct H1 as [Hf1 Hr1], H0 as [Hf0 Hr0]. rewrite (IH Hr1 Hr0), andb_true_r.
    unfold C.create_file_ok, file_of, Metainfo.file_ok, tfile_ok in *. cbn [Metainfo.f_length Metainfo.f_md5 Metainfo.f_path] in *.
    apply andb_prop in Hf0. destruct Hf0 as [Hc Hm]. rewrite Hf1, (md5_shape_text _ _ Hm). cbn [andb].
    revert Hc. clear. induction (fpath f) as [|c p IHp]; [reflexivity|]. cbn [forallb]. intros H. apply andb_prop in H.
    destruct H as [Hc Hp]. unfold comp_ok in Hc. apply andb_prop in Hc. destruct Hc as [Hu Hpl].
    rewrite <- utf8_eq, Hu, <- plain_normal, Hpl, (IHp Hp). reflexivity.
Qed.

(** the info dictionary of a created torrent is typed-normal, from the creation model's own well-formedness *)
Theorem created_torrent_info_typed_normal norm o md5 t iv :
  torrent_ok md5 t = true ->
  match Metainfo.o_source o with Some s => Summary.utf8_valid s | None => true end = true ->
  match Metainfo.o_update_url o with Some u => UrlNorm.is_normal_url (norm u) | None => true end = true ->
  Metainfo.build_info norm (opts_of o md5 t) (content_of t) = Some iv ->
  I.typed_normal (encode iv) = true /\ forall ext, I.info_norm ext (encode iv) = Some (encode iv).
Proof.
  intros Hok Hs Hu Hb. apply (C.created_info_normal norm (opts_of o md5 t) (content_of t) iv (tname t) Hb); [reflexivity|].
  apply torrent_ok_create_ok; assumption.
Qed.
