(** `torrent show` with the concrete calendar and size renderers (Model/ShowConcrete.v): the instantiations are
    legitimate (Display for Bytes never panics on what `show` hands it) and the Creation Date row determines the
    stored integer. *)
From Coq Require Import String.
From Coq Require Import NArith ZArith Lia ZifyBool Bool List.
From Imdl Require Import Model.Bencode Model.Summary Model.SummarySpec Proofs.SummaryProofs.
From Imdl Require Import Model.Calendar Proofs.CalendarProofs Model.ShowConcrete.
From Imdl Require Model.ByteSize Proofs.ByteSizeProofs.
Import ListNotations.
Local Open Scope N_scope.

(** [human_display] is Display for Bytes on every u64 *)
Theorem human_display_eq n : n < 2 ^ 64 -> ByteSize.bs_display n = Some (human_display n).
Proof. intros H. unfold human_display. rewrite (ByteSizeProofs.display_eq n H). reflexivity. Qed.

(** every number `show` humanises is a u64: piece length and content size by the loader, the torrent size when the
    input is shorter than 2^64 bytes *)
Theorem shown_sizes_are_u64 host_disp url_norm v m :
  typed_of_value host_disp url_norm v = Some m ->
  m_piece_length m < 2 ^ 64 /\ total_length (m_mode m) < 2 ^ 64 /\
  (forall d, m_creation_date m = Some d -> d < 2 ^ 64).
Proof.
  intros Ht. pose proof (content_size_is_true_sum host_disp url_norm v m Ht) as (_ & _ & Hc).
  destruct (typed_inv _ _ _ _ Ht) as (d & i & -> & Ei & A1 & A2 & A3 & A4 & A5 & A7 & B1 & B2 & B3 & B4 & B5 & B6 & B7 & Fit).
  split; [|split; [exact Hc|]].
  - unfold req in B2. destruct (lookup k_piece_length i) as [pv|]; [|discriminate].
    destruct (as_uint_inv _ _ _ B2) as (z & _ & -> & Hz). change (Z.of_N 64) with 64%Z in Hz. lia.
  - intros n Hn. rewrite Hn in A5. destruct (opt_inv _ _ _ _ A5) as [[_ Hbad]|(pv & x & _ & Hx & Hsome)]; [discriminate|].
    inversion Hsome; subst x. destruct (as_uint_inv _ _ _ Hx) as (z & _ & -> & Hz). change (Z.of_N 64) with 64%Z in Hz. lia.
Qed.

(** the Creation Date cell of the model's table is Calendar's text *)
Theorem date_text_is_calendar d : date_text Calendar.cal d = creation_date_text d.
Proof. reflexivity. Qed.

Theorem date_text_inj d1 d2 : date_text Calendar.cal d1 = date_text Calendar.cal d2 -> d1 = d2.
Proof. rewrite !date_text_is_calendar. apply creation_date_text_inj. Qed.

Lemma creation_date_row cal m c l ih :
  row_values tab_values (table_of cal m c l ih) (lit "Creation Date") =
  match m_creation_date m with Some d => [date_text cal d] | None => [] end.
Proof.
  unfold table_of, row_values.
  destruct (m_comment m), (m_creation_date m), (m_created_by m), (m_source m), (m_announce m), (m_announce_list m),
    (m_update_url m), (m_nodes m); reflexivity.
Qed.

(** (e) on the report: two files whose tab-delimited Creation Date rows agree store the same creation date
    (or both none) *)
Theorem creation_date_row_determines m1 m2 c1 c2 l1 l2 ih1 ih2 :
  row_values tab_values (table_of Calendar.cal m1 c1 l1 ih1) (lit "Creation Date") =
  row_values tab_values (table_of Calendar.cal m2 c2 l2 ih2) (lit "Creation Date") ->
  m_creation_date m1 = m_creation_date m2.
Proof.
  rewrite !creation_date_row. destruct (m_creation_date m1) as [d1|], (m_creation_date m2) as [d2|]; intros H;
    try discriminate; [|reflexivity].
  injection H as H. apply date_text_inj in H. subst. reflexivity.
Qed.

(* ====================================================================================================== *)
(** * the show theorems at the concrete renderers *)

Theorem concrete_show_reports_decoded host_disp url_norm src input ih j tab term :
  show_concrete host_disp url_norm src input ih = ShowPrinted j tab term ->
  exists v rest m,
    input = encode v ++ rest /\
    typed_of_value host_disp url_norm v = Some m /\
    j = spec_json host_disp url_norm (is_single m) v (N.of_nat (List.length input)) ih /\
    tab = render_tab (table_of Calendar.cal m (total_length (m_mode m)) (N.of_nat (List.length input)) ih) /\
    term = render_term human_display (table_of Calendar.cal m (total_length (m_mode m)) (N.of_nat (List.length input)) ih).
Proof. apply show_reports_decoded. Qed.

Theorem concrete_tab_same_values m c input_len ih :
  same_values Calendar.cal dec tab_values (table_of Calendar.cal m c input_len ih) (json_of m c input_len ih).
Proof. apply tab_same_values. Qed.

Theorem concrete_terminal_same_values m c input_len ih :
  same_values Calendar.cal human_display (term_values human_display) (table_of Calendar.cal m c input_len ih)
    (json_of m c input_len ih).
Proof. apply term_same_values. Qed.

Theorem concrete_show_never_panics host_disp url_norm v input_len ih :
  show_value Calendar.cal human_display host_disp url_norm v input_len ih <> ShowPanicked.
Proof. apply show_never_panics. Qed.

Theorem concrete_stdin_same host_disp url_norm input ih :
  show_concrete host_disp url_norm FromStdin input ih = show_concrete host_disp url_norm FromPath input ih.
Proof. apply show_stdin_same. Qed.

(** what the report of an accepted input says about the creation date, in full: the JSON number is the stored
    integer; the text row is its calendar text when it is at most [cal_max] and then reads back to exactly that
    integer, and its decimal digits otherwise; every humanised size is Display for Bytes of a u64 *)
Theorem concrete_report_creation_date host_disp url_norm src input ih j tab term :
  show_concrete host_disp url_norm src input ih = ShowPrinted j tab term ->
  exists v rest m,
    input = encode v ++ rest /\ typed_of_value host_disp url_norm v = Some m /\
    let t := table_of Calendar.cal m (total_length (m_mode m)) (N.of_nat (List.length input)) ih in
    tab = render_tab t /\ term = render_term human_display t /\
    jfield j (lit "creation_date") = jopt_num (m_creation_date m) /\
    match m_creation_date m with
    | None => row_values tab_values t (lit "Creation Date") = []
    | Some d =>
        exists text, row_values tab_values t (lit "Creation Date") = [text] /\
          ((d <= cal_max /\ Calendar.cal d = Some text /\ cal_parse text = Some d) \/ (cal_max < d /\ text = dec d))
    end /\
    ByteSize.bs_display (m_piece_length m) = Some (human_display (m_piece_length m)) /\
    ByteSize.bs_display (total_length (m_mode m)) = Some (human_display (total_length (m_mode m))).
Proof.
  intros H. destruct (concrete_show_reports_decoded _ _ _ _ _ _ _ _ H) as (v & rest & m & Hin & Ht & Hj & Htab & Hterm).
  exists v, rest, m. split; [exact Hin|]. split; [exact Ht|]. cbv zeta.
  split; [exact Htab|]. split; [exact Hterm|].
  destruct (shown_sizes_are_u64 _ _ _ _ Ht) as (Hpl & Htot & _).
  split; [|split; [|split; apply human_display_eq; assumption]].
  - assert (Hc : content_size_debug (m_mode m) = Some (total_length (m_mode m)))
      by apply (content_size_is_true_sum _ _ _ _ Ht).
    rewrite Hj, <- (json_is_direct_reading host_disp url_norm v m _ (N.of_nat (List.length input)) ih Ht Hc).
    reflexivity.
  - rewrite creation_date_row. destruct (m_creation_date m) as [d|]; [|reflexivity].
    exists (date_text Calendar.cal d). split; [reflexivity|]. rewrite date_text_is_calendar.
    unfold creation_date_text. destruct (Calendar.cal d) as [t|] eqn:E.
    + left. split; [apply (cal_some d t); exact E|]. split; [reflexivity|]. apply cal_parse_cal; exact E.
    + right. split; [apply cal_none_iff; exact E|reflexivity].
Qed.
