(** Facts about [rne_div] and [round53]. *)
From Coq Require Import NArith ZArith Lia Bool ZifyN ZifyBool.
From Imdl Require Import Model.Float53.
Local Open Scope N_scope.

Lemma rne_div_err a b : 0 < b ->
  2 * (rne_div a b * b) <= 2 * a + b /\ 2 * a <= 2 * (rne_div a b * b) + b.
Proof.
  intros Hb. unfold rne_div.
  pose proof (N.div_mod a b ltac:(lia)) as E.
  pose proof (N.mod_lt a b ltac:(lia)) as L.
  set (d := a / b) in *. set (r := a mod b) in *.
  destruct (N.ltb_spec (2 * r) b); [nia|].
  destruct (N.ltb_spec b (2 * r)); [nia|].
  destruct (N.even d); nia.
Qed.

Lemma rne_div_floor a b : 0 < b -> a / b <= rne_div a b <= a / b + 1.
Proof.
  intros Hb. unfold rne_div.
  destruct (2 * (a mod b) <? b); [lia|].
  destruct (b <? 2 * (a mod b)); [lia|].
  destruct (N.even (a / b)); lia.
Qed.

Lemma rne_div_exact a b : 0 < b -> a mod b = 0 -> rne_div a b = a / b.
Proof.
  intros Hb Hm. unfold rne_div. rewrite Hm.
  replace (2 * 0 <? b) with true by (symmetry; apply N.ltb_lt; lia). reflexivity.
Qed.

Lemma rne_div_1 a : rne_div a 1 = a.
Proof. unfold rne_div. rewrite N.div_1_r, N.mod_1_r. cbn. reflexivity. Qed.

Lemma log2_bounds x : 0 < x -> 2 ^ N.log2 x <= x < 2 ^ (N.log2 x + 1).
Proof. intros H. pose proof (N.log2_spec x H) as S. rewrite <- N.add_1_r in S. exact S. Qed.

Lemma pow2_pos k : 0 < 2 ^ k.
Proof. apply N.neq_0_lt_0, N.pow_nonzero. lia. Qed.

Lemma round53_small n : n <= 2 ^ 53 -> round53 n = n.
Proof.
  intros H. unfold round53. destruct (N.ltb_spec n (2 ^ 53)) as [|Hge]; [reflexivity|].
  assert (n = 2 ^ 53) as -> by lia. vm_compute. reflexivity.
Qed.

Lemma round53_big_bounds n : 2 ^ 53 <= n ->
  2 ^ N.log2 n <= round53 n <= 2 ^ (N.log2 n + 1).
Proof.
  intros H. unfold round53. destruct (N.ltb_spec n (2 ^ 53)) as [Hlt|_]; [lia|].
  cbv zeta.
  assert (Hn : 0 < n) by (pose proof (pow2_pos 53); lia).
  destruct (log2_bounds n Hn) as [L1 L2].
  assert (HL : 53 <= N.log2 n).
  { apply N.log2_le_pow2; assumption. }
  set (L := N.log2 n) in *. set (s := L - 52).
  assert (Hs : 0 < 2 ^ s) by apply pow2_pos.
  destruct (rne_div_floor n (2 ^ s) Hs) as [F1 F2].
  assert (E1 : 2 ^ L = 2 ^ 52 * 2 ^ s).
  { rewrite <- N.pow_add_r. f_equal. unfold s. lia. }
  assert (E2 : 2 ^ (L + 1) = 2 ^ 53 * 2 ^ s).
  { rewrite <- N.pow_add_r. f_equal. unfold s. lia. }
  assert (D1 : 2 ^ 52 <= n / 2 ^ s).
  { apply N.div_le_lower_bound; [lia|]. rewrite N.mul_comm. rewrite <- E1. exact L1. }
  assert (D2 : n / 2 ^ s < 2 ^ 53).
  { apply N.div_lt_upper_bound; [lia|]. rewrite N.mul_comm. rewrite <- E2. exact L2. }
  split.
  - rewrite E1. apply N.mul_le_mono_r. lia.
  - rewrite E2. apply N.mul_le_mono_r. lia.
Qed.

Lemma round53_mono_pow k n : 2 ^ k <= n -> 2 ^ k <= round53 n.
Proof.
  intros H. destruct (N.le_gt_cases n (2 ^ 53)) as [Hs|Hb].
  - rewrite round53_small by exact Hs. exact H.
  - destruct (round53_big_bounds n ltac:(lia)) as [B _].
    eapply N.le_trans; [|exact B].
    apply N.pow_le_mono_r; [lia|].
    apply N.log2_le_pow2; [pose proof (pow2_pos k); lia|exact H].
Qed.

Lemma round53_pow2 k : round53 (2 ^ k) = 2 ^ k.
Proof.
  destruct (N.le_gt_cases k 53) as [Hk|Hk].
  - apply round53_small. apply N.pow_le_mono_r; lia.
  - unfold round53.
    assert (2 ^ 53 < 2 ^ k) by (apply N.pow_lt_mono_r; lia).
    destruct (N.ltb_spec (2 ^ k) (2 ^ 53)); [lia|]. cbv zeta.
    rewrite N.log2_pow2 by lia.
    assert (E : 2 ^ k = 2 ^ 52 * 2 ^ (k - 52)).
    { rewrite <- N.pow_add_r. f_equal. lia. }
    rewrite rne_div_exact.
    + rewrite E at 1. rewrite N.div_mul by (apply N.pow_nonzero; lia). symmetry. exact E.
    + apply pow2_pos.
    + rewrite E. apply N.mod_mul. apply N.pow_nonzero. lia.
Qed.

Lemma round53_le_pow k n : n <= 2 ^ k -> round53 n <= 2 ^ k.
Proof.
  intros H. destruct (N.le_gt_cases n (2 ^ 53)) as [Hs|Hb].
  - rewrite round53_small by exact Hs. exact H.
  - destruct (N.eq_dec n (2 ^ k)) as [->|Hne]; [rewrite round53_pow2; lia|].
    destruct (round53_big_bounds n ltac:(lia)) as [_ B].
    eapply N.le_trans; [exact B|].
    apply N.pow_le_mono_r; [lia|].
    assert (N.log2 n < k); [|lia].
    apply N.log2_lt_pow2; [pose proof (pow2_pos 53); lia|lia].
Qed.
