(** C08 - guard lemmas (one per partial operation of Model/Crash.v) and the no-panic theorems. *)
From Coq Require Import Decimal DecimalN DecimalFacts.
From Coq Require Import NArith ZArith Bool Ascii String List Lia ZifyN ZifyBool.
From Imdl Require Import Model.Bencode Model.Float53 Model.Crash Proofs.Float53Proofs.
Import ListNotations.
Local Open Scope N_scope.

Definition bytes_of_string (s : string) : bytes := map N_of_ascii (list_ascii_of_string s).

(** the keys of Model/Crash.v are spelled as the serde attributes spell them *)
Lemma keys_spelled :
  k_announce = bytes_of_string "announce" /\
  k_announce_list = bytes_of_string "announce-list" /\
  k_comment = bytes_of_string "comment" /\
  k_created_by = bytes_of_string "created by" /\
  k_creation_date = bytes_of_string "creation date" /\
  k_encoding = bytes_of_string "encoding" /\
  k_files = bytes_of_string "files" /\
  k_info = bytes_of_string "info" /\
  k_length = bytes_of_string "length" /\
  k_magnet = bytes_of_string "magnet:" /\
  k_md5sum = bytes_of_string "md5sum" /\
  k_name = bytes_of_string "name" /\
  k_nodes = bytes_of_string "nodes" /\
  k_path = bytes_of_string "path" /\
  k_piece_length = bytes_of_string "piece length" /\
  k_pieces = bytes_of_string "pieces" /\
  k_private = bytes_of_string "private" /\
  k_source = bytes_of_string "source" /\
  k_update_url = bytes_of_string "update-url".
Proof. repeat split; reflexivity. Qed.

(* ------------------------------------------------------------------ plumbing *)
Lemma bind_no_abort {A B} (r : result A) (f : A -> result B) :
  r <> Abort -> (forall a, r = Val a -> f a <> Abort) -> bind r f <> Abort.
Proof. intros Hr Hf. destruct r as [a| |]; cbn; [apply Hf; reflexivity|discriminate|contradiction]. Qed.

Lemma try_no_abort {A} (o : option A) : try_ o <> Abort.
Proof. destruct o; discriminate. Qed.

Lemma check_no_abort b : check b <> Abort.
Proof. destruct b; discriminate. Qed.

Lemma check_val b u : check b = Val u -> b = true.
Proof. destruct b; [reflexivity|discriminate]. Qed.

Lemma for_each_no_abort {A} (f : A -> result unit) l :
  Forall (fun x => f x <> Abort) l -> for_each f l <> Abort.
Proof.
  induction 1 as [|x r Hx _ IH]; cbn; [discriminate|].
  apply bind_no_abort; [exact Hx|intros _ _; exact IH].
Qed.

Lemma mapM_no_abort {A B} (f : A -> result B) l :
  Forall (fun x => f x <> Abort) l -> mapM f l <> Abort.
Proof.
  induction 1 as [|x r Hx _ IH]; cbn; [discriminate|].
  apply bind_no_abort; [exact Hx|intros y _].
  apply bind_no_abort; [exact IH|intros ys _; discriminate].
Qed.

Ltac step := first [ apply try_no_abort | apply check_no_abort | discriminate
                   | (apply bind_no_abort; [|intros ? ?]) ].

(* ------------------------------------------------------------------ guard: PieceList chunks are 20 bytes *)
Lemma chunks_exact_len fuel l : Forall (fun c => length c = 20%nat) (chunks_exact fuel l).
Proof.
  revert l; induction fuel as [|f IH]; intros l; cbn [chunks_exact]; [constructor|].
  destruct (Nat.ltb (length l) 20) eqn:E; [constructor|].
  apply Nat.ltb_ge in E. constructor; [|apply IH].
  rewrite firstn_length. lia.
Qed.

Lemma pieces_guard v : de_pieces v <> Abort.
Proof.
  destruct v as [z|s|l|d]; cbn [de_pieces]; try discriminate.
  match goal with |- (if ?c then _ else _) <> _ => destruct c end; [|discriminate].
  apply mapM_no_abort.
  eapply Forall_impl; [|apply chunks_exact_len].
  intros c Hc. unfold try_into_20. rewrite Hc. cbn. discriminate.
Qed.

(* ------------------------------------------------------------------ guard: the content size sum cannot overflow once content_size_fits *)
Lemma checked_sum_guard ls : forall acc s, checked_sum acc ls = Some s -> sum_u64 acc ls = Val s.
Proof.
  induction ls as [|x r IH]; intros acc s H; cbn [checked_sum sum_u64] in *; [congruence|].
  unfold add_u64. destruct (acc + x <? 2 ^ 64) eqn:E; [|discriminate].
  cbn [bind]. apply IH. exact H.
Qed.

Lemma content_size_guard m : content_size_fits m = true -> content_size m <> Abort.
Proof.
  destruct m as [n md|fs]; cbn [content_size_fits content_size]; [discriminate|].
  destruct (checked_sum 0 (map f_length fs)) as [s|] eqn:E; [|discriminate].
  intros _. rewrite (checked_sum_guard _ _ _ E). discriminate.
Qed.

(** the guard is needed: without it the sum does panic *)
Lemma content_size_unguarded_panics :
  exists fs, content_size (Multiple fs) = Abort.
Proof.
  exists [ {| f_length := 2 ^ 63; f_path := []; f_md5 := None |};
           {| f_length := 2 ^ 63; f_path := []; f_md5 := None |} ].
  vm_compute. reflexivity.
Qed.

(* ------------------------------------------------------------------ guard: DISPLAY_SUFFIXES[i - 1] *)
Lemma as_u64_lt x : as_u64 x < 2 ^ 64.
Proof. unfold as_u64. apply N.mod_lt. discriminate. Qed.

Lemma suffix_index_le n : n < 2 ^ 64 -> suffix_index n <= 6.
Proof.
  intros H. unfold suffix_index.
  assert (Hr : round53 n <= 2 ^ 64) by (apply round53_le_pow; lia).
  assert (Hl : N.log2 (round53 n) <= 64).
  { replace 64 with (N.log2 (2 ^ 64)) by (rewrite N.log2_pow2; lia). apply N.log2_le_mono. exact Hr. }
  transitivity (64 / 10); [apply N.div_le_mono; lia|]. vm_compute. discriminate.
Qed.

Lemma display_guard n : n < 2 ^ 64 -> bytes_display n <> Abort.
Proof.
  intros H. unfold bytes_display. pose proof (suffix_index_le n H) as Hi.
  destruct (suffix_index n =? 0) eqn:E; [discriminate|].
  apply N.eqb_neq in E.
  assert (Hc : suffix_index n = 1 \/ suffix_index n = 2 \/ suffix_index n = 3 \/
               suffix_index n = 4 \/ suffix_index n = 5 \/ suffix_index n = 6) by lia.
  destruct Hc as [-> |[-> |[-> |[-> |[-> | ->]]]]]; vm_compute; discriminate.
Qed.

(** the range of the type is needed: a 2^70 would index past the table *)
Lemma display_unguarded_panics : bytes_display (2 ^ 70) = Abort.
Proof. vm_compute. reflexivity. Qed.

(* ------------------------------------------------------------------ guard: date row (repair 0003) *)
Lemma date_guard r d : date_row r d <> Abort.
Proof. unfold date_row. destruct (d <? 2 ^ 63); [destruct (r d)|]; discriminate. Qed.

(* ------------------------------------------------------------------ guard: enumerate index + 1 *)
Lemma tiers_guard tiers : forall i, i + N.of_nat (length tiers) < 2 ^ 64 -> tiers_rows i tiers <> Abort.
Proof.
  induction tiers as [|t r IH]; intros i H; cbn [tiers_rows]; [discriminate|].
  cbn [length] in H.
  apply bind_no_abort.
  - unfold add_usize. destruct (i + 1 <? 2 ^ 64) eqn:E; [discriminate|]. lia.
  - intros _ _. apply IH. lia.
Qed.

(* ------------------------------------------------------------------ guard: Tree::insert (children.len() - 1, children[index]) *)
Lemma segments_spelled :
  seg_corner = bytes_of_string "└─" /\ seg_tee = bytes_of_string "├─" /\
  seg_blank = bytes_of_string "  " /\ seg_bar = bytes_of_string "│ ".
Proof. repeat split; reflexivity. Qed.

Lemma set_nth_end {A} (x y : A) l : set_nth (length l) x (l ++ [y]) = l ++ [x].
Proof. induction l as [|z r IH]; cbn; [reflexivity|]. rewrite IH. reflexivity. Qed.

(** one round of the loop of [Tree::insert] finds or appends exactly the child the recursive code descended into *)
Lemma insert_round (g : tree -> tree) name cs :
  match position name cs with
  | Some i => exists c, nth_error cs (N.to_nat i) = Some c /\
                        set_nth (N.to_nat i) (g c) cs = insert_spec_children g name cs
  | None => set_nth (length cs) (g (Node name [])) (cs ++ [Node name []]) = insert_spec_children g name cs
  end.
Proof.
  induction cs as [|c r IH]; cbn [position insert_spec_children]; [reflexivity|].
  destruct (bytes_eqb (t_name c) name).
  - exists c. split; reflexivity.
  - destruct (position name r) as [i|]; cbn [option_map].
    + destruct IH as [c' [Hn Hs]]. exists c'. rewrite N2Nat.inj_succ. cbn [nth_error set_nth].
      split; [exact Hn|]. rewrite Hs. reflexivity.
    + cbn [length app set_nth]. rewrite IH. reflexivity.
Qed.

(** the loop of [Tree::insert] never panics and builds the tree the recursive code built *)
Theorem tree_insert_spec file : forall t, tree_insert file t = Val (insert_spec file t).
Proof.
  induction file as [|name rest IH]; intros t; [reflexivity|].
  cbn [tree_insert insert_spec].
  pose proof (insert_round (insert_spec rest) name (t_children t)) as R.
  destruct (position name (t_children t)) as [i|].
  - destruct R as [c [Hn Hs]]. cbn [bind fst snd]. unfold index. rewrite Hn. cbn [unwrap bind].
    rewrite IH. cbn [bind]. rewrite Hs. reflexivity.
  - unfold sub_usize. rewrite app_length. cbn [length].
    replace (1 <=? N.of_nat (length (t_children t) + 1)) with true by lia.
    cbn [bind fst snd]. unfold index.
    replace (N.to_nat (N.of_nat (length (t_children t) + 1) - 1)) with (length (t_children t)) by lia.
    rewrite nth_error_app2 by lia. rewrite Nat.sub_diag. cbn [nth_error unwrap bind].
    rewrite IH. cbn [bind]. rewrite R. reflexivity.
Qed.

Lemma tree_insert_guard file t : tree_insert file t <> Abort.
Proof. rewrite tree_insert_spec. discriminate. Qed.

Lemma tree_insert_all_val files : forall t, exists t', tree_insert_all files t = Val t'.
Proof.
  induction files as [|f r IH]; intros t; cbn [tree_insert_all]; [eexists; reflexivity|].
  rewrite tree_insert_spec. cbn [bind]. apply IH.
Qed.

(* ------------------------------------------------------------------ guard: prefix.truncate(indent) in Tree::lines *)
(** [indent] is a place where the prefix can be cut *)
Definition boundary (p : bytes) (i : nat) : Prop := (i <= length p)%nat /\ is_char_boundary p i = true.

Lemma truncate_boundary p i : boundary p i -> truncate p i = Val (firstn i p).
Proof.
  intros [Hl Hb]. unfold truncate. replace (Nat.leb i (length p)) with true by (symmetry; apply Nat.leb_le; exact Hl).
  rewrite Hb. reflexivity.
Qed.

Lemma boundary_end p : boundary p (length p).
Proof.
  split; [lia|]. unfold is_char_boundary. destruct (length p) eqn:E; [reflexivity|].
  rewrite <- E. replace (nth_error p (length p)) with (@None N) by (symmetry; apply nth_error_None; lia).
  apply Nat.eqb_refl.
Qed.

(** cutting at [i] and pushing a text that starts a character keeps every earlier cutting place *)
Lemma boundary_keep p i j b seg :
  boundary p j -> (j <= i)%nat -> (i <= length p)%nat -> cont b = false ->
  boundary (firstn i p ++ b :: seg) j.
Proof.
  intros [Hjl Hjb] Hji Hil Hb.
  assert (Hfl : length (firstn i p) = i) by (rewrite firstn_length; lia).
  split; [rewrite app_length, Hfl; cbn [length]; lia|].
  unfold is_char_boundary in *. destruct j as [|j']; [reflexivity|].
  destruct (Nat.eq_dec (S j') i) as [E|NE].
  - rewrite nth_error_app2 by lia. rewrite Hfl, E, Nat.sub_diag. cbn [nth_error]. rewrite Hb. reflexivity.
  - rewrite nth_error_app1 by lia.
    assert (Hn : nth_error (firstn i p) (S j') = nth_error p (S j')).
    { rewrite <- (firstn_skipn i p) at 2. rewrite nth_error_app1 by lia. reflexivity. }
    rewrite Hn.
    destruct (nth_error p (S j')) as [x|] eqn:Ex; [exact Hjb|].
    apply nth_error_None in Ex. lia.
Qed.

Lemma firstn_keep (p : bytes) i j seg : (j <= i)%nat -> (i <= length p)%nat -> firstn j (firstn i p ++ seg) = firstn j p.
Proof.
  intros Hji Hil. rewrite firstn_app. rewrite firstn_length.
  replace (j - Nat.min i (length p))%nat with O by lia. cbn [firstn]. rewrite app_nil_r.
  rewrite firstn_firstn. replace (Nat.min j i) with j by lia. reflexivity.
Qed.

(** the stack of [Tree::lines]: every indent is a cutting place of the prefix, and no frame
    has a larger indent than the frame above it *)
Fixpoint stack_ok (p : bytes) (top : nat) (stack : list frame) : Prop :=
  match stack with
  | [] => True
  | (_, i) :: below => boundary p i /\ (i <= top)%nat /\ stack_ok p i below
  end.

Lemma stack_ok_keep p i b seg : (i <= length p)%nat -> cont b = false ->
  forall stack top, (top <= i)%nat -> stack_ok p top stack -> stack_ok (firstn i p ++ b :: seg) top stack.
Proof.
  intros Hil Hb. induction stack as [|[cs j] below IH]; intros top Ht H; [exact I|].
  cbn [stack_ok] in *. destruct H as [Hbj [Hjt Hbelow]].
  split; [apply boundary_keep; [exact Hbj|lia|exact Hil|exact Hb]|].
  split; [exact Hjt|]. apply IH; [lia|exact Hbelow].
Qed.

Lemma stack_ok_weaken p stack : forall top top', (top <= top')%nat -> stack_ok p top stack -> stack_ok p top' stack.
Proof. destruct stack as [|[cs j] below]; intros top top' Ht H; [exact I|]. cbn [stack_ok] in *. destruct H as [H1 [H2 H3]]. split; [exact H1|split; [lia|exact H3]]. Qed.

(* ------------------------------------------------------------------ Tree::lines: the fuel suffices, the lines are those of the recursive code *)
Fixpoint forest_size (cs : list tree) : nat :=
  match cs with [] => O | c :: r => (tree_size c + forest_size r)%nat end.

Lemma tree_size_children t : tree_size t = S (forest_size (t_children t)).
Proof.
  destruct t as [n cs]. reflexivity.
Qed.

Lemma forest_size_app a b : forest_size (a ++ b) = (forest_size a + forest_size b)%nat.
Proof. induction a as [|c r IH]; cbn [app forest_size]; [reflexivity|]. rewrite IH. lia. Qed.

(** rounds the loop still needs *)
Fixpoint rounds (stack : list frame) : nat :=
  match stack with
  | [] => O
  | (cs, _) :: below => (S (2 * forest_size cs) + rounds below)%nat
  end.

(** the lines the recursive code drew for what is still on the stack *)
Fixpoint pending (p : bytes) (stack : list frame) : list bytes :=
  match stack with
  | [] => []
  | (cs, i) :: below => spec_children (fun l c => lines_spec_node (firstn i p) l c) cs ++ pending p below
  end.

Lemma pending_keep p i seg : (i <= length p)%nat ->
  forall stack top, (top <= i)%nat -> stack_ok p top stack -> pending (firstn i p ++ seg) stack = pending p stack.
Proof.
  intros Hil. induction stack as [|[cs j] below IH]; intros top Ht H; [reflexivity|].
  cbn [stack_ok pending] in *. destruct H as [_ [Hjt Hbelow]].
  rewrite firstn_keep by lia. f_equal. apply (IH j); [lia|exact Hbelow].
Qed.

Lemma seg_starts (last : bool) :
  (exists b s, (if last then seg_corner else seg_tee) = b :: s /\ cont b = false) /\
  (exists b s, (if last then seg_blank else seg_bar) = b :: s /\ cont b = false).
Proof. destruct last; split; eexists; eexists; split; reflexivity. Qed.

Lemma lines_loop_spec fuel : forall p stack out,
  stack_ok p (length p) stack -> (rounds stack < fuel)%nat ->
  lines_loop fuel p stack out = Val (rev out ++ pending p stack).
Proof.
  induction fuel as [|f IH]; intros p stack out Hok Hfuel; [lia|].
  destruct stack as [|[children i] below]; cbn [lines_loop].
  - cbn [pending]. rewrite app_nil_r. reflexivity.
  - cbn [stack_ok] in Hok. destruct Hok as [Hb [Hil Hbelow]].
    destruct children as [|child more].
    + cbn [pending spec_children app]. apply IH.
      * eapply stack_ok_weaken; [|exact Hbelow]. exact Hil.
      * cbn [rounds forest_size] in Hfuel. lia.
    + rewrite (truncate_boundary _ _ Hb). cbn [bind].
      destruct (seg_starts (is_nil more)) as [[b1 [s1 [E1 C1]]] [b2 [s2 [E2 C2]]]].
      set (a := firstn i p) in *.
      assert (Hal : length a = i) by (subst a; rewrite firstn_length; lia).
      assert (Hb2 : boundary (a ++ (if is_nil more then seg_corner else seg_tee)) i).
      { rewrite E1. subst a. apply boundary_keep; [exact Hb|lia|lia|exact C1]. }
      rewrite (truncate_boundary _ _ Hb2). cbn [bind].
      assert (Ha2 : firstn i (a ++ (if is_nil more then seg_corner else seg_tee)) = a).
      { subst a. rewrite firstn_keep by lia. reflexivity. }
      rewrite Ha2.
      rewrite IH.
      * cbn [rev pending spec_children]. rewrite firstn_all.
        assert (Hk : firstn i (a ++ (if is_nil more then seg_blank else seg_bar)) = a).
        { subst a. rewrite firstn_keep by lia. reflexivity. }
        rewrite Hk.
        assert (Hp : pending (a ++ (if is_nil more then seg_blank else seg_bar)) below = pending p below).
        { subst a. apply (pending_keep p i _ Hil below i); [lia|exact Hbelow]. }
        rewrite Hp.
        destruct child as [name cs]. cbn [lines_spec_node t_name t_children].
        rewrite <- ?app_assoc. cbn [app]. rewrite <- ?app_assoc. reflexivity.
      * cbn [stack_ok]. split; [apply boundary_end|]. split; [lia|].
        rewrite E2. subst a.
        split; [apply boundary_keep; [exact Hb|lia|lia|exact C2]|].
        split; [rewrite app_length, firstn_length; lia|].
        apply stack_ok_keep; [lia|exact C2|lia|exact Hbelow].
      * cbn [rounds forest_size] in *. rewrite (tree_size_children child) in Hfuel. lia.
Qed.

(** [Tree::lines] never panics, its fuel suffices, and it hands the writer the lines of the recursive code *)
Theorem tree_lines_spec t : tree_lines t = Val (lines_spec t).
Proof.
  unfold tree_lines, lines_spec. rewrite lines_loop_spec.
  - cbn [rev app pending firstn]. rewrite app_nil_r. reflexivity.
  - cbn [stack_ok length]. split; [split; [lia|reflexivity]|]. split; [lia|exact I].
  - cbn [rounds]. rewrite (tree_size_children t). lia.
Qed.

Lemma tree_lines_guard t : tree_lines t <> Abort.
Proof. rewrite tree_lines_spec. discriminate. Qed.

(* ------------------------------------------------------------------ Drop for Tree: the fuel suffices *)
Lemma drop_loop_spec fuel : forall stack, (forest_size stack <= fuel)%nat -> drop_loop (S fuel) stack = Val tt.
Proof.
  induction fuel as [|f IH]; intros stack H.
  - destruct stack as [|t r]; [reflexivity|]. cbn [forest_size] in H. rewrite tree_size_children in H. lia.
  - destruct stack as [|t r]; [reflexivity|].
    change (drop_loop (S (S f)) (t :: r)) with (drop_loop (S f) (t_children t ++ r)).
    apply IH. rewrite forest_size_app. cbn [forest_size] in H. rewrite tree_size_children in H. lia.
Qed.

Theorem tree_drop_spec t : tree_drop t = Val tt.
Proof. unfold tree_drop. rewrite tree_size_children. apply drop_loop_spec. lia. Qed.

(* ------------------------------------------------------------------ the Directory arm *)
Theorem directory_rows_no_abort root files : directory_rows root files <> Abort.
Proof.
  unfold directory_rows.
  destruct (tree_insert_all_val (sort_paths files) (Node root [])) as [t Ht]. rewrite Ht. cbn [bind].
  rewrite tree_lines_spec. cbn [bind]. rewrite tree_drop_spec. cbn [bind]. discriminate.
Qed.

(** the guards are load-bearing: an indent inside a character makes [truncate] panic *)
Lemma truncate_unguarded_panics : truncate seg_bar 1 = Abort.
Proof. vm_compute. reflexivity. Qed.

(* ------------------------------------------------------------------ guard: name_width - width(name) *)
Lemma name_width_ge ws w : In w ws -> w <= name_width ws.
Proof.
  induction ws as [|x r IH]; intros H; [contradiction|].
  cbn [name_width fold_right] in *. destruct H as [->|H]; [lia|].
  specialize (IH H). unfold name_width in IH. lia.
Qed.

Lemma pad_rows_guard ws : pad_rows ws <> Abort.
Proof.
  unfold pad_rows. apply for_each_no_abort. apply Forall_forall. intros w Hw.
  pose proof (name_width_ge ws w Hw) as Hle.
  unfold sub_usize. replace (w <=? name_width ws) with true by lia. cbn. discriminate.
Qed.

(* ------------------------------------------------------------------ guard: hex of 40 digits is 20 bytes *)
Lemma hex_decode_len n : forall s b, (length s <= n)%nat -> hex_decode s = Some b -> length s = (2 * length b)%nat.
Proof.
  induction n as [|n IH]; intros s b Hn H.
  - destruct s; [cbn in H; injection H as <-; reflexivity|cbn in Hn; lia].
  - destruct s as [|x [|y r]]; cbn in H; [injection H as <-; reflexivity|discriminate|].
    destruct (is_hex x && is_hex y); [|discriminate].
    destruct (hex_decode r) as [b'|] eqn:E; [|discriminate].
    cbn in H. injection H as <-. cbn [length] in *.
    rewrite (IH r b'); [lia|lia|exact E].
Qed.

Lemma magnet_topic_guard s : magnet_topic s <> Abort.
Proof.
  unfold magnet_topic. destruct (Nat.eqb (length s) 40) eqn:E; cbn [negb]; [|discriminate].
  apply Nat.eqb_eq in E.
  destruct (hex_decode s) as [b|] eqn:H; cbn; [|discriminate].
  pose proof (hex_decode_len (length s) s b (le_n _) H) as L.
  unfold try_into_20. replace (Nat.eqb (length b) 20) with true; [cbn; discriminate|].
  symmetry. apply Nat.eqb_eq. lia.
Qed.

(* ------------------------------------------------------------------ loading never panics *)
Section Ext.
Variable url_ok : bytes -> bool.
Variable node_ok : bytes -> bool.
Variable stack_budget : N.
Variable verdict : metainfo -> bool.
Variable in_chrono_range : N -> bool.

Lemma de_info_no_abort v : de_info url_ok v <> Abort.
Proof using.
  destruct v as [z|s|l|d]; cbn [de_info]; try discriminate.
  repeat step.
  destruct (lookup k_pieces d); [apply pieces_guard|discriminate].
Qed.

Lemma de_metainfo_raw_no_abort v : de_metainfo_raw url_ok node_ok v <> Abort.
Proof using.
  unfold de_metainfo_raw. step; [step|].
  destruct v as [z|s|l|d]; try discriminate.
  repeat step.
  destruct (lookup k_info d); [apply de_info_no_abort|discriminate].
Qed.

Lemma de_metainfo_no_abort v : de_metainfo url_ok node_ok v <> Abort.
Proof using. unfold de_metainfo. step; [apply de_metainfo_raw_no_abort|]. repeat step. Qed.

Lemma de_metainfo_fits v m : de_metainfo url_ok node_ok v = Val m -> content_size_fits (i_mode (m_info m)) = true.
Proof using.
  unfold de_metainfo. destruct (de_metainfo_raw url_ok node_ok v) as [m'| |]; cbn; try discriminate.
  destruct (content_size_fits (i_mode (m_info m'))) eqn:E; cbn; [|discriminate].
  intros H. injection H as <-. exact E.
Qed.

Lemma parse_no_abort data : parse data <> Abort.
Proof using. unfold parse. destruct (wdecode (fuel_for data) data) as [[v r]|]; discriminate. Qed.

Lemma load_no_abort data : load url_ok node_ok data <> Abort.
Proof using.
  unfold load. step; [apply parse_no_abort|]. step; [apply de_metainfo_no_abort|]. discriminate.
Qed.

Lemma load_fits data v m : load url_ok node_ok data = Val (v, m) -> content_size_fits (i_mode (m_info m)) = true.
Proof using.
  unfold load. destruct (parse data) as [v'| |]; cbn; try discriminate.
  destruct (de_metainfo url_ok node_ok v') as [m'| |] eqn:E; cbn; try discriminate.
  intros H. injection H as _ <-. eapply de_metainfo_fits; exact E.
Qed.

(* ------------------------------------------------------------------ guard: recursion depth of the Value decoder (repair 0007) *)
Hypothesis stack_holds_max_depth : max_depth <= stack_budget.
Hypothesis magnet_scheme_is_a_url : url_ok k_magnet = true.

(* keep section variables that a proof does not mention out of the reach of lia *)
Ltac tidy := try clear magnet_scheme_is_a_url; try clear in_chrono_range; try clear verdict; try clear node_ok; try clear url_ok.
Ltac tidy_all := tidy; try clear stack_holds_max_depth; try clear stack_budget.

Lemma decode_value_no_abort v : decode_value stack_budget v <> Abort.
Proof using stack_holds_max_depth. tidy.
  unfold decode_value. step; [step|]. step; [|discriminate].
  match goal with H : check _ = Val _ |- _ => apply check_val in H; rename H into Hc end.
  apply andb_true_iff in Hc. destruct Hc as [Hd _]. apply N.leb_le in Hd.
  unfold stack_guard. replace (depth v <=? stack_budget) with true by lia. discriminate.
Qed.

Lemma decode_value_depth v v' : decode_value stack_budget v = Val v' -> depth v' <= max_depth.
Proof using. tidy_all.
  unfold decode_value. destruct (depth v <=? max_depth) eqn:Hd; cbn; [|discriminate].
  destruct (all_i64 v); cbn; [|discriminate].
  destruct (stack_guard stack_budget (depth v)); cbn; try discriminate.
  intros H. injection H as <-. apply N.leb_le. exact Hd.
Qed.

(** without the depth limit the decoder does exhaust a finite stack *)
Lemma stack_guard_needed : exists d, stack_guard stack_budget d = Abort.
Proof using. tidy. clear stack_holds_max_depth. exists (stack_budget + 1). unfold stack_guard. replace (stack_budget + 1 <=? stack_budget) with false by lia. reflexivity. Qed.

Lemma infohash_no_abort v : infohash_of stack_budget v <> Abort.
Proof using stack_holds_max_depth. tidy.
  unfold infohash_of. step; [apply decode_value_no_abort|].
  destruct a as [z|s|l|d]; try discriminate.
  destruct (lookup k_info d) as [[z|s|l|d']|]; discriminate.
Qed.

(* ------------------------------------------------------------------ the summary *)
Definition vec_ok (m : metainfo) : Prop :=
  match m_announce_list m with Some t => N.of_nat (length t) < 2 ^ 64 | None => True end.

Lemma summary_no_abort term m ws :
  content_size_fits (i_mode (m_info m)) = true -> vec_ok m ->
  summary in_chrono_range term m ws <> Abort.
Proof using. tidy_all.
  intros Hfits Hvec. unfold summary.
  step; [destruct (m_creation_date m); [apply date_guard|discriminate]|].
  step; [apply content_size_guard; exact Hfits|].
  step; [unfold vec_ok in Hvec; destruct (m_announce_list m); [apply tiers_guard; lia|discriminate]|].
  destruct term; [|discriminate].
  step; [apply pad_rows_guard|].
  step; [apply display_guard, as_u64_lt|].
  step; [apply display_guard, as_u64_lt|].
  destruct (i_mode (m_info m)) as [n md|fs]; [discriminate|].
  step; [apply directory_rows_no_abort|discriminate].
Qed.

(* ------------------------------------------------------------------ commands *)
(** Vec lengths fit usize (a guarantee of the language: allocations are at most isize::MAX bytes) *)
Definition alloc_ok (data : bytes) : Prop :=
  forall v m, load url_ok node_ok data = Val (v, m) -> vec_ok m.

Theorem show_no_panic term ws data :
  alloc_ok data ->
  finish (show_model url_ok node_ok stack_budget in_chrono_range term ws data) <> Panic101.
Proof using stack_holds_max_depth.
  intros Ha.
  assert (H : show_model url_ok node_ok stack_budget in_chrono_range term ws data <> Abort).
  { unfold show_model. step; [apply load_no_abort|].
    step; [apply infohash_no_abort|].
    destruct a as [v m]. cbn [fst snd].
    apply summary_no_abort; [eapply load_fits; eassumption|eapply Ha; eassumption]. }
  destruct (show_model _ _ _ _ _ _ _); cbn; congruence.
Qed.

Theorem link_no_panic data : finish (link_model url_ok node_ok stack_budget data) <> Panic101.
Proof using stack_holds_max_depth magnet_scheme_is_a_url.
  assert (H : link_model url_ok node_ok stack_budget data <> Abort).
  { unfold link_model. step; [apply parse_no_abort|].
    step; [apply infohash_no_abort|].
    step; [apply de_metainfo_no_abort|].
    step; [step|].
    rewrite magnet_scheme_is_a_url. cbn. discriminate. }
  destruct (link_model _ _ _ _); cbn; congruence.
Qed.

Theorem verify_no_panic data : finish (verify_model url_ok node_ok verdict data) <> Panic101.
Proof using. tidy_all.
  assert (H : verify_model url_ok node_ok verdict data <> Abort).
  { unfold verify_model. step; [apply load_no_abort|]. repeat step. }
  destruct (verify_model _ _ _ _); cbn; congruence.
Qed.

Theorem dump_no_panic data : finish (dump_model stack_budget data) <> Panic101.
Proof using stack_holds_max_depth. tidy.
  assert (H : dump_model stack_budget data <> Abort).
  { unfold dump_model. step; [apply parse_no_abort|].
    step; [apply decode_value_no_abort|].
    step; [|discriminate].
    match goal with H : decode_value _ _ = Val _ |- _ => apply decode_value_depth in H; rename H into Hd end.
    unfold stack_guard. replace (depth a0 <=? stack_budget) with true by lia. discriminate. }
  destruct (dump_model _ _); cbn; congruence.
Qed.

Lemma stats_files_no_abort files : forall t e,
  e <= t -> t + N.of_nat (length files) < 2 ^ 64 -> stats_files stack_budget t e files <> Abort.
Proof using stack_holds_max_depth. tidy.
  induction files as [|data r IH]; intros t e Hle Hlen; cbn [stats_files]; [discriminate|].
  cbn [length] in Hlen.
  step; [unfold rem_u64; cbn; discriminate|].
  assert (Hadd : add_u64 t 1 = Val (t + 1)).
  { unfold add_u64. replace (t + 1 <? 2 ^ 64) with true by lia. reflexivity. }
  rewrite Hadd. cbn [bind].
  assert (Herr : forall k' : N -> result unit, (forall e', e' <= t + 1 -> k' e' <> Abort) -> bind (add_u64 e 1) k' <> Abort).
  { intros k' Hk. unfold add_u64. replace (e + 1 <? 2 ^ 64) with true by lia. cbn. apply Hk. lia. }
  destruct (wdecode (fuel_for data) data) as [[v rest]|].
  - destruct ((depth v <=? max_depth) && all_i64 v) eqn:E.
    + step.
      * apply andb_true_iff in E. destruct E as [Hd _]. apply N.leb_le in Hd.
        unfold stack_guard. replace (depth v <=? stack_budget) with true by lia. discriminate.
      * apply IH; lia.
    + apply Herr. intros e' He'. apply IH; lia.
  - apply Herr. intros e' He'. apply IH; lia.
Qed.

Theorem stats_no_panic files :
  N.of_nat (length files) < 2 ^ 64 -> finish (stats_model stack_budget files) <> Panic101.
Proof using stack_holds_max_depth. tidy.
  intros Hn.
  assert (H : stats_model stack_budget files <> Abort) by (apply stats_files_no_abort; lia).
  destruct (stats_model _ _); cbn; congruence.
Qed.

Theorem args_no_panic accepts args value : finish (arg_model accepts args value) <> Panic101.
Proof using. tidy_all.
  assert (H : arg_model accepts args value <> Abort).
  { unfold arg_model, argv_stage. repeat step. }
  destruct (arg_model _ _ _); cbn; congruence.
Qed.

Theorem magnet_topic_no_panic s : finish (magnet_topic s) <> Panic101.
Proof using. tidy_all. pose proof (magnet_topic_guard s). destruct (magnet_topic s); cbn; congruence. Qed.

End Ext.

(* ------------------------------------------------------------------ the hypotheses are satisfiable, the entry point of the runner is covered *)
Definition witness : bytes :=
  bytes_of_string "d13:announce-listll3:a:bee4:infod6:lengthi5e4:name1:n12:piece lengthi1e6:pieces0:ee".

Lemma witness_loads : exists v m, load (fun _ => true) (fun _ => true) witness = Val (v, m) /\
  m_announce_list m = Some [[bytes_of_string "a:b"]].
Proof. vm_compute. eexists. eexists. split; reflexivity. Qed.

Lemma alloc_ok_witness : alloc_ok (fun _ => true) (fun _ => true) witness.
Proof.
  intros v m H. destruct witness_loads as [v' [m' [H' Hal]]].
  rewrite H' in H. injection H as _ <-. unfold vec_ok. rewrite Hal. vm_compute. reflexivity.
Qed.

Lemma witness_shows :
  finish (show_model (fun _ => true) (fun _ => true) max_depth (fun _ => true) true [4; 7] witness) = Ok0.
Proof. vm_compute. reflexivity. Qed.

(** a multi-file torrent (the layout of table::tests::directory plus a repeated path and a file that is
    also a directory) is shown normally, and the model draws the tree the terminal layout prints *)
Definition tree_witness : bytes :=
  bytes_of_string "d4:infod5:filesld6:lengthi1e4:pathl1:deed6:lengthi1e4:pathl1:a1:ceed6:lengthi1e4:pathl1:a1:beed6:lengthi1e4:pathl1:aeed6:lengthi1e4:pathl1:a1:beee4:name3:Foo12:piece lengthi1e6:pieces0:ee".

(** "Foo", then a with b and c under it, then d, with the connectors of table::tests::directory *)
Definition tree_witness_rows : list bytes :=
  map bytes_of_string ["Foo"; "├─a"; "│ ├─b"; "│ └─c"; "└─d"]%string.

Lemma tree_witness_shows :
  finish (show_model (fun _ => true) (fun _ => true) max_depth (fun _ => true) true [4; 7] tree_witness) = Ok0 /\
  tree_rows (fun _ => true) (fun _ => true) tree_witness =
    Some tree_witness_rows.
Proof. split; vm_compute; reflexivity. Qed.
