(** C08 - guard lemmas (one per partial operation of Model/Crash.v) and the no-panic theorems. *)
From Coq Require Import Decimal DecimalN DecimalFacts.
From Coq Require Import NArith ZArith Bool Ascii String List Lia ZifyN ZifyBool.
From Imdl Require Import Model.Bencode Model.Float53 Model.Crash Proofs.Float53Proofs.
Import ListNotations.
Local Open Scope N_scope.

Definition bytes_of_string (s : string) : bytes := map N_of_ascii (list_ascii_of_string s).

(** the keys of Model/Crash.v are spelled as the serde attributes spell them *)
Lemma keys_spelled :
  k_announce = bytes_of_string "announce" /\
  k_announce_list = bytes_of_string "announce-list" /\
  k_comment = bytes_of_string "comment" /\
  k_created_by = bytes_of_string "created by" /\
  k_creation_date = bytes_of_string "creation date" /\
  k_encoding = bytes_of_string "encoding" /\
  k_files = bytes_of_string "files" /\
  k_info = bytes_of_string "info" /\
  k_length = bytes_of_string "length" /\
  k_magnet = bytes_of_string "magnet:" /\
  k_md5sum = bytes_of_string "md5sum" /\
  k_name = bytes_of_string "name" /\
  k_nodes = bytes_of_string "nodes" /\
  k_path = bytes_of_string "path" /\
  k_piece_length = bytes_of_string "piece length" /\
  k_pieces = bytes_of_string "pieces" /\
  k_private = bytes_of_string "private" /\
  k_source = bytes_of_string "source" /\
  k_update_url = bytes_of_string "update-url".
Proof. repeat split; reflexivity. Qed.

(* ------------------------------------------------------------------ plumbing *)
Lemma bind_no_abort {A B} (r : result A) (f : A -> result B) :
  r <> Abort -> (forall a, r = Val a -> f a <> Abort) -> bind r f <> Abort.
Proof. intros Hr Hf. destruct r as [a| |]; cbn; [apply Hf; reflexivity|discriminate|contradiction]. Qed.

Lemma try_no_abort {A} (o : option A) : try_ o <> Abort.
Proof. destruct o; discriminate. Qed.

Lemma check_no_abort b : check b <> Abort.
Proof. destruct b; discriminate. Qed.

Lemma check_val b u : check b = Val u -> b = true.
Proof. destruct b; [reflexivity|discriminate]. Qed.

Lemma for_each_no_abort {A} (f : A -> result unit) l :
  Forall (fun x => f x <> Abort) l -> for_each f l <> Abort.
Proof.
  induction 1 as [|x r Hx _ IH]; cbn; [discriminate|].
  apply bind_no_abort; [exact Hx|intros _ _; exact IH].
Qed.

Lemma mapM_no_abort {A B} (f : A -> result B) l :
  Forall (fun x => f x <> Abort) l -> mapM f l <> Abort.
Proof.
  induction 1 as [|x r Hx _ IH]; cbn; [discriminate|].
  apply bind_no_abort; [exact Hx|intros y _].
  apply bind_no_abort; [exact IH|intros ys _; discriminate].
Qed.

Ltac step := first [ apply try_no_abort | apply check_no_abort | discriminate
                   | (apply bind_no_abort; [|intros ? ?]) ].

(* ------------------------------------------------------------------ guard: PieceList chunks are 20 bytes *)
Lemma chunks_exact_len fuel l : Forall (fun c => length c = 20%nat) (chunks_exact fuel l).
Proof.
  revert l; induction fuel as [|f IH]; intros l; cbn [chunks_exact]; [constructor|].
  destruct (Nat.ltb (length l) 20) eqn:E; [constructor|].
  apply Nat.ltb_ge in E. constructor; [|apply IH].
  rewrite firstn_length. lia.
Qed.

Lemma pieces_guard v : de_pieces v <> Abort.
Proof.
  destruct v as [z|s|l|d]; cbn [de_pieces]; try discriminate.
  match goal with |- (if ?c then _ else _) <> _ => destruct c end; [|discriminate].
  apply mapM_no_abort.
  eapply Forall_impl; [|apply chunks_exact_len].
  intros c Hc. unfold try_into_20. rewrite Hc. cbn. discriminate.
Qed.

(* ------------------------------------------------------------------ guard: the content size sum cannot overflow once content_size_fits *)
Lemma checked_sum_guard ls : forall acc s, checked_sum acc ls = Some s -> sum_u64 acc ls = Val s.
Proof.
  induction ls as [|x r IH]; intros acc s H; cbn [checked_sum sum_u64] in *; [congruence|].
  unfold add_u64. destruct (acc + x <? 2 ^ 64) eqn:E; [|discriminate].
  cbn [bind]. apply IH. exact H.
Qed.

Lemma content_size_guard m : content_size_fits m = true -> content_size m <> Abort.
Proof.
  destruct m as [n md|fs]; cbn [content_size_fits content_size]; [discriminate|].
  destruct (checked_sum 0 (map f_length fs)) as [s|] eqn:E; [|discriminate].
  intros _. rewrite (checked_sum_guard _ _ _ E). discriminate.
Qed.

(** the guard is needed: without it the sum does panic *)
Lemma content_size_unguarded_panics :
  exists fs, content_size (Multiple fs) = Abort.
Proof.
  exists [ {| f_length := 2 ^ 63; f_path := []; f_md5 := None |};
           {| f_length := 2 ^ 63; f_path := []; f_md5 := None |} ].
  vm_compute. reflexivity.
Qed.

(* ------------------------------------------------------------------ guard: DISPLAY_SUFFIXES[i - 1] *)
Lemma as_u64_lt x : as_u64 x < 2 ^ 64.
Proof. unfold as_u64. apply N.mod_lt. discriminate. Qed.

Lemma suffix_index_le n : n < 2 ^ 64 -> suffix_index n <= 6.
Proof.
  intros H. unfold suffix_index.
  assert (Hr : round53 n <= 2 ^ 64) by (apply round53_le_pow; lia).
  assert (Hl : N.log2 (round53 n) <= 64).
  { replace 64 with (N.log2 (2 ^ 64)) by (rewrite N.log2_pow2; lia). apply N.log2_le_mono. exact Hr. }
  transitivity (64 / 10); [apply N.div_le_mono; lia|]. vm_compute. discriminate.
Qed.

Lemma display_guard n : n < 2 ^ 64 -> bytes_display n <> Abort.
Proof.
  intros H. unfold bytes_display. pose proof (suffix_index_le n H) as Hi.
  destruct (suffix_index n =? 0) eqn:E; [discriminate|].
  apply N.eqb_neq in E.
  assert (Hc : suffix_index n = 1 \/ suffix_index n = 2 \/ suffix_index n = 3 \/
               suffix_index n = 4 \/ suffix_index n = 5 \/ suffix_index n = 6) by lia.
  destruct Hc as [-> |[-> |[-> |[-> |[-> | ->]]]]]; vm_compute; discriminate.
Qed.

(** the range of the type is needed: a 2^70 would index past the table *)
Lemma display_unguarded_panics : bytes_display (2 ^ 70) = Abort.
Proof. vm_compute. reflexivity. Qed.

(* ------------------------------------------------------------------ guard: date row (repair 0003) *)
Lemma date_guard r d : date_row r d <> Abort.
Proof. unfold date_row. destruct (d <? 2 ^ 63); [destruct (r d)|]; discriminate. Qed.

(* ------------------------------------------------------------------ guard: enumerate index + 1 *)
Lemma tiers_guard tiers : forall i, i + N.of_nat (length tiers) < 2 ^ 64 -> tiers_rows i tiers <> Abort.
Proof.
  induction tiers as [|t r IH]; intros i H; cbn [tiers_rows]; [discriminate|].
  cbn [length] in H.
  apply bind_no_abort.
  - unfold add_usize. destruct (i + 1 <? 2 ^ 64) eqn:E; [discriminate|]. lia.
  - intros _ _. apply IH. lia.
Qed.

(* ------------------------------------------------------------------ guard: Tree::insert *)
Lemma tree_insert_fuel fuel : forall file, (length file < fuel)%nat -> tree_insert fuel file = Val tt.
Proof.
  induction fuel as [|f IH]; intros file H; [lia|].
  destruct file as [|x r]; [reflexivity|].
  cbn [tree_insert]. unfold index, slice_from. cbn [N.to_nat nth_error unwrap bind length].
  replace (1 <=? N.of_nat (S (length r))) with true by lia.
  cbn [bind]. apply IH. change (skipn (Pos.to_nat 1) (x :: r)) with r. cbn [length] in H. lia.
Qed.

Lemma tree_insert_guard file : tree_insert (S (length file)) file <> Abort.
Proof. rewrite tree_insert_fuel; [discriminate|lia]. Qed.

(* ------------------------------------------------------------------ guard: children.len() - 1 inside the loop over children *)
Lemma lines_children_guard r : forall total, 1 <= total -> lines_children total r <> Abort.
Proof.
  induction r as [|r IH]; intros total H; cbn [lines_children]; [discriminate|].
  apply bind_no_abort.
  - unfold sub_usize. replace (1 <=? total) with true by lia. discriminate.
  - intros _ _. apply IH. exact H.
Qed.

Lemma lines_guard n : lines_node n <> Abort.
Proof.
  unfold lines_node. destruct n as [|n]; [cbn; discriminate|].
  apply lines_children_guard. lia.
Qed.

(* ------------------------------------------------------------------ guard: last[..last.len() - 1], last[last.len() - 1] *)
Lemma line_prefix_guard last : line_prefix last <> Abort.
Proof.
  destruct last as [|b r]; [cbn; discriminate|].
  unfold line_prefix. set (l := b :: r).
  assert (Hl : (0 < length l)%nat) by (subst l; cbn; lia).
  unfold sub_usize. replace (1 <=? N.of_nat (length l)) with true by lia. cbn [bind].
  unfold slice_to. replace (N.of_nat (length l) - 1 <=? N.of_nat (length l)) with true by lia. cbn [bind].
  unfold index.
  destruct (nth_error l (N.to_nat (N.of_nat (length l) - 1))) eqn:E; [cbn; discriminate|].
  apply nth_error_None in E. lia.
Qed.

(* ------------------------------------------------------------------ guard: name_width - width(name) *)
Lemma name_width_ge ws w : In w ws -> w <= name_width ws.
Proof.
  induction ws as [|x r IH]; intros H; [contradiction|].
  cbn [name_width fold_right] in *. destruct H as [->|H]; [lia|].
  specialize (IH H). unfold name_width in IH. lia.
Qed.

Lemma pad_rows_guard ws : pad_rows ws <> Abort.
Proof.
  unfold pad_rows. apply for_each_no_abort. apply Forall_forall. intros w Hw.
  pose proof (name_width_ge ws w Hw) as Hle.
  unfold sub_usize. replace (w <=? name_width ws) with true by lia. cbn. discriminate.
Qed.

(* ------------------------------------------------------------------ guard: hex of 40 digits is 20 bytes *)
Lemma hex_decode_len n : forall s b, (length s <= n)%nat -> hex_decode s = Some b -> length s = (2 * length b)%nat.
Proof.
  induction n as [|n IH]; intros s b Hn H.
  - destruct s; [cbn in H; injection H as <-; reflexivity|cbn in Hn; lia].
  - destruct s as [|x [|y r]]; cbn in H; [injection H as <-; reflexivity|discriminate|].
    destruct (is_hex x && is_hex y); [|discriminate].
    destruct (hex_decode r) as [b'|] eqn:E; [|discriminate].
    cbn in H. injection H as <-. cbn [length] in *.
    rewrite (IH r b'); [lia|lia|exact E].
Qed.

Lemma magnet_topic_guard s : magnet_topic s <> Abort.
Proof.
  unfold magnet_topic. destruct (Nat.eqb (length s) 40) eqn:E; cbn [negb]; [|discriminate].
  apply Nat.eqb_eq in E.
  destruct (hex_decode s) as [b|] eqn:H; cbn; [|discriminate].
  pose proof (hex_decode_len (length s) s b (le_n _) H) as L.
  unfold try_into_20. replace (Nat.eqb (length b) 20) with true; [cbn; discriminate|].
  symmetry. apply Nat.eqb_eq. lia.
Qed.

(* ------------------------------------------------------------------ loading never panics *)
Section Ext.
Variable url_ok : bytes -> bool.
Variable node_ok : bytes -> bool.
Variable stack_budget : N.
Variable verdict : metainfo -> bool.
Variable in_chrono_range : N -> bool.
Variable tree_budget : N.

Lemma de_info_no_abort v : de_info url_ok v <> Abort.
Proof using.
  destruct v as [z|s|l|d]; cbn [de_info]; try discriminate.
  repeat step.
  destruct (lookup k_pieces d); [apply pieces_guard|discriminate].
Qed.

Lemma de_metainfo_raw_no_abort v : de_metainfo_raw url_ok node_ok v <> Abort.
Proof using.
  unfold de_metainfo_raw. step; [step|].
  destruct v as [z|s|l|d]; try discriminate.
  repeat step.
  destruct (lookup k_info d); [apply de_info_no_abort|discriminate].
Qed.

Lemma de_metainfo_no_abort v : de_metainfo url_ok node_ok v <> Abort.
Proof using. unfold de_metainfo. step; [apply de_metainfo_raw_no_abort|]. repeat step. Qed.

Lemma de_metainfo_fits v m : de_metainfo url_ok node_ok v = Val m -> content_size_fits (i_mode (m_info m)) = true.
Proof using.
  unfold de_metainfo. destruct (de_metainfo_raw url_ok node_ok v) as [m'| |]; cbn; try discriminate.
  destruct (content_size_fits (i_mode (m_info m'))) eqn:E; cbn; [|discriminate].
  intros H. injection H as <-. exact E.
Qed.

Lemma parse_no_abort data : parse data <> Abort.
Proof using. unfold parse. destruct (wdecode (fuel_for data) data) as [[v r]|]; discriminate. Qed.

Lemma load_no_abort data : load url_ok node_ok data <> Abort.
Proof using.
  unfold load. step; [apply parse_no_abort|]. step; [apply de_metainfo_no_abort|]. discriminate.
Qed.

Lemma load_fits data v m : load url_ok node_ok data = Val (v, m) -> content_size_fits (i_mode (m_info m)) = true.
Proof using.
  unfold load. destruct (parse data) as [v'| |]; cbn; try discriminate.
  destruct (de_metainfo url_ok node_ok v') as [m'| |] eqn:E; cbn; try discriminate.
  intros H. injection H as _ <-. eapply de_metainfo_fits; exact E.
Qed.

(* ------------------------------------------------------------------ guard: recursion depth of the Value decoder (repair 0007) *)
Hypothesis stack_holds_max_depth : max_depth <= stack_budget.
Hypothesis magnet_scheme_is_a_url : url_ok k_magnet = true.

(* keep section variables that a proof does not mention out of the reach of lia *)
Ltac tidy := try clear magnet_scheme_is_a_url; try clear in_chrono_range; try clear tree_budget; try clear verdict; try clear node_ok; try clear url_ok.
Ltac tidy_all := tidy; try clear stack_holds_max_depth; try clear stack_budget.

Lemma decode_value_no_abort v : decode_value stack_budget v <> Abort.
Proof using stack_holds_max_depth. tidy.
  unfold decode_value. step; [step|]. step; [|discriminate].
  match goal with H : check _ = Val _ |- _ => apply check_val in H; rename H into Hc end.
  apply andb_true_iff in Hc. destruct Hc as [Hd _]. apply N.leb_le in Hd.
  unfold stack_guard. replace (depth v <=? stack_budget) with true by lia. discriminate.
Qed.

Lemma decode_value_depth v v' : decode_value stack_budget v = Val v' -> depth v' <= max_depth.
Proof using. tidy_all.
  unfold decode_value. destruct (depth v <=? max_depth) eqn:Hd; cbn; [|discriminate].
  destruct (all_i64 v); cbn; [|discriminate].
  destruct (stack_guard stack_budget (depth v)); cbn; try discriminate.
  intros H. injection H as <-. apply N.leb_le. exact Hd.
Qed.

(** without the depth limit the decoder does exhaust a finite stack *)
Lemma stack_guard_needed : exists d, stack_guard stack_budget d = Abort.
Proof using. tidy. clear stack_holds_max_depth. exists (stack_budget + 1). unfold stack_guard. replace (stack_budget + 1 <=? stack_budget) with false by lia. reflexivity. Qed.

Lemma infohash_no_abort v : infohash_of stack_budget v <> Abort.
Proof using stack_holds_max_depth. tidy.
  unfold infohash_of. step; [apply decode_value_no_abort|].
  destruct a as [z|s|l|d]; try discriminate.
  destruct (lookup k_info d) as [[z|s|l|d']|]; discriminate.
Qed.

(* ------------------------------------------------------------------ the summary *)
Definition vec_ok (m : metainfo) : Prop :=
  match m_announce_list m with Some t => N.of_nat (length t) < 2 ^ 64 | None => True end.

Lemma summary_no_abort term m ws cs ps :
  content_size_fits (i_mode (m_info m)) = true -> vec_ok m ->
  (term = true -> shallow_tree tree_budget m = true) ->
  summary in_chrono_range tree_budget term m ws cs ps <> Abort.
Proof using. tidy_all.
  intros Hfits Hvec Hshallow. unfold summary.
  step; [destruct (m_creation_date m); [apply date_guard|discriminate]|].
  step; [apply content_size_guard; exact Hfits|].
  step; [unfold vec_ok in Hvec; destruct (m_announce_list m); [apply tiers_guard; lia|discriminate]|].
  destruct term; [|discriminate].
  specialize (Hshallow eq_refl). unfold shallow_tree in Hshallow.
  step; [apply pad_rows_guard|].
  step; [apply display_guard, as_u64_lt|].
  step; [apply display_guard, as_u64_lt|].
  destruct (i_mode (m_info m)) as [n md|fs]; [discriminate|].
  step.
  { apply for_each_no_abort, Forall_forall. intros f Hf.
    rewrite forallb_forall in Hshallow. specialize (Hshallow f Hf).
    unfold stack_guard. rewrite Hshallow. cbn [bind]. apply tree_insert_guard. }
  step; [apply for_each_no_abort, Forall_forall; intros n _; apply lines_guard|].
  apply for_each_no_abort, Forall_forall; intros p _; apply line_prefix_guard.
Qed.

(* ------------------------------------------------------------------ commands *)
(** Vec lengths fit usize (a guarantee of the language: allocations are at most isize::MAX bytes) *)
Definition alloc_ok (data : bytes) : Prop :=
  forall v m, load url_ok node_ok data = Val (v, m) -> vec_ok m.

(** the known finding (open): in terminal layout the file tree is built, walked and dropped
    by recursion over the path components, and a path with more components than the stack
    holds frames overflows it *)
Definition deep_path_on_terminal (term : bool) (data : bytes) : Prop :=
  term = true /\ exists v m, load url_ok node_ok data = Val (v, m) /\ shallow_tree tree_budget m = false.

Theorem show_no_panic term ws cs ps data :
  ~ deep_path_on_terminal term data ->
  alloc_ok data ->
  finish (show_model url_ok node_ok stack_budget in_chrono_range tree_budget term ws cs ps data) <> Panic101.
Proof using stack_holds_max_depth.
  intros Hk Ha.
  assert (H : show_model url_ok node_ok stack_budget in_chrono_range tree_budget term ws cs ps data <> Abort).
  { unfold show_model. step; [apply load_no_abort|].
    step; [apply infohash_no_abort|].
    destruct a as [v m]. cbn [fst snd].
    apply summary_no_abort; [eapply load_fits; eassumption|eapply Ha; eassumption|].
    intros Ht. destruct (shallow_tree tree_budget m) eqn:Es; [reflexivity|].
    exfalso. apply Hk. split; [exact Ht|]. exists v, m. split; [assumption|exact Es]. }
  destruct (show_model _ _ _ _ _ _ _ _ _ _); cbn; congruence.
Qed.

Theorem link_no_panic data : finish (link_model url_ok node_ok stack_budget data) <> Panic101.
Proof using stack_holds_max_depth magnet_scheme_is_a_url.
  assert (H : link_model url_ok node_ok stack_budget data <> Abort).
  { unfold link_model. step; [apply parse_no_abort|].
    step; [apply infohash_no_abort|].
    step; [apply de_metainfo_no_abort|].
    step; [step|].
    rewrite magnet_scheme_is_a_url. cbn. discriminate. }
  destruct (link_model _ _ _ _); cbn; congruence.
Qed.

Theorem verify_no_panic data : finish (verify_model url_ok node_ok verdict data) <> Panic101.
Proof using. tidy_all.
  assert (H : verify_model url_ok node_ok verdict data <> Abort).
  { unfold verify_model. step; [apply load_no_abort|]. repeat step. }
  destruct (verify_model _ _ _ _); cbn; congruence.
Qed.

Theorem dump_no_panic data : finish (dump_model stack_budget data) <> Panic101.
Proof using stack_holds_max_depth. tidy.
  assert (H : dump_model stack_budget data <> Abort).
  { unfold dump_model. step; [apply parse_no_abort|].
    step; [apply decode_value_no_abort|].
    step; [|discriminate].
    match goal with H : decode_value _ _ = Val _ |- _ => apply decode_value_depth in H; rename H into Hd end.
    unfold stack_guard. replace (depth a0 <=? stack_budget) with true by lia. discriminate. }
  destruct (dump_model _ _); cbn; congruence.
Qed.

Lemma stats_files_no_abort files : forall t e,
  e <= t -> t + N.of_nat (length files) < 2 ^ 64 -> stats_files stack_budget t e files <> Abort.
Proof using stack_holds_max_depth. tidy.
  induction files as [|data r IH]; intros t e Hle Hlen; cbn [stats_files]; [discriminate|].
  cbn [length] in Hlen.
  step; [unfold rem_u64; cbn; discriminate|].
  assert (Hadd : add_u64 t 1 = Val (t + 1)).
  { unfold add_u64. replace (t + 1 <? 2 ^ 64) with true by lia. reflexivity. }
  rewrite Hadd. cbn [bind].
  assert (Herr : forall k' : N -> result unit, (forall e', e' <= t + 1 -> k' e' <> Abort) -> bind (add_u64 e 1) k' <> Abort).
  { intros k' Hk. unfold add_u64. replace (e + 1 <? 2 ^ 64) with true by lia. cbn. apply Hk. lia. }
  destruct (wdecode (fuel_for data) data) as [[v rest]|].
  - destruct ((depth v <=? max_depth) && all_i64 v) eqn:E.
    + step.
      * apply andb_true_iff in E. destruct E as [Hd _]. apply N.leb_le in Hd.
        unfold stack_guard. replace (depth v <=? stack_budget) with true by lia. discriminate.
      * apply IH; lia.
    + apply Herr. intros e' He'. apply IH; lia.
  - apply Herr. intros e' He'. apply IH; lia.
Qed.

Theorem stats_no_panic files :
  N.of_nat (length files) < 2 ^ 64 -> finish (stats_model stack_budget files) <> Panic101.
Proof using stack_holds_max_depth. tidy.
  intros Hn.
  assert (H : stats_model stack_budget files <> Abort) by (apply stats_files_no_abort; lia).
  destruct (stats_model _ _); cbn; congruence.
Qed.

Theorem args_no_panic accepts args value : finish (arg_model accepts args value) <> Panic101.
Proof using. tidy_all.
  assert (H : arg_model accepts args value <> Abort).
  { unfold arg_model, argv_stage. repeat step. }
  destruct (arg_model _ _ _); cbn; congruence.
Qed.

Theorem magnet_topic_no_panic s : finish (magnet_topic s) <> Panic101.
Proof using. tidy_all. pose proof (magnet_topic_guard s). destruct (magnet_topic s); cbn; congruence. Qed.

End Ext.

(* ------------------------------------------------------------------ the hypotheses are satisfiable, the entry point of the runner is covered *)
Definition witness : bytes :=
  bytes_of_string "d13:announce-listll3:a:bee4:infod6:lengthi5e4:name1:n12:piece lengthi1e6:pieces0:ee".

Lemma witness_loads : exists v m, load (fun _ => true) (fun _ => true) witness = Val (v, m) /\
  m_announce_list m = Some [[bytes_of_string "a:b"]].
Proof. vm_compute. eexists. eexists. split; reflexivity. Qed.

Lemma alloc_ok_witness : alloc_ok (fun _ => true) (fun _ => true) witness.
Proof.
  intros v m H. destruct witness_loads as [v' [m' [H' Hal]]].
  rewrite H' in H. injection H as _ <-. unfold vec_ok. rewrite Hal. vm_compute. reflexivity.
Qed.

Lemma witness_shows :
  finish (show_model (fun _ => true) (fun _ => true) max_depth (fun _ => true) 20000 true [4; 7] [2%nat] [[true]; []] witness) = Ok0.
Proof. vm_compute. reflexivity. Qed.

Lemma witness_not_deep : ~ deep_path_on_terminal (fun _ => true) (fun _ => true) 20000 true witness.
Proof.
  intros [_ [v [m [H Hs]]]]. destruct witness_loads as [v' [m' [H' _]]].
  assert (E : shallow_tree 20000 m' = true).
  { revert H'. vm_compute. intros H'. injection H' as _ <-. reflexivity. }
  rewrite H' in H. injection H as _ <-. congruence.
Qed.

(** witness of the known finding: three path components on a stack that holds two tree frames *)
Definition deep_witness : bytes :=
  bytes_of_string "d4:infod5:filesld6:lengthi1e4:pathl1:x1:x1:xeee4:name1:n12:piece lengthi1e6:pieces0:ee".

Lemma deep_path_refuted :
  exists (budget : N) (data : bytes),
    deep_path_on_terminal (fun _ => true) (fun _ => true) budget true data /\
    finish (show_model (fun _ => true) (fun _ => true) max_depth (fun _ => true) budget true [] [] [] data) = Panic101 /\
    finish (show_model (fun _ => true) (fun _ => true) max_depth (fun _ => true) budget false [] [] [] data) = Ok0.
Proof.
  exists 2, deep_witness. split; [|split; vm_compute; reflexivity].
  split; [reflexivity|].
  assert (L : exists v m, load (fun _ => true) (fun _ => true) deep_witness = Val (v, m)) by (vm_compute; eexists; eexists; reflexivity).
  destruct L as [v [m L]]. exists v, m. split; [exact L|].
  revert L. vm_compute. intros L. injection L as _ <-. reflexivity.
Qed.
